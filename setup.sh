#!/bin/sh
# Build everything the checks need, offline, from files on disk.
set -e
cd "$(dirname "$0")"
export CARGO_NET_OFFLINE=true
mkdir -p work evidence
python3 tools/gen_constants.py > /dev/null
python3 tools/gen_leaf.py > /dev/null
python3 tools/gen_wire.py > /dev/null
python3 tools/gen_uplink.py > /dev/null
sh coq/gen_project.sh
# build the targets of the claimed properties (a work-in-progress file of an unclaimed
# property must not break setup)
TARGETS=$(python3 - <<'PY'
import json,glob
t=[]
for f in sorted(glob.glob('props/C*.json')):
    c=json.load(open(f))
    if c.get('claimed',True):
        t += [c['coq_target'], 'Run/%s.vo' % c['run_module']] + c.get('leaf_targets', [])
print(' '.join(t))
PY
)
timeout 3000 make -C coq -j16 -k $TARGETS
[ -f harness/Cargo.lock ] || cp /repo/Cargo.lock harness/Cargo.lock
(cd harness && timeout 3000 cargo build --offline --quiet)
echo setup done
