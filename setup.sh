#!/bin/sh
# Build everything the checks need, offline, from files on disk.
set -e
cd "$(dirname "$0")"
export CARGO_NET_OFFLINE=true
python3 tools/gen_constants.py > /dev/null
sh coq/gen_project.sh
timeout 3000 make -C coq -j16
[ -f harness/Cargo.lock ] || cp /repo/Cargo.lock harness/Cargo.lock
(cd harness && timeout 3000 cargo build --offline --quiet)
echo setup done
