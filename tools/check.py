#!/usr/bin/env python3
"""./check Cxx [--tier quick|thorough] [--replay path]

Per-property check flow (DESIGN.md §4):
  1 translate  (tools/gen_constants.py: Gen/*.v from /repo's current sources)
  2 prove      (make Props/Cxx.vo + Run/Run_Cxx.vo; Print Assumptions audit every run)
  3 harness    (cargo build against /repo's working tree, run generators on the real code)
  4 evaluate   (coqc on case shards in parallel: model-vs-impl + monitor-on-impl)
  5 verdict    (violation / search / no-failing-input-found / known finding) + evidence
"""
import argparse
import concurrent.futures
import fcntl
import glob
import hashlib
import json
import os
import re
import shutil
import subprocess
import sys
import time

ROOT = os.path.dirname(os.path.dirname(os.path.abspath(__file__)))
COQ = os.path.join(ROOT, "coq")
WORK = os.path.join(ROOT, "work")
HARNESS = os.path.join(ROOT, "harness")
REPO = os.environ.get("VERIF_REPO", "/repo")
NPROC = int(os.environ.get("VERIF_JOBS", "16"))

ENV = dict(os.environ, CARGO_NET_OFFLINE="true", CARGO_TERM_COLOR="never")

# axioms that may legitimately appear (all from the standard library / Flocq); per-property
# allow-lists in props/Cxx.json name the subset each property may use.
PRIMITIVE_PREFIXES = ("PrimInt63.", "PrimFloat.", "Uint63.", "Float64", "FloatOps.", "PrimArray.")


def log(msg):
    print("[check] " + msg, flush=True)


def sh(cmd, cwd=None, timeout=None, env=None):
    t0 = time.time()
    try:
        p = subprocess.run(cmd, cwd=cwd, timeout=timeout, env=env or ENV, stdout=subprocess.PIPE,
                           stderr=subprocess.STDOUT, text=True, errors="replace")
        return p.returncode, p.stdout, time.time() - t0
    except subprocess.TimeoutExpired as e:
        out = e.stdout if isinstance(e.stdout, str) else (e.stdout or b"").decode(errors="replace")
        return 124, (out or "") + "\n[timeout after %ss]" % timeout, time.time() - t0


class Lock:
    """advisory file lock; shared=True takes a read lock (several evaluators at once, no builder)"""

    def __init__(self, name, shared=False, enabled=True):
        os.makedirs(WORK, exist_ok=True)
        self.path = os.path.join(WORK, "." + name + ".lock")
        self.shared = shared
        self.enabled = enabled

    def __enter__(self):
        self.f = open(self.path, "a")
        if self.enabled:
            fcntl.flock(self.f, fcntl.LOCK_SH if self.shared else fcntl.LOCK_EX)
        return self

    def __exit__(self, *a):
        fcntl.flock(self.f, fcntl.LOCK_UN)
        self.f.close()


def load_cfg(prop):
    with open(os.path.join(ROOT, "props", prop + ".json")) as f:
        return json.load(f)


def load_known():
    try:
        with open(os.path.join(ROOT, "known_findings.json")) as f:
            return json.load(f)
    except OSError:
        return {"findings": [], "fixed": []}


# ---------------------------------------------------------------- translate + prove
def translate():
    with Lock("coq"):
        return translate_locked()


def translate_locked():
    rc, out, _ = sh([sys.executable, os.path.join(ROOT, "tools", "gen_constants.py")], timeout=120)
    if rc != 0:
        return None, out
    try:
        tr = json.loads(out)
    except ValueError:
        return None, out
    # leaf translator (Rust -> Gallina for small integer functions), Gen/Leaf*.v
    rc, lout, _ = sh([sys.executable, os.path.join(ROOT, "tools", "gen_leaf.py")], timeout=120)
    try:
        tr["leaf"] = json.loads(lout) if rc == 0 else {"failed": {"gen_leaf.py": lout[-300:]}, "translated": [], "meta": {}}
    except ValueError:
        tr["leaf"] = {"failed": {"gen_leaf.py": lout[-300:]}, "translated": [], "meta": {}}
    # wire translator (Rust -> Gallina for the straight-line codec functions), Gen/LeafWire.v; its summary is
    # merged into tr["leaf"] (names are prefixed wire_), so a function a property lists in leaf_functions that
    # could not be translated is reported as a broken obligation like any other leaf
    # ... and the dispatch slicer (tools/gen_uplink.py, Gen/LeafUplink.v: the type-code dispatch of the uplink
    # receive path), run after gen_wire.py because its output refers to definitions of Gen/LeafWire.v
    leaf = tr["leaf"]
    for tool in ("gen_wire.py", "gen_uplink.py"):
        rc, wout, _ = sh([sys.executable, os.path.join(ROOT, "tools", tool)], timeout=120)
        try:
            wire = json.loads(wout) if rc == 0 else None
        except ValueError:
            wire = None
        if wire is None:
            # the translator itself broke: every wire_* function any property lists counts as not translated
            wire = {"failed": {tool: wout[-300:]}, "translated": [], "meta": {}, "changed": []}
            for f in glob.glob(os.path.join(ROOT, "props", "C*.json")):
                try:
                    for n in json.load(open(f)).get("leaf_functions", []):
                        if n.startswith("wire_") and (n.startswith("wire_uplink_") == (tool == "gen_uplink.py")):
                            wire["failed"][n] = tool + " failed: " + wout[-200:]
                except (OSError, ValueError):
                    pass
        leaf.setdefault("failed", {}).update(wire.get("failed") or {})
        leaf["translated"] = sorted(set(leaf.get("translated", [])) | set(wire.get("translated", [])))
        leaf.setdefault("meta", {}).update(wire.get("meta") or {})
        leaf["changed"] = list(leaf.get("changed", [])) + list(wire.get("changed", []))
    return tr, ""


def forbidden_grep():
    """No Admitted/admit/Axiom/Parameter/... anywhere in the development."""
    bad = []
    pat = re.compile(r"\b(Admitted|admit|Axiom|Axioms|Parameter|Parameters|Conjecture|Hypothesis|Hypotheses|Variable|Variables|"
                     r"Unset\s+Guard|bypass_check|Admit\s+Obligations|type-in-type|impredicative-set|"
                     r"Unset\s+Universe\s+Checking|Unset\s+Positivity)\b")
    for f in sorted(glob.glob(os.path.join(COQ, "*", "*.v"))):
        if "/Gen/" in f:
            continue
        src = open(f).read()
        # strip comments (nested)
        out, depth, i = [], 0, 0
        while i < len(src):
            if src.startswith("(*", i):
                depth += 1
                i += 2
            elif src.startswith("*)", i) and depth:
                depth -= 1
                i += 2
            else:
                if depth == 0:
                    out.append(src[i])
                i += 1
        code = "".join(out)
        in_section = 0
        for ln, line in enumerate(code.split("\n"), 1):
            if re.match(r"\s*Section\b", line):
                in_section += 1
            if re.match(r"\s*End\b", line) and in_section:
                in_section -= 1
            for m in pat.finditer(line):
                w = m.group(1)
                if w.startswith(("Variable", "Hypothes")) and in_section:
                    continue
                bad.append("%s:%d: %s" % (os.path.relpath(f, ROOT), ln, w))
    return bad


SHARED_COQ = COQ


def private_tree(dst):
    """thorough tier: a from-scratch build in a private copy of the sources (the shared tree is never
    cleaned, so checks running at the same time keep their compiled files)"""
    global COQ
    with Lock("coq", shared=True):
        for sub in ("Gen", "Model", "Proofs", "Props", "Run"):
            os.makedirs(os.path.join(dst, sub), exist_ok=True)
            for f in glob.glob(os.path.join(SHARED_COQ, sub, "*.v")):
                shutil.copy(f, os.path.join(dst, sub, os.path.basename(f)))
        shutil.copy(os.path.join(SHARED_COQ, "gen_project.sh"), os.path.join(dst, "gen_project.sh"))
    COQ = dst


def coq_is_shared():
    return COQ == SHARED_COQ


def build_coq(cfg):
    targets = [cfg["coq_target"], "Run/%s.vo" % cfg["run_module"]]
    with Lock("coq", enabled=coq_is_shared()):
        sh(["sh", os.path.join(COQ, "gen_project.sh")], timeout=60)
        # model/run first, so that the evaluator is available even when a proof breaks
        rc_run, out_run, t_run = sh(["make", "-C", COQ, "-j%d" % NPROC, targets[1]], timeout=1500)
        rc, out, t = sh(["make", "-C", COQ, "-j%d" % NPROC, "-k", targets[0]], timeout=1800)
        leaf = {}
        for tgt in sorted(set(cfg.get("leaf_targets", []))):
            lrc, lout, lt = sh(["make", "-C", COQ, "-j%d" % NPROC, tgt], timeout=900)
            leaf[tgt] = (lrc == 0, lout)
            t += lt
    return {"run_ok": rc_run == 0, "run_out": out_run, "props_ok": rc == 0, "props_out": out, "wall": t_run + t, "leaf": leaf}


def coq_error_summary(out):
    m = re.search(r'File "([^"]+)", line (\d+), characters [\d-]+:\s*\n(Error:(?:.|\n)*?)(?:\n\n|\nmake|\Z)', out)
    if m:
        return "%s:%s: %s" % (m.group(1), m.group(2), " ".join(m.group(3).split())[:400])
    tail = [l for l in out.strip().split("\n") if l.strip()][-5:]
    return " | ".join(tail)[:600]


def audit(cfg, prop, outdir):
    """Print Assumptions of every property theorem, freshly, on every run."""
    d = outdir
    os.makedirs(d, exist_ok=True)
    mod = os.path.splitext(os.path.basename(cfg["coq_target"]))[0]
    lines = ["From Srtla Require Import %s." % mod]
    for th in cfg["theorems"]:
        lines.append('Goal True. idtac "@@BEGIN %s". exact I. Qed.' % th)
        lines.append("Print Assumptions %s." % th)
        lines.append('Goal True. idtac "@@END %s". exact I. Qed.' % th)
    path = os.path.join(d, "audit_%s.v" % prop)
    with open(path, "w") as f:
        f.write("\n".join(lines) + "\n")
    with Lock("coq", shared=True, enabled=coq_is_shared()):
        rc, out, t = sh(["coqc", "-noglob", "-Q", COQ, "Srtla", path], cwd=d, timeout=600)
    res = {}
    for th in cfg["theorems"]:
        m = re.search(r"@@BEGIN %s\n(.*?)@@END %s" % (re.escape(th), re.escape(th)), out, re.S)
        if not m:
            res[th] = {"ok": False, "axioms": None, "raw": "missing"}
            continue
        body = m.group(1).strip()
        if body.startswith("Closed under the global context"):
            res[th] = {"ok": True, "axioms": [], "raw": body}
        else:
            axioms = [a for a in re.findall(r"^([A-Za-z_][\w.']*)\s*:", body, re.M) if a != "Axioms"]
            res[th] = {"ok": True, "axioms": axioms, "raw": body}
    return rc, out, res


def axioms_allowed(cfg, audit_res):
    allowed = set(cfg.get("allowed_axioms", []))
    problems = []
    for th, r in audit_res.items():
        if not r["ok"]:
            problems.append("%s: not found / did not compile" % th)
            continue
        for ax in r["axioms"]:
            if ax in allowed or ax.startswith(PRIMITIVE_PREFIXES) or ax.split(".")[-1] in allowed:
                continue
            problems.append("%s depends on unexpected axiom %s" % (th, ax))
    return problems


# ---------------------------------------------------------------- harness + evaluation
def build_harness(release=False):
    with Lock("cargo"):
        lock_src = os.path.join(REPO, "Cargo.lock")
        lock_dst = os.path.join(HARNESS, "Cargo.lock")
        try:
            if not os.path.exists(lock_dst):
                shutil.copy(lock_src, lock_dst)
        except OSError:
            pass
        cmd = ["cargo", "build", "--offline", "--quiet"] + (["--release"] if release else [])
        rc, out, t = sh(cmd, cwd=HARNESS, timeout=1500)
    return rc, out, t


def run_harness(prop, seed, tier, outdir, extra=None, release=False, timeout=900):
    binp = os.path.join(HARNESS, "target", "release" if release else "debug", "vharness")
    cmd = [binp, prop, "--seed", str(seed), "--tier", tier, "--out", outdir]
    for k, v in (extra or {}).items():
        cmd += ["--" + k, str(v)]
    rc, out, t = sh(cmd, cwd=HARNESS, timeout=timeout)
    return rc, out, t


def eval_shard(path):
    d = os.path.dirname(path)
    rc, out, t = sh(["coqc", "-noglob", "-Q", COQ, "Srtla", os.path.basename(path)], cwd=d, timeout=1500)
    for ext in (".vo", ".vok", ".vos"):
        try:
            os.remove(path[:-2] + ext)
        except OSError:
            pass
    if rc != 0:
        return path, None, out, t
    flat = out.replace("\n", " ")
    m = re.search(r"=\s*\[(.*?)\]\s*:\s*list N", flat)
    if not m:
        if re.search(r"=\s*(\[\]|nil)\s*:\s*list N", flat):
            return path, [], out, t
        return path, None, out, t
    vals = [int(x) for x in re.findall(r"(\d+)%N", m.group(1))]
    return path, vals, out, t


def evaluate(outdir):
    with open(os.path.join(outdir, "summary.json")) as f:
        summary = json.load(f)
    shards = [os.path.join(outdir, s["file"]) for s in summary["shards"]]
    results = {}
    errors = []
    t0 = time.time()
    with Lock("coq", shared=True, enabled=coq_is_shared()), concurrent.futures.ThreadPoolExecutor(max_workers=NPROC) as ex:
        for path, vals, out, t in ex.map(eval_shard, shards):
            name = os.path.basename(path)
            meta = next(s for s in summary["shards"] if s["file"] == name)
            if vals is None or len(vals) != meta["cases"]:
                errors.append("%s: evaluation failed (%s)" % (name, coq_error_summary(out)))
                continue
            results[name] = vals
    return summary, results, errors, time.time() - t0


def case_text(outdir, shard, idx):
    with open(os.path.join(outdir, shard)) as f:
        lines = f.read().split("\n")
    line = lines[3 + idx]
    return line[:-1] if line.endswith(";") else line


def classify(results):
    """-> (mismatches, violations): lists of (shard, idx, value)."""
    mism, viol = [], []
    for shard, vals in sorted(results.items()):
        for i, v in enumerate(vals):
            if v & 2:
                viol.append((shard, i, v))
            elif v & 1:
                mism.append((shard, i, v))
    return mism, viol


# ---------------------------------------------------------------- main flow
def write_replay(prop, name, payload):
    d = os.path.join(ROOT, "replays", prop)
    os.makedirs(d, exist_ok=True)
    path = os.path.join(d, name)
    with open(path, "w") as f:
        json.dump(payload, f, indent=1)
    return path


def known_match(known, prop, detail, text):
    for k in known.get("findings", []):
        if k.get("property") != prop:
            continue
        if "detail" in k and k["detail"] != detail:
            continue
        if "pattern" in k and not re.search(k["pattern"], text):
            continue
        return k
    return None


def main():
    ap = argparse.ArgumentParser()
    ap.add_argument("prop")
    ap.add_argument("--tier", default=os.environ.get("VERIF_TIER", "quick"))
    ap.add_argument("--replay")
    ap.add_argument("--seed", type=int, default=None)
    args = ap.parse_args()
    prop = args.prop.upper()
    tier = args.tier if args.tier in ("quick", "thorough") else "quick"
    seed = args.seed if args.seed is not None else int(os.environ.get("VERIF_SEED", "1") or 1)
    replay_in = None
    if args.replay:
        with open(args.replay) as f:
            replay_in = json.load(f)
        seed = replay_in.get("seed", seed)
        tier = replay_in.get("tier", tier)
    t_start = time.time()
    cfg = load_cfg(prop)
    known = load_known()
    # one scratch directory per run: quick and thorough runs of the same property may overlap
    pdir = os.path.join(WORK, prop)
    os.makedirs(pdir, exist_ok=True)
    for old in os.listdir(pdir):
        m = re.match(r"(?:quick|thorough)-(\d+)$", old)
        stale = (m and not os.path.exists("/proc/%s" % m.group(1))) or (not m)
        if stale:
            q = os.path.join(pdir, old)
            shutil.rmtree(q, ignore_errors=True) if os.path.isdir(q) else os.remove(q)
    outdir = os.path.join(pdir, "%s-%d" % (tier, os.getpid()))
    os.makedirs(outdir, exist_ok=True)
    ev_path = os.path.join(ROOT, "evidence", prop + ".json")
    os.makedirs(os.path.dirname(ev_path), exist_ok=True)

    broken = []        # proof / translator / audit obligations that no longer check
    notes = []
    violations = []    # (replay_path, description, no_failing_input)
    known_hits = []

    # 1 translate
    tr, tr_err = translate()
    if tr is None:
        broken.append("translator failed: " + tr_err[-300:])
        tr = {"constants": 0, "failed": {}, "anchors": [], "shape": {}}
    if tr.get("failed"):
        broken.append("translator could not evaluate: " + ", ".join(sorted(tr["failed"])))
    if tr.get("lost_constants"):
        broken.append("constants no longer defined in the source (last known values used so the search can run): " +
                      ", ".join(tr["lost_constants"][:8]))
    lost = [a["name"] for a in tr.get("anchors", []) if not a["matched"]]
    if lost:
        notes.append("anchors lost (fallback values used, tie rests on correspondence): " + ", ".join(lost))

    # 2 prove
    bad_words = forbidden_grep()
    if bad_words:
        broken.append("forbidden construct in development: " + "; ".join(bad_words[:5]))
    if tier == "thorough" and os.environ.get("VERIF_NO_CLEAN") != "1":
        private_tree(os.path.join(outdir, "coq"))
    b = build_coq(cfg)
    log("coq build: run_ok=%s props_ok=%s (%.0fs)" % (b["run_ok"], b["props_ok"], b["wall"]))
    failing_theorem = None
    if not b["props_ok"]:
        failing_theorem = coq_error_summary(b["props_out"])
        broken.append("proof obligation no longer checks: " + failing_theorem)
    leaf_ok = 0
    for tgt, (ok, lout) in sorted(b.get("leaf", {}).items()):
        if ok:
            leaf_ok += 1
        else:
            broken.append("leaf equivalence (model function = function regenerated from the Rust source) no longer checks: %s: %s" %
                          (tgt, coq_error_summary(lout)))
    lf = (tr.get("leaf") or {}).get("failed") or {}
    mine = [n for n in lf if n in cfg.get("leaf_functions", [])]
    if mine:
        broken.append("leaf translator could not translate: " + "; ".join("%s (%s)" % (n, lf[n][:120]) for n in mine))
    audit_res = {}
    if b["props_ok"]:
        rc, aout, audit_res = audit(cfg, prop, outdir)
        if rc != 0:
            broken.append("assumption audit failed: " + coq_error_summary(aout))
        probs = axioms_allowed(cfg, audit_res)
        if probs:
            broken.append("assumption audit: " + "; ".join(probs[:5]))
    coqchk_note = None
    if tier == "thorough" and b["props_ok"] and os.environ.get("VERIF_NO_COQCHK") != "1":
        mod = "Srtla.Props." + os.path.splitext(os.path.basename(cfg["coq_target"]))[0]
        rc, cout, t = sh(["coqchk", "-silent", "-o", "-Q", COQ, "Srtla", mod], cwd=COQ, timeout=3000)
        coqchk_note = "coqchk rc=%d in %.0fs: %s" % (rc, t, " ".join(cout.strip().split("\n")[-12:])[:900])
        if rc != 0:
            broken.append("coqchk failed: " + coqchk_note)

    # 3 harness
    summary, results, eval_errors = {"evaluations": 0, "distinct_nontrivial": 0, "samples": [], "counters": {}, "notes": []}, {}, []
    harness_ok = True
    hrc, hout, ht = build_harness()
    log("harness build rc=%d (%.0fs)" % (hrc, ht))
    if hrc != 0:
        harness_ok = False
        broken.append("harness cannot observe (build against the working tree failed): " +
                      " ".join([l for l in hout.split("\n") if "error" in l][:3])[:500])
    eval_wall = 0.0
    if harness_ok and b["run_ok"]:
        rc, out, t = run_harness(prop, seed, tier, outdir)
        log("harness run rc=%d (%.0fs)" % (rc, t))
        if rc != 0:
            broken.append("harness run failed rc=%d: %s" % (rc, out[-400:]))
        else:
            summary, results, eval_errors, eval_wall = evaluate(outdir)
            log("evaluated %d cases in %.0fs" % (sum(len(v) for v in results.values()), eval_wall))
            for e in eval_errors:
                broken.append("case evaluation: " + e)
    elif not b["run_ok"]:
        broken.append("model/evaluator does not build: " + coq_error_summary(b["run_out"]))

    mism, viol = classify(results)

    def handle_violations(vlist, odir, origin):
        for shard, idx, val in vlist[:50]:
            text = case_text(odir, shard, idx)
            detail = (val >> 2) & 0xff
            step = val >> 10
            k = known_match(known, prop, detail, text)
            if k:
                known_hits.append(k)
                continue
            # one replay per distinct detail code
            if any(v[3] == detail for v in violations if len(v) > 3):
                continue
            name = "%s-%d-%s-%d.json" % (tier, seed, shard.replace(".v", ""), idx)
            path = write_replay(prop, name, {
                "property": prop, "kind": "violation", "origin": origin, "seed": seed, "tier": tier,
                "shard": shard, "index": idx, "result": val, "monitor_detail": detail, "first_failing_step": step,
                "case": text[:200000],
                "how_to_replay": "./check %s --replay <this file>  (re-runs the harness with this seed/tier against /repo and re-evaluates)" % prop,
            })
            violations.append((path, "monitor fails on implementation trace (clause %d, step %d)" % (detail, step), False, detail))

    handle_violations(viol, outdir, "generated")

    # 5 search when a proof or the correspondence is broken and no failing input is known yet
    searched = 0
    if (broken or mism) and not violations and harness_ok and b["run_ok"]:
        # (a) family blocks that disagree are expanded into individual cases
        for shard, idx, val in mism[:8]:
            text = case_text(outdir, shard, idx)
            m = re.match(r"CFam (\d+) (\d+) (\d+) ", text)
            if m and (val >> 2) > 0:
                blk = int(m.group(3)) + (val >> 2) - 1
                xdir = os.path.join(outdir, "expand")
                rc, out, t = run_harness(prop, seed, tier, xdir, extra={"expand": "%s:%s:%d" % (m.group(1), m.group(2), blk)})
                if rc == 0:
                    s2, r2, e2, _ = evaluate(xdir)
                    searched += s2.get("evaluations", 0)
                    m2, v2 = classify(r2)
                    handle_violations(v2, xdir, "family-expand")
        # (b) wider generated search with fresh seeds
        if not violations:
            budget = 240 if tier == "quick" else 900
            t0 = time.time()
            k = 0
            while time.time() - t0 < budget and k < 6 and not violations:
                k += 1
                sdir = os.path.join(outdir, "search%d" % k)
                # quick tier: further quick-size rounds with fresh seeds; thorough tier: thorough-size rounds
                rc, out, t = run_harness(prop, seed * 7919 + k, tier, sdir)
                if rc != 0:
                    break
                s2, r2, e2, _ = evaluate(sdir)
                searched += s2.get("evaluations", 0)
                m2, v2 = classify(r2)
                handle_violations(v2, sdir, "search seed %d" % (seed * 7919 + k))
                shutil.rmtree(sdir, ignore_errors=True)
        log("search explored %d further cases, found %d violation(s)" % (searched, len(violations)))

    if (broken or mism) and not violations and not (known_hits and not broken and not mism):
        # still a violation: the property is no longer shown to hold
        payload = {
            "property": prop, "kind": "unproved", "seed": seed, "tier": tier,
            "broken_obligations": broken,
            "correspondence_disagreements": [
                {"shard": s, "index": i, "result": v, "case": case_text(outdir, s, i)[:20000]} for s, i, v in mism[:10]],
            "searched_cases": searched + summary.get("evaluations", 0),
            "note": "no input on which the property itself fails was found; the named theorem / correspondence no longer checks",
        }
        path = write_replay(prop, "%s-%d-unproved.json" % (tier, seed), payload)
        violations.append((path, "; ".join(broken)[:300] or "%d correspondence disagreement(s)" % len(mism), True, -1))

    # evidence
    theorems = cfg["theorems"]
    discharged = sum(1 for th in theorems if audit_res.get(th, {}).get("ok")) if b["props_ok"] else 0
    trusted = list(cfg.get("trusted_base", []))
    trusted.append("Coq 8.16.1 kernel (coqc%s); vm_compute used for case evaluation; native_compute not used; no extraction" %
                   ("; coqchk re-check" if coqchk_note else ""))
    trusted.append("translator tools/gen_constants.py (%d constants, %d anchors) and the correspondence harness /verif/harness (differential testing)" %
                   (tr.get("constants", 0), len(tr.get("anchors", []))))
    ax_lines = []
    for th in theorems:
        r = audit_res.get(th)
        if r and r["ok"]:
            ax_lines.append("Print Assumptions %s: %s" % (th, "Closed under the global context" if not r["axioms"] else ", ".join(r["axioms"])))
    trusted.extend(ax_lines)
    if coqchk_note:
        trusted.append(coqchk_note)
    nviol = len(violations)
    evidence = {
        "property_id": prop, "tier": tier, "seed": seed, "level": "proof",
        "coverage": {
            "obligations": len(theorems) + len(b.get("leaf", {})), "discharged": discharged + leaf_ok,
            "checker_cmd": "make -C /verif/coq %s && coqc audit (Print Assumptions) && coqc work/%s/<run>/cases_*.v" % (cfg["coq_target"], prop),
            "trusted_base": trusted,
            "theorems": theorems,
            "evaluations": summary.get("evaluations", 0),
            "distinct_nontrivial": summary.get("distinct_nontrivial", 0),
            "traces_validated_against_impl": sum(len(v) for v in results.values()),
            "disagreements_checked": len(mism),
            "rule": cfg.get("rule", ""),
            "samples": summary.get("samples", [])[:4] or ["(no cases generated)"],
            "counters": summary.get("counters", {}),
            "generator_notes": summary.get("notes", []),
            "impl_panics_caught": summary.get("impl_panics", 0),
            "translator": {"constants": tr.get("constants"), "anchors": tr.get("anchors"), "shape": tr.get("shape"),
                           "leaf_functions_regenerated": cfg.get("leaf_functions", []),
                           "leaf_equivalence_targets": {k: v[0] for k, v in b.get("leaf", {}).items()}},
            "search_cases": searched,
            "partial": cfg.get("partial", []),
            "notes": notes,
            "broken": broken,
            "known_findings_seen": [k.get("id") for k in known_hits],
        },
        "assumptions": cfg.get("assumptions", []),
        "wall_s": round(time.time() - t_start, 1),
        "violations": nviol,
    }
    with open(ev_path + ".tmp%d" % os.getpid(), "w") as f:
        json.dump(evidence, f, indent=1)
    os.replace(ev_path + ".tmp%d" % os.getpid(), ev_path)
    if not coq_is_shared():
        shutil.rmtree(COQ, ignore_errors=True)
    if not violations and os.environ.get("VERIF_KEEP_WORK") != "1":
        shutil.rmtree(outdir, ignore_errors=True)

    seen = set()
    for k in known_hits:
        if k.get("id") in seen:
            continue
        seen.add(k.get("id"))
        print("KNOWN-FINDING: property=%s %s" % (prop, k.get("what", k.get("id"))))
    for v in violations:
        path, desc, nofail = v[0], v[1], v[2]
        print("VIOLATION property=%s replay=%s%s" % (prop, path, " no-failing-input-found" if nofail else ""))
        log("  " + desc)
    if violations:
        return 1
    log("%s holds on everything explored: %d/%d obligations, %d cases, %.0fs" %
        (prop, discharged, len(theorems), summary.get("evaluations", 0), time.time() - t_start))
    return 0


if __name__ == "__main__":
    sys.exit(main())
