#!/usr/bin/env python3
"""Translator: regenerate coq/Gen/Constants.v, coq/Gen/FConstants.v and coq/Gen/Shape.v
from the Rust sources under /repo on every run.

* every `const NAME: T = EXPR;` outside #[cfg(test)] regions of the three crates is
  evaluated (small constant-expression subset) and emitted as a Coq Z (integers, bools)
  or a primitive-float hex literal (f64);
* a table of *anchored literals* (numbers the properties name that are bare literals in
  the code) is matched by regular expression; a lost anchor falls back to the recorded
  value and is reported in the JSON summary, never an alarm by itself;
* lexical shape facts (brace-aware scans) go to Shape.v.

Output files are rewritten only when their content changes (so `make` caches hold).
Prints a JSON summary on stdout.
"""
import json
import os
import re
import sys

REPO = os.environ.get("VERIF_REPO", "/repo")
OUT = os.path.join(os.path.dirname(os.path.abspath(__file__)), "..", "coq", "Gen")

SRC_DIRS = ["crates/srtla-protocol/src", "crates/srtla-core/src", "src"]
SKIP_FILES = {"src/net/apple.rs"}

INT_TYPES = {"u8", "u16", "u32", "u64", "usize", "i8", "i16", "i32", "i64", "isize", "u128", "i128"}
TYPE_MAX = {"u8": 2**8 - 1, "u16": 2**16 - 1, "u32": 2**32 - 1, "u64": 2**64 - 1, "usize": 2**64 - 1,
            "i32": 2**31 - 1, "i64": 2**63 - 1, "i16": 2**15 - 1}
TYPE_MIN = {"u8": 0, "u16": 0, "u32": 0, "u64": 0, "usize": 0, "i32": -2**31, "i64": -2**63, "i16": -2**15}


def strip_comments(src):
    out = []
    i, n = 0, len(src)
    while i < n:
        c = src[i]
        if src.startswith("//", i):
            j = src.find("\n", i)
            j = n if j < 0 else j
            i = j
        elif src.startswith("/*", i):
            j = src.find("*/", i + 2)
            j = n if j < 0 else j + 2
            out.append(" " * 0)
            i = j
        elif c == '"':
            # string literal (keep but blank content)
            j = i + 1
            while j < n and src[j] != '"':
                if src[j] == "\\":
                    j += 1
                j += 1
            out.append('""')
            i = j + 1
        elif c == "'" and i + 2 < n and (src[i + 2] == "'" or (src[i + 1] == "\\" and src.find("'", i + 2) - i <= 5)):
            j = src.find("'", i + 2 if src[i + 1] == "\\" else i + 1 + 1)
            out.append("' '")
            i = j + 1
        else:
            out.append(c)
            i += 1
    return "".join(out)


def strip_test_regions(src):
    """Remove `#[cfg(test)] mod x { ... }` and `#[cfg(test)] fn/impl/const ...` items."""
    res = []
    i = 0
    pat = re.compile(r"#\[cfg\((?:any\()?test[^\]]*\]\s*")
    while True:
        m = pat.search(src, i)
        if not m:
            res.append(src[i:])
            break
        # `#[cfg(any(test, feature = ...))]` guards items that exist in our build: keep
        if "feature" in m.group(0):
            res.append(src[i:m.end()])
            i = m.end()
            continue
        res.append(src[i:m.start()])
        j = m.end()
        # skip further attributes
        while True:
            m2 = re.match(r"#\[[^\]]*\]\s*", src[j:])
            if not m2:
                break
            j += m2.end()
        # item: up to matching brace or semicolon, whichever first at depth 0
        k = j
        depth = 0
        while k < len(src):
            ch = src[k]
            if ch == "{":
                depth += 1
            elif ch == "}":
                depth -= 1
                if depth == 0:
                    k += 1
                    break
            elif ch == ";" and depth == 0:
                k += 1
                break
            k += 1
        i = k
    return "".join(res)


class EvalError(Exception):
    pass


TOKEN = re.compile(r"\s*(?:(0x[0-9a-fA-F_]+(?:[ui](?:8|16|32|64|128|size))?)|"
                   r"(\d[\d_]*\.\d[\d_]*(?:[eE][+-]?\d+)?(?:_?f64|_?f32)?|\d[\d_]*[eE][+-]?\d+(?:_?f64)?|\d[\d_]*_?f64)|"
                   r"(\d[\d_]*(?:[ui](?:8|16|32|64|128|size))?)|"
                   r"([A-Za-z_][A-Za-z0-9_]*(?:::[A-Za-z_][A-Za-z0-9_]*)*)|"
                   r"(<<|>>|[-+*/()%]))")


def tokenize(expr):
    toks = []
    pos = 0
    expr = expr.strip()
    while pos < len(expr):
        m = TOKEN.match(expr, pos)
        if not m or m.end() == pos:
            raise EvalError("cannot tokenize %r at %d" % (expr, pos))
        pos = m.end()
        if m.group(1):
            t = re.sub(r"[ui](8|16|32|64|128|size)$", "", m.group(1)).replace("_", "")
            toks.append(("int", int(t, 16)))
        elif m.group(2):
            t = m.group(2).replace("_", "").replace("f64", "").replace("f32", "")
            toks.append(("float", float(t)))
        elif m.group(3):
            t = re.sub(r"[ui](8|16|32|64|128|size)$", "", m.group(3)).replace("_", "")
            toks.append(("int", int(t)))
        elif m.group(4):
            toks.append(("id", m.group(4)))
        else:
            toks.append(("op", m.group(5)))
    return toks


class Evaluator:
    def __init__(self, lookup):
        self.lookup = lookup

    def eval(self, expr):
        self.toks = tokenize(expr)
        self.p = 0
        v = self.shift()
        if self.p != len(self.toks):
            raise EvalError("trailing tokens in %r" % expr)
        return v

    def peek(self):
        return self.toks[self.p] if self.p < len(self.toks) else (None, None)

    def take(self):
        t = self.toks[self.p]
        self.p += 1
        return t

    def shift(self):
        v = self.add()
        while self.peek() == ("op", "<<") or self.peek() == ("op", ">>"):
            op = self.take()[1]
            r = self.add()
            v = v << r if op == "<<" else v >> r
        return v

    def add(self):
        v = self.mul()
        while self.peek()[0] == "op" and self.peek()[1] in "+-":
            op = self.take()[1]
            r = self.mul()
            v = v + r if op == "+" else v - r
        return v

    def mul(self):
        v = self.cast()
        while self.peek()[0] == "op" and self.peek()[1] in ("*", "/", "%"):
            op = self.take()[1]
            r = self.cast()
            if op == "*":
                v = v * r
            elif op == "/":
                if isinstance(v, float) or isinstance(r, float):
                    v = v / r
                else:
                    q = abs(v) // abs(r)
                    v = q if (v >= 0) == (r >= 0) else -q
            else:
                v = v % r
        return v

    def cast(self):
        v = self.unary()
        while self.peek() == ("id", "as"):
            self.take()
            ty = self.take()[1]
            if ty in ("f64", "f32"):
                v = float(v)
            elif ty in INT_TYPES:
                v = int(v)
            else:
                raise EvalError("cast to %s" % ty)
        return v

    def unary(self):
        if self.peek() == ("op", "-"):
            self.take()
            return -self.unary()
        return self.atom()

    def atom(self):
        k, t = self.take()
        if k in ("int", "float"):
            return t
        if k == "op" and t == "(":
            v = self.shift()
            if self.take() != ("op", ")"):
                raise EvalError("expected )")
            return v
        if k == "id":
            if t == "true":
                return True
            if t == "false":
                return False
            parts = t.split("::")
            if len(parts) == 2 and parts[0] in TYPE_MAX and parts[1] == "MAX":
                return TYPE_MAX[parts[0]]
            if len(parts) == 2 and parts[0] in TYPE_MIN and parts[1] == "MIN":
                return TYPE_MIN[parts[0]]
            if len(parts) == 2 and parts[0] == "f64" and parts[1] in ("INFINITY", "NEG_INFINITY", "NAN"):
                return {"INFINITY": float("inf"), "NEG_INFINITY": float("-inf"), "NAN": float("nan")}[parts[1]]
            return self.lookup(parts[-1])
        raise EvalError("unexpected token %r" % (t,))


CONST_RE = re.compile(r"(?:pub(?:\([a-z]+\))?\s+)?const\s+([A-Z][A-Z0-9_]*)\s*:\s*([A-Za-z0-9_:&' ]+?)\s*=\s*([^;]+);")


def module_of(path):
    p = path
    for d in ("crates/srtla-protocol/src/", "crates/srtla-core/src/", "src/"):
        if p.startswith(d):
            pre = {"crates/srtla-protocol/src/": "proto", "crates/srtla-core/src/": "core", "src/": "shell"}[d]
            p = p[len(d):]
            break
    p = p[:-3].replace("/mod", "").replace("/", "_")
    return pre + "_" + p


def collect_consts():
    items = []  # (name, type, expr, module, path)
    for d in SRC_DIRS:
        for root, _, files in os.walk(os.path.join(REPO, d)):
            for f in sorted(files):
                if not f.endswith(".rs"):
                    continue
                full = os.path.join(root, f)
                rel = os.path.relpath(full, REPO)
                if rel in SKIP_FILES or "/tests/" in rel or rel.startswith("src/tests"):
                    continue
                src = strip_test_regions(strip_comments(open(full).read()))
                for m in CONST_RE.finditer(src):
                    items.append((m.group(1), m.group(2).strip(), " ".join(m.group(3).split()), module_of(rel), rel))
    return items


def evaluate_all(items):
    by_name = {}
    for it in items:
        by_name.setdefault(it[0], []).append(it)
    values = {}  # (name, module) -> value
    failed = {}

    def make_lookup(module):
        def lookup(name):
            cands = by_name.get(name)
            if not cands:
                raise EvalError("unknown identifier %s" % name)
            same = [c for c in cands if c[3] == module]
            c = same[0] if same else cands[0]
            return value_of(c)
        return lookup

    stack = set()

    def value_of(it):
        key = (it[0], it[3])
        if key in values:
            return values[key]
        if key in stack:
            raise EvalError("cycle at %s" % it[0])
        stack.add(key)
        try:
            v = Evaluator(make_lookup(it[3])).eval(it[2])
        finally:
            stack.discard(key)
        ty = it[1]
        if ty in ("f64", "f32"):
            v = float(v)
        elif ty in INT_TYPES:
            if isinstance(v, float):
                raise EvalError("float value for int const %s" % it[0])
            v = int(v)
        values[key] = v
        return v

    for it in items:
        ty = it[1]
        if ty not in INT_TYPES and ty not in ("f64", "f32", "bool"):
            continue  # &str, Duration, arrays: not needed by the models
        try:
            value_of(it)
        except (EvalError, ZeroDivisionError, ValueError) as e:
            failed[(it[0], it[3])] = "%s: %s" % (it[4], e)
    return values, failed, by_name


# ---- anchored bare literals: (coq name, file, regex with one group, fallback) ----
ANCHORS = [
    ("FAST_RECOVERY_ENTER_WINDOW", "crates/srtla-core/src/connection/congestion/mod.rs",
     r"\*window\s*<=\s*([\d_]+)\s*&&\s*!self\.fast_recovery_mode", 2000),
    ("SRT_ACK_RTT_CAP_MS", "crates/srtla-core/src/connection/ack_nak.rs",
     r"rtt\s*>\s*0\s*&&\s*rtt\s*<=\s*([\d_]+)", 10000),
    ("ACK_FAST_PATH_RANGE", "crates/srtla-core/src/connection/ack_nak.rs",
     r"range_size\s*<=\s*([\d_]+)\s*&&", 64),
    ("NAK_EXPAND_CAP", "crates/srtla-protocol/src/parsers.rs",
     r"seq\s*<=\s*end\s*&&\s*out\.len\(\)\s*<\s*([\d_]+)", 1000),
    ("INITIAL_RETRY_CADENCE_MS", "crates/srtla-core/src/connection/reconnection.rs",
     r"saturating_sub\(self\.last_reconnect_attempt_ms\)\s*>=\s*([\d_]+)", 1000),
    ("RTT_REMEASURE_GAP_MS", "crates/srtla-core/src/connection/mod.rs",
     r"saturating_sub\(self\.rtt\.last_rtt_measurement_ms\)\s*>\s*([\d_]+)", 3000),
    ("NAK_LOG_WINDOW", "crates/srtla-core/src/connection/congestion/mod.rs",
     r"if\s*\*window\s*<=\s*([\d_]+)\s*\{\s*let burst_info", 3000),
    ("KA_RTT_CAP_MS", "crates/srtla-core/src/connection/rtt.rs",
     r"rtt\s*>\s*0\s*&&\s*rtt\s*<=\s*([\d_]+)", 10000),
    ("RTT_NEEDS_MEASUREMENT_GAP_MS", "crates/srtla-core/src/connection/rtt.rs",
     r"saturating_sub\(self\.last_rtt_measurement_ms\)\s*>\s*([\d_]+)", 3000),
]


# f64 literals that are not `const` items (a struct literal inside a fn body, an argument of a constructor, an
# inline factor): anchored by the text around them like ANCHORS; emitted into FConstants.v
FANCHORS = [
    ("KALMAN_Q_VALUE", "crates/srtla-core/src/kalman.rs", r"fn\s+for_rtt\b[^}]*?\bq_value\s*:\s*([\d_.eE+-]+)", 0.5),
    ("KALMAN_Q_VELOCITY", "crates/srtla-core/src/kalman.rs", r"fn\s+for_rtt\b[^}]*?\bq_velocity\s*:\s*([\d_.eE+-]+)", 0.1),
    ("KALMAN_R", "crates/srtla-core/src/kalman.rs", r"fn\s+for_rtt\b[^}]*?\br\s*:\s*([\d_.eE+-]+)", 2.0),
    ("EWMA_DELTA_ALPHA", "crates/srtla-core/src/connection/rtt.rs", r"rtt_avg_delta\s*:\s*Ewma::new\(\s*([\d_.eE+-]+)\s*\)", 0.2),
    ("RTT_JITTER_DECAY", "crates/srtla-core/src/connection/rtt.rs", r"self\.rtt_jitter_ms\s*\*=\s*([\d_.eE+-]+)\s*;", 0.99),
    ("RTT_DEFAULT_MIN", "crates/srtla-core/src/connection/rtt.rs", r"fn\s+default\b[^}]*?\brtt_min_ms\s*:\s*([\d_.eE+-]+)", 200.0),
]


def collect_fanchors():
    out = []
    for name, rel, rx, fallback in FANCHORS:
        val, found = fallback, False
        try:
            src = strip_comments(open(os.path.join(REPO, rel)).read())
            m = re.search(rx, src, re.S)
            if m:
                val, found = float(m.group(1).replace("_", "")), True
        except (OSError, ValueError):
            pass
        out.append((name, val, found, rel))
    return out


def collect_anchors():
    out = []
    for name, rel, rx, fallback in ANCHORS:
        full = os.path.join(REPO, rel)
        val, found = fallback, False
        try:
            src = strip_comments(open(full).read())
            m = re.search(rx, src)
            if m:
                val, found = int(m.group(1).replace("_", "")), True
        except OSError:
            pass
        out.append((name, val, found, rel))
    return out


# ---- shape facts ----
def fn_body(src, name):
    m = re.search(r"fn\s+" + re.escape(name) + r"\s*(?:<[^>]*>)?\s*\(", src)
    if not m:
        return None
    i = src.find("{", m.end())
    # skip to the body's opening brace: first '{' at paren depth 0 after the signature
    depth_p = 0
    k = m.end() - 1
    while k < len(src):
        ch = src[k]
        if ch == "(":
            depth_p += 1
        elif ch == ")":
            depth_p -= 1
        elif ch == "{" and depth_p == 0:
            break
        k += 1
    i = k
    depth = 0
    j = i
    while j < len(src):
        if src[j] == "{":
            depth += 1
        elif src[j] == "}":
            depth -= 1
            if depth == 0:
                return src[i:j + 1]
        j += 1
    return None


def block_after(src, start):
    """Return the brace block starting at first '{' at/after start."""
    i = src.find("{", start)
    if i < 0:
        return ""
    depth = 0
    j = i
    while j < len(src):
        if src[j] == "{":
            depth += 1
        elif src[j] == "}":
            depth -= 1
            if depth == 0:
                return src[i:j + 1]
        j += 1
    return src[i:]


def shape_facts():
    facts = {}
    notes = {}
    # 1. housekeeping: perform_window_recovery only under `if !classic`
    try:
        hk = strip_comments(open(os.path.join(REPO, "src/sender/housekeeping.rs")).read())
        calls = [m.start() for m in re.finditer(r"perform_window_recovery\s*\(", hk)]
        guarded = []
        for pos in calls:
            ok = False
            for m in re.finditer(r"if\s*(!\s*classic\b[^{]*)", hk):
                cond = " ".join(m.group(1).split())
                # the guard must imply !classic: `!classic` alone or conjoined with further
                # conditions; any disjunction can let the call through in classic mode
                if "||" in cond or not re.match(r"^!\s*classic(\s*&&.*)?$", cond):
                    continue
                blk_start = hk.find("{", m.end() - 1)
                blk = block_after(hk, m.end() - 1)
                if blk_start <= pos < blk_start + len(blk):
                    ok = True
            guarded.append(ok)
        facts["hk_recovery_calls"] = len(calls)
        facts["hk_recovery_all_guarded_by_not_classic"] = bool(calls) and all(guarded)
    except OSError as e:
        notes["housekeeping"] = str(e)
    # 2. subscriptions.rs: awaits per hub method and whether any await lies inside a
    #    lock guard's lexical scope other than the `.lock().await` that creates it.
    try:
        sub = strip_comments(open(os.path.join(REPO, "src/subscriptions.rs")).read())
        sub = strip_test_regions(sub)
        for fn in ("subscribe", "unsubscribe", "publish"):
            body = fn_body(sub, fn)
            if body is None:
                notes["hub_" + fn] = "function not found"
                continue
            awaits = [m.start() for m in re.finditer(r"\.await", body)]
            kinds = []
            for a in awaits:
                pre = body[max(0, a - 40):a]
                kinds.append("Lock" if re.search(r"\.lock\(\)\s*$", pre) else "Other")
            facts["hub_%s_awaits" % fn] = kinds
            # guard scopes: `let [mut] g = <...>.lock().await;` lives until end of the enclosing block
            bad = False
            for m in re.finditer(r"let\s+(?:mut\s+)?([a-z_][a-z0-9_]*)\s*=\s*[^;]*\.lock\(\)\s*\.await\s*;", body):
                # enclosing block end
                depth = 0
                j = m.end()
                end = len(body)
                while j < len(body):
                    if body[j] == "{":
                        depth += 1
                    elif body[j] == "}":
                        if depth == 0:
                            end = j
                            break
                        depth -= 1
                    j += 1
                scope = body[m.end():end]
                # explicit drop(g) shortens the scope
                d = re.search(r"drop\(\s*" + m.group(1) + r"\s*\)", scope)
                if d:
                    scope = scope[:d.start()]
                if ".await" in scope:
                    bad = True
            facts["hub_%s_await_under_lock" % fn] = bad
    except OSError as e:
        notes["subscriptions"] = str(e)
    # 3. packet_handler: is the best-path override guarded by a mode test?
    try:
        ph = strip_comments(open(os.path.join(REPO, "src/sender/packet_handler.rs")).read())
        m = re.search(r"select_best_quality(_eligible)?_idx\s*\(", ph)
        facts["override_present"] = bool(m)
        facts["override_uses_eligible_filter"] = bool(m and m.group(1))
        facts["override_mode_guarded"] = False
        if m:
            ctx = ph[max(0, m.start() - 600):m.start()]
            facts["override_mode_guarded"] = bool(re.search(r"is_classic\(\)|SchedulingMode::Classic|!\s*classic", ctx))
    except OSError as e:
        notes["packet_handler"] = str(e)
    # 4. the event loop (src/sender/mod.rs), which no harness can run inside a check:
    #    (a) the housekeeping arm logs a failed pass and carries on (retries continue for ever),
    #    (b) every client datagram is handed the registration manager's session flag,
    #    (c) a replaced socket's reader task is aborted before the new one is started (uplink.rs).
    try:
        ml = strip_comments(open(os.path.join(REPO, "src/sender/mod.rs")).read())
        calls = list(re.finditer(r"handle_housekeeping\s*\(", ml))
        swallowed = False
        propagated = False
        for m in calls:
            if re.search(r"\buse\b[^;]*$", ml[max(0, m.start() - 80):m.start()]):
                continue
            head = ml[max(0, m.start() - 60):m.start()]
            tail = ml[m.start():m.start() + 700]
            stmt_end = tail.find(";")
            brace = tail.find("{")
            if re.search(r"if\s+let\s+Err\s*\(\s*\w+\s*\)\s*=\s*$", head):
                swallowed = True
            seg = tail[:stmt_end if stmt_end >= 0 else len(tail)]
            if re.search(r"\.await\s*(\.\w+\([^)]*\)\s*)*\?", seg) and (brace < 0 or stmt_end < brace):
                propagated = True
        facts["loop_housekeeping_error_logged_not_fatal"] = swallowed and not propagated
        m = re.search(r"handle_srt_packet\s*\(([^;]*?)\)\s*\.await", ml, re.S)
        facts["loop_passes_reg_has_connected"] = bool(m and re.search(r"\breg\s*\.\s*has_connected\b(\s*\(\s*\))?\s*,", m.group(1)))
    except OSError as e:
        notes["event_loop"] = str(e)
    try:
        up = strip_comments(open(os.path.join(REPO, "src/sender/uplink.rs")).read())
        m = re.search(r"fn\s+restart_reader_for\b", up)
        ok = False
        if m:
            body = block_after(up, up.find("{", m.end()) - 1) if up.find("{", m.end()) >= 0 else ""
            ab = re.search(r"\.abort\s*\(\s*\)", body)
            sp = re.search(r"spawn_reader\s*\(", body)
            ok = bool(ab and sp and ab.start() < sp.start())
        facts["reader_restart_aborts_old_reader"] = ok
    except OSError as e:
        notes["uplink_reader"] = str(e)
    return facts, notes


def coq_float(v):
    if v != v:
        return "nan"
    if v == float("inf"):
        return "infinity"
    if v == float("-inf"):
        return "neg_infinity"
    h = float(v).hex()
    if h.startswith("-"):
        return "(-%s)%%float" % h[1:]
    return "%s%%float" % h


def write_if_changed(path, content):
    try:
        if open(path).read() == content:
            return False
    except OSError:
        pass
    os.makedirs(os.path.dirname(path), exist_ok=True)
    with open(path, "w") as f:
        f.write(content)
    return True


def main():
    items = collect_consts()
    values, failed, by_name = evaluate_all(items)
    ints, floats = [], []
    emitted = {}
    dup_notes = []
    for name, cands in sorted(by_name.items()):
        vals = [(c, values.get((c[0], c[3]))) for c in cands if (c[0], c[3]) in values]
        if not vals:
            continue
        distinct = {repr(v) for _, v in vals}
        if len(distinct) == 1:
            targets = [(name, vals[0][1], vals[0][0])]
            if len(vals) > 1:
                dup_notes.append("%s defined %d times, same value" % (name, len(vals)))
        else:
            targets = [("%s__%s" % (c[3], name), v, c) for c, v in vals]
            dup_notes.append("%s defined with different values: %s" % (name, ", ".join("%s=%r" % (c[3], v) for c, v in vals)))
        for nm, v, c in targets:
            emitted[nm] = v
            if isinstance(v, bool):
                ints.append("Definition %s : Z := %d. (* bool; %s *)" % (nm, 1 if v else 0, c[4]))
            elif isinstance(v, float):
                floats.append("Definition %s : float := %s. (* %r; %s *)" % (nm, coq_float(v), v, c[4]))
                # rationals for integer-model use: value * 10^6 when exact
                scaled = v * 1_000_000
                if scaled == int(scaled) and abs(scaled) < 2**62:
                    ints.append("Definition %s_micro : Z := %d. (* %r * 10^6; %s *)" % (nm, int(scaled), v, c[4]))
            else:
                ints.append("Definition %s : Z := %s. (* %s: %s; %s *)" % (nm, "(%d)" % v if v < 0 else "%d" % v, c[1], c[2][:60].replace("*)", "* )"), c[4]))
    # constants that vanished from the source (renamed / inlined / deleted): keep the last known
    # value so the models still build and the correspondence can look for a failing input; the
    # loss itself is reported and treated by check.py as a broken obligation.
    fb_path = os.path.join(os.path.dirname(os.path.abspath(__file__)), "constants_fallback.json")
    try:
        fallback = json.load(open(fb_path))
    except (OSError, ValueError):
        fallback = {}
    lost_consts = []
    for nm, ent in sorted(fallback.items()):
        if nm in emitted:
            continue
        lost_consts.append(nm)
        v = ent["value"]
        if ent["kind"] == "float":
            v = float.fromhex(v)
            floats.append("Definition %s : float := %s. (* LOST from the source; last known value %r *)" % (nm, coq_float(v), v))
            scaled = v * 1_000_000
            if scaled == int(scaled) and abs(scaled) < 2**62 and (nm + "_micro") not in emitted:
                ints.append("Definition %s_micro : Z := %d. (* LOST; fallback *)" % (nm, int(scaled)))
        else:
            ints.append("Definition %s : Z := %s. (* LOST from the source; last known value *)" % (nm, "(%d)" % v if v < 0 else "%d" % v))
        emitted[nm] = v
    if os.environ.get("VERIF_WRITE_FALLBACK") == "1":
        tab = {}
        for nm, v in emitted.items():
            if nm in lost_consts:
                continue
            if isinstance(v, bool):
                tab[nm] = {"kind": "int", "value": 1 if v else 0}
            elif isinstance(v, float):
                if v == v and v not in (float("inf"), float("-inf")):
                    tab[nm] = {"kind": "float", "value": v.hex()}
            else:
                tab[nm] = {"kind": "int", "value": v}
        json.dump(tab, open(fb_path, "w"), indent=0, sort_keys=True)
    anchors = collect_anchors()
    for nm, v, found, rel in anchors:
        ints.append("Definition %s : Z := %d. (* anchored literal in %s; anchor %s *)" % (nm, v, rel, "matched" if found else "LOST (fallback value)"))
        emitted[nm] = v
    fanchors = collect_fanchors()
    for nm, v, found, rel in fanchors:
        floats.append("Definition %s : float := %s. (* %r; anchored literal in %s; anchor %s *)" %
                      (nm, coq_float(v), v, rel, "matched" if found else "LOST (fallback value)"))
        emitted[nm] = v
    anchors = anchors + fanchors
    facts, notes = shape_facts()

    hdr = "(* GENERATED by tools/gen_constants.py from the Rust sources under %s on every run. Do not edit. *)\n" % REPO
    cz = hdr + "From Coq Require Import ZArith.\nOpen Scope Z_scope.\n\n" + "\n".join(ints) + "\n"
    cf = hdr + "From Coq Require Import Floats.\nOpen Scope float_scope.\n\n" + "\n".join(floats) + "\n"
    sh = [hdr, "From Coq Require Import List String.\nImport ListNotations.\nOpen Scope string_scope.\n"]
    sh.append("Inductive await_kind := Lock | Other.\n")
    for k, v in sorted(facts.items()):
        if isinstance(v, bool):
            sh.append("Definition %s : bool := %s." % (k, "true" if v else "false"))
        elif isinstance(v, int):
            sh.append("Definition %s : nat := %d." % (k, v))
        elif isinstance(v, list):
            sh.append("Definition %s : list await_kind := [%s]." % (k, "; ".join(v)))
    changed = [write_if_changed(os.path.join(OUT, "Constants.v"), cz),
               write_if_changed(os.path.join(OUT, "FConstants.v"), cf),
               write_if_changed(os.path.join(OUT, "Shape.v"), "\n".join(sh) + "\n")]
    summary = {
        "constants": len(emitted),
        "failed": {"%s@%s" % k: v for k, v in failed.items()},
        "duplicates": dup_notes,
        "lost_constants": lost_consts,
        "anchors": [{"name": n, "value": v, "matched": f} for n, v, f, _ in anchors],
        "shape": facts,
        "shape_notes": notes,
        "changed": changed,
    }
    json.dump(summary, sys.stdout, indent=1, default=str)
    print()
    return 0


if __name__ == "__main__":
    sys.exit(main())
