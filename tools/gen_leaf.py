#!/usr/bin/env python3
"""Leaf translator: Rust -> Gallina for small integer/boolean/Option functions.

For each function listed in LEAVES the Rust source text under /repo is parsed (statement
subset: let / assignment / compound assignment / if-else / if-let / match on Option or a
field-less enum / return / logging macros skipped) and symbolically executed into ONE Coq
expression; the result is written to coq/Gen/Leaf.v as

    Definition leaf_<name> (<self fields read> <params>) : <result> := ...

where the result is the return value, or the tuple of final values of everything the
function assigns (plus the return value last).  Proofs/LeafP.v proves each generated
definition equal to the hand-written model function the property theorems are about, so an
edit of the Rust function changes Gen/Leaf.v and breaks a named equivalence obligation at
once, before any generated input has to find it.

A function that cannot be translated (syntax outside the subset, missing) is reported in the
JSON summary under "failed"; check.py treats that like a broken obligation.
"""
import json
import os
import re
import sys

REPO = os.environ.get("VERIF_REPO", "/repo")
OUTDIR = os.path.join(os.path.dirname(os.path.abspath(__file__)), "..", "coq", "Gen")
GROUP = {"backoff_delay": "Recon", "should_attempt_reconnect": "Recon", "record_attempt": "Recon", "mark_success": "Recon",
         "needs_keepalive": "Live", "is_timed_out": "Live", "stall_probe_due": "Live", "needs_measurement": "Live",
         "needs_time_flush": "Live",
         "ack_classic": "Cong", "ack_enhanced": "Cong", "cong_handle_nak": "Cong", "ack_global": "Cong",
         "seq_is_expired": "Seq", "seq_is_valid": "Seq"}
CORE = "crates/srtla-core/src/"

# (coq name, file, impl type or None for a free fn, fn name)
LEAVES = [
    ("backoff_delay", CORE + "connection/reconnection.rs", "ReconnectionState", "backoff_delay"),
    ("should_attempt_reconnect", CORE + "connection/reconnection.rs", "ReconnectionState", "should_attempt_reconnect"),
    ("record_attempt", CORE + "connection/reconnection.rs", "ReconnectionState", "record_attempt"),
    ("mark_success", CORE + "connection/reconnection.rs", "ReconnectionState", "mark_success"),
    ("needs_keepalive", CORE + "connection/mod.rs", "SrtlaConnection", "needs_keepalive"),
    ("is_timed_out", CORE + "connection/mod.rs", "SrtlaConnection", "is_timed_out"),
    ("stall_probe_due", CORE + "connection/mod.rs", "SrtlaConnection", "stall_probe_due"),
    ("ack_classic", CORE + "connection/congestion/classic.rs", None, "handle_srtla_ack_specific"),
    ("ack_enhanced", CORE + "connection/congestion/enhanced.rs", None, "handle_srtla_ack"),
    ("cong_handle_nak", CORE + "connection/congestion/mod.rs", "CongestionControl", "handle_nak"),
    ("ack_global", CORE + "connection/ack_nak.rs", "SrtlaConnection", "handle_srtla_ack_global"),
    ("needs_measurement", CORE + "connection/rtt.rs", "RttTracker", "needs_measurement"),
    ("seq_is_expired", "src/sender/sequence.rs", "SequenceTrackingEntry", "is_expired"),
    ("seq_is_valid", "src/sender/sequence.rs", "SequenceTrackingEntry", "is_valid"),
    ("needs_time_flush", CORE + "connection/batch_send.rs", "BatchSender", "needs_time_flush"),
]

INT_TYPES = {"u8", "u16", "u32", "u64", "usize", "i32", "i64"}
FIELD_PATHS = {}
REGISTRY = {}   # rust method name -> {coq, origins, outs, rtype} of already translated leaves


class TErr(Exception):
    pass


# ------------------------------------------------------------------ source handling
def strip_comments(src):
    out, i, n = [], 0, len(src)
    while i < n:
        if src.startswith("//", i):
            j = src.find("\n", i)
            i = n if j < 0 else j
        elif src.startswith("/*", i):
            j = src.find("*/", i + 2)
            i = n if j < 0 else j + 2
        elif src[i] == '"':
            j = i + 1
            while j < n and src[j] != '"':
                j += 2 if src[j] == "\\" else 1
            out.append('""')
            i = j + 1
        else:
            out.append(src[i])
            i += 1
    return "".join(out)


def match_brace(src, i):
    depth = 0
    j = i
    while j < len(src):
        if src[j] == "{":
            depth += 1
        elif src[j] == "}":
            depth -= 1
            if depth == 0:
                return j
        j += 1
    raise TErr("unbalanced braces")


def find_fn(src, impl, name):
    """Return (params text, return type text, body text)."""
    region = src
    if impl:
        spans = []
        for m in re.finditer(r"impl\s+(?:<[^>]*>\s*)?" + re.escape(impl) + r"\s*\{", src):
            e = match_brace(src, m.end() - 1)
            spans.append(src[m.end():e])
        if not spans:
            raise TErr("impl %s not found" % impl)
        region = "\n".join(spans)
    m = re.search(r"fn\s+" + re.escape(name) + r"\s*\(", region)
    if not m:
        raise TErr("fn %s not found" % name)
    # params up to matching paren
    i = m.end() - 1
    depth = 0
    j = i
    while j < len(region):
        if region[j] == "(":
            depth += 1
        elif region[j] == ")":
            depth -= 1
            if depth == 0:
                break
        j += 1
    params = region[i + 1:j]
    k = region.find("{", j)
    ret = region[j + 1:k].strip()
    ret = ret[2:].strip() if ret.startswith("->") else ""
    e = match_brace(region, k)
    return params, ret, region[k + 1:e]


def struct_fields(src_by_file):
    """struct name -> {field: type}"""
    out = {}
    for src in src_by_file.values():
        for m in re.finditer(r"struct\s+(\w+)\s*\{", src):
            e = match_brace(src, m.end() - 1)
            body = src[m.end():e]
            body = re.sub(r"#\[[^\]]*\]", "", body)
            fields = {}
            for fm in re.finditer(r"(?:pub(?:\([a-z]+\))?\s+)?(\w+)\s*:\s*([^,\n]+?)\s*,", body + ","):
                fields.setdefault(fm.group(1), fm.group(2).strip())
            out.setdefault(m.group(1), {}).update(fields)
    return out


# ------------------------------------------------------------------ tokenizer / parser
TOK = re.compile(r"\s*(?:(\"\")|(\d[\d_]*(?:\.\d+)?(?:_?(?:u8|u16|u32|u64|usize|i32|i64|f64))?)|"
                 r"([A-Za-z_][A-Za-z0-9_]*(?:::[A-Za-z_][A-Za-z0-9_]*)*!?)|"
                 r"(<<|>>|&&|\|\||==|!=|<=|>=|\+=|-=|\*=|=>|->|[-+*/%<>=!&|(){}\[\];,.:?]))")


def tokenize(s):
    toks, pos = [], 0
    s = s.strip()
    while pos < len(s):
        m = TOK.match(s, pos)
        if not m or m.end() == pos:
            raise TErr("cannot tokenize near %r" % s[pos:pos + 30])
        pos = m.end()
        if m.group(1):
            toks.append(("str", '""'))
        elif m.group(2):
            toks.append(("num", m.group(2)))
        elif m.group(3):
            toks.append(("id", m.group(3)))
        else:
            toks.append(("op", m.group(4)))
    return toks


class P:
    def __init__(self, toks):
        self.t, self.i = toks, 0

    def peek(self, k=0):
        return self.t[self.i + k] if self.i + k < len(self.t) else (None, None)

    def take(self):
        x = self.t[self.i]
        self.i += 1
        return x

    def eat(self, v):
        if self.peek()[1] == v:
            self.i += 1
            return True
        return False

    def expect(self, v):
        if not self.eat(v):
            raise TErr("expected %r, got %r" % (v, self.peek()))

    # ---- statements
    def block(self):
        """parse `{ stmts }` already positioned after '{'; returns list of stmts"""
        stmts = []
        while self.peek()[1] != "}" and self.peek()[0] is not None:
            stmts.append(self.stmt())
        self.expect("}")
        return stmts

    def skip_balanced(self, open_, close):
        depth = 1
        while depth:
            k, v = self.take()
            if v == open_:
                depth += 1
            elif v == close:
                depth -= 1

    def stmt(self):
        k, v = self.peek()
        if k == "id" and v.endswith("!"):            # macro statement
            self.take()
            self.expect("(")
            self.skip_balanced("(", ")")
            self.eat(";")
            return ("skip",)
        if v == "let":
            self.take()
            self.eat("mut")
            if self.peek()[1] == "Some" and False:
                pass
            name = self.take()[1]
            if self.eat(":"):
                while self.peek()[1] not in ("=", ";"):
                    self.take()
            self.expect("=")
            e = self.expr()
            if self.eat("else"):                    # let-else: `let Some(x) = e else { return ..; };`
                raise TErr("let-else not supported")
            self.expect(";")
            return ("let", name, e)
        if v == "return":
            self.take()
            e = None if self.peek()[1] == ";" else self.expr()
            self.eat(";")
            return ("return", e)
        if v == "if":
            e = self.if_expr()
            self.eat(";")
            return ("expr", e)
        if v == "match":
            e = self.match_expr()
            self.eat(";")
            return ("expr", e)
        # assignment or expression statement
        e = self.expr()
        k2, v2 = self.peek()
        if v2 in ("=", "+=", "-=", "*="):
            self.take()
            rhs = self.expr()
            self.expect(";")
            if v2 != "=":
                rhs = ("bin", v2[0], e, rhs)
            return ("assign", e, rhs)
        if self.eat(";"):
            return ("exprstmt", e)
        return ("tail", e)

    def if_expr(self):
        self.expect("if")
        if self.eat("let"):
            # if let Some(x) = e { A } else { B }
            pat = self.take()[1]
            if pat != "Some":
                raise TErr("if-let pattern %s" % pat)
            self.expect("(")
            var = self.take()[1]
            self.expect(")")
            self.expect("=")
            scrut = self.expr(no_struct=True)
            self.expect("{")
            a = self.block()
            b = []
            if self.eat("else"):
                if self.peek()[1] == "if":
                    b = [("expr", self.if_expr())]
                else:
                    self.expect("{")
                    b = self.block()
            return ("iflet", var, scrut, a, b)
        c = self.expr(no_struct=True)
        self.expect("{")
        a = self.block()
        b = []
        if self.eat("else"):
            if self.peek()[1] == "if":
                b = [("expr", self.if_expr())]
            else:
                self.expect("{")
                b = self.block()
        return ("if", c, a, b)

    def match_expr(self):
        self.expect("match")
        scrut = self.expr(no_struct=True)
        self.expect("{")
        arms = []
        while self.peek()[1] != "}":
            pat = []
            while self.peek()[1] != "=>":
                pat.append(self.take()[1])
            self.expect("=>")
            if self.eat("{"):
                body = self.block()
            else:
                body = [("tail", self.expr())]
            self.eat(",")
            arms.append(("".join(pat), body))
        self.expect("}")
        return ("match", scrut, arms)

    # ---- expressions (precedence climbing)
    PREC = [("||",), ("&&",), ("==", "!=", "<", ">", "<=", ">="), ("|",), ("&",), ("<<", ">>"), ("+", "-"), ("*", "/", "%")]

    def expr(self, no_struct=False, lvl=0):
        if lvl == len(self.PREC):
            return self.cast()
        e = self.expr(no_struct, lvl + 1)
        while self.peek()[0] == "op" and self.peek()[1] in self.PREC[lvl]:
            # `=` lookahead guards: `<=`/`>=`/`==` are single tokens already
            op = self.take()[1]
            r = self.expr(no_struct, lvl + 1)
            e = ("bin", op, e, r)
        return e

    def cast(self):
        e = self.unary()
        while self.peek() == ("id", "as"):
            self.take()
            ty = self.take()[1]
            e = ("cast", ty, e)
        return e

    def unary(self):
        k, v = self.peek()
        if v == "!":
            self.take()
            return ("not", self.unary())
        if v == "-":
            self.take()
            return ("neg", self.unary())
        if v == "*":
            self.take()
            return ("deref", self.unary())
        if v == "&":
            self.take()
            self.eat("mut")
            return self.unary()
        return self.postfix()

    def postfix(self):
        e = self.atom()
        while True:
            if self.eat("."):
                name = self.take()[1]
                if self.peek()[1] == "(":
                    self.take()
                    args = []
                    while self.peek()[1] != ")":
                        if self.peek()[1] == "|":          # closure |x| body
                            self.take()
                            var = self.take()[1]
                            self.expect("|")
                            args.append(("closure", var, self.expr()))
                        else:
                            args.append(self.expr())
                        self.eat(",")
                    self.expect(")")
                    e = ("call", name, e, args)
                else:
                    e = ("field", e, name)
            elif self.eat("?"):
                raise TErr("? operator")
            else:
                return e

    def atom(self):
        k, v = self.take()
        if k == "num":
            return ("num", v)
        if v == "(":
            e = self.expr()
            self.expect(")")
            return ("paren", e)
        if v == "if":
            self.i -= 1
            return self.if_expr()
        if v == "match":
            self.i -= 1
            return self.match_expr()
        if k == "id":
            if v.endswith("!"):
                self.expect("(")
                self.skip_balanced("(", ")")
                return ("string",)
            if self.peek()[1] == "(" :
                self.take()
                args = []
                while self.peek()[1] != ")":
                    args.append(self.expr())
                    self.eat(",")
                self.expect(")")
                return ("fcall", v, args)
            return ("var", v)
        raise TErr("unexpected token %r" % (v,))


# ------------------------------------------------------------------ symbolic execution -> Coq
class Ctx:
    def __init__(self, structs, consts, self_type):
        self.structs, self.consts, self.self_type = structs, consts, self_type
        self.params = []          # [(coq name, coq type)] in order of first use
        self.ptype = {}           # coq name -> rust type
        self.fresh = 0

    def field_type(self, path):
        ty = self.self_type
        for f in path:
            flds = self.structs.get(ty)
            if flds is None or f not in flds:
                return None
            ty = flds[f]
        return ty

    def use_field(self, path):
        name = "_".join(path)
        if name in getattr(self, "fn_param_names", ()):
            name = "self_" + name
        FIELD_PATHS[(id(self), name)] = list(path)
        rty = self.field_type(path)
        if rty is None:
            raise TErr("unknown field self.%s" % ".".join(path))
        if name not in self.ptype:
            self.ptype[name] = rty
            self.params.append((name, coq_type(rty)))
        return name, rty


def coq_type(rty):
    rty = rty.strip()
    if rty in INT_TYPES:
        return "Z"
    if rty == "bool":
        return "bool"
    m = re.match(r"Option<\s*(\w+)\s*>", rty)
    if m and m.group(1) in INT_TYPES:
        return "option Z"
    raise TErr("type %s not supported" % rty)


def num_lit(v):
    m = re.match(r"(\d[\d_]*)(?:_?(u8|u16|u32|u64|usize|i32|i64))?$", v)
    if not m:
        raise TErr("float literal %s" % v)
    return m.group(1).replace("_", ""), m.group(2)


SAT = {("saturating_sub", "u64"): "ssub", ("saturating_sub", "usize"): "ssub", ("saturating_sub", "u32"): "ssub",
       ("saturating_mul", "u64"): "sat_mul_u64", ("saturating_add", "u64"): "sat_add_u64",
       ("saturating_add", "u32"): "sat_add_u32", ("saturating_mul", "i32"): "sat_mul_i32",
       ("saturating_add", "i32"): "sat_add_i32"}


def sat_sub_i32(a, b):
    return "(sat_i32 (%s - %s))" % (a, b)


class Env:
    """variable -> (coq expr, rust type); also tracks assigned lvalues"""

    def __init__(self, ctx):
        self.ctx = ctx
        self.v = {}           # local / param name -> (expr, type)
        self.assigned = []    # ordered lvalue names (self fields / deref params)

    def copy(self):
        e = Env(self.ctx)
        e.v = dict(self.v)
        e.assigned = list(self.assigned)
        return e


def path_of(e):
    """self.a.b -> ['a','b'] or None"""
    p = []
    while e[0] == "field":
        p.append(e[2])
        e = e[1]
    if e == ("var", "self"):
        return list(reversed(p))
    return None


def ev(e, env):
    """-> (coq expr string, rust type)"""
    ctx = env.ctx
    k = e[0]
    if k == "paren":
        s, t = ev(e[1], env)
        return "(%s)" % s, t
    if k == "num":
        d, suf = num_lit(e[1])
        return d, suf
    if k == "var":
        n = e[1]
        if n in ("true", "false"):
            return n, "bool"
        if n in env.v:
            return env.v[n]
        base = n.split("::")[-1]
        if n.endswith("::MAX") or n.endswith("::MIN"):
            ty = n.split("::")[0]
            tab = {"i32::MIN": "i32_min", "i32::MAX": "i32_max", "u64::MAX": "u64_max"}
            if n in tab:
                return tab[n], ty
        if base in ctx.consts:
            return base, ctx.consts[base]
        if base == "None":
            return "None", "Option<?>"
        raise TErr("unknown identifier %s" % n)
    if k == "field":
        p = path_of(e)
        if p is not None:
            nm, rty = ctx.use_field(p)
            if nm in env.v:
                return env.v[nm]
            env.v[nm] = (nm, rty)
            return nm, rty
        raise TErr("field access on non-self")
    if k == "deref":
        return ev(e[1], env)
    if k == "not":
        s, t = ev(e[1], env)
        return "(negb %s)" % s, "bool"
    if k == "neg":
        s, t = ev(e[1], env)
        return "(- %s)" % s, t
    if k == "cast":
        s, t = ev(e[2], env)
        ty = e[1]
        if ty in INT_TYPES and (t in INT_TYPES or t is None):
            if t in ("u32", "u8", "u16", None) or ty == t or (t == "usize" and ty == "u64") or (t == "u32" and ty in ("u64", "usize", "i64")):
                return s, ty
            if t == "i32" and ty == "i64":
                return s, ty
            raise TErr("cast %s as %s" % (t, ty))
        raise TErr("cast to %s" % ty)
    if k == "bin":
        op, a, b = e[1], e[2], e[3]
        sa, ta = ev(a, env)
        sb, tb = ev(b, env)
        t = ta or tb
        if op in ("&&", "||"):
            return "(%s %s %s)" % (sa, op, sb), "bool"
        if op in ("==", "!=", "<", ">", "<=", ">="):
            if t == "bool":
                r = "(Bool.eqb %s %s)" % (sa, sb)
                return (r if op == "==" else "(negb %s)" % r), "bool"
            if t is not None and t.startswith("Option"):
                raise TErr("comparison on Option")
            tab = {"==": "(%s =? %s)", "!=": "(negb (%s =? %s))", "<": "(%s <? %s)", ">": "(%s <? %s)",
                   "<=": "(%s <=? %s)", ">=": "(%s <=? %s)"}
            if op in (">", ">="):
                sa, sb = sb, sa
            return tab[op] % (sa, sb), "bool"
        if op == "<<":
            return "(Z.shiftl %s %s)" % (sa, sb), t
        if op in ("+", "-", "*"):
            return "(%s %s %s)" % (sa, op, sb), t
        if op == "/":
            return "(Z.quot %s %s)" % (sa, sb), t
        raise TErr("operator %s" % op)
    if k == "call":
        name, recv, args = e[1], e[2], e[3]
        if name in ("is_some", "is_none", "is_none_or", "is_some_and", "copied", "clone"):
            sr, tr = ev(recv, env)
            if name in ("copied", "clone"):
                return sr, tr
            if name == "is_some":
                return "(match %s with Some _ => true | None => false end)" % sr, "bool"
            if name == "is_none":
                return "(match %s with Some _ => false | None => true end)" % sr, "bool"
            cl = args[0]
            if cl[0] != "closure":
                raise TErr("closure expected")
            inner = tr[tr.index("<") + 1:-1].strip() if tr and "<" in tr else "u64"
            env2 = env.copy()
            env2.v[cl[1]] = (cl[1], inner)
            sb, _ = ev(cl[2], env2)
            dflt = "true" if name == "is_none_or" else "false"
            return "(match %s with Some %s => %s | None => %s end)" % (sr, cl[1], sb, dflt), "bool"
        if recv == ("var", "self") and name in REGISTRY:
            callee = REGISTRY[name]
            if callee["outs"]:
                raise TErr("call to mutating method %s" % name)
            actual = []
            ai = 0
            for origin in callee["origins"]:
                if origin[0] == "field":
                    nm2, rty = ctx.use_field(origin[1])
                    if nm2 in env.v:
                        actual.append(env.v[nm2][0])
                    else:
                        env.v[nm2] = (nm2, rty)
                        actual.append(nm2)
                else:
                    actual.append("(%s)" % ev(args[origin[1]], env)[0])
            return "(leaf_%s %s)" % (callee["coq"], " ".join(actual)), callee["rtype"]
        if name == "is_empty":
            p = path_of(recv)
            if p is None:
                raise TErr("is_empty on non-field")
            nm = "_".join(p) + "_is_empty"
            FIELD_PATHS[(id(ctx), nm)] = list(p) + ["is_empty()"]
            if nm not in ctx.ptype:
                ctx.ptype[nm] = "bool"
                ctx.params.append((nm, "bool"))
            return nm, "bool"
        sr, tr = ev(recv, env)
        sargs = [ev(a, env) for a in args]
        if name in ("min", "max"):
            return "(Z.%s %s %s)" % (name, sr, sargs[0][0]), tr or sargs[0][1]
        if name == "saturating_sub" and tr == "i32":
            return sat_sub_i32(sr, sargs[0][0]), tr
        if (name, tr) in SAT:
            return "(%s %s %s)" % (SAT[(name, tr)], sr, sargs[0][0]), tr
        raise TErr("method %s on %s" % (name, tr))
    if k == "fcall":
        name, args = e[1].split("::")[-1], e[2]
        sargs = [ev(a, env) for a in args]
        if name in ("min", "max") and len(sargs) == 2:
            return "(Z.%s %s %s)" % (name, sargs[0][0], sargs[1][0]), sargs[0][1] or sargs[1][1]
        if name == "Some" and len(sargs) == 1:
            return "(Some %s)" % sargs[0][0], "Option<%s>" % (sargs[0][1] or "u64")
        raise TErr("call %s" % name)
    if k in ("if", "iflet", "match"):
        # expression-valued conditional without side effects
        r = run_block([("tail", e)], env.copy(), want_value=True)
        return r
    if k == "string":
        raise TErr("string value")
    raise TErr("expression kind %s" % k)


def lvalue_name(e, env):
    if e[0] == "deref":
        e = e[1]
    if e[0] == "var":
        return e[1]
    p = path_of(e)
    if p is not None:
        # make sure it is a known parameter with a type
        nm, rty = env.ctx.use_field(p)
        return nm
    raise TErr("lvalue")


def has_string(e):
    if not isinstance(e, tuple):
        return False
    if e and e[0] == "string":
        return True
    if e and e[0] == "fcall" and e[1].startswith("String"):
        return True
    return any(has_string(x) for x in e if isinstance(x, (tuple, list))) or \
        any(has_string(y) for x in e if isinstance(x, list) for y in x)


def state_tuple(env, names, ret):
    parts = [env.v.get(n, (n, None))[0] for n in names]
    if ret is not None:
        parts.append(ret)
    if not parts:
        return "tt"
    return parts[0] if len(parts) == 1 else "(" + ", ".join(parts) + ")"


def collect_assigned(stmts, env, acc):
    for s in stmts:
        if s[0] == "assign":
            n = lvalue_name(s[1], env)
            if n not in acc:
                acc.append(n)
        elif s[0] in ("expr", "tail", "exprstmt"):
            e = s[1]
            if e[0] == "if":
                collect_assigned(e[2], env, acc)
                collect_assigned(e[3], env, acc)
            elif e[0] == "iflet":
                collect_assigned(e[3], env, acc)
                collect_assigned(e[4], env, acc)
            elif e[0] == "match":
                for _, b in e[2]:
                    collect_assigned(b, env, acc)
    return acc


def run_stmts(stmts, env, outs, has_ret):
    """Translate a statement list into a Coq expression of the function's result type.
    outs: ordered names of mutated lvalues; has_ret: function returns a value."""
    if not stmts:
        if has_ret:
            raise TErr("fell off the end of a value-returning block")
        return state_tuple(env, outs, None)
    s, rest = stmts[0], stmts[1:]
    k = s[0]
    if k in ("skip",):
        return run_stmts(rest, env, outs, has_ret)
    if k == "let":
        if has_string(s[2]):
            return run_stmts(rest, env, outs, has_ret)
        se, te = ev(s[2], env)
        env.v[s[1]] = ("%s" % s[1], te)
        body = run_stmts(rest, env, outs, has_ret)
        return "(let %s := %s in %s)" % (s[1], se, body)
    if k == "assign":
        n = lvalue_name(s[1], env)
        se, te = ev(s[2], env)
        cur_t = env.v.get(n, (None, te))[1]
        env.fresh = getattr(env, "fresh", 0)
        env.ctx.fresh += 1
        tmp = "%s_%d" % (n, env.ctx.fresh)
        env.v[n] = (tmp, cur_t)
        body = run_stmts(rest, env, outs, has_ret)
        return "(let %s := %s in %s)" % (tmp, se, body)
    if k == "return":
        ret = None
        if s[1] is not None:
            ret = ev(s[1], env)[0]
        return state_tuple(env, outs, ret if has_ret else None)
    if k == "tail":
        e = s[1]
        if e[0] in ("if", "iflet", "match"):
            return run_cond(e, rest, env, outs, has_ret)
        if rest:
            raise TErr("tail expression followed by statements")
        se, _ = ev(e, env)
        return state_tuple(env, outs, se if has_ret else None)
    if k == "exprstmt":
        return run_stmts(rest, env, outs, has_ret)
    if k == "expr":
        return run_cond(s[1], rest, env, outs, has_ret)
    raise TErr("statement %s" % k)


def run_cond(e, rest, env, outs, has_ret):
    """a conditional followed by `rest`: each branch continues with rest (continuation copy)"""
    if e[0] == "if":
        c, _ = ev(e[1], env)
        a = run_stmts(list(e[2]) + list(rest), env.copy(), outs, has_ret)
        b = run_stmts(list(e[3]) + list(rest), env.copy(), outs, has_ret)
        return "(if %s then %s else %s)" % (c, a, b)
    if e[0] == "iflet":
        sc, tsc = ev(e[2], env)
        inner = tsc[tsc.index("<") + 1:-1].strip() if tsc and "<" in tsc else "u64"
        ea = env.copy()
        ea.v[e[1]] = (e[1], inner)
        a = run_stmts(list(e[3]) + list(rest), ea, outs, has_ret)
        b = run_stmts(list(e[4]) + list(rest), env.copy(), outs, has_ret)
        return "(match %s with Some %s => %s | None => %s end)" % (sc, e[1], a, b)
    if e[0] == "match":
        sc, tsc = ev(e[1], env)
        arms = []
        for pat, body in e[2]:
            en = env.copy()
            m = re.match(r"Some\((\w+)\)$", pat)
            if m:
                inner = tsc[tsc.index("<") + 1:-1].strip() if tsc and "<" in tsc else "u64"
                en.v[m.group(1)] = (m.group(1), inner)
                cp = "Some %s" % m.group(1)
            elif pat in ("None", "_"):
                cp = pat
            else:
                raise TErr("match pattern %s" % pat)
            arms.append("%s => %s" % (cp, run_stmts(list(body) + list(rest), en, outs, has_ret)))
        return "(match %s with %s end)" % (sc, " | ".join(arms))
    raise TErr("conditional kind")


def run_block(stmts, env, want_value):
    r = run_stmts(stmts, env, [], True)
    return r, None


def translate(coq_name, rel, impl, fn, srcs, structs, consts):
    src = srcs[rel]
    params, ret, body = find_fn(src, impl, fn)
    ctx = Ctx(structs, consts, impl)
    env = Env(ctx)
    fparams = []
    for p in [x.strip() for x in re.split(r",(?![^<]*>)", params) if x.strip()]:
        if p in ("&self", "&mut self", "self"):
            continue
        nm, ty = [x.strip() for x in p.split(":", 1)]
        nm = nm.replace("mut ", "").strip()
        ty = ty.replace("&mut ", "").replace("&", "").strip()
        if ty in ("str", "String") or nm.startswith("_"):
            continue
        fparams.append((nm, ty))
        env.v[nm] = (nm, ty)
    ctx.fn_param_names = [n for n, _ in fparams]
    stmts = P(tokenize(body)).block_from_start()
    outs = collect_assigned(stmts, env, [])
    # only lvalues that are parameters or self fields count as outputs (locals are lets)
    outs = [n for n in outs if n in ctx.ptype or n in [a for a, _ in fparams]]
    has_ret = bool(ret)
    expr = run_stmts(stmts, env, outs, has_ret)
    used = lambda n: re.search(r"\b%s\b" % re.escape(n), expr) is not None
    plist = [(n, t) for n, t in ctx.params]
    plist += [(n, coq_type(t)) for n, t in fparams if used(n) or n in outs]
    origins = []
    fnames = [n for n, _ in fparams]
    for n, _ in plist:
        if n in fnames:
            origins.append(("arg", fnames.index(n)))
        else:
            origins.append(("field", FIELD_PATHS[(id(ctx), n)]))
    REGISTRY[fn] = {"coq": coq_name, "origins": origins, "outs": outs, "rtype": ret or None}
    sig = " ".join("(%s : %s)" % (n, t) for n, t in plist)
    doc = "(* %s :: %s%s ; outputs: %s%s *)" % (rel, (impl + "::") if impl else "", fn,
                                               ", ".join(outs) or "-", (" + return value" if has_ret else ""))
    return "%s\nDefinition leaf_%s %s :=\n  %s.\n" % (doc, coq_name, sig, expr), {"params": [n for n, _ in plist], "outs": outs, "ret": has_ret}


def block_from_start(self):
    stmts = []
    while self.peek()[0] is not None:
        stmts.append(self.stmt())
    return stmts


P.block_from_start = block_from_start


def const_types():
    sys.path.insert(0, os.path.dirname(os.path.abspath(__file__)))
    import gen_constants as gc
    return {it[0]: it[1] for it in gc.collect_consts()}


def main():
    srcs = {}
    for _, rel, _, _ in LEAVES:
        if rel not in srcs:
            try:
                srcs[rel] = strip_comments(open(os.path.join(REPO, rel)).read())
            except OSError:
                srcs[rel] = ""
    extra = {}
    for rel in [CORE + "connection/mod.rs", CORE + "connection/reconnection.rs", CORE + "connection/congestion/mod.rs",
                CORE + "connection/rtt.rs", CORE + "connection/batch_send.rs", CORE + "connection/bitrate.rs",
                "src/sender/sequence.rs"]:
        try:
            extra[rel] = strip_comments(open(os.path.join(REPO, rel)).read())
        except OSError:
            pass
    structs = struct_fields(extra)
    consts = const_types()
    defs, meta, failed = {}, {}, {}
    for coq_name, rel, impl, fn in LEAVES:
        g = GROUP[coq_name]
        try:
            d, m = translate(coq_name, rel, impl, fn, srcs, structs, consts)
            defs.setdefault(g, []).append(d)
            m["group"] = g
            meta[coq_name] = m
        except (TErr, IndexError, KeyError, ValueError) as e:
            failed[coq_name] = "%s: %s" % (type(e).__name__, e)
            defs.setdefault(g, []).append("(* leaf_%s: NOT TRANSLATED (%s) *)\n" % (coq_name, str(e).replace("*)", "* )")))
    changed = []
    for g, ds in sorted(defs.items()):
        hdr = ("(* GENERATED by tools/gen_leaf.py from the Rust sources under %s on every run. Do not edit. *)\n"
               "From Coq Require Import ZArith Bool.\nFrom Srtla Require Import Base Constants.\nOpen Scope Z_scope.\n\n" % REPO)
        content = hdr + "\n".join(ds)
        out = os.path.join(OUTDIR, "Leaf%s.v" % g)
        try:
            same = open(out).read() == content
        except OSError:
            same = False
        if not same:
            os.makedirs(OUTDIR, exist_ok=True)
            open(out, "w").write(content)
            changed.append(g)
    json.dump({"translated": sorted(meta), "failed": failed, "meta": meta, "changed": changed}, sys.stdout, indent=1)
    print()


if __name__ == "__main__":
    main()
