#!/usr/bin/env python3
"""Leaf translator: Rust -> Gallina for small integer/boolean/Option functions.

For each function listed in LEAVES the Rust source text under /repo is parsed (statement
subset: let / let-else on Option / local const / assignment / compound assignment / if-else /
if-let / match on Option or a field-less enum / return / atomic store+load as field write/read /
calls to already translated functions / `use` and logging macros skipped; f64 values as Coq
primitive floats with the Rust f64 primitives of Model/Select.v) and symbolically executed into ONE Coq
expression; the result is written to coq/Gen/Leaf<Group>.v (GROUP table) as

    Definition leaf_<name> (<self fields read> <params>) : <result> := ...

where the result is the return value, or the tuple of final values of everything the
function assigns (plus the return value last).  Proofs/Leaf<Group>P.v proves each generated
definition equal to the hand-written model function the property theorems are about, so an
edit of the Rust function changes Gen/Leaf<Group>.v and breaks a named equivalence obligation at
once, before any generated input has to find it.

Semantics written out: u64/i32 `saturating_*` by the sat_* / ssub operators of Model/Base.v, `min`/`max`
by Z.min/Z.max, signed and unsigned `/` by Z.quot (equal to `/` on non-negative operands), `clamp`
by Base.clamp plus its assertion, `as` between integer types only where the value is unchanged,
`as` between f64 and integers by Select.f64_as_u64 / f64_as_i32 / f64_of_i32 / f64_of_u64, f64
comparisons by PrimFloat.ltb/leb/eqb (false on NaN, like Rust), `f64::max/min` by Select.f64_max/min.
Plain `+ - *` are the mathematical operations: an overflow (a debug-build panic) is not modelled
here; the hand models that care carry their own overflow flag.

Third batch (groups Reg, Trk, Batch, Crit, Cc, Cls): field-less enums become a generated Inductive with its
`_eqb` (variants by name, `match` on them, methods taking `self`, associated functions `T::f(..)`); `opt ==
Some(e)` / `== None`; let chains `if let Some(x) = e && c`; `& | % >>` (Z.land, Z.lor, Z.rem, Z.shiftr);
narrowing `as u32` = `mod 2^32`; f64 <-> u32 casts; `is_finite`; atomic `fetch_max/fetch_min/fetch_add` as
statements (max / min / wrapping sum stored); a call with outputs AND a value as the right-hand side of a
`let` or inside `Some(..)`.  Four things are NOT translated but made explicit instead of approximated: a byte
array / packet value is `tt` (its bytes are property C15's subject), so `Option<[u8; N]>` keeps "was one
produced"; `self.<array>.copy_from_slice(&<slice param>[lo..hi])` is an extra output `Some (lo, hi)`; of a
`&[u8]` parameter and of a `Vec` field only the length exists (`push` = +1); a listed untranslated method of
self (OPAQUE_EFFECTS) may only be the LAST effect of a path and becomes an extra output `call_<m> = Some
(arguments)`; `let e = &[mut] self.<array of struct>[i]` makes the function one of that single element
(`e_slot` = i is an output, the element's fields are inputs/outputs named `e_<field>`).

A function that cannot be translated (syntax outside the subset, missing) is reported in the
JSON summary under "failed"; check.py treats that like a broken obligation.
"""
import json
import os
import re
import sys

REPO = os.environ.get("VERIF_REPO", "/repo")
OUTDIR = os.path.join(os.path.dirname(os.path.abspath(__file__)), "..", "coq", "Gen")
GROUP = {"backoff_delay": "Recon", "should_attempt_reconnect": "Recon", "record_attempt": "Recon", "mark_success": "Recon",
         "needs_keepalive": "Live", "is_timed_out": "Live", "stall_probe_due": "Live", "needs_measurement": "Live",
         "needs_time_flush": "Live",
         "ack_classic": "Cong", "ack_enhanced": "Cong", "cong_handle_nak": "Cong", "ack_global": "Cong",
         "seq_is_expired": "Seq", "seq_is_valid": "Seq",
         "get_smooth_rtt_ms": "Stall", "effective_stall_stale_ms": "Stall", "is_stalled": "Stall",
         "update_stall_latch": "Stall", "stall_latched": "Stall", "clear_stall_latch": "Stall",
         "silence_pull_window_ms": "Stall", "is_briefly_silent": "Stall", "update_silence_pull": "Stall",
         "perform_window_recovery": "Recov", "cong_perform_window_recovery": "Recov",
         "conn_perform_window_recovery": "Recov",
         "set_conn_timeout_ms": "Cfg",
         "reg_handle_reg3": "Reg", "reg_handle_reg_err": "Reg", "reg_handle_reg_ngp": "Reg",
         "reg_clear_pending_if_timed_out": "Reg", "reg_build_reg1_for": "Reg", "reg_reg1_if_ngp_immediate": "Reg",
         "reg_handle_reg2": "Reg", "reg_driver_pending_sends": "Reg",
         "trk_insert": "Trk", "trk_get": "Trk",
         "crit_extend_to": "Crit", "crit_is_critical_now": "Crit",
         "cc_loss_permille": "Cc", "cc_update_backoff_efficacy": "Cc", "cc_observe_traffic": "Cc",
         "cc_pick_climb_mode": "Cc", "cc_update_rtt_min": "Cc",
         "cls_derive_max_delay_budget": "Cls", "cls_target_best_delay_ms": "Cls", "cls_target_safe_delay_ms": "Cls",
         "cls_target_max_delay_ms": "Cls", "cls_pick_tier": "Cls",
         "regime_from_bps": "Batch", "regime_batch_size": "Batch", "batch_queue_packet": "Batch",
         "batch_set_regime": "Batch", "conn_recompute_batch_regime": "Batch",
         "kalman_update": "Rtt", "kalman_reset": "Rtt", "ewma_update": "Rtt", "ewma_reset": "Rtt",
         "rtt_is_stable": "Rtt", "rtt_gradient_ms": "Rtt", "rtt_queue_building_suspected": "Rtt",
         "rtt_record_keepalive_sent": "Rtt"}
# groups with a canonical signature: parameters = the self fields read in struct declaration order, then the
# opaque getter inputs, then the Rust parameters in signature order; outputs in the same order.  (The four
# earlier groups keep the order of first use in the body, which the lemmas of Proofs/Leaf{Recon,Live,Cong,
# Seq}P.v are stated for.)  With a canonical order neither a reordering of reads in the body nor a swap of
# two same-typed arguments of a wrapper can move a parameter under the lemma that applies it by position.
CANONICAL_GROUPS = {"Rtt", "Stall", "Recov", "Cfg", "Reg", "Trk", "Batch", "Crit", "Cc", "Cls"}
# groups whose definitions may use f64 values (header additionally imports Floats, FConstants, Select)
FLOAT_GROUPS = {"Rtt", "Stall", "Recov", "Batch", "Cc", "Cls"}
CORE = "crates/srtla-core/src/"

# (coq name, file, impl type or None for a free fn, fn name)
LEAVES = [
    ("backoff_delay", CORE + "connection/reconnection.rs", "ReconnectionState", "backoff_delay"),
    ("should_attempt_reconnect", CORE + "connection/reconnection.rs", "ReconnectionState", "should_attempt_reconnect"),
    ("record_attempt", CORE + "connection/reconnection.rs", "ReconnectionState", "record_attempt"),
    ("mark_success", CORE + "connection/reconnection.rs", "ReconnectionState", "mark_success"),
    ("needs_keepalive", CORE + "connection/mod.rs", "SrtlaConnection", "needs_keepalive"),
    ("is_timed_out", CORE + "connection/mod.rs", "SrtlaConnection", "is_timed_out"),
    ("stall_probe_due", CORE + "connection/mod.rs", "SrtlaConnection", "stall_probe_due"),
    ("ack_classic", CORE + "connection/congestion/classic.rs", None, "handle_srtla_ack_specific"),
    ("ack_enhanced", CORE + "connection/congestion/enhanced.rs", None, "handle_srtla_ack"),
    ("cong_handle_nak", CORE + "connection/congestion/mod.rs", "CongestionControl", "handle_nak"),
    ("ack_global", CORE + "connection/ack_nak.rs", "SrtlaConnection", "handle_srtla_ack_global"),
    ("needs_measurement", CORE + "connection/rtt.rs", "RttTracker", "needs_measurement"),
    ("seq_is_expired", "src/sender/sequence.rs", "SequenceTrackingEntry", "is_expired"),
    ("seq_is_valid", "src/sender/sequence.rs", "SequenceTrackingEntry", "is_valid"),
    ("needs_time_flush", CORE + "connection/batch_send.rs", "BatchSender", "needs_time_flush"),
    # stall latch / silence pull (C03 C04 C11 C12 C13); helpers first, callers after
    ("get_smooth_rtt_ms", CORE + "connection/mod.rs", "SrtlaConnection", "get_smooth_rtt_ms"),
    ("effective_stall_stale_ms", CORE + "connection/mod.rs", "SrtlaConnection", "effective_stall_stale_ms"),
    ("is_stalled", CORE + "connection/mod.rs", "SrtlaConnection", "is_stalled"),
    ("update_stall_latch", CORE + "connection/mod.rs", "SrtlaConnection", "update_stall_latch"),
    ("stall_latched", CORE + "connection/mod.rs", "SrtlaConnection", "stall_latched"),
    ("clear_stall_latch", CORE + "connection/mod.rs", "SrtlaConnection", "clear_stall_latch"),
    ("silence_pull_window_ms", CORE + "connection/mod.rs", "SrtlaConnection", "silence_pull_window_ms"),
    ("is_briefly_silent", CORE + "connection/mod.rs", "SrtlaConnection", "is_briefly_silent"),
    ("update_silence_pull", CORE + "connection/mod.rs", "SrtlaConnection", "update_silence_pull"),
    # time-based window recovery (C06 C10): the rule, then the two wrappers that pass the fields to it
    ("perform_window_recovery", CORE + "connection/congestion/enhanced.rs", None, "perform_window_recovery"),
    ("cong_perform_window_recovery", CORE + "connection/congestion/mod.rs", "CongestionControl", "perform_window_recovery"),
    ("conn_perform_window_recovery", CORE + "connection/mod.rs", "SrtlaConnection", "perform_window_recovery"),
    # runtime timeout clamp (C18)
    ("set_conn_timeout_ms", "src/config.rs", "DynamicConfig", "set_conn_timeout_ms"),
    # ---- third batch ----
    # registration manager (C07); packet bytes are C15's subject: a produced packet is `tt`
    ("reg_handle_reg3", CORE + "registration/mod.rs", "SrtlaRegistrationManager", "handle_reg3"),
    ("reg_handle_reg_err", CORE + "registration/mod.rs", "SrtlaRegistrationManager", "handle_reg_err"),
    ("reg_handle_reg_ngp", CORE + "registration/mod.rs", "SrtlaRegistrationManager", "handle_reg_ngp"),
    ("reg_clear_pending_if_timed_out", CORE + "registration/mod.rs", "SrtlaRegistrationManager", "clear_pending_if_timed_out"),
    ("reg_build_reg1_for", CORE + "registration/mod.rs", "SrtlaRegistrationManager", "build_reg1_for"),
    ("reg_reg1_if_ngp_immediate", CORE + "registration/mod.rs", "SrtlaRegistrationManager", "reg1_if_ngp_immediate"),
    ("reg_handle_reg2", CORE + "registration/mod.rs", "SrtlaRegistrationManager", "handle_reg2"),
    ("reg_driver_pending_sends", CORE + "registration/mod.rs", "SrtlaRegistrationManager", "reg_driver_pending_sends"),
    # sequence tracker ring (C05): a function of the one element that is read / written (<local>_slot says which)
    ("trk_insert", "src/sender/sequence.rs", "SequenceTracker", "insert"),
    ("trk_get", "src/sender/sequence.rs", "SequenceTracker", "get"),
    # critical window (C10): atomics as plain fields
    ("crit_extend_to", CORE + "priority.rs", "CriticalWindow", "extend_to"),
    ("crit_is_critical_now", CORE + "priority.rs", "CriticalWindow", "is_critical_now"),
    # batch sender (C01): regime thresholds and the size-flush test
    ("regime_from_bps", CORE + "connection/batch_send.rs", "BatchRegime", "from_bps"),
    ("regime_batch_size", CORE + "connection/batch_send.rs", "BatchRegime", "batch_size"),
    ("batch_queue_packet", CORE + "connection/batch_send.rs", "BatchSender", "queue_packet"),
    ("batch_set_regime", CORE + "connection/batch_send.rs", "BatchSender", "set_regime"),
    ("conn_recompute_batch_regime", CORE + "connection/mod.rs", "SrtlaConnection", "recompute_batch_regime"),
    # per-link congestion controller (C16): the integer / comparison helpers around tick()
    ("cc_loss_permille", CORE + "selection/link_cc.rs", "LinkCongestionState", "loss_permille"),
    ("cc_update_backoff_efficacy", CORE + "selection/link_cc.rs", "LinkCongestionState", "update_backoff_efficacy"),
    ("cc_observe_traffic", CORE + "selection/link_cc.rs", "LinkCongestionState", "observe_traffic"),
    ("cc_pick_climb_mode", CORE + "selection/link_cc.rs", "LinkCongestionState", "pick_climb_mode"),
    ("cc_update_rtt_min", CORE + "selection/link_cc.rs", "LinkCongestionState", "update_rtt_min"),
    # weak-link classifier (C17): delay budget, the three tier targets, the tier cascade
    ("cls_derive_max_delay_budget", CORE + "selection/classifier.rs", None, "derive_max_delay_budget"),
    ("cls_target_best_delay_ms", CORE + "selection/classifier.rs", None, "target_best_delay_ms"),
    ("cls_target_safe_delay_ms", CORE + "selection/classifier.rs", None, "target_safe_delay_ms"),
    ("cls_target_max_delay_ms", CORE + "selection/classifier.rs", None, "target_max_delay_ms"),
    ("cls_pick_tier", CORE + "selection/classifier.rs", None, "pick_tier"),
    # fourth batch: the f64 smoothing path behind the RTT estimate (C14)
    ("kalman_update", CORE + "kalman.rs", "KalmanFilter", "update"),
    ("kalman_reset", CORE + "kalman.rs", "KalmanFilter", "reset"),
    ("ewma_update", CORE + "ewma.rs", "Ewma", "update"),
    ("ewma_reset", CORE + "ewma.rs", "Ewma", "reset"),
    ("rtt_record_keepalive_sent", CORE + "connection/rtt.rs", "RttTracker", "record_keepalive_sent"),
    ("rtt_gradient_ms", CORE + "connection/rtt.rs", "RttTracker", "rtt_gradient_ms"),
    ("rtt_is_stable", CORE + "connection/rtt.rs", "RttTracker", "is_stable"),
    ("rtt_queue_building_suspected", CORE + "connection/rtt.rs", "RttTracker", "queue_building_suspected"),
]

# leaves whose equivalence lemma mentions leaf_<name>_asserts: the definition is emitted even when the
# current body asserts nothing
ALWAYS_ASSERTS = {"set_conn_timeout_ms", "cls_derive_max_delay_budget"}
# getters of untranslated component types that are read as an *input* of the leaf (named
# <field path>_<getter>); everything else called on a component is a translation error
OPAQUE_GETTERS = {("KalmanFilter", "value"): "f64", ("KalmanFilter", "velocity"): "f64",
                  ("KalmanFilter", "is_initialized"): "bool", ("Ewma", "value"): "f64"}
# atomics: store/load with any ordering = plain write/read of a field of the underlying type
ATOMIC = {"AtomicU64": "u64", "AtomicU32": "u32", "AtomicI32": "i32", "AtomicBool": "bool", "AtomicUsize": "usize"}

INT_TYPES = {"u8", "u16", "u32", "u64", "usize", "i32", "i64"}
# field-less enums of the sources read (name -> [variants]); a value is a constructor of a generated Inductive
ENUMS = {}
DEFAULT_DERIVED = set()   # structs declared with #[derive(.. Default ..)]
# byte arrays / packets are not translated here (their bytes are property C15's subject, tools/gen_wire.py):
# a value of such a type is `tt : unit`, so `Option<[u8; N]>` keeps exactly "was a packet produced"
OPAQUE_FNS = {"create_reg1_packet": "bytes", "create_reg2_packet": "bytes"}
# methods of self that are not translated and may change any part of self: allowed only as the LAST effect
# of a path (followed by nothing or a bare `return;`); the call and its arguments become an explicit output
# `call_<name> : option (args)` (None on the paths that do not call it)
OPAQUE_EFFECTS = {("SrtlaRegistrationManager", "handle_probe_response"), ("LinkCongestionState", "record_loss")}
FIELD_PATHS = {}
REGISTRY = {}   # rust method name -> {coq, origins, outs, rtype} of already translated leaves


class TErr(Exception):
    pass


# ------------------------------------------------------------------ source handling
def strip_comments(src):
    out, i, n = [], 0, len(src)
    while i < n:
        if src.startswith("//", i):
            j = src.find("\n", i)
            i = n if j < 0 else j
        elif src.startswith("/*", i):
            j = src.find("*/", i + 2)
            i = n if j < 0 else j + 2
        elif src[i] == '"':
            j = i + 1
            while j < n and src[j] != '"':
                j += 2 if src[j] == "\\" else 1
            out.append('""')
            i = j + 1
        else:
            out.append(src[i])
            i += 1
    return "".join(out)


def match_brace(src, i):
    depth = 0
    j = i
    while j < len(src):
        if src[j] == "{":
            depth += 1
        elif src[j] == "}":
            depth -= 1
            if depth == 0:
                return j
        j += 1
    raise TErr("unbalanced braces")


def find_fn(src, impl, name):
    """Return (params text, return type text, body text)."""
    region = src
    if impl:
        spans = []
        for m in re.finditer(r"impl\s+(?:<[^>]*>\s*)?" + re.escape(impl) + r"\s*\{", src):
            e = match_brace(src, m.end() - 1)
            spans.append(src[m.end():e])
        if not spans:
            raise TErr("impl %s not found" % impl)
        region = "\n".join(spans)
    m = re.search(r"fn\s+" + re.escape(name) + r"\s*\(", region)
    if not m:
        raise TErr("fn %s not found" % name)
    # params up to matching paren
    i = m.end() - 1
    depth = 0
    j = i
    while j < len(region):
        if region[j] == "(":
            depth += 1
        elif region[j] == ")":
            depth -= 1
            if depth == 0:
                break
        j += 1
    params = region[i + 1:j]
    k = region.find("{", j)
    ret = region[j + 1:k].strip()
    ret = ret[2:].strip() if ret.startswith("->") else ""
    e = match_brace(region, k)
    return params, ret, region[k + 1:e]


def enum_variants(src_by_file):
    """field-less enums: name -> [variant, ..] in declaration order (enums with payloads are left out)"""
    out = {}
    for src in src_by_file.values():
        for m in re.finditer(r"\benum\s+(\w+)\s*\{", src):
            e = match_brace(src, m.end() - 1)
            body = re.sub(r"#\[[^\]]*\]", "", src[m.end():e])
            vs = [v.strip() for v in body.split(",") if v.strip()]
            if vs and all(re.match(r"[A-Za-z_]\w*$", v) for v in vs):
                out.setdefault(m.group(1), vs)
    return out


def enum_decl(name):
    vs = ENUMS[name]
    cs = " | ".join("%s_%s" % (name, v) for v in vs)
    eq = " | ".join("%s_%s, %s_%s" % (name, v, name, v) for v in vs)
    return ("(* enum %s of the Rust source, variants in declaration order *)\nInductive %s := %s.\n"
            "Definition %s_eqb (a b : %s) : bool :=\n  match a, b with %s => true | _, _ => false end.\n"
            % (name, name, cs, name, name, eq))


def struct_fields(src_by_file):
    """struct name -> {field: type}"""
    out = {}
    for src in src_by_file.values():
        for m in re.finditer(r"struct\s+(\w+)\s*\{", src):
            e = match_brace(src, m.end() - 1)
            body = src[m.end():e]
            body = re.sub(r"#\[[^\]]*\]", "", body)
            fields = {}
            for fm in re.finditer(r"(?:pub(?:\([a-z]+\))?\s+)?(\w+)\s*:\s*([^,\n]+?)\s*,", body + ","):
                fields.setdefault(fm.group(1), fm.group(2).strip())
            # a small fixed array of f64 (`p: [f64; 4]`) is its elements `p_0 .. p_3`, in place (declaration order
            # is what the canonical signatures sort by)
            expanded = {}
            for f, t in fields.items():
                am = re.match(r"\[\s*f64\s*;\s*(\d+)\s*\]$", t)
                if am and int(am.group(1)) <= 8:
                    SMALL_F64_ARRAYS.setdefault(m.group(1), {})[f] = int(am.group(1))
                    for i in range(int(am.group(1))):
                        expanded["%s_%d" % (f, i)] = "f64"
                else:
                    expanded[f] = t
            out.setdefault(m.group(1), {}).update(expanded)
    return out


SMALL_F64_ARRAYS = {}     # struct -> {field: N} for fields of type [f64; N], N <= 8


def split_top(s):
    """split at top-level commas"""
    parts, depth, cur = [], 0, ""
    for ch in s:
        if ch in "([{":
            depth += 1
        elif ch in ")]}":
            depth -= 1
        if ch == "," and depth == 0:
            parts.append(cur)
            cur = ""
        else:
            cur += ch
    if cur.strip():
        parts.append(cur)
    return [p.strip() for p in parts]


def desugar_small_arrays(body, impl):
    """`self.p[K]` -> `self.p_K`; `self.p = [e0, .., eN-1];` / `self.p = [e; N];` -> N element assignments (the
    element expressions must not read self.p, so that assigning one by one is what the array assignment does).
    Any other mention of self.p is an error."""
    for f, n in SMALL_F64_ARRAYS.get(impl or "", {}).items():
        while True:
            m = re.search(r"self\s*\.\s*%s\s*=\s*\[" % re.escape(f), body)
            if not m:
                break
            depth, j = 1, m.end()
            while depth:
                depth += {"[": 1, "]": -1}.get(body[j], 0)
                j += 1
            inner = body[m.end():j - 1]
            semi = re.match(r"\s*;", body[j:])
            if not semi:
                raise TErr("self.%s = [..] not followed by `;`" % f)
            rm = re.match(r"(.*);\s*(\d+)\s*$", inner, re.S)
            elems = [rm.group(1).strip()] * int(rm.group(2)) if rm else split_top(inner)
            if len(elems) != n:
                raise TErr("self.%s = [..] with %d elements for [f64; %d]" % (f, len(elems), n))
            if any(re.search(r"self\s*\.\s*%s\b" % re.escape(f), e) for e in elems):
                raise TErr("self.%s = [..] reads self.%s" % (f, f))
            body = body[:m.start()] + " ".join("self.%s_%d = %s;" % (f, i, e) for i, e in enumerate(elems)) + \
                body[j + semi.end():]
        body = re.sub(r"self\s*\.\s*%s\s*\[\s*(\d+)\s*\]" % re.escape(f),
                      lambda mm: ("self.%s_%s" % (f, mm.group(1))) if int(mm.group(1)) < n else mm.group(0), body)
        if re.search(r"self\s*\.\s*%s\b(?!_)" % re.escape(f), body):
            raise TErr("self.%s used other than as self.%s[<literal index>] or a whole-array assignment" % (f, f))
    return body


# ------------------------------------------------------------------ tokenizer / parser
TOK = re.compile(r"\s*(?:(\"\")|(\d[\d_]*(?:\.\d+)?(?:[eE][-+]?\d+)?(?:_?(?:u8|u16|u32|u64|usize|i32|i64|f64))?)|"
                 r"([A-Za-z_][A-Za-z0-9_]*(?:::[A-Za-z_][A-Za-z0-9_]*)*!?)|"
                 r"(<<|>>|&&|\|\||==|!=|<=|>=|\+=|-=|\*=|=>|->|[-+*/%<>=!&|(){}\[\];,.:?]))")


def tokenize(s):
    toks, pos = [], 0
    s = s.strip()
    while pos < len(s):
        m = TOK.match(s, pos)
        if not m or m.end() == pos:
            raise TErr("cannot tokenize near %r" % s[pos:pos + 30])
        pos = m.end()
        if m.group(1):
            toks.append(("str", '""'))
        elif m.group(2):
            toks.append(("num", m.group(2)))
        elif m.group(3):
            toks.append(("id", m.group(3)))
        else:
            toks.append(("op", m.group(4)))
    return toks


class P:
    def __init__(self, toks):
        self.t, self.i = toks, 0

    def peek(self, k=0):
        return self.t[self.i + k] if self.i + k < len(self.t) else (None, None)

    def take(self):
        x = self.t[self.i]
        self.i += 1
        return x

    def eat(self, v):
        if self.peek()[1] == v:
            self.i += 1
            return True
        return False

    def expect(self, v):
        if not self.eat(v):
            raise TErr("expected %r, got %r" % (v, self.peek()))

    # ---- statements
    def block(self):
        """parse `{ stmts }` already positioned after '{'; returns list of stmts"""
        stmts = []
        while self.peek()[1] != "}" and self.peek()[0] is not None:
            stmts.append(self.stmt())
        self.expect("}")
        return stmts

    def skip_balanced(self, open_, close):
        depth = 1
        while depth:
            k, v = self.take()
            if v == open_:
                depth += 1
            elif v == close:
                depth -= 1

    def stmt(self):
        k, v = self.peek()
        if k == "id" and v.endswith("!"):            # macro statement
            self.take()
            self.expect("(")
            self.skip_balanced("(", ")")
            self.eat(";")
            return ("skip",)
        if v == "use":                                # `use path::{A, B};` inside a body: names only
            while self.take()[1] != ";":
                pass
            return ("skip",)
        if v in ("let", "const"):
            self.take()
            self.eat("mut")
            if v == "let" and self.peek()[1] == "Some" and self.peek(1)[1] == "(":
                # let-else: `let Some(x) = e else { <diverging block> };`
                self.take()
                self.expect("(")
                var = self.take()[1]
                self.expect(")")
                self.expect("=")
                e = self.expr(no_struct=True)
                if not self.eat("else"):
                    raise TErr("refutable let pattern without else")
                self.expect("{")
                b = self.block()
                self.expect(";")
                return ("letelse", var, e, b)
            name = self.take()[1]
            if self.eat(":"):
                while self.peek()[1] not in ("=", ";"):
                    self.take()
            self.expect("=")
            e = self.expr()
            if self.eat("else"):
                raise TErr("let-else on a pattern other than Some(x)")
            self.expect(";")
            return ("let", name, e)
        if v == "return":
            self.take()
            e = None if self.peek()[1] == ";" else self.expr()
            self.eat(";")
            return ("return", e)
        if v == "if":
            e = self.if_expr()
            self.eat(";")
            return ("expr", e)
        if v == "match":
            e = self.match_expr()
            self.eat(";")
            return ("expr", e)
        # assignment or expression statement
        e = self.expr()
        k2, v2 = self.peek()
        if v2 in ("=", "+=", "-=", "*="):
            self.take()
            if v2 == "=" and self.peek()[0] == "id" and self.peek()[1][:1].isupper() and self.peek(1)[1] == "{":
                # struct literal `T { a, b: e }` (only as the whole right-hand side of an assignment)
                tname = self.take()[1]
                self.take()
                flds = []
                while self.peek()[1] != "}":
                    fn_ = self.take()[1]
                    flds.append((fn_, self.expr() if self.eat(":") else ("var", fn_)))
                    self.eat(",")
                self.expect("}")
                self.expect(";")
                return ("assign", e, ("structlit", tname, flds))
            rhs = self.expr()
            self.expect(";")
            if v2 != "=":
                rhs = ("bin", v2[0], e, rhs)
            return ("assign", e, rhs)
        if self.eat(";"):
            return ("exprstmt", e)
        return ("tail", e)

    def if_expr(self):
        self.expect("if")
        if self.eat("let"):
            # if let Some(x) = e { A } else { B }
            pat = self.take()[1]
            if pat != "Some":
                raise TErr("if-let pattern %s" % pat)
            self.expect("(")
            var = self.take()[1]
            self.expect(")")
            self.expect("=")
            # the scrutinee of a `let` in a condition binds tighter than `&&` (let chains):
            # `if let Some(x) = e && c { A } else { B }` = match e { Some(x) => if c { A } else { B }, None => B }
            scrut = self.expr(no_struct=True, lvl=2)
            chain = None
            if self.eat("&&"):
                if self.peek()[1] == "let":
                    raise TErr("second `let` in a let chain")
                chain = self.expr(no_struct=True, lvl=1)
            if self.peek()[1] == "||":
                raise TErr("`||` after a `let` condition")
            self.expect("{")
            a = self.block()
            b = []
            if self.eat("else"):
                if self.peek()[1] == "if":
                    b = [("expr", self.if_expr())]
                else:
                    self.expect("{")
                    b = self.block()
            if chain is not None:
                a = [("expr", ("if", chain, a, b))]
            return ("iflet", var, scrut, a, b)
        c = self.expr(no_struct=True)
        self.expect("{")
        a = self.block()
        b = []
        if self.eat("else"):
            if self.peek()[1] == "if":
                b = [("expr", self.if_expr())]
            else:
                self.expect("{")
                b = self.block()
        return ("if", c, a, b)

    def match_expr(self):
        self.expect("match")
        scrut = self.expr(no_struct=True)
        self.expect("{")
        arms = []
        while self.peek()[1] != "}":
            pat = []
            while self.peek()[1] != "=>":
                pat.append(self.take()[1])
            self.expect("=>")
            if self.eat("{"):
                body = self.block()
            else:
                body = [("tail", self.expr())]
            self.eat(",")
            arms.append(("".join(pat), body))
        self.expect("}")
        return ("match", scrut, arms)

    # ---- expressions (precedence climbing)
    PREC = [("||",), ("&&",), ("==", "!=", "<", ">", "<=", ">="), ("|",), ("&",), ("<<", ">>"), ("+", "-"), ("*", "/", "%")]

    def expr(self, no_struct=False, lvl=0):
        if lvl == len(self.PREC):
            return self.cast()
        e = self.expr(no_struct, lvl + 1)
        while self.peek()[0] == "op" and self.peek()[1] in self.PREC[lvl]:
            # `=` lookahead guards: `<=`/`>=`/`==` are single tokens already
            op = self.take()[1]
            r = self.expr(no_struct, lvl + 1)
            e = ("bin", op, e, r)
        return e

    def cast(self):
        e = self.unary()
        while self.peek() == ("id", "as"):
            self.take()
            ty = self.take()[1]
            e = ("cast", ty, e)
        return e

    def unary(self):
        k, v = self.peek()
        if v == "!":
            self.take()
            return ("not", self.unary())
        if v == "-":
            self.take()
            return ("neg", self.unary())
        if v == "*":
            self.take()
            return ("deref", self.unary())
        if v == "&":
            self.take()
            self.eat("mut")
            return self.unary()
        return self.postfix()

    def postfix(self):
        e = self.atom()
        while True:
            if self.peek()[1] == "." and self.peek(1)[1] == ".":
                return e                                   # `lo..hi`: the range belongs to the enclosing `[ ]`
            if self.peek()[1] == "[":
                self.take()
                lo = self.expr()
                if self.eat("]"):
                    e = ("index", e, lo)
                    continue
                if not (self.eat(".") and self.eat(".")):
                    raise TErr("indexing other than [i] or a range [lo..hi]")
                hi = self.expr()
                self.expect("]")
                e = ("slice", e, lo, hi)
                continue
            if self.eat("."):
                name = self.take()[1]
                if self.peek()[1] == "(":
                    self.take()
                    args = []
                    while self.peek()[1] != ")":
                        if self.peek()[1] == "|":          # closure |x| body
                            self.take()
                            var = self.take()[1]
                            self.expect("|")
                            args.append(("closure", var, self.expr()))
                        else:
                            args.append(self.expr())
                        self.eat(",")
                    self.expect(")")
                    e = ("call", name, e, args)
                else:
                    e = ("field", e, name)
            elif self.eat("?"):
                raise TErr("? operator")
            else:
                return e

    def atom(self):
        k, v = self.take()
        if k == "num":
            return ("num", v)
        if k == "str":
            return ("string",)
        if v == "(":
            e = self.expr()
            if self.peek()[1] == ",":
                items = [e]
                while self.eat(","):
                    if self.peek()[1] == ")":
                        break
                    items.append(self.expr())
                self.expect(")")
                return ("tuple", items)
            self.expect(")")
            return ("paren", e)
        if v == "if":
            self.i -= 1
            return self.if_expr()
        if v == "match":
            self.i -= 1
            return self.match_expr()
        if k == "id":
            if v.endswith("!"):
                self.expect("(")
                self.skip_balanced("(", ")")
                return ("string",)
            if self.peek()[1] == "(" :
                self.take()
                args = []
                while self.peek()[1] != ")":
                    args.append(self.expr())
                    self.eat(",")
                self.expect(")")
                return ("fcall", v, args)
            return ("var", v)
        raise TErr("unexpected token %r" % (v,))


# ------------------------------------------------------------------ symbolic execution -> Coq
class Ctx:
    def __init__(self, structs, consts, self_type):
        self.structs, self.consts, self.self_type = structs, consts, self_type
        self.params = []          # [(coq name, coq type)] in order of first use
        self.ptype = {}           # coq name -> rust type
        self.fresh = 0
        self.asserts = []         # closed boolean conditions the Rust code asserts (Ord::clamp: min <= max)
        self.notes = []           # remarks for the generated comment (opaque inputs, float representation)
        self.tail_types = []      # rust types of the values produced by tail / return expressions
        self.uses_float = False
        self.local_names = set()  # Coq names of the locals bound so far
        self.used_enums = set()   # enums whose Inductive the group file must declare
        self.pseudo = {}          # pseudo outputs (opaque calls, byte-array copies): name -> initial value
        self.slot_keys = {}       # <slot local>_<field> -> canonical sort key
        self.local_structs = {}   # local built by `T::default()` -> T
        self.slot_len = {}        # slot local -> array length as written in the field's type
        self.slot_base = {}       # slot local -> index path of the array field

    def field_type(self, path):
        ty = self.self_type
        for f in path:
            flds = self.structs.get(ty)
            if flds is None or f not in flds:
                return None
            ty = flds[f]
        return ty

    def use_field(self, path, atomic=False):
        name = "_".join(path)
        if name in getattr(self, "fn_param_names", ()):
            name = "self_" + name
        FIELD_PATHS[(id(self), name)] = list(path)
        rty = self.field_type(path)
        if rty is None:
            raise TErr("unknown field self.%s" % ".".join(path))
        if atomic:
            m = re.match(r"(?:Arc<\s*)?(Atomic\w+)\s*>?$", rty)
            if not m or m.group(1) not in ATOMIC:
                raise TErr("load/store on self.%s of type %s" % (".".join(path), rty))
            rty = ATOMIC[m.group(1)]
            self.atomic_names = getattr(self, "atomic_names", set()) | {name}
            note = "atomic %s read/written as a plain %s" % (name, rty)
            if note not in self.notes:
                self.notes.append(note)
        if name not in self.ptype:
            if name in self.local_names:
                raise TErr("self.%s is first read after a local of the same name was bound" % ".".join(path))
            self.ptype[name] = rty
            self.params.append((name, coq_type(rty)))
        return name, rty


def norm_type(rty):
    """`[u8; N]` -> bytes, `[u8]` -> slice (inside Option<..> too)"""
    rty = re.sub(r"\[\s*u8\s*;[^\]]*\]", "bytes", rty.strip())
    return re.sub(r"\[\s*u8\s*\]", "slice", rty)


def coq_type(rty):
    rty = norm_type(rty)
    if rty == "Self":
        raise TErr("type Self outside an enum impl")
    if rty in ENUMS:
        return rty
    if rty == "bytes":
        return "unit"
    if rty == "Option<bytes>":
        return "option unit"
    if rty in INT_TYPES:
        return "Z"
    if rty == "bool":
        return "bool"
    if rty == "f64":
        return "float"
    m = re.match(r"Option<\s*(\w+)\s*>", rty)
    if m and m.group(1) in INT_TYPES:
        return "option Z"
    raise TErr("type %s not supported" % rty)


def num_lit(v):
    m = re.match(r"(\d[\d_]*)(?:_?(u8|u16|u32|u64|usize|i32|i64))?$", v)
    if not m:
        f = re.match(r"(\d[\d_]*(?:\.\d+)?(?:[eE][-+]?\d+)?)(?:_?f64)?$", v)
        if not f:
            raise TErr("numeric literal %s" % v)
        # f64 literal: correctly rounded by Python exactly as rustc does, written in hex (exact)
        return "%s%%float" % float(f.group(1).replace("_", "")).hex(), "f64"
    return m.group(1).replace("_", ""), m.group(2)


def is_const_expr(e, ctx):
    """expression built from literals and Rust consts only"""
    if e[0] == "num":
        return True
    if e[0] == "paren":
        return is_const_expr(e[1], ctx)
    if e[0] == "var":
        return e[1].split("::")[-1] in ctx.consts
    if e[0] == "bin":
        return is_const_expr(e[2], ctx) and is_const_expr(e[3], ctx)
    return False


FCMP = {"==": "(PrimFloat.eqb %s %s)", "!=": "(negb (PrimFloat.eqb %s %s))", "<": "(PrimFloat.ltb %s %s)",
        ">": "(PrimFloat.ltb %s %s)", "<=": "(PrimFloat.leb %s %s)", ">=": "(PrimFloat.leb %s %s)"}
FARITH = {"+": "PrimFloat.add", "-": "PrimFloat.sub", "*": "PrimFloat.mul", "/": "PrimFloat.div"}
# `as` between f64 and integers: the Rust f64 primitives of Model/Select.v (truncating, saturating, NaN -> 0;
# int -> f64 round to nearest even)
FCAST = {("f64", "u64"): "Select.f64_as_u64", ("f64", "i32"): "Select.f64_as_i32",
         ("i32", "f64"): "Select.f64_of_i32", ("u64", "f64"): "Select.f64_of_u64"}


SAT = {("saturating_sub", "u64"): "ssub", ("saturating_sub", "usize"): "ssub", ("saturating_sub", "u32"): "ssub",
       ("saturating_mul", "u64"): "sat_mul_u64", ("saturating_add", "u64"): "sat_add_u64",
       ("saturating_add", "u32"): "sat_add_u32", ("saturating_mul", "i32"): "sat_mul_i32",
       ("saturating_add", "i32"): "sat_add_i32",
       ("saturating_add", "usize"): "sat_add_u64", ("saturating_mul", "usize"): "sat_mul_u64"}   # usize = 64 bits (harness target)


def sat_sub_i32(a, b):
    return "(sat_i32 (%s - %s))" % (a, b)


class Env:
    """variable -> (coq expr, rust type); also tracks assigned lvalues"""

    def __init__(self, ctx):
        self.ctx = ctx
        self.v = {}           # local / param name -> (expr, type)
        self.assigned = []    # ordered lvalue names (self fields / deref params)

    def copy(self):
        e = Env(self.ctx)
        e.v = dict(self.v)
        e.assigned = list(self.assigned)
        return e

    # Current values of self fields live under the key "self.<name>", apart from locals and parameters:
    # a local that happens to be called like a field (`let window = ..`, `let Some(last_received) = ..`)
    # must not be read back as the field.
    def key(self, n):
        return "self." + n if n in self.ctx.ptype else n

    def cur(self, n, default=None):
        return self.v.get(self.key(n), default)

    def setcur(self, n, val):
        self.v[self.key(n)] = val

    def bind(self, name, ty):
        """bind a local; returns its Coq name (renamed when it would capture a self-field parameter)"""
        coq = name + "_loc" if name in self.ctx.ptype else name
        self.ctx.local_names.add(coq)
        self.v[name] = (coq, ty)
        return coq


def path_of(e):
    """self.a.b -> ['a','b'] or None"""
    p = []
    while e[0] == "field":
        p.append(e[2])
        e = e[1]
    if e == ("var", "self"):
        return list(reversed(p))
    return None


def strip_paren(e):
    while e[0] == "paren":
        e = e[1]
    return e


def is_some_or_none(e):
    return (e[0] == "var" and e[1] == "None") or (e[0] == "fcall" and e[1] == "Some" and len(e[2]) == 1)


def is_ordering(e):
    return e[0] == "var" and e[1].split("::")[0] == "Ordering" and "::" in e[1]


def slot_of(e, env):
    """`entry` / `*entry` where `let entry = &[mut] self.<array of T>[i]` -> (local name, T) ; else None"""
    while e[0] in ("deref", "paren"):
        e = e[1]
    if e[0] == "var" and (env.v.get(e[1], (None, None))[1] or "").startswith("slot:"):
        return e[1], env.v[e[1]][1].split(":")[1]
    return None


def slot_field(env, sname, f):
    """field f of the array element a slot local refers to: an input/output named <local>_<f>"""
    ctx = env.ctx
    T = env.v[sname][1].split(":")[1]
    if f not in ctx.structs.get(T, {}):
        raise TErr("struct %s has no field %s" % (T, f))
    nm = "%s_%s" % (sname, f)
    if nm not in ctx.ptype:
        if nm in ctx.local_names or nm in getattr(ctx, "fn_param_names", ()):
            raise TErr("name clash on %s" % nm)
        ctx.ptype[nm] = ctx.structs[T][f]
        ctx.params.append((nm, coq_type(ctx.structs[T][f])))
        ctx.slot_keys[nm] = ctx.slot_base[sname] + (list(ctx.structs[T]).index(f),)
        FIELD_PATHS[(id(ctx), nm)] = ["<slot %s>" % sname, f]
    return nm, ctx.ptype[nm]


def vec_field(ctx, path):
    return re.match(r"Vec<", ctx.field_type(path) or "") is not None


def vec_len_name(ctx, path):
    """a `Vec<_>` field is represented by its length only: input/output <path>_len"""
    nm = "_".join(path) + "_len"
    if "_".join(path) + "_is_empty" in ctx.ptype:
        raise TErr("self.%s: both is_empty() and len()/push() in one function" % ".".join(path))
    FIELD_PATHS[(id(ctx), nm)] = list(path) + ["len()"]
    if nm not in ctx.ptype:
        ctx.ptype[nm] = "usize"
        ctx.params.append((nm, "Z"))
        ctx.notes.append("%s = self.%s.len(): of a Vec only the length is translated (push = +1, the element pushed is not)"
                         % (nm, ".".join(path)))
    return nm


def find_callee(recv, name, ctx):
    """`self.m(..)` or `self.<component path>.m(..)` where m is an already translated method of the
    receiver's type -> (registry entry, component path)"""
    p = [] if recv == ("var", "self") else path_of(recv)
    if p is None:
        return None
    ty = ctx.self_type if not p else ctx.field_type(p)
    callee = REGISTRY.get((ty, name))
    return (callee, p) if callee is not None else None


def find_free_callee(qualified):
    parts = qualified.split("::")
    if len(parts) > 1 and (parts[-2], parts[-1]) in REGISTRY:
        # associated function `Type::f(..)` without a receiver (all its inputs are arguments)
        callee = REGISTRY[(parts[-2], parts[-1])]
        if all(o[0] == "arg" for o in callee["origins"]):
            return callee
        return None
    callee = REGISTRY.get((None, parts[-1]))
    if callee is None:
        return None
    if len(parts) > 1 and parts[-2] not in ("self", "super", "crate") and \
            os.path.splitext(os.path.basename(callee["file"]))[0] != parts[-2]:
        raise TErr("call %s does not name the translated %s" % (qualified, callee["file"]))
    return callee


def call_actuals(callee, base, args, env):
    """Coq actual parameters of a call to a translated function: its self-field inputs are read from the
    caller's current state (relative to the component path `base`), its Rust parameters from `args`."""
    ctx = env.ctx
    if len(args) != callee["nparams"]:
        raise TErr("call of %s with %d arguments" % (callee["coq"], len(args)))
    actual = []
    for origin in callee["origins"]:
        if origin[0] == "this":
            if base is None:
                raise TErr("method of an enum value called without a receiver")
            actual.append(ev(field_expr(base), env)[0])         # the enum value itself: the receiver field
        elif origin[0] == "field":
            if base is None:
                raise TErr("free function with self inputs")
            if origin[1][-1].endswith("()"):
                # an opaque-getter input of the callee is the same getter on the caller's component
                comp = list(base) + list(origin[1][:-1])
                actual.append(ev(("call", origin[1][-1][:-2], field_expr(comp), []), env)[0])
                continue
            nm2, rty = ctx.use_field(list(base) + list(origin[1]), atomic=origin[2])
            if env.cur(nm2) is not None:
                actual.append(env.cur(nm2)[0])
            else:
                env.setcur(nm2, (nm2, rty))
                actual.append(nm2)
        else:
            actual.append("(%s)" % ev(args[origin[1]], env)[0])
    return actual


def field_expr(path):
    e = ("var", "self")
    for f in path:
        e = ("field", e, f)
    return e


def ev(e, env):
    """-> (coq expr string, rust type)"""
    ctx = env.ctx
    k = e[0]
    if k == "paren":
        s, t = ev(e[1], env)
        return "(%s)" % s, t
    if k == "num":
        d, suf = num_lit(e[1])
        return d, suf
    if k == "var":
        n = e[1]
        if n in ("true", "false"):
            return n, "bool"
        if n in env.v:
            if env.v[n][1] == "slice":
                raise TErr("slice %s used as a value" % n)
            if (env.v[n][1] or "").startswith("localstruct:"):
                # a local struct value is the tuple of its fields in declaration order
                T = env.v[n][1].split(":")[1]
                return "(" + ", ".join(env.v["%s_%s" % (n, f)][0] for f in ctx.structs[T]) + ")", T
            return env.v[n]
        base = n.split("::")[-1]
        if n.endswith("::MAX") or n.endswith("::MIN"):
            ty = n.split("::")[0]
            tab = {"i32::MIN": "i32_min", "i32::MAX": "i32_max", "u64::MAX": "u64_max", "u32::MAX": "(two32 - 1)"}
            if n in tab:
                return tab[n], ty
        if "::" in n:
            en = n.split("::")[-2]
            en = ctx.self_type if en == "Self" else en
            if en in ENUMS and len(n.split("::")) == 2:
                if base not in ENUMS[en]:
                    raise TErr("enum %s has no variant %s" % (en, base))
                ctx.used_enums.add(en)
                return "%s_%s" % (en, base), en
        if base in ctx.consts:
            return base, ctx.consts[base]
        if base == "None":
            return "None", "Option<?>"
        raise TErr("unknown identifier %s" % n)
    if k == "field":
        p = path_of(e)
        if p is not None:
            nm, rty = ctx.use_field(p)
            if env.cur(nm) is not None:
                return env.cur(nm)
            env.setcur(nm, (nm, rty))
            return nm, rty
        if e[1][0] == "var" and (env.v.get(e[1][1], (None, None))[1] or "").startswith("localstruct:"):
            T = env.v[e[1][1]][1].split(":")[1]
            if e[2] not in ctx.structs[T]:
                raise TErr("struct %s has no field %s" % (T, e[2]))
            return env.v["%s_%s" % (e[1][1], e[2])]
        if slot_of(e[1], env) is not None:
            nm, rty = slot_field(env, slot_of(e[1], env)[0], e[2])
            if env.cur(nm) is not None:
                return env.cur(nm)
            env.setcur(nm, (nm, rty))
            return nm, rty
        raise TErr("field access on non-self")
    if k == "deref":
        return ev(e[1], env)
    if k == "not":
        s, t = ev(e[1], env)
        return "(negb %s)" % s, "bool"
    if k == "neg":
        s, t = ev(e[1], env)
        if t == "f64":
            return "(PrimFloat.opp %s)" % s, t
        return "(- %s)" % s, t
    if k == "cast":
        s, t = ev(e[2], env)
        ty = e[1]
        if (t, ty) == ("f64", "u32"):
            # truncating, saturating, NaN -> 0 like `as u64`, with the smaller ceiling: min(u32::MAX, x as u64)
            ctx.uses_float = True
            return "(Z.min (two32 - 1) (Select.f64_as_u64 %s))" % s, ty
        if (t, ty) == ("u32", "f64"):
            ctx.uses_float = True
            return "(Select.f64_of_u64 %s)" % s, ty      # exact: every u32 is a u64 below 2^53
        if (t, ty) in FCAST:
            ctx.uses_float = True
            return "(%s %s)" % (FCAST[(t, ty)], s), ty
        if ty == "f64" and t == "f64":
            return s, ty
        if ty in INT_TYPES and (t in INT_TYPES or t is None):
            if t in ("u32", "u8", "u16", None) or ty == t or (t == "usize" and ty == "u64") or (t == "u32" and ty in ("u64", "usize", "i64")):
                return s, ty
            if t == "i32" and ty == "i64":
                return s, ty
            if ty == "u32" and t in ("u64", "usize", "i32", "i64"):
                return "(%s mod two32)" % s, ty          # `as u32` keeps the low 32 bits (two's complement for a negative value)
            if ty in ("u64", "usize") and t in ("u64", "usize"):
                return s, ty
            raise TErr("cast %s as %s" % (t, ty))
        raise TErr("cast to %s" % ty)
    if k == "bin":
        op, a, b = e[1], e[2], e[3]
        sa, ta = ev(a, env)
        sb, tb = ev(b, env)
        t = ta or tb
        if op in ("&&", "||"):
            return "(%s %s %s)" % (sa, op, sb), "bool"
        if "f64" in (ta, tb):
            if not (ta in ("f64", None) and tb in ("f64", None)):
                raise TErr("operator %s on %s and %s" % (op, ta, tb))
            ctx.uses_float = True
            if op in FCMP:
                if op in (">", ">="):
                    sa, sb = sb, sa
                return FCMP[op] % (sa, sb), "bool"
            if op in FARITH:
                return "(%s %s %s)" % (FARITH[op], sa, sb), "f64"
            raise TErr("operator %s on f64" % op)
        if op in ("==", "!=", "<", ">", "<=", ">="):
            if t == "bool":
                r = "(Bool.eqb %s %s)" % (sa, sb)
                return (r if op == "==" else "(negb %s)" % r), "bool"
            if ta in ENUMS or tb in ENUMS:
                if ta != tb or op not in ("==", "!="):
                    raise TErr("operator %s on %s and %s" % (op, ta, tb))
                ctx.used_enums.add(ta)
                r = "(%s_eqb %s %s)" % (ta, sa, sb)
                return (r if op == "==" else "(negb %s)" % r), "bool"
            if (ta or "").startswith("Option") or (tb or "").startswith("Option"):
                # `opt == Some(e)` / `opt == None` (either side); anything else is outside the subset
                if op not in ("==", "!="):
                    raise TErr("ordering comparison on Option")
                x, y = (a, b) if strip_paren(b)[0] in ("fcall", "var") and is_some_or_none(strip_paren(b)) else (b, a)
                y = strip_paren(y)
                if not is_some_or_none(y):
                    raise TErr("comparison of two Option values")
                sx, tx = ev(x, env)
                if not ((tx or "").startswith("Option<") and tx[7:-1].strip() in INT_TYPES):
                    raise TErr("comparison on %s" % tx)
                if y[0] == "var":
                    r = "(match %s with Some _ => false | None => true end)" % sx
                else:
                    env2 = env.copy()
                    ctx.fresh += 1
                    cv = "o_%d" % ctx.fresh
                    sy, _ = ev(y[2][0], env)
                    r = "(match %s with Some %s => (%s =? %s) | None => false end)" % (sx, cv, cv, sy)
                return (r if op == "==" else "(negb %s)" % r), "bool"
            tab = {"==": "(%s =? %s)", "!=": "(negb (%s =? %s))", "<": "(%s <? %s)", ">": "(%s <? %s)",
                   "<=": "(%s <=? %s)", ">=": "(%s <=? %s)"}
            if op in (">", ">="):
                sa, sb = sb, sa
            return tab[op] % (sa, sb), "bool"
        if op == "<<":
            return "(Z.shiftl %s %s)" % (sa, sb), t
        if op in ("+", "-", "*"):
            return "(%s %s %s)" % (sa, op, sb), t
        if op == "/":
            return "(Z.quot %s %s)" % (sa, sb), t
        if op in ("&", "|", "%", ">>") and ta in INT_TYPES | {None} and tb in INT_TYPES | {None} and t is not None:
            if op != ">>" and ta is not None and tb is not None and ta != tb:
                raise TErr("operator %s on %s and %s" % (op, ta, tb))
            # bitwise and/or and a right shift of non-negative values stay in the type; `%` truncates like `/`
            if op in ("&", "|") and t not in ("u8", "u16", "u32", "u64", "usize"):
                raise TErr("operator %s on signed %s" % (op, t))
            fn = {"&": "Z.land", "|": "Z.lor", "%": "Z.rem", ">>": "Z.shiftr"}[op]
            return "(%s %s %s)" % (fn, sa, sb), (ta or tb) if op != ">>" else ta
        raise TErr("operator %s" % op)
    if k == "call":
        name, recv, args = e[1], e[2], e[3]
        if name in ("is_some", "is_none", "is_none_or", "is_some_and", "copied", "clone"):
            sr, tr = ev(recv, env)
            if name in ("copied", "clone"):
                return sr, tr
            if name == "is_some":
                return "(match %s with Some _ => true | None => false end)" % sr, "bool"
            if name == "is_none":
                return "(match %s with Some _ => false | None => true end)" % sr, "bool"
            cl = args[0]
            if cl[0] != "closure":
                raise TErr("closure expected")
            inner = tr[tr.index("<") + 1:-1].strip() if tr and "<" in tr else "u64"
            env2 = env.copy()
            cv = env2.bind(cl[1], inner)
            sb, _ = ev(cl[2], env2)
            dflt = "true" if name == "is_none_or" else "false"
            return "(match %s with Some %s => %s | None => %s end)" % (sr, cv, sb, dflt), "bool"
        if slot_of(recv, env) is not None:
            sname, T = slot_of(recv, env)
            callee = REGISTRY.get((T, name))
            if callee is None or callee["outs"]:
                raise TErr("method %s on an element of type %s" % (name, T))
            if len(args) != callee["nparams"]:
                raise TErr("call of %s with %d arguments" % (callee["coq"], len(args)))
            actual = []
            for origin in callee["origins"]:
                if origin[0] == "field":
                    if len(origin[1]) != 1 or origin[2]:
                        raise TErr("callee input %s on a slot" % (origin[1],))
                    actual.append(ev(("field", ("var", sname), origin[1][0]), env)[0])
                else:
                    actual.append("(%s)" % ev(args[origin[1]], env)[0])
            return "(leaf_%s %s)" % (callee["coq"], " ".join(actual)), callee["rtype"]
        found = find_callee(recv, name, ctx)
        if found is not None:
            callee, base = found
            if callee["outs"]:
                raise TErr("call to mutating method %s in expression position" % name)
            return "(leaf_%s %s)" % (callee["coq"], " ".join(call_actuals(callee, base, args, env))), callee["rtype"]
        if name == "load" and path_of(recv) is not None and len(args) == 1 and is_ordering(args[0]):
            nm, rty = ctx.use_field(path_of(recv), atomic=True)
            if env.cur(nm) is not None:
                return env.cur(nm)
            env.setcur(nm, (nm, rty))
            return nm, rty
        if path_of(recv) is not None and not args and (ctx.field_type(path_of(recv)), name) in OPAQUE_GETTERS:
            p = path_of(recv)
            rty = OPAQUE_GETTERS[(ctx.field_type(p), name)]
            nm = "_".join(p) + "_" + name
            FIELD_PATHS[(id(ctx), nm)] = list(p) + [name + "()"]
            if nm not in ctx.ptype:
                ctx.ptype[nm] = rty
                ctx.params.append((nm, coq_type(rty)))
                ctx.notes.append("%s = self.%s.%s() is an input (getter of %s, not translated)"
                                 % (nm, ".".join(p), name, ctx.field_type(p)))
            if rty == "f64":
                ctx.uses_float = True
            return nm, rty
        if name == "len" and not args and recv[0] == "var" and env.v.get(recv[1], (None, None))[1] == "slice":
            return recv[1] + "_len", "usize"             # length of a `&[u8]` parameter: an input of its own
        if name == "len" and not args and path_of(recv) is not None and vec_field(ctx, path_of(recv)):
            nm = vec_len_name(ctx, path_of(recv))
            if env.cur(nm) is not None:
                return env.cur(nm)
            env.setcur(nm, (nm, "usize"))
            return nm, "usize"
        if name == "is_empty":
            p = path_of(recv)
            if p is None:
                raise TErr("is_empty on non-field")
            nm = "_".join(p) + "_is_empty"
            if "_".join(p) + "_len" in ctx.ptype:
                raise TErr("self.%s: both is_empty() and len()/push() in one function" % ".".join(p))
            FIELD_PATHS[(id(ctx), nm)] = list(p) + ["is_empty()"]
            if nm not in ctx.ptype:
                ctx.ptype[nm] = "bool"
                ctx.params.append((nm, "bool"))
            return nm, "bool"
        sr, tr = ev(recv, env)
        sargs = [ev(a, env) for a in args]
        if name == "is_finite" and not args and tr == "f64":
            ctx.uses_float = True
            return "(PrimFloat.is_finite %s)" % sr, "bool"
        if name in ("is_nan", "is_infinite") and not args and tr == "f64":
            ctx.uses_float = True
            return "(PrimFloat.%s %s)" % ({"is_nan": "is_nan", "is_infinite": "is_infinity"}[name], sr), "bool"
        if name == "abs" and not args and tr == "f64":
            ctx.uses_float = True
            return "(PrimFloat.abs %s)" % sr, "f64"
        if name in ("min", "max") and "f64" in (tr, sargs[0][1]):
            if not (tr in ("f64", None) and sargs[0][1] in ("f64", None)):
                raise TErr("f64 %s on %s and %s" % (name, tr, sargs[0][1]))
            ctx.uses_float = True
            return "(Select.f64_%s %s %s)" % (name, sr, sargs[0][0]), "f64"       # NaN operand ignored
        if name == "clamp" and len(args) == 2 and (tr in INT_TYPES):
            # Ord::clamp asserts min <= max: recorded as an obligation of the function (closed bounds only)
            if not (is_const_expr(args[0], ctx) and is_const_expr(args[1], ctx)):
                raise TErr("clamp with non-constant bounds")
            ctx.asserts.append("(%s <=? %s)" % (sargs[0][0], sargs[1][0]))
            return "(clamp %s %s %s)" % (sargs[0][0], sargs[1][0], sr), tr
        if name in ("min", "max"):
            return "(Z.%s %s %s)" % (name, sr, sargs[0][0]), tr or sargs[0][1]
        if name == "saturating_sub" and tr == "i32":
            return sat_sub_i32(sr, sargs[0][0]), tr
        if (name, tr) in SAT:
            return "(%s %s %s)" % (SAT[(name, tr)], sr, sargs[0][0]), tr
        raise TErr("method %s on %s" % (name, tr))
    if k == "fcall":
        name, args = e[1].split("::")[-1], e[2]
        callee = find_free_callee(e[1])
        if callee is not None:
            if callee["outs"]:
                raise TErr("call to mutating function %s in expression position" % name)
            return "(leaf_%s %s)" % (callee["coq"], " ".join(call_actuals(callee, None, args, env))), callee["rtype"]
        if name in OPAQUE_FNS and callee is None:
            if not all(pure_expr(a) for a in args):
                raise TErr("argument of %s with a possible effect" % name)
            note = "%s(..) is not translated here (wire codec, property C15): its value is tt" % name
            if note not in ctx.notes:
                ctx.notes.append(note)
            return "tt", OPAQUE_FNS[name]
        sargs = [ev(a, env) for a in args]
        if name in ("min", "max") and len(sargs) == 2:
            return "(Z.%s %s %s)" % (name, sargs[0][0], sargs[1][0]), sargs[0][1] or sargs[1][1]
        if name == "Some" and len(sargs) == 1:
            return "(Some %s)" % sargs[0][0], "Option<%s>" % (sargs[0][1] or "u64")
        raise TErr("call %s" % name)
    if k in ("if", "iflet", "match"):
        # expression-valued conditional without side effects
        mark = len(ctx.tail_types)
        r, _ = run_block([("tail", e)], env.copy(), want_value=True)
        tys = [t for t in ctx.tail_types[mark:] if t]
        del ctx.tail_types[mark:]
        if "f64" in tys and any(t != "f64" for t in tys):
            raise TErr("conditional expression mixing f64 and %s" % [t for t in tys if t != "f64"][0])
        return r, (tys[0] if tys else None)
    if k == "tuple":
        parts = [ev(x, env) for x in e[1]]
        return "(" + ", ".join(p_[0] for p_ in parts) + ")", "(" + ", ".join(str(p_[1]) for p_ in parts) + ")"
    if k == "rmw":
        _, op, rty, target, arg = e
        nm, _ = ctx.use_field(path_of(target), atomic=True)
        cur = env.cur(nm, (nm, rty))[0]
        sa, ta = ev(arg, env)
        if ta not in (rty, None):
            raise TErr("%s of a %s into an atomic %s" % (op, ta, rty))
        if op == "fetch_add":
            return "((%s + %s) mod %s)" % (cur, sa, {"u64": "two64", "usize": "two64", "u32": "two32"}[rty]), rty
        return "(Z.%s %s %s)" % (op[6:], cur, sa), rty
    if k == "string":
        raise TErr("string value")
    raise TErr("expression kind %s" % k)


def lvalue_name(e, env):
    if e[0] == "field" and e[1][0] == "var" and e[1][1] in env.ctx.local_structs:
        if e[2] not in env.ctx.structs[env.ctx.local_structs[e[1][1]]]:
            raise TErr("struct %s has no field %s" % (env.ctx.local_structs[e[1][1]], e[2]))
        return "%s_%s" % (e[1][1], e[2])
    if e[0] == "field" and slot_of(e[1], env) is not None:
        return slot_field(env, slot_of(e[1], env)[0], e[2])[0]
    if e[0] == "deref":
        e = e[1]
    if e[0] == "var":
        return e[1]
    p = path_of(e)
    if p is not None:
        # make sure it is a known parameter with a type
        nm, rty = env.ctx.use_field(p)
        return nm
    raise TErr("lvalue")


def has_string(e):
    if not isinstance(e, tuple):
        return False
    if e and e[0] == "string":
        return True
    if e and e[0] == "fcall" and e[1].startswith("String"):
        return True
    return any(has_string(x) for x in e if isinstance(x, (tuple, list))) or \
        any(has_string(y) for x in e if isinstance(x, list) for y in x)


def state_tuple(env, names, ret):
    parts = [env.v[n][0] if n in env.ctx.pseudo and n in env.v else env.ctx.pseudo[n] if n in env.ctx.pseudo
             else env.cur(n, (n, None))[0] for n in names]
    if None in parts:
        raise TErr("an array element is accessed on some paths only")
    if ret is not None:
        parts.append(ret)
    if not parts:
        return "tt"
    return parts[0] if len(parts) == 1 else "(" + ", ".join(parts) + ")"


def effect_call(e, env):
    """An expression statement with an effect the subset knows:
       `self.<field>.store(v, Ordering::_)`           -> ("store", lvalue expr, value expr)
       a call of a translated function with outputs   -> ("call", registry entry, component path, args,
                                                          [lvalue expr of each output])
    None for anything else."""
    ctx = env.ctx
    if e[0] == "call" and e[1] == "store" and path_of(e[2]) is not None and len(e[3]) == 2 and is_ordering(e[3][1]):
        return ("store", e[2], e[3][0])
    if e[0] == "call" and e[1] in ("fetch_max", "fetch_min", "fetch_add") and path_of(e[2]) is not None and len(e[3]) == 2 \
            and is_ordering(e[3][1]):
        # read-modify-write of an atomic as a statement (the old value it returns is dropped):
        # fetch_max/min = store of Z.max/Z.min, fetch_add = store of the WRAPPING sum (atomics wrap, never panic)
        nm, rty = ctx.use_field(path_of(e[2]), atomic=True)
        if rty not in ("u64", "usize", "u32"):
            raise TErr("%s on an atomic %s" % (e[1], rty))
        return ("store", e[2], ("rmw", e[1], rty, e[2], e[3][0]))
    if e[0] == "call" and e[1] == "push" and len(e[3]) == 1 and path_of(e[2]) is not None and vec_field(ctx, path_of(e[2])):
        return ("push", vec_len_name(ctx, path_of(e[2])))
    if e[0] == "call" and e[2] == ("var", "self") and (ctx.self_type, e[1]) in OPAQUE_EFFECTS:
        return ("delegate", "call_" + e[1], e[3])
    if e[0] == "call" and e[1] == "copy_from_slice" and path_of(e[2]) is not None and len(e[3]) == 1 \
            and norm_type(ctx.field_type(path_of(e[2])) or "") == "bytes" and e[3][0][0] == "slice" \
            and e[3][0][1][0] == "var" and env.v.get(e[3][0][1][1], (None, None))[1] == "slice":
        # self.<byte array>.copy_from_slice(&<slice param>[lo..hi]): the bytes are not translated; WHICH range of
        # the parameter is copied is an explicit output `<field>_from_<param> : option (lo, hi)`
        return ("copy", "_".join(path_of(e[2])) + "_from_" + e[3][0][1][1], e[3][0][2], e[3][0][3], path_of(e[2]))
    callee, base, args = None, None, None
    if e[0] == "call":
        found = find_callee(e[2], e[1], ctx)
        if found is not None:
            (callee, base), args = found, e[3]
    elif e[0] == "fcall":
        callee, args = find_free_callee(e[1]), e[2]
    if callee is None:
        return None
    if len(args) != callee["nparams"]:
        raise TErr("call of %s with %d arguments" % (callee["coq"], len(args)))
    lvs = []
    for o in callee["outs"]:
        origin = callee["origins"][callee["params"].index(o)]
        if origin[0] == "field":
            if base is None:
                raise TErr("free function with self outputs")
            lvs.append(("lv", field_expr(list(base) + list(origin[1])), origin[2]))
        else:
            lvs.append(("lv", args[origin[1]], False))
    return ("call", callee, base, args, lvs)


def effect_lvalue_name(lv, env):
    _, e, atomic = lv
    if atomic:
        return env.ctx.use_field(path_of(e), atomic=True)[0]
    return lvalue_name(e, env)


def default_struct(s, env):
    """`let [mut] x = T::default();` for a struct T with #[derive(Default)] all of whose fields are Options
    (so every field starts as None) -> T ; else None"""
    if s[0] != "let" or s[2][0] != "fcall" or s[2][2] or not s[2][1].endswith("::default"):
        return None
    T = s[2][1].split("::")[-2]
    flds = env.ctx.structs.get(T)
    if not flds or T not in DEFAULT_DERIVED or not all(t.startswith("Option<") for t in flds.values()):
        raise TErr("%s::default() (only a #[derive(Default)] struct of Option fields is known)" % T)
    return T


def slot_binding(s, env):
    """`let x = &[mut] self.<field>[i];` with <field> an array of a known struct -> (x, T, field path, index expr)"""
    if s[0] != "let" or s[2][0] != "index" or path_of(s[2][1]) is None:
        return None
    fty = env.ctx.field_type(path_of(s[2][1])) or ""
    m = re.match(r"(?:Box<\s*)?\[\s*(\w+)\s*;\s*([^\]]*?)\s*\]\s*>?$", fty)
    if not m or m.group(1) not in env.ctx.structs:
        raise TErr("indexing self.%s of type %s" % (".".join(path_of(s[2][1])), fty))
    env.ctx.slot_len[s[1]] = m.group(2)
    return s[1], m.group(1), path_of(s[2][1]), s[2][2]


def bind_slot(env, name, T, path):
    ctx = env.ctx
    idx, ty = [], ctx.self_type
    for f in path:
        idx.append(list(ctx.structs[ty]).index(f))
        ty = ctx.structs[ty][f]
    ctx.slot_base[name] = tuple(idx)
    ctx.slot_keys[name + "_slot"] = tuple(idx)
    ctx.pseudo.setdefault(name + "_slot", None)
    env.v[name] = (name, "slot:" + T)


def collect_assigned(stmts, env, acc):
    for s in stmts:
        if default_struct(s, env) is not None:
            env.ctx.local_structs[s[1]] = default_struct(s, env)
        elif slot_binding(s, env) is not None:
            name, T, path, _ = slot_binding(s, env)
            bind_slot(env, name, T, path)
            acc.append(name + "_slot")
        elif s[0] == "assign" and s[2][0] == "structlit":
            so = slot_of(s[1], env)
            if so is None or s[1][0] != "deref":
                raise TErr("struct literal assigned to something else than `*<slot local>`")
            for f in env.ctx.structs[so[1]]:
                n = slot_field(env, so[0], f)[0]
                if n not in acc:
                    acc.append(n)
        elif s[0] == "assign":
            n = lvalue_name(s[1], env)
            if n not in acc:
                acc.append(n)
        elif s[0] == "exprstmt" and effect_call(s[1], env) is not None:
            eff = effect_call(s[1], env)
            if eff[0] == "push":
                names = [eff[1]]
            elif eff[0] in ("delegate", "copy"):
                env.ctx.pseudo.setdefault(eff[1], "None")
                if eff[0] == "copy":
                    FIELD_PATHS[(id(env.ctx), eff[1])] = list(eff[4])
                names = [eff[1]]
            else:
                names = [env.ctx.use_field(path_of(eff[1]), atomic=True)[0]] if eff[0] == "store" else \
                    [effect_lvalue_name(lv, env) for lv in eff[4]]
            for n in names:
                if n not in acc:
                    acc.append(n)
        elif s[0] in ("let", "tail", "return") and s[-1] is not None and valued_effect(s[-1], env) is not None:
            for lv in effect_call(valued_effect(s[-1], env)[0], env)[4]:
                n = effect_lvalue_name(lv, env)
                if n not in acc:
                    acc.append(n)
        elif s[0] == "letelse":
            collect_assigned(s[3], env, acc)
        elif s[0] in ("expr", "tail", "exprstmt"):
            e = s[1]
            if e[0] == "if":
                collect_assigned(e[2], env, acc)
                collect_assigned(e[3], env, acc)
            elif e[0] == "iflet":
                collect_assigned(e[3], env, acc)
                collect_assigned(e[4], env, acc)
            elif e[0] == "match":
                for _, b in e[2]:
                    collect_assigned(b, env, acc)
    return acc


def block_diverges(stmts):
    return bool(stmts) and stmts[-1][0] == "return"


def pure_expr(e):
    """expression statements that are dropped must not hide an effect: only variables, literals,
    field reads and operators on them"""
    if e[0] in ("num", "var", "string"):
        return True
    if e[0] in ("paren", "not", "neg", "deref"):
        return pure_expr(e[1])
    if e[0] == "field":
        return pure_expr(e[1])
    if e[0] == "bin":
        return pure_expr(e[2]) and pure_expr(e[3])
    if e[0] == "cast":
        return pure_expr(e[2])
    return False


def describe(e):
    if e[0] == "call":
        return ".%s(..)" % e[1]
    if e[0] == "fcall":
        return "%s(..)" % e[1]
    return e[0]


def valued_effect(e, env):
    """`f(..)` / `Some(f(..))` where f is a translated function WITH outputs and a return value ->
    (call expr, wrap in Some?) ; None otherwise"""
    e = strip_paren(e)
    wrap = False
    if e[0] == "fcall" and e[1] == "Some" and len(e[2]) == 1:
        e, wrap = strip_paren(e[2][0]), True
    if e[0] in ("call", "fcall"):
        eff = effect_call(e, env)
        if eff is not None and eff[0] == "call" and eff[1]["outs"] and eff[1]["rtype"]:
            return e, wrap
    return None


def run_stmts(stmts, env, outs, has_ret):
    """Translate a statement list into a Coq expression of the function's result type.
    outs: ordered names of mutated lvalues; has_ret: function returns a value."""
    if stmts and stmts[0][0] in ("let", "tail", "return") and stmts[0][1 if stmts[0][0] != "let" else 2] is not None \
            and valued_effect(stmts[0][1 if stmts[0][0] != "let" else 2], env) is not None:
        # hoist: `let x = f(..)` / `Some(f(..))` with a mutating f becomes `let '(outs.., r) := leaf_f .. in ..`
        s0 = stmts[0]
        call_e, wrap = valued_effect(s0[2] if s0[0] == "let" else s0[1], env)
        _, callee, base, args, lvs = effect_call(call_e, env)
        call = "(leaf_%s %s)" % (callee["coq"], " ".join(call_actuals(callee, base, args, env)))
        names = [effect_lvalue_name(lv, env) for lv in lvs]
        if len(set(names)) != len(names):
            raise TErr("aliased outputs in call of %s" % callee["coq"])
        tmps = []
        for n in names:
            cur_t = env.cur(n, (None, env.ctx.ptype.get(n)))[1]
            env.ctx.fresh += 1
            tmps.append("%s_%d" % (n, env.ctx.fresh))
            env.setcur(n, (tmps[-1], cur_t))
        env.ctx.fresh += 1
        rv = "ret_%d" % env.ctx.fresh
        rty = norm_type(callee["rtype"])
        env.v[rv] = (rv, rty)
        val = ("fcall", "Some", [("var", rv)]) if wrap else ("var", rv)
        s1 = ("let", s0[1], val) if s0[0] == "let" else (s0[0], val)
        return "(let '(%s) := %s in %s)" % (", ".join(tmps + [rv]), call, run_stmts([s1] + list(stmts[1:]), env, outs, has_ret))
    if not stmts:
        if has_ret:
            raise TErr("fell off the end of a value-returning block")
        return state_tuple(env, outs, None)
    s, rest = stmts[0], stmts[1:]
    k = s[0]
    if k in ("skip",):
        return run_stmts(rest, env, outs, has_ret)
    if k == "let" and default_struct(s, env) is not None:
        T = default_struct(s, env)
        env.ctx.local_structs[s[1]] = T
        env.v[s[1]] = (s[1], "localstruct:" + T)
        for f in env.ctx.structs[T]:
            env.v["%s_%s" % (s[1], f)] = ("None", "Option<?>")
            env.ctx.local_names.add("%s_%s" % (s[1], f))
        return run_stmts(rest, env, outs, has_ret)
    if k == "let" and slot_binding(s, env) is not None:
        # which element is accessed is an output (<local>_slot); the element's fields are inputs/outputs
        name, T, path, ie = slot_binding(s, env)
        si, ti = ev(ie, env)
        if ti not in ("usize", None):
            raise TErr("index of type %s" % ti)
        bind_slot(env, name, T, path)
        env.v[name + "_slot"] = (name + "_slot", "usize")
        env.ctx.local_names.add(name + "_slot")
        return "(let %s_slot := %s in %s)" % (name, si, run_stmts(rest, env, outs, has_ret))
    if k == "assign" and s[2][0] == "structlit":
        so = slot_of(s[1], env)
        if so is None or s[1][0] != "deref":
            raise TErr("struct literal assigned to something else than `*<slot local>`")
        flds = env.ctx.structs[so[1]]
        if s[2][1] != so[1] or sorted(f for f, _ in s[2][2]) != sorted(flds):
            raise TErr("struct literal %s does not give exactly the fields of %s" % (s[2][1], so[1]))
        vals = [(f, ev(e2, env)) for f, e2 in s[2][2]]             # all right-hand sides first, in source order
        binds = []
        for f, (se, te) in vals:
            n = slot_field(env, so[0], f)[0]
            env.ctx.fresh += 1
            tmp = "%s_%d" % (n, env.ctx.fresh)
            env.setcur(n, (tmp, env.ctx.ptype[n]))
            binds.append((tmp, se))
        body = run_stmts(rest, env, outs, has_ret)
        for tmp, se in reversed(binds):
            body = "(let %s := %s in %s)" % (tmp, se, body)
        return body
    if k == "let":
        if has_string(s[2]):
            return run_stmts(rest, env, outs, has_ret)
        se, te = ev(s[2], env)
        lv = env.bind(s[1], te)
        body = run_stmts(rest, env, outs, has_ret)
        return "(let %s := %s in %s)" % (lv, se, body)
    if k == "letelse":
        sc, tsc = ev(s[2], env)
        if not (tsc and tsc.startswith("Option<")):
            raise TErr("let-else on a value of type %s" % tsc)
        inner = tsc[tsc.index("<") + 1:-1].strip()
        if not block_diverges(s[3]):
            raise TErr("let-else block does not end in return")
        ea = env.copy()
        lv = ea.bind(s[1], inner)
        a = run_stmts(rest, ea, outs, has_ret)
        b = run_stmts(list(s[3]), env.copy(), outs, has_ret)
        return "(match %s with Some %s => %s | None => %s end)" % (sc, lv, a, b)
    if k == "exprstmt" and effect_call(s[1], env) is not None:
        eff = effect_call(s[1], env)
        if eff[0] == "push":
            n = eff[1]
            cur = env.cur(n, (n, "usize"))[0]
            env.ctx.fresh += 1
            tmp = "%s_%d" % (n, env.ctx.fresh)
            env.setcur(n, (tmp, "usize"))
            return "(let %s := (%s + 1) in %s)" % (tmp, cur, run_stmts(rest, env, outs, has_ret))
        if eff[0] == "delegate":
            # the callee may change anything: nothing of self may be read or written after it on this path
            if not (not rest or rest[0] == ("return", None)):
                raise TErr("untranslated method %s is not the last effect of its path" % eff[1][5:])
            if has_ret:
                raise TErr("untranslated method %s called in a value-returning function" % eff[1][5:])
            sargs = [ev(a, env)[0] for a in eff[2]]
            env.v[eff[1]] = ("(Some %s)" % ("tt" if not sargs else sargs[0] if len(sargs) == 1 else "(" + ", ".join(sargs) + ")"), None)
            return state_tuple(env, outs, None)
        if eff[0] == "copy":
            lo, hi = ev(eff[2], env)[0], ev(eff[3], env)[0]
            env.v[eff[1]] = ("(Some (%s, %s))" % (lo, hi), None)
            return run_stmts(rest, env, outs, has_ret)
        if eff[0] == "store":
            n = env.ctx.use_field(path_of(eff[1]), atomic=True)[0]
            se, te = ev(eff[2], env)
            cur_t = env.cur(n, (None, env.ctx.ptype[n]))[1]
            env.ctx.fresh += 1
            tmp = "%s_%d" % (n, env.ctx.fresh)
            env.setcur(n, (tmp, cur_t))
            return "(let %s := %s in %s)" % (tmp, se, run_stmts(rest, env, outs, has_ret))
        _, callee, base, args, lvs = eff
        call = "(leaf_%s %s)" % (callee["coq"], " ".join(call_actuals(callee, base, args, env)))
        names = [effect_lvalue_name(lv, env) for lv in lvs]
        if len(set(names)) != len(names):
            raise TErr("aliased outputs in call of %s" % callee["coq"])
        tmps = []
        for n in names:
            cur_t = env.cur(n, (None, env.ctx.ptype.get(n)))[1]
            env.ctx.fresh += 1
            tmps.append("%s_%d" % (n, env.ctx.fresh))
            env.setcur(n, (tmps[-1], cur_t))
        if callee["rtype"]:
            tmps.append("_")
        pat = tmps[0] if len(tmps) == 1 else "'(" + ", ".join(tmps) + ")"
        return "(let %s := %s in %s)" % (pat, call, run_stmts(rest, env, outs, has_ret))
    if k == "assign":
        n = lvalue_name(s[1], env)
        se, te = ev(s[2], env)
        if se == "None" and n in env.ctx.ptype:
            se = "(@None %s)" % coq_type(env.ctx.ptype[n])[7:]       # `None` alone does not determine its type
        cur_t = env.cur(n, (None, te))[1]
        env.fresh = getattr(env, "fresh", 0)
        env.ctx.fresh += 1
        tmp = "%s_%d" % (n, env.ctx.fresh)
        env.setcur(n, (tmp, cur_t))
        body = run_stmts(rest, env, outs, has_ret)
        return "(let %s := %s in %s)" % (tmp, se, body)
    if k == "return":
        ret = None
        if s[1] is not None:
            ret, tret = ev(s[1], env)
            env.ctx.tail_types.append(tret)
        return state_tuple(env, outs, ret if has_ret else None)
    if k == "tail":
        e = s[1]
        if e[0] in ("if", "iflet", "match"):
            return run_cond(e, rest, env, outs, has_ret)
        if rest:
            raise TErr("tail expression followed by statements")
        se, te = ev(e, env)
        env.ctx.tail_types.append(te)
        return state_tuple(env, outs, se if has_ret else None)
    if k == "exprstmt":
        if not pure_expr(s[1]):
            raise TErr("expression statement with an effect outside the subset: %s" % describe(s[1]))
        return run_stmts(rest, env, outs, has_ret)
    if k == "expr":
        return run_cond(s[1], rest, env, outs, has_ret)
    raise TErr("statement %s" % k)


def run_cond(e, rest, env, outs, has_ret):
    """a conditional followed by `rest`: each branch continues with rest (continuation copy)"""
    if e[0] == "if":
        c, _ = ev(e[1], env)
        a = run_stmts(list(e[2]) + list(rest), env.copy(), outs, has_ret)
        b = run_stmts(list(e[3]) + list(rest), env.copy(), outs, has_ret)
        return "(if %s then %s else %s)" % (c, a, b)
    if e[0] == "iflet":
        sc, tsc = ev(e[2], env)
        inner = tsc[tsc.index("<") + 1:-1].strip() if tsc and "<" in tsc else "u64"
        ea = env.copy()
        lv = ea.bind(e[1], inner)
        a = run_stmts(list(e[3]) + list(rest), ea, outs, has_ret)
        b = run_stmts(list(e[4]) + list(rest), env.copy(), outs, has_ret)
        return "(match %s with Some %s => %s | None => %s end)" % (sc, lv, a, b)
    if e[0] == "match":
        sc, tsc = ev(e[1], env)
        arms = []
        for pat, body in e[2]:
            en = env.copy()
            m = re.match(r"Some\((\w+)\)$", pat)
            if m:
                inner = tsc[tsc.index("<") + 1:-1].strip() if tsc and "<" in tsc else "u64"
                cp = "Some %s" % en.bind(m.group(1), inner)
            elif pat in ("None", "_"):
                cp = pat
            elif tsc in ENUMS and "::" in pat and pat.split("::")[-1] in ENUMS[tsc] and \
                    pat.split("::")[:-1] in ([tsc], ["Self"] if env.ctx.self_type == tsc else [tsc]):
                env.ctx.used_enums.add(tsc)
                cp = "%s_%s" % (tsc, pat.split("::")[-1])
            else:
                raise TErr("match pattern %s" % pat)
            arms.append("%s => %s" % (cp, run_stmts(list(body) + list(rest), en, outs, has_ret)))
        return "(match %s with %s end)" % (sc, " | ".join(arms))
    raise TErr("conditional kind")


def run_block(stmts, env, want_value):
    r = run_stmts(stmts, env, [], True)
    return r, None


def translate(coq_name, rel, impl, fn, srcs, structs, consts):
    src = srcs[rel]
    params, ret, body = find_fn(src, impl, fn)
    body = desugar_small_arrays(body, impl)
    ctx = Ctx(structs, consts, impl)
    env = Env(ctx)
    fparams = []
    fpos = {}                  # parameter name -> position among the Rust parameters (self excluded)
    pos = 0
    for p in [x.strip() for x in re.split(r",(?![^<]*>)", params) if x.strip()]:
        if p in ("&self", "&mut self", "self"):
            if impl in ENUMS:
                # method of a field-less enum: `self` is the value, first parameter `this`
                fparams.append(("this", impl))
                fpos["this"] = -1
                env.v["self"] = ("this", impl)
                ctx.used_enums.add(impl)
            continue
        nm, ty = [x.strip() for x in p.split(":", 1)]
        nm = nm.replace("mut ", "").strip()
        ty = norm_type(ty.replace("&mut ", "").replace("&", "").strip())
        if ty == "Self":
            ty = impl
        pos += 1
        if ty in ("str", "String") or nm.startswith("_"):
            continue
        if ty == "slice":
            # a `&[u8]` parameter: only its length is an input (<name>_len); its bytes are not translated
            fparams.append((nm + "_len", "usize"))
            fpos[nm + "_len"] = pos - 1
            env.v[nm] = (nm, "slice")
            continue
        fparams.append((nm, ty))
        fpos[nm] = pos - 1
        env.v[nm] = (nm, ty)
    ctx.fn_param_names = [n for n, _ in fparams]
    stmts = P(tokenize(body)).block_from_start()
    outs = collect_assigned(stmts, env, [])
    # only lvalues that are parameters or self fields count as outputs (locals are lets)
    outs = [n for n in outs if n in ctx.ptype or n in [a for a, _ in fparams] or n in ctx.pseudo]
    canonical = GROUP.get(coq_name) in CANONICAL_GROUPS

    def canon_key(n):
        if n in fpos:
            return (2, (fpos[n],), n)
        if n in ctx.slot_keys:
            return (0, ctx.slot_keys[n], n)
        if n in ctx.pseudo and (id(ctx), n) not in FIELD_PATHS:
            return (3, (), n)
        path = FIELD_PATHS[(id(ctx), n)]
        idx, ty = [], impl
        for f in path:
            if f.endswith("()"):
                return (1, tuple(idx), n)
            idx.append(list(structs[ty]).index(f))
            ty = structs[ty][f]
        return (0, tuple(idx), n)
    if canonical:
        outs = sorted(outs, key=canon_key)
    has_ret = bool(ret)
    if ret:
        ret = norm_type(ret)
        ret = impl if ret == "Self" else ret
        if ret in ENUMS:
            ctx.used_enums.add(ret)
    expr = run_stmts(stmts, env, outs, has_ret)
    used = lambda n: re.search(r"\b%s\b" % re.escape(n), expr) is not None
    plist = [(n, t) for n, t in ctx.params]
    plist += [(n, coq_type(t)) for n, t in fparams if used(n) or n in outs]
    if canonical:
        plist = sorted(plist, key=lambda nt: canon_key(nt[0]))
    origins = []
    fnames = [n for n, _ in fparams]
    atomics = getattr(ctx, "atomic_names", set())
    for n, _ in plist:
        if n == "this" and impl in ENUMS:
            origins.append(("this",))
        elif n in fnames:
            origins.append(("arg", fpos[n]))
        else:
            origins.append(("field", FIELD_PATHS[(id(ctx), n)], n in atomics))
    if "float" in [t for _, t in plist] or ret == "f64":
        ctx.uses_float = True
    entry = {"coq": coq_name, "origins": origins, "outs": outs, "rtype": ret or None, "nparams": pos,
             "params": [n for n, _ in plist], "file": rel}
    REGISTRY[(impl, fn)] = entry
    sig = " ".join("(%s : %s)" % (n, t) for n, t in plist)
    doc = "(* %s :: %s%s ; outputs: %s%s *)" % (rel, (impl + "::") if impl else "", fn,
                                               ", ".join(outs) or "-", (" + return value" if has_ret else ""))
    if ctx.uses_float:
        ctx.notes.append("f64 values are Coq primitive floats (binary64, bit-exact); comparisons PrimFloat.ltb/leb/eqb, "
                         "`as`/min/max by the Rust f64 primitives of Model/Select.v")
    for n in outs:
        if n in ctx.pseudo and n.startswith("call_"):
            ctx.notes.append("%s = Some (arguments): self.%s(..), which is not translated and may change any field, is "
                             "called as the LAST effect of that path; None on the other paths" % (n, n[5:]))
        elif n in ctx.pseudo and n.endswith("_slot"):
            ctx.notes.append("%s = index of the one array element this function accesses; %s_<field> = that element's "
                             "fields (inputs: before, outputs: after); the array has %s elements, an index not below that "
                             "panics (not modelled here: Proofs/LeafTrkP.v shows the index in range)"
                             % (n, n[:-5], ctx.slot_len.get(n[:-5], "?")))
        elif n in ctx.pseudo:
            ctx.notes.append("%s = Some (lo, hi): that range of the slice parameter is copied into the byte array (bytes "
                             "themselves are not translated); None where nothing is copied" % n)
    for note in ctx.notes:
        doc += "\n(* %s *)" % note
    text = "%s\nDefinition leaf_%s %s :=\n  %s.\n" % (doc, coq_name, sig, expr)
    if ctx.asserts or coq_name in ALWAYS_ASSERTS:
        text += ("\n(* what %s asserts on the way (Ord::clamp panics unless min <= max); a conjunction of closed "
                 "conditions *)\nDefinition leaf_%s_asserts : bool :=\n  %s.\n"
                 % (fn, coq_name, " && ".join(ctx.asserts) or "true"))
    return text, {"params": [n for n, _ in plist], "outs": outs, "ret": has_ret, "float": ctx.uses_float,
                  "asserts": len(ctx.asserts), "enums": sorted(ctx.used_enums)}


def block_from_start(self):
    stmts = []
    while self.peek()[0] is not None:
        stmts.append(self.stmt())
    return stmts


P.block_from_start = block_from_start


def const_types():
    sys.path.insert(0, os.path.dirname(os.path.abspath(__file__)))
    import gen_constants as gc
    return {it[0]: it[1] for it in gc.collect_consts()}


def main():
    srcs = {}
    for _, rel, _, _ in LEAVES:
        if rel not in srcs:
            try:
                srcs[rel] = strip_comments(open(os.path.join(REPO, rel)).read())
            except OSError:
                srcs[rel] = ""
    extra = {}
    for rel in [CORE + "connection/mod.rs", CORE + "connection/reconnection.rs", CORE + "connection/congestion/mod.rs",
                CORE + "connection/rtt.rs", CORE + "connection/batch_send.rs", CORE + "connection/bitrate.rs",
                "src/sender/sequence.rs", "src/config.rs"]:
        try:
            extra[rel] = strip_comments(open(os.path.join(REPO, rel)).read())
        except OSError:
            pass
    for _, rel, _, _ in LEAVES:
        if rel not in extra and srcs.get(rel):
            extra[rel] = srcs[rel]
    for rel in [CORE + "registration/probing.rs"]:
        try:
            extra[rel] = strip_comments(open(os.path.join(REPO, rel)).read())
        except OSError:
            pass
    structs = struct_fields(extra)
    ENUMS.clear()
    ENUMS.update(enum_variants(extra))
    for src in extra.values():
        for m in re.finditer(r"#\[derive\(([^)]*)\)\]\s*(?:#\[[^\]]*\]\s*)*pub\s+struct\s+(\w+)", src):
            if "Default" in [x.strip() for x in m.group(1).split(",")]:
                DEFAULT_DERIVED.add(m.group(2))
    consts = const_types()
    defs, meta, failed = {}, {}, {}
    for coq_name, rel, impl, fn in LEAVES:
        g = GROUP[coq_name]
        try:
            d, m = translate(coq_name, rel, impl, fn, srcs, structs, consts)
            defs.setdefault(g, []).append(d)
            m["group"] = g
            meta[coq_name] = m
        except (TErr, IndexError, KeyError, ValueError) as e:
            failed[coq_name] = "%s: %s" % (type(e).__name__, e)
            defs.setdefault(g, []).append("(* leaf_%s: NOT TRANSLATED (%s) *)\n" % (coq_name, str(e).replace("*)", "* )")))
    changed = []
    for g, ds in sorted(defs.items()):
        hdr = ("(* GENERATED by tools/gen_leaf.py from the Rust sources under %s on every run. Do not edit. *)\n"
               "From Coq Require Import ZArith Bool.\nFrom Srtla Require Import Base Constants.\nOpen Scope Z_scope.\n\n" % REPO)
        if g in FLOAT_GROUPS:
            hdr = ("(* GENERATED by tools/gen_leaf.py from the Rust sources under %s on every run. Do not edit. *)\n"
                   "From Coq Require Import ZArith Bool Floats.\nFrom Srtla Require Import Base Constants FConstants.\n"
                   "From Srtla Require Select.\nOpen Scope Z_scope.\n\n" % REPO)
        used = []
        for n, m in meta.items():
            if m.get("group") == g:
                used += [e for e in m.get("enums", []) if e not in used]
        if used:
            hdr += "\n".join(enum_decl(e) for e in sorted(used)) + "\n"
        deps = sorted({GROUP[c] for c in re.findall(r"\bleaf_(\w+)", "\n".join(ds)) if c in GROUP} - {g})
        if deps:                                       # calls of leaves of another group
            hdr = hdr.replace("Open Scope Z_scope.", "From Srtla Require Import %s.\nOpen Scope Z_scope." %
                              " ".join("Leaf" + d for d in deps), 1)
        content = hdr + "\n".join(ds)
        out = os.path.join(OUTDIR, "Leaf%s.v" % g)
        try:
            same = open(out).read() == content
        except OSError:
            same = False
        if not same:
            os.makedirs(OUTDIR, exist_ok=True)
            open(out, "w").write(content)
            changed.append(g)
    json.dump({"translated": sorted(meta), "failed": failed, "meta": meta, "changed": changed}, sys.stdout, indent=1)
    print()


if __name__ == "__main__":
    main()
