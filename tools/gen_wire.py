#!/usr/bin/env python3
"""Wire translator: Rust -> Gallina for the codec functions of crates/srtla-protocol (types.rs,
parsers.rs, builders.rs), and the return-value slice of a few methods that classify a frame (SLICE_FUNCS).

On every run the CURRENT Rust source under $VERIF_REPO (default /repo) is parsed (the
tokenizer/parser of gen_leaf.py, extended with hex literals, indexing, ranges, array
literals, `?`, constant `for` loops and struct literals) and every function listed in FUNCS
is turned into ONE Gallina definition `leaf_wire_<fn>` in the `res` monad of Model/Base.v,
written to coq/Gen/LeafWire.v.  Proofs/LeafWireP.v proves each of them equal to the
hand-written model of Model/Wire.v, for all inputs.

The translation is continuation-passing over expressions, so that everything that can
panic in Rust is sequenced exactly in Rust evaluation order:

  buf[e]                 x <- get buf e ;; ...            (Oob where Rust panics)
  a && b / a || b        b is only evaluated when a allows it (short circuit); when b can
                         fail:  c <- (if a then (.. Ok b) else Ok false) ;; ...
  e?                     match e with Some y => ... | None => Ok None end
  f(buf)                 x <- leaf_wire_f buf ;; ...      (f translated earlier)
  uN::from_be_bytes([..])   be16 / be32 / be_fold 0 [..];  i32: to_i32 (be32 ..)
  x.to_be_bytes()        be_bytes n x        (i32: be_bytes 4 (of_i32 x))
  a & b, a | b           Z.land, Z.lor       a >> n: Z.shiftr      a << n: (Z.shiftl a n) mod 2^w
  e as uN (widening)     identity
  for i in C1..C2 {..}   unrolled (constant bounds only)
  [v; N]                 repeat v (Z.to_nat N)
  d[a..b].copy_from_slice(s)   d' <- splice d a b s ;; ...   (Model/Splice.v: Oob on bad
                         bounds or length mismatch)
  S { f, g: e }          the list of field values in declaration order of struct S
  v.f (v : S)            nth k v 0

  while c { body }       a fuelled Fixpoint leaf_wire_<fn>_loop<k> over the `let mut` locals the body
                         (nested loops included) assigns, in declaration order; `break` = return the
                         state of the innermost loop; a nested loop is its own Fixpoint, emitted first
                         and called as a bind.  Initial fuel (a guess, never trusted -- out of fuel is
                         `Fuel` and the lemma must show it is not reached): a conjunct `v.len() < K`
                         gives S (K - len v), otherwise S (length of the byte-slice parameters)
  for (i, &x) in v.iter().enumerate() { body }     a Fixpoint by structural recursion on v, i from 0
  v.push(e)              v' := v ++ [e]        SmallVec::new() / Vec::new(): []
  vec![c; n]             repeat c (Z.to_nat n)           SmallVec::from_vec(v): v
  d[i] = v               d' <- splice d i (i+1) [v] ;; ...
  a &= b, a |= b         a := Z.land a b / Z.lor a b     a.wrapping_add(b): (a + b) mod 2^w
  match e { Some(C) => .. None => .. _ => .. }     e : Option<int>; arms in order, `_` last
  E::V (fieldless enum)  the constant E_V : Z (declaration index)

`+ - *` between compile-time constants (literals, consts, unrolled loop variables) must stay in
range; `+` / `-` / `*` on non-constant unsigned operands are CHECKED (`if a + b <? 2^w then .. else
Oob`: overflow is the debug-build panic; the equivalence lemma carries the length bound that
rules it out, so the wrapping release semantics agrees).  Anything outside
the subset makes the translator FAIL for that function (JSON summary, "failed"); check.py
reports that as a broken obligation.  Nothing is skipped except the tracing/log macros.
"""
import json
import os
import re
import sys

sys.path.insert(0, os.path.dirname(os.path.abspath(__file__)))
import gen_leaf as gl                                    # noqa: E402
from gen_leaf import TErr, P, strip_comments, find_fn, match_brace   # noqa: E402

REPO = os.environ.get("VERIF_REPO", "/repo")
OUT = os.path.join(os.path.dirname(os.path.abspath(__file__)), "..", "coq", "Gen", "LeafWire.v")
PROTO = "crates/srtla-protocol/src/"

# (rust fn, file) in dependency order (callees first)
FUNCS = [
    ("get_packet_type", "types.rs"),
    ("get_srt_sequence_number", "types.rs"),
    ("is_srt_data_retransmit", "types.rs"),
    ("is_srtla_reg1", "types.rs"),
    ("is_srtla_reg2", "types.rs"),
    ("is_srtla_reg3", "types.rs"),
    ("is_srtla_keepalive", "types.rs"),
    ("is_srt_ack", "types.rs"),
    ("parse_srt_ack", "parsers.rs"),
    ("extract_keepalive_timestamp", "parsers.rs"),
    ("extract_keepalive_conn_info", "parsers.rs"),
    ("parse_srtla_ack", "parsers.rs"),
    ("parse_srt_nak", "parsers.rs"),
    ("create_reg1_packet", "builders.rs"),
    ("create_reg2_packet", "builders.rs"),
    ("create_keepalive_packet", "builders.rs"),
    ("create_keepalive_packet_ext", "builders.rs"),
    ("create_ack_packet", "builders.rs"),
]
STRUCT_FILES = ["types.rs"]
# return-value slices of methods outside srtla-protocol: (rust fn, path under the repo root, impl type).  `self` is
# dropped: statements of the form `self.method(pure args);` (the receiver's own bookkeeping) are skipped and listed
# in the generated comment, any other use of `self` is an error; fieldless enums of the file become Z constants.
SLICE_FUNCS = [
    ("process_registration_packet", "crates/srtla-core/src/registration/mod.rs", "SrtlaRegistrationManager"),
]
ENUMS = {}          # enum name -> [variants] (fieldless enums of the slice files), values are `Name_Variant : Z`

UNS = {"u8": 8, "u16": 16, "u32": 32, "u64": 64, "usize": 64}
INTS = dict(UNS, i32=32)
LOG_MACROS = {"trace", "debug", "info", "warn", "error"}
MAX_UNROLL = 64

# identifiers a Rust local must not shadow in the generated text
RESERVED = set("""end in match with fun let if then else as return at forall exists Type Prop Set fix cofix
struct where using mod get blen bind Ok Oob Fuel Some None nth repeat ozeqb negb andb orb true false
be16 be32 be_fold be_bytes to_i32 of_i32 splice two31 two32 two64 Z nat list option bool res tt cons nil""".split())

# ------------------------------------------------------------------ tokenizer (gen_leaf's, plus hex / `..`)
_SUF = r"(?:u8|u16|u32|u64|usize|i32|i64)"
TOK = re.compile(r"\s*(?:(\"\")|(0x[0-9a-fA-F_]+" + _SUF + r"?|\d[\d_]*" + _SUF + r"?)|"
                 r"([A-Za-z_][A-Za-z0-9_]*(?:::[A-Za-z_][A-Za-z0-9_]*)*!?)|"
                 r"(\.\.=|\.\.|<<=|>>=|<<|>>|&&|\|\||==|!=|<=|>=|\+=|-=|\*=|/=|%=|&=|\|=|\^=|=>|->|"
                 r"[-+*/%<>=!&|^(){}\[\];,.:?#@~$']))")


def tokenize(s):
    toks, pos = [], 0
    s = s.strip()
    while pos < len(s):
        m = TOK.match(s, pos)
        if not m or m.end() == pos:
            raise TErr("cannot tokenize near %r" % s[pos:pos + 30])
        pos = m.end()
        if m.group(1):
            toks.append(("str", '""'))
        elif m.group(2):
            toks.append(("num", m.group(2)))
        elif m.group(3):
            toks.append(("id", m.group(3)))
        else:
            toks.append(("op", m.group(4)))
    return toks


def parse_num(v):
    m = re.match(r"(0x[0-9a-fA-F_]+?|\d[\d_]*?)_?(" + _SUF + r")?$", v)
    if not m:
        raise TErr("numeric literal %s" % v)
    body = m.group(1).replace("_", "")
    return (int(body, 16) if body.startswith("0x") else int(body)), m.group(2)


# ------------------------------------------------------------------ parser (extends gen_leaf.P)
class WP(P):
    def __init__(self, toks):
        P.__init__(self, toks)
        self.ns = [False]

    def expr(self, no_struct=False, lvl=0):
        if lvl == 0:
            self.ns.append(bool(no_struct))
            try:
                return P.expr(self, no_struct, 0)
            finally:
                self.ns.pop()
        return P.expr(self, no_struct, lvl)

    def ident(self):
        k, v = self.take()
        if k != "id" or v.endswith("!") or "::" in v:
            raise TErr("identifier expected, got %r" % (v,))
        return v

    def stmt(self):
        k, v = self.peek()
        if k == "id" and v.endswith("!"):
            if v[:-1].split("::")[-1] not in LOG_MACROS:
                raise TErr("macro %s" % v)
            return P.stmt(self)
        if v == "let":
            self.take()
            mut = self.eat("mut")
            name = self.ident()
            ty = None
            if self.eat(":"):
                tt = []
                while self.peek()[1] not in ("=", ";", None):
                    tt.append(self.take()[1])
                ty = "".join(tt)
            if not self.eat("="):
                raise TErr("let without initialiser")
            e = self.expr()
            if self.peek()[1] == "else":
                raise TErr("let-else not supported")
            self.expect(";")
            return ("let", name, e, ty, mut)
        if v == "for" and self.peek(1)[1] in ("(", "&"):
            # for (i, &x) in v.iter().enumerate() { .. }   /   for &x in v.iter() { .. }
            self.take()
            ivar = None
            if self.eat("("):
                ivar = self.ident()
                self.expect(",")
                self.expect("&")
                xvar = self.ident()
                self.expect(")")
            else:
                self.expect("&")
                xvar = self.ident()
            if self.take() != ("id", "in"):
                raise TErr("for pattern")
            coll = self.expr(no_struct=True)
            if ivar is not None:
                if not (coll[0] == "call" and coll[1] == "enumerate" and not coll[3]):
                    raise TErr("for (i, &x): only over `.iter().enumerate()`")
                coll = coll[2]
            if not (coll[0] == "call" and coll[1] == "iter" and not coll[3]):
                raise TErr("for &x: only over `.iter()`")
            coll = coll[2]
            self.expect("{")
            body = self.block()
            self.eat(";")
            return ("foreach", ivar, xvar, coll, body)
        if v == "for":
            self.take()
            var = self.ident()
            if self.take() != ("id", "in"):
                raise TErr("for pattern")
            lo = self.expr(no_struct=True)
            if self.take()[1] != "..":
                raise TErr("for: only `a..b` ranges")
            hi = self.expr(no_struct=True)
            self.expect("{")
            body = self.block()
            self.eat(";")
            return ("for", var, lo, hi, body)
        if v == "while":
            self.take()
            if self.peek() == ("id", "let"):
                raise TErr("while-let not supported")
            c = self.expr(no_struct=True)
            self.expect("{")
            body = self.block()
            self.eat(";")
            return ("while", c, body)
        if v == "break":
            self.take()
            if not self.eat(";"):
                raise TErr("break with a label or value")
            return ("break",)
        if v in ("loop", "continue", "unsafe", "fn", "const", "static", "use", "struct", "#"):
            raise TErr("statement `%s` not supported" % v)
        if v in ("return", "if", "match"):
            return P.stmt(self)
        e = self.expr()
        v2 = self.peek()[1]
        if v2 in ("=", "+=", "-=", "*=", "&=", "|="):
            self.take()
            rhs = self.expr()
            self.expect(";")
            if v2 != "=":
                rhs = ("bin", v2[0], e, rhs)
            return ("assign", e, rhs)
        if self.eat(";"):
            return ("exprstmt", e)
        return ("tail", e)

    def if_expr(self):
        if self.peek(1) == ("id", "let"):
            raise TErr("if-let not supported")
        return P.if_expr(self)

    def postfix(self):
        e = self.atom()
        while True:
            if self.eat("."):
                name = self.take()[1]
                if self.peek()[1] == "(":
                    self.take()
                    args = []
                    while self.peek()[1] != ")":
                        if self.peek()[1] in ("|", "||"):
                            raise TErr("closure")
                        args.append(self.expr())
                        if not self.eat(","):
                            break
                    self.expect(")")
                    e = ("call", name, e, args)
                else:
                    e = ("field", e, name)
            elif self.eat("?"):
                e = ("try", e)
            elif self.peek()[1] == "[":
                self.take()
                e = ("index", e, self.index_arg())
                self.expect("]")
            else:
                return e

    def index_arg(self):
        lo = None
        if self.peek()[1] not in ("..", "..="):
            lo = self.expr()
            if self.peek()[1] not in ("..", "..="):
                return lo
        if self.take()[1] == "..=":
            raise TErr("inclusive range")
        hi = None if self.peek()[1] == "]" else self.expr()
        return ("range", lo, hi)

    def atom(self):
        k, v = self.peek()
        if v == "[":
            self.take()
            if self.eat("]"):
                return ("array", [])
            first = self.expr()
            if self.eat(";"):
                n = self.expr()
                self.expect("]")
                return ("repeat", first, n)
            items = [first]
            while self.eat(","):
                if self.peek()[1] == "]":
                    break
                items.append(self.expr())
            self.expect("]")
            return ("array", items)
        if k == "id" and v == "vec!" and self.peek(1)[1] == "[":
            self.take()
            self.take()
            first = self.expr()
            self.expect(";")
            n = self.expr()
            self.expect("]")
            return ("vrepeat", first, n)
        if k == "id" and v.endswith("!"):
            raise TErr("macro %s in expression" % v)
        if k == "id" and v in ("for", "while", "loop", "break", "continue", "unsafe", "match", "move", "mut", "ref"):
            raise TErr("`%s` not supported" % v)
        if (k == "id" and self.peek(1)[1] == "{" and not self.ns[-1]
                and re.match(r"[A-Z][A-Za-z0-9]*[a-z][A-Za-z0-9]*$", v.split("::")[-1])):
            self.take()
            self.take()
            fields = []
            while self.peek()[1] != "}":
                if self.peek()[1] == "..":
                    raise TErr("struct update syntax")
                fname = self.ident()
                fe = self.expr() if self.eat(":") else ("var", fname)
                fields.append((fname, fe))
                if not self.eat(","):
                    break
            self.expect("}")
            return ("struct", v.split("::")[-1], fields)
        if v == "(":
            self.take()
            self.ns.append(False)
            try:
                e = P.expr(self, False, 0)
            finally:
                self.ns.pop()
            if self.peek()[1] == ",":
                raise TErr("tuple")
            self.expect(")")
            return ("paren", e)
        return P.atom(self)


# ------------------------------------------------------------------ types
def norm_type(t, cx):
    """Rust type text -> canonical type string; array lengths are evaluated."""
    t = re.sub(r"\s+", "", t)
    t = re.sub(r"^&(?:'[a-z_]+)?(?:mut)?", "", t)
    if t in INTS or t == "bool":
        return t
    if t == "[u8]":
        return "[u8]"
    m = re.match(r"\[u8;(.+)\]$", t)
    if m:
        return "[u8;%d]" % const_text_value(m.group(1), cx)
    m = re.match(r"Option<(.+)>$", t)
    if m:
        return "Option<%s>" % norm_type(m.group(1), cx)
    if t in cx.structs or t in ENUMS:
        return t
    m = re.match(r"(?:SmallVec|Vec)<(\w+)(?:,[^>]*)?>$", t) or re.match(r"\[(\w+)\]$", t)
    if m and m.group(1) == "u8":
        return "[u8]"                                     # a byte vector is a byte list of unknown length
    if m and m.group(1) in INTS:
        return "Vec<%s>" % m.group(1)
    raise TErr("type %s not supported" % t)


def const_text_value(txt, cx):
    e = WP(tokenize(txt)).expr()
    v = ev_const(e, cx)
    if v is None:
        raise TErr("array length %s is not a constant" % txt)
    return v


def ev_const(e, cx):
    k = e[0]
    if k == "paren":
        return ev_const(e[1], cx)
    if k == "num":
        return parse_num(e[1])[0]
    if k == "var":
        base = e[1].split("::")[-1]
        if base in cx.consts:
            return cx.consts[base][1]
        return None
    if k == "bin" and e[1] in ("+", "-", "*"):
        a, b = ev_const(e[2], cx), ev_const(e[3], cx)
        if a is None or b is None:
            return None
        return a + b if e[1] == "+" else a - b if e[1] == "-" else a * b
    return None


def coq_type(t):
    if t in INTS or t in ENUMS:
        return "Z"
    if t == "bool":
        return "bool"
    if t.startswith("[u8"):
        return "list Z"
    if t.startswith("Option<"):
        return "option (%s)" % coq_type(t[7:-1])
    return "list Z"          # Vec<int>; struct: list of its fields in declaration order


def is_bytes(t):
    return t is not None and t.startswith("[u8")


def compat(a, b):
    if a is None or b is None or a == "?" or b == "?":
        return True
    if a.startswith("Option<") and b.startswith("Option<"):
        return compat(a[7:-1], b[7:-1])
    if a.startswith("Vec<") and b.startswith("Vec<"):
        return compat(a[4:-1], b[4:-1])
    return a == b


def unify(a, b, what):
    if not compat(a, b):
        raise TErr("type mismatch in %s: %s vs %s" % (what, a, b))
    if a is None or a == "?":
        return b
    if a.startswith("Option<") and b is not None and b.startswith("Option<"):
        return "Option<%s>" % unify(a[7:-1], b[7:-1], what)
    if a.startswith("Vec<") and b is not None and b.startswith("Vec<"):
        return "Vec<%s>" % unify(a[4:-1], b[4:-1], what)
    return a


class Val:
    __slots__ = ("s", "t", "c")

    def __init__(self, s, t, c=None):
        self.s, self.t, self.c = s, t, c


def fits(c, t):
    if t in UNS:
        return 0 <= c < 2 ** UNS[t]
    if t == "i32":
        return -2 ** 31 <= c < 2 ** 31
    return False


def typed(v, t, what):
    """give an untyped literal the type t (range-checked); otherwise check equality"""
    if v.t is None:
        if t is None:
            return v
        if t not in INTS or v.c is None or not fits(v.c, t):
            raise TErr("literal %s does not fit %s (%s)" % (v.s, t, what))
        return Val(v.s, t, v.c)
    if t is not None and not compat(v.t, t):
        raise TErr("type mismatch in %s: %s vs %s" % (what, v.t, t))
    return v


# ------------------------------------------------------------------ context
class Cx:
    def __init__(self, structs, consts, registry):
        self.structs, self.consts, self.registry = structs, consts, registry
        self.ret = None
        self.used = set(RESERVED)
        self.tmp = "x"
        self.fn = None
        self.loop = None          # innermost enclosing loop: {"name", "inv", "state", "rec"}
        self.loops = []           # emitted Fixpoints (an inner loop before the loop that calls it)
        self.nloops = 0
        self.slice_self = False   # return-value slice of a method: `self.m(..);` statements are dropped
        self.dropped = []
        self.fuel_params = []     # coq names of the byte-slice parameters (fuel bound)

    def fresh(self, base=None):
        base = base or self.tmp
        n = 0 if base == self.tmp else 1
        while "%s%d" % (base, n) in self.used:
            n += 1
        name = "%s%d" % (base, n)
        self.used.add(name)
        return name


def mangle(n):
    return n + "_r" if n in RESERVED or n.startswith("leaf_") else n


def pure(e, cx):
    """no sub-expression that can fail (index, ?, call of a translated function)"""
    if not isinstance(e, tuple):
        if isinstance(e, list):
            return all(pure(x, cx) for x in e)
        return True
    if e and e[0] in ("index", "try", "if", "match", "iflet"):
        return False
    if e and e[0] == "fcall" and e[1].split("::")[-1] in cx.registry:
        return False
    if e and e[0] == "call" and e[1] == "copy_from_slice":
        return False
    return all(pure(x, cx) for x in e[1:])


# ------------------------------------------------------------------ expressions (CPS)
def ev_list(es, env, cx, k, acc=None):
    acc = acc or []
    if not es:
        return k(acc)
    return ev(es[0], env, cx, lambda v: ev_list(es[1:], env, cx, k, acc + [v]))


def ev(e, env, cx, k):
    """translate expression e; k : Val -> coq text (of type res _) is called exactly once"""
    kind = e[0]
    if kind == "paren":
        return ev(e[1], env, cx, k)
    if kind == "num":
        c, suf = parse_num(e[1])
        if suf and not fits(c, suf):
            raise TErr("literal %s out of range" % e[1])
        return k(Val(str(c), suf, c))
    if kind == "var":
        n = e[1]
        if n in ("true", "false"):
            return k(Val(n, "bool"))
        if n in env:
            return k(env[n])
        base = n.split("::")[-1]
        if base == "None":
            return k(Val("None", "Option<?>"))
        if base in cx.consts and base not in env:
            ty, val = cx.consts[base]
            return k(Val(base, ty, val))
        parts = n.split("::")
        if len(parts) >= 2 and parts[-2] in ENUMS and parts[-1] in ENUMS[parts[-2]]:
            return k(Val("%s_%s" % (parts[-2], parts[-1]), parts[-2]))
        raise TErr("unknown identifier %s" % n)
    if kind == "index":
        if e[2][0] == "range":
            raise TErr("slice expression outside copy_from_slice")
        return ev(e[1], env, cx, lambda bv: ev_index(bv, e[2], env, cx, k))
    if kind == "not":
        def knot(v):
            if v.t != "bool":
                raise TErr("`!` on %s (only bool)" % v.t)
            return k(Val("(negb %s)" % v.s, "bool"))
        return ev(e[1], env, cx, knot)
    if kind in ("neg", "deref"):
        raise TErr("unary %s not supported" % kind)
    if kind == "cast":
        return ev(e[2], env, cx, lambda v: k(cast(v, e[1])))
    if kind == "bin":
        return ev_bin(e, env, cx, k)
    if kind == "try":
        def ktry(v):
            if not (v.t and v.t.startswith("Option<")):
                raise TErr("`?` on %s" % v.t)
            if cx.loop is not None:
                raise TErr("`?` inside a while body")
            if not (cx.ret and cx.ret.startswith("Option<")):
                raise TErr("`?` in a function returning %s" % cx.ret)
            y = cx.fresh()
            return "(match %s with Some %s => %s | None => Ok None end)" % (v.s, y, k(Val(y, v.t[7:-1])))
        return ev(e[1], env, cx, ktry)
    if kind == "fcall":
        return ev_fcall(e, env, cx, k)
    if kind == "call":
        return ev_method(e, env, cx, k)
    if kind == "field":
        def kfield(v):
            flds = cx.structs.get(v.t)
            if flds is None:
                raise TErr("field access on %s" % v.t)
            names = [f for f, _ in flds]
            if e[2] not in names:
                raise TErr("no field %s in %s" % (e[2], v.t))
            i = names.index(e[2])
            return k(Val("(nth %d %s 0)" % (i, v.s), flds[i][1]))
        return ev(e[1], env, cx, kfield)
    if kind == "struct":
        flds = cx.structs.get(e[1])
        if flds is None:
            raise TErr("struct %s unknown" % e[1])
        given = [f for f, _ in e[2]]
        if sorted(given) != sorted(f for f, _ in flds) or len(set(given)) != len(given):
            raise TErr("struct literal %s: fields %s" % (e[1], given))

        def kstruct(vals):
            byname = {}
            for (f, _), v in zip(e[2], vals):
                byname[f] = typed(v, dict(flds)[f], "field " + f)
            return k(Val("[%s]" % "; ".join(byname[f].s for f, _ in flds), e[1]))
        return ev_list([fe for _, fe in e[2]], env, cx, kstruct)
    if kind == "array":
        def karr(vals):
            vals = [typed(v, "u8", "array element") for v in vals]
            return k(Val("[%s]" % "; ".join(v.s for v in vals), "[u8;%d]" % len(vals)))
        return ev_list(e[1], env, cx, karr)
    if kind == "repeat":
        def krep(vs):
            v, n = typed(vs[0], "u8", "array element"), vs[1]
            if n.c is None or not compat(n.t, "usize") or not (0 <= n.c < 2 ** 32):
                raise TErr("array length is not a constant")
            return k(Val("(repeat %s (Z.to_nat %s))" % (v.s, n.s), "[u8;%d]" % n.c))
        return ev_list([e[1], e[2]], env, cx, krep)
    if kind == "vrepeat":
        def kvrep(vs):
            v, n = typed(vs[0], "u8", "vec! element"), typed(vs[1], "usize", "vec! length")
            if v.c is None:
                raise TErr("vec! element is not a constant")
            return k(Val("(repeat %s (Z.to_nat %s))" % (v.s, n.s), "[u8]"))
        return ev_list([e[1], e[2]], env, cx, kvrep)
    raise TErr("expression kind %s not supported here" % kind)


def ev_index(bv, idx, env, cx, k):
    if not is_bytes(bv.t):
        raise TErr("indexing a %s" % bv.t)

    def kidx(i):
        i = typed(i, "usize", "index")
        x = cx.fresh()
        return "(%s <- get %s %s ;; %s)" % (x, bv.s, i.s, k(Val(x, "u8")))
    return ev(idx, env, cx, kidx)


def cast(v, ty):
    if ty in UNS:
        if v.t is None:
            return typed(v, ty, "cast")
        if v.t in UNS and UNS[v.t] <= UNS[ty]:
            return Val(v.s, ty, v.c)                     # widening: value unchanged
        if v.t == "i32" and ty == "u32":
            return Val("(of_i32 %s)" % v.s, ty)
    if ty == "i32" and v.t == "u32":
        return Val("(to_i32 %s)" % v.s, ty)
    if ty == "i32" and v.t is None:
        return typed(v, ty, "cast")
    raise TErr("cast %s as %s not supported" % (v.t, ty))


CMP = {"==": "(%s =? %s)", "!=": "(negb (%s =? %s))", "<": "(%s <? %s)", "<=": "(%s <=? %s)"}


def ev_bin(e, env, cx, k):
    op, a, b = e[1], e[2], e[3]
    if op in ("&&", "||"):
        def ka(va):
            if va.t != "bool":
                raise TErr("%s on %s" % (op, va.t))
            if pure(b, cx):
                def kb(vb):
                    if vb.t != "bool":
                        raise TErr("%s on %s" % (op, vb.t))
                    return k(Val("(%s %s %s)" % (va.s, op, vb.s), "bool"))
                return ev(b, env, cx, kb)

            def kb2(vb):
                if vb.t != "bool":
                    raise TErr("%s on %s" % (op, vb.t))
                return "(Ok %s)" % vb.s
            rhs = ev(b, env, cx, kb2)
            c = cx.fresh()
            if op == "&&":
                cond = "(if %s then %s else (Ok false))" % (va.s, rhs)
            else:
                cond = "(if %s then (Ok true) else %s)" % (va.s, rhs)
            return "(%s <- %s ;; %s)" % (c, cond, k(Val(c, "bool")))
        return ev(a, env, cx, ka)

    def kab(vs):
        va, vb = vs
        if op in ("==", "!=", "<", ">", "<=", ">="):
            t = unify(va.t, vb.t, op)
            if t is None:
                t = "usize"
            va2, vb2 = (typed(va, t, op), typed(vb, t, op)) if t in INTS else (va, vb)
            if t in INTS:
                if op in (">", ">="):
                    va2, vb2 = vb2, va2
                o = {">": "<", ">=": "<="}.get(op, op)
                return k(Val(CMP[o] % (va2.s, vb2.s), "bool"))
            if op in ("==", "!="):
                if t == "bool":
                    r = "(Bool.eqb %s %s)" % (va.s, vb.s)
                elif t.startswith("Option<") and (t[7:-1] in INTS or t[7:-1] == "?"):
                    r = "(ozeqb %s %s)" % (va.s, vb.s)
                else:
                    raise TErr("%s on %s" % (op, t))
                return k(Val(r if op == "==" else "(negb %s)" % r, "bool"))
            raise TErr("%s on %s" % (op, t))
        if op in ("&", "|"):
            t = unify(va.t, vb.t, op)
            if t not in UNS:
                raise TErr("%s on %s (only unsigned integers)" % (op, t))
            va, vb = typed(va, t, op), typed(vb, t, op)
            return k(Val("(Z.%s %s %s)" % ("land" if op == "&" else "lor", va.s, vb.s), t))
        if op in ("<<", ">>"):
            t = va.t
            if t not in UNS:
                raise TErr("%s on %s (only typed unsigned integers)" % (op, t))
            if vb.c is None or not (0 <= vb.c < UNS[t]):
                raise TErr("shift amount must be a constant below the bit width")
            if op == ">>":
                return k(Val("(Z.shiftr %s %s)" % (va.s, vb.s), t))
            w = UNS[t]
            m = {64: "two64", 32: "two32"}.get(w, str(2 ** w))
            return k(Val("((Z.shiftl %s %s) mod %s)" % (va.s, vb.s, m), t))
        if op in ("+", "-", "*"):
            t = unify(va.t, vb.t, op)
            if va.c is None or vb.c is None:
                # checked arithmetic: overflow is a panic (debug-build semantics; the equivalence lemmas
                # carry the length bound that rules it out, so the wrapping release semantics agrees)
                if t is None and (va.t in UNS or vb.t in UNS):
                    t = va.t or vb.t
                if t not in UNS:
                    raise TErr("`%s` on non-constant %s operands (overflow semantics not modelled)" % (op, t))
                va2, vb2 = typed(va, t, op), typed(vb, t, op)
                y = cx.fresh()
                bound = {64: "two64", 32: "two32"}.get(UNS[t], str(2 ** UNS[t]))
                test = "(%s <? %s)" % (y, bound) if op in ("+", "*") else "(0 <=? %s)" % y
                return "(let %s := (%s %s %s) in (if %s then %s else Oob))" % (y, va2.s, op, vb2.s, test, k(Val(y, t)))
            c = va.c + vb.c if op == "+" else va.c - vb.c if op == "-" else va.c * vb.c
            if not fits(c, t or "usize"):
                raise TErr("constant arithmetic overflows %s" % (t or "usize"))
            return k(Val("(%s %s %s)" % (va.s, op, vb.s), t, c))
        raise TErr("operator %s not supported" % op)
    return ev_list([a, b], env, cx, kab)


def ev_fcall(e, env, cx, k):
    path = e[1].split("::")
    name, args = path[-1], e[2]
    if name == "Some" and len(args) == 1:
        return ev(args[0], env, cx, lambda v: k(Val("(Some %s)" % v.s, "Option<%s>" % (v.t or "?"))))
    if name == "from_be_bytes" and len(path) == 2 and path[0] in INTS and len(args) == 1:
        ty = path[0]
        n = INTS[ty] // 8
        arr = args[0]
        while arr[0] == "paren":
            arr = arr[1]
        if arr[0] != "array" or len(arr[1]) != n:
            raise TErr("%s::from_be_bytes needs a literal array of %d bytes" % (ty, n))

        def kfb(vals):
            vals = [typed(v, "u8", "from_be_bytes element").s for v in vals]
            if n == 1:
                s = vals[0]
            elif n == 2:
                s = "(be16 %s)" % " ".join(vals)
            elif n == 4:
                s = "(be32 %s)" % " ".join(vals)
            else:
                s = "(be_fold 0 [%s])" % "; ".join(vals)
            if ty == "i32":
                s = "(to_i32 %s)" % s
            return k(Val(s, ty))
        return ev_list(arr[1], env, cx, kfb)
    if name == "new" and len(path) == 2 and path[0] in ("SmallVec", "Vec") and not args:
        return k(Val("(@nil Z)", "Vec<?>"))
    if name == "from_vec" and len(path) == 2 and path[0] == "SmallVec" and len(args) == 1:
        def kfv(v):
            if not (is_bytes(v.t) or (v.t or "").startswith("Vec<")):
                raise TErr("SmallVec::from_vec of %s" % v.t)
            return k(v)
        return ev(args[0], env, cx, kfv)
    if name in cx.registry and len(path) == 1:
        callee = cx.registry[name]
        if len(args) != len(callee["ptypes"]):
            raise TErr("call %s: arity" % name)

        def kcall(vals):
            for v, pt in zip(vals, callee["ptypes"]):
                if not (compat(v.t, pt) or (is_bytes(v.t) and pt == "[u8]")):
                    raise TErr("call %s: argument type %s vs %s" % (name, v.t, pt))
            x = cx.fresh()
            return "(%s <- leaf_wire_%s %s ;; %s)" % (x, name, " ".join(v.s for v in vals), k(Val(x, callee["ret"])))
        return ev_list(args, env, cx, kcall)
    if name in [f for f, _ in FUNCS]:
        raise TErr("call %s: the callee could not be translated" % e[1])
    raise TErr("call %s not supported" % e[1])


def ev_method(e, env, cx, k):
    name, recv, args = e[1], e[2], e[3]
    if name == "len" and not args:
        def klen(v):
            if not (is_bytes(v.t) or (v.t or "").startswith("Vec<")):
                raise TErr("len() on %s" % v.t)
            return k(Val("(blen %s)" % v.s, "usize"))
        return ev(recv, env, cx, klen)
    if name == "to_be_bytes" and not args:
        def ktb(v):
            if v.t not in INTS:
                raise TErr("to_be_bytes on %s" % v.t)
            n = INTS[v.t] // 8
            s = "(of_i32 %s)" % v.s if v.t == "i32" else v.s
            return k(Val("(be_bytes %d %s)" % (n, s), "[u8;%d]" % n))
        return ev(recv, env, cx, ktb)
    if name in ("is_some", "is_none") and not args:
        def kis(v):
            if not (v.t and v.t.startswith("Option<")):
                raise TErr("%s on %s" % (name, v.t))
            a, b = ("true", "false") if name == "is_some" else ("false", "true")
            return k(Val("(match %s with Some _ => %s | None => %s end)" % (v.s, a, b), "bool"))
        return ev(recv, env, cx, kis)
    if name in ("wrapping_add", "wrapping_sub") and len(args) == 1:
        def kw(vs):
            a, b = vs
            t = a.t
            if t not in UNS:
                raise TErr("%s on %s (only typed unsigned integers)" % (name, t))
            b = typed(b, t, name)
            if not compat(b.t, t):
                raise TErr("%s: %s vs %s" % (name, t, b.t))
            bound = {64: "two64", 32: "two32"}.get(UNS[t], str(2 ** UNS[t]))
            return k(Val("((%s %s %s) mod %s)" % (a.s, "+" if name == "wrapping_add" else "-", b.s, bound), t))
        return ev_list([recv] + args, env, cx, kw)
    raise TErr("method %s not supported" % name)


# ------------------------------------------------------------------ statements
def declared(stmts, acc=None):
    acc = set() if acc is None else acc
    for s in stmts:
        if s[0] == "let":
            acc.add(s[1])
        elif s[0] == "for":
            acc.add(s[1])
            declared(s[4], acc)
        elif s[0] in ("expr", "tail") and s[1][0] == "if":
            declared(s[1][2], acc)
            declared(s[1][3], acc)
        elif s[0] == "while":
            declared(s[2], acc)
        elif s[0] == "foreach":
            acc.update(x for x in (s[1], s[2]) if x)
            declared(s[4], acc)
    return acc


def loop_body_ok(stmts):
    for s in stmts:
        if s[0] in ("let", "assign", "exprstmt", "skip"):
            continue
        if s[0] in ("expr", "tail") and s[1][0] == "if":
            loop_body_ok(s[1][2])
            loop_body_ok(s[1][3])
            continue
        raise TErr("statement %s inside a for body not supported" % s[0])


def state_tuple(names, env):
    parts = [env[n].s for n in names]
    return parts[0] if len(parts) == 1 else "(" + ", ".join(parts) + ")"


def walk_vars(x, acc):
    if isinstance(x, tuple):
        if x and x[0] == "var" and len(x) == 2 and isinstance(x[1], str):
            acc.append(x[1])
        for y in x[1:] if x and isinstance(x[0], str) else x:
            walk_vars(y, acc)
    elif isinstance(x, list):
        for y in x:
            walk_vars(y, acc)
    return acc


def assigned_in(stmts, acc):
    for s in stmts:
        if s[0] == "assign":
            if s[1][0] == "index" and s[1][1][0] == "var" and s[1][2][0] != "range":
                acc.append(s[1][1][1])
                continue
            if s[1][0] != "var":
                raise TErr("assignment target not a local")
            acc.append(s[1][1])
        elif s[0] == "exprstmt" and s[1][0] == "call" and s[1][1] == "push" and s[1][2][0] == "var":
            acc.append(s[1][2][1])
        elif (s[0] == "exprstmt" and s[1][0] == "call" and s[1][1] == "copy_from_slice"
              and s[1][2][0] == "index" and s[1][2][1][0] == "var"):
            acc.append(s[1][2][1][1])
        elif s[0] in ("expr", "tail") and s[1][0] == "if":
            assigned_in(s[1][2], acc)
            assigned_in(s[1][3], acc)
        elif s[0] == "while":
            assigned_in(s[2], acc)          # a nested loop: what it assigns is assigned by the enclosing body
        elif s[0] in ("for", "foreach"):
            assigned_in(s[4], acc)
        elif s[0] in ("let", "skip", "break", "exprstmt"):
            continue
        else:
            raise TErr("statement %s inside a while body not supported" % s[0])
    return acc


def run_while(s, rest, env, cx):
    """`while c { body }`  ->  a fuelled Fixpoint over the locals the body assigns.
    fuel = S (total length of the byte-slice parameters); running out of fuel is [Fuel]."""
    _, cond, body = s
    clash = declared(body) & set(env)
    if clash:
        raise TErr("while body shadows %s" % sorted(clash))
    state = []
    for n in assigned_in(body, []):
        if n in env and n not in state:
            state.append(n)
    if not state:
        raise TErr("while: the body assigns no outer local")
    state = [n for n in env if n in state]          # declaration order, not order of assignment
    for n in state:
        if not env.get("mut:" + n):
            raise TErr("while: %s is not a `let mut` local" % n)
    used = walk_vars([cond, body], [])
    inv = [n for n in env if not n.startswith("mut:") and n in used and n not in state]
    fuel0 = while_fuel(cond, state, env, cx)
    cx.nloops += 1
    name = "leaf_wire_%s_loop%d" % (cx.fn, cx.nloops)
    fuel = cx.fresh("fuel")
    benv = {}
    for n in inv + state:
        benv[n] = Val(mangle(n), env[n].t, None)
        benv["mut:" + n] = env.get("mut:" + n, False)
    saved_ret, saved_loop = cx.ret, cx.loop
    cx.loop = {"name": name, "inv": inv, "state": state, "rec": "%s %s'" % (name, fuel)}
    cx.ret = None
    try:
        def kc(v):
            if v.t != "bool":
                raise TErr("while condition of type %s" % v.t)
            return "(if %s then %s else (Ok %s))" % (v.s, run(list(body) + [("loop_end",)], benv, cx),
                                                     state_tuple(state, benv))
        step = ev(cond, benv, cx, kc)
    finally:
        cx.loop = saved_loop
        cx.ret = saved_ret
    sig = " ".join("(%s : %s)" % (mangle(n), coq_type(env[n].t)) for n in inv + state)
    sty = " * ".join(coq_type(env[n].t) for n in state)
    cx.loops.append("Fixpoint %s (%s : nat) %s {struct %s} : res (%s) :=\n  match %s with\n  | O => Fuel\n  | S %s' =>\n    %s\n  end.\n"
                    % (name, fuel, sig, fuel, sty, fuel, fuel, step))
    # call site
    args = [env[n].s for n in inv] + [env[n].s for n in state]
    env2 = dict(env)
    news = []
    for n in state:
        cn = cx.fresh(mangle(n) + "_")
        env2[n] = Val(cn, env[n].t)
        news.append(cn)
    call = "%s %s %s" % (name, fuel0, " ".join(args))
    if len(news) == 1:
        return "(%s <- %s ;; %s)" % (news[0], call, run(rest, env2, cx))
    st = cx.fresh()
    return "(%s <- %s ;; (let '(%s) := %s in %s))" % (st, call, ", ".join(news), st, run(rest, env2, cx))


def conjuncts(e):
    while e[0] == "paren":
        e = e[1]
    if e[0] == "bin" and e[1] == "&&":
        return conjuncts(e[2]) + conjuncts(e[3])
    return [e]


def while_fuel(cond, state, env, cx):
    """The fuel a `while` is started with (a nat).  It is only a guess the translator makes from the loop
    condition -- nothing is trusted here: running out of fuel is [Fuel], and the equivalence lemma has to
    show that it does not happen.
      a conjunct `v.len() < K` / `v.len() <= K` (v a vector the body assigns, K a constant):
                                  S (K - len v) resp. S (K + 1 - len v), evaluated at loop entry
      otherwise:                  S (total length of the byte-slice parameters)"""
    for c in conjuncts(cond):
        if c[0] != "bin" or c[1] not in ("<", "<=", ">", ">="):
            continue
        op, a, b = c[1], c[2], c[3]
        if op in (">", ">="):
            op, a, b = {">": "<", ">=": "<="}[op], b, a
        while a[0] == "paren":
            a = a[1]
        if not (a[0] == "call" and a[1] == "len" and not a[3] and a[2][0] == "var" and a[2][1] in state):
            continue
        v = env[a[2][1]]
        if not ((v.t or "").startswith("Vec<") or is_bytes(v.t)):
            continue
        kc = ev_const_env(b, env, cx)
        if kc is None or not (0 <= kc < 2 ** 32):
            continue
        return "(S (Z.to_nat (%d - (blen %s))))" % (kc + (1 if op == "<=" else 0), v.s)
    if not cx.fuel_params:
        raise TErr("while: nothing to bound the fuel with (no `v.len() < K` conjunct, no byte-slice parameter)")
    return "(S (%s))" % " + ".join("length %s" % p for p in cx.fuel_params)


def run_foreach(s, rest, env, cx):
    """`for (i, &x) in v.iter().enumerate() { body }` / `for &x in v.iter() { body }`  ->  a Fixpoint by
    structural recursion on the list v (no fuel), over the locals the body assigns; i counts from 0."""
    _, ivar, xvar, coll, body = s
    if coll[0] != "var" or coll[1] not in env:
        raise TErr("for: the collection must be a parameter or a local")
    cv = env[coll[1]]
    if is_bytes(cv.t):
        et = "u8"
    elif (cv.t or "").startswith("Vec<") and cv.t[4:-1] in INTS:
        et = cv.t[4:-1]
    else:
        raise TErr("for over a %s" % cv.t)
    if env.get("mut:" + coll[1]) and coll[1] in assigned_in(body, []):
        raise TErr("for: the body assigns the collection")
    clash = (declared(body) | {x for x in (ivar, xvar) if x}) & set(env)
    if clash:
        raise TErr("for body shadows %s" % sorted(clash))
    state = []
    for n in assigned_in(body, []):
        if n in env and n not in state:
            state.append(n)
    if not state:
        raise TErr("for: the body assigns no outer local")
    state = [n for n in env if n in state]
    for n in state:
        if not env.get("mut:" + n):
            raise TErr("for: %s is not a `let mut` local" % n)
    used = walk_vars([body], [])
    inv = [n for n in env if not n.startswith("mut:") and n in used and n not in state]
    cx.nloops += 1
    name = "leaf_wire_%s_loop%d" % (cx.fn, cx.nloops)
    lst = cx.fresh("items")
    benv = {}
    for n in inv + state:
        benv[n] = Val(mangle(n), env[n].t, None)
        benv["mut:" + n] = env.get("mut:" + n, False)
    benv[xvar] = Val(mangle(xvar), et)
    benv["mut:" + xvar] = False
    rec = "%s %s'" % (name, lst)
    isig = ""
    if ivar:
        benv[ivar] = Val(mangle(ivar), "usize")
        benv["mut:" + ivar] = False
        rec += " (%s + 1)" % mangle(ivar)          # the enumerate counter stays below the length: no overflow
        isig = "(%s : Z) " % mangle(ivar)
    saved_ret, saved_loop = cx.ret, cx.loop
    cx.loop = {"name": name, "inv": inv, "state": state, "rec": rec}
    cx.ret = None
    try:
        step = run(list(body) + [("loop_end",)], benv, cx)
    finally:
        cx.loop = saved_loop
        cx.ret = saved_ret
    sig = " ".join("(%s : %s)" % (mangle(n), coq_type(env[n].t)) for n in inv + state)
    sty = " * ".join(coq_type(env[n].t) for n in state)
    cx.loops.append("Fixpoint %s (%s : list Z) %s%s {struct %s} : res (%s) :=\n  match %s with\n  | nil => Ok %s\n  | cons %s %s' =>\n    %s\n  end.\n"
                    % (name, lst, isig, sig, lst, sty, lst, state_tuple(state, benv), mangle(xvar), lst, step))
    args = [env[n].s for n in inv] + [env[n].s for n in state]
    env2 = dict(env)
    news = []
    for n in state:
        cn = cx.fresh(mangle(n) + "_")
        env2[n] = Val(cn, env[n].t)
        news.append(cn)
    call = "%s %s %s%s" % (name, cv.s, "0 " if ivar else "", " ".join(args))
    if len(news) == 1:
        return "(%s <- %s ;; %s)" % (news[0], call, run(rest, env2, cx))
    st = cx.fresh()
    return "(%s <- %s ;; (let '(%s) := %s in %s))" % (st, call, ", ".join(news), st, run(rest, env2, cx))


def ret_ok(v, cx):
    if cx.ret is None:
        raise TErr("value returned from a unit function")
    v = typed(v, cx.ret if cx.ret in INTS else None, "return") if v.t is None else v
    if not compat(v.t, cx.ret):
        raise TErr("return type mismatch: %s vs %s" % (v.t, cx.ret))
    return "(Ok %s)" % v.s


def run(stmts, env, cx):
    if not stmts:
        if cx.ret:
            raise TErr("fell off the end of a value-returning block")
        return "(Ok tt)"
    s, rest = stmts[0], stmts[1:]
    k = s[0]
    if k == "skip":
        return run(rest, env, cx)
    if k == "unbind":
        env = dict(env)
        env.pop(s[1], None)
        return run(rest, env, cx)
    if k == "loopvar":
        env = dict(env)
        env[s[1]] = Val(str(s[2]), s[3], s[2])
        return run(rest, env, cx)
    if k == "let":
        _, name, e, ty, mut = s

        def klet(v):
            t = v.t
            if ty is not None:
                dt = norm_type(ty, cx)
                v2 = typed(v, dt, "let " + name) if dt in INTS else v
                if not (compat(v2.t, dt) or (is_bytes(v2.t) and dt == "[u8]")):
                    raise TErr("let %s: %s vs %s" % (name, v2.t, dt))
                t = v2.t if is_bytes(v2.t) else unify(dt, v2.t, "let " + name)
            cn = mangle(name)
            env2 = dict(env)
            env2[name] = Val(cn, t, None if mut else v.c)
            env2["mut:" + name] = bool(mut)
            return "(let %s := %s in %s)" % (cn, v.s, run(rest, env2, cx))
        return ev(e, env, cx, klet)
    if k == "assign" and s[1][0] == "index" and s[1][1][0] == "var" and s[1][2][0] != "range":
        # d[i] = v   ==   d[i..i+1].copy_from_slice(&[v])   (i + 1 cannot wrap where the index is in range)
        dst = s[1][1][1]
        if dst not in env or not env.get("mut:" + dst) or not is_bytes(env[dst].t):
            raise TErr("indexed assignment target must be a `let mut` byte array")
        dv = env[dst]

        def kia(vals):
            i, v = typed(vals[0], "usize", "index"), typed(vals[1], "u8", "byte store")
            if not compat(v.t, "u8"):
                raise TErr("byte store of a %s" % v.t)
            hi = str(i.c + 1) if i.c is not None else "(%s + 1)" % i.s
            cn = cx.fresh(mangle(dst) + "_")
            env2 = dict(env)
            env2[dst] = Val(cn, dv.t)
            return "(%s <- splice %s %s %s [%s] ;; %s)" % (cn, dv.s, i.s, hi, v.s, run(rest, env2, cx))
        return ev_list([s[1][2], s[2]], env, cx, kia)
    if k == "assign":
        lhs = s[1]
        if lhs[0] != "var" or lhs[1] not in env or not env.get("mut:" + lhs[1]):
            raise TErr("assignment target not a `let mut` local")
        name = lhs[1]

        def kas(v):
            old = env[name]
            v2 = typed(v, old.t, "assignment") if old.t in INTS else v
            if not compat(v2.t, old.t):
                raise TErr("assignment type %s vs %s" % (v2.t, old.t))
            cn = cx.fresh(mangle(name) + "_")
            env2 = dict(env)
            env2[name] = Val(cn, old.t if old.t is not None else v2.t)
            return "(let %s := %s in %s)" % (cn, v2.s, run(rest, env2, cx))
        return ev(s[2], env, cx, kas)
    if k == "return":
        if cx.loop is not None:
            raise TErr("return inside a while body")
        if s[1] is None:
            if cx.ret:
                raise TErr("empty return in a value-returning function")
            return "(Ok tt)"
        return ev(s[1], env, cx, lambda v: ret_ok(v, cx))
    if k in ("tail", "expr"):
        e = s[1]
        if e[0] == "if":
            return run_if(e, rest, env, cx)
        if e[0] == "match":
            return run_match(e, rest, env, cx)
        if e[0] == "iflet":
            raise TErr("%s not supported" % e[0])
        if rest or cx.loop is not None:
            raise TErr("tail expression followed by statements")
        return ev(e, env, cx, lambda v: ret_ok(v, cx))
    if k == "exprstmt":
        e = s[1]
        if (e[0] == "call" and e[1] == "copy_from_slice" and len(e[3]) == 1 and e[2][0] == "index"
                and e[2][1][0] == "var" and e[2][2][0] == "range"):
            dst = e[2][1][1]
            if dst not in env or not env.get("mut:" + dst) or not is_bytes(env[dst].t):
                raise TErr("copy_from_slice target must be a `let mut` byte array")
            dv = env[dst]
            lo_e = e[2][2][1] or ("num", "0")
            hi_e = e[2][2][2]

            def kc(vals):
                lo = typed(vals[0], "usize", "range")
                if hi_e is None:
                    hi, src = Val("(blen %s)" % dv.s, "usize"), vals[1]
                else:
                    hi, src = typed(vals[1], "usize", "range"), vals[2]
                if not is_bytes(src.t):
                    raise TErr("copy_from_slice source is %s" % src.t)
                cn = cx.fresh(mangle(dst) + "_")
                env2 = dict(env)
                env2[dst] = Val(cn, dv.t)
                return "(%s <- splice %s %s %s %s ;; %s)" % (cn, dv.s, lo.s, hi.s, src.s, run(rest, env2, cx))
            return ev_list([lo_e] + ([hi_e] if hi_e is not None else []) + [e[3][0]], env, cx, kc)
        if e[0] == "call" and e[1] == "push" and len(e[3]) == 1 and e[2][0] == "var":
            dst = e[2][1]
            if dst not in env or not env.get("mut:" + dst) or not (env[dst].t or "").startswith("Vec<"):
                raise TErr("push target must be a `let mut` vector")
            dv = env[dst]

            def kp(v):
                et = dv.t[4:-1]
                v2 = typed(v, et if et in INTS else None, "push") if v.t is None else v
                if et != "?" and not compat(v2.t, et):
                    raise TErr("push of %s onto %s" % (v2.t, dv.t))
                cn = cx.fresh(mangle(dst) + "_")
                env2 = dict(env)
                env2[dst] = Val(cn, dv.t if et != "?" else "Vec<%s>" % (v2.t or "?"))
                return "(let %s := (%s ++ [%s]) in %s)" % (cn, dv.s, v2.s, run(rest, env2, cx))
            return ev(e[3][0], env, cx, kp)
        if (cx.slice_self and e[0] == "call" and e[2] == ("var", "self") and pure(e[3], cx)
                and "self" not in walk_vars(e[3], [])):
            ev_list(e[3], env, cx, lambda vals: "")          # the arguments must be translatable (and cannot fail: pure)
            if e[1] not in cx.dropped:
                cx.dropped.append(e[1])
            return run(rest, env, cx)
        raise TErr("expression statement not supported (possible side effect)")
    if k == "break":
        if cx.loop is None:
            raise TErr("break outside a loop")
        return "(Ok %s)" % state_tuple(cx.loop["state"], env)
    if k == "loop_end":
        lp = cx.loop
        args = [env[n].s for n in lp["inv"]] + [env[n].s for n in lp["state"]]
        return "(%s %s)" % (lp["rec"], " ".join(args))
    if k == "while":
        return run_while(s, rest, env, cx)
    if k == "foreach":
        return run_foreach(s, rest, env, cx)
    if k == "for":
        _, var, lo_e, hi_e, body = s
        lo, hi = ev_const_env(lo_e, env, cx), ev_const_env(hi_e, env, cx)
        if lo is None or hi is None:
            raise TErr("for: bounds are not constants")
        if hi - lo > MAX_UNROLL:
            raise TErr("for: more than %d iterations" % MAX_UNROLL)
        loop_body_ok(body)
        clash = (declared(body) | {var}) & set(env)
        if clash:
            raise TErr("for body shadows %s" % sorted(clash))
        suf = None
        for b in (lo_e, hi_e):
            if b[0] == "num" and parse_num(b[1])[1]:
                suf = parse_num(b[1])[1]
        flat = []
        for i in range(lo, hi):
            flat.append(("loopvar", var, i, suf))
            flat.extend(body)
        flat.append(("unbind", var))
        return run(flat + list(rest), env, cx)
    raise TErr("statement %s not supported" % k)


def ev_const_env(e, env, cx):
    out = []
    try:
        ev(e, env, cx, lambda v: out.append(v.c) or "")
    except TErr:
        return None
    return out[0] if out and pure(e, cx) else None


def run_match(e, rest, env, cx):
    """match <Option<int>> { Some(CONST) => {..} .. None => {..} _ => {..} }: arms in order, `_` last"""
    _, scrut, arms = e
    bodies = [b for _, b in arms]
    clash = set().union(*[declared(b) for b in bodies]) & set(env) if rest else set()
    if clash:
        raise TErr("match arm shadows %s" % sorted(clash))

    def km(v):
        if not (v.t and v.t.startswith("Option<") and v.t[7:-1] in INTS):
            raise TErr("match on %s (only Option<integer>)" % v.t)
        it = v.t[7:-1]
        somes, none_arm, default = [], None, None
        for idx, (pat, body) in enumerate(arms):
            if default is not None:
                raise TErr("match: an arm after `_`")
            if pat == "_":
                default = body
                continue
            if pat == "None":
                if none_arm is not None:
                    raise TErr("match: two None arms")
                none_arm = body
                continue
            m = re.match(r"Some\((.+)\)$", pat)
            if not m:
                raise TErr("match pattern %s" % pat)
            inner = m.group(1)
            base = inner.split("::")[-1]
            if re.match(r"(0x[0-9a-fA-F_]+|\d[\d_]*)(%s)?$" % _SUF, inner):
                c, suf = parse_num(inner)
                cv = typed(Val(str(c), suf, c), it, "match pattern")
            elif base in cx.consts and base not in env:
                ty, val = cx.consts[base]
                cv = typed(Val(base, ty, val), it, "match pattern")
            else:
                raise TErr("match pattern %s (only Some(CONST), None, _)" % pat)
            somes.append((cv, body))
        if default is None:
            raise TErr("match without a `_` arm")
        y = cx.fresh()

        def arm(body):
            return run(list(body) + list(rest), env, cx)
        chain = arm(default)
        for cv, body in reversed(somes):
            chain = "(if (%s =? %s) then %s else %s)" % (y, cv.s, arm(body), chain)
        return "(match %s with Some %s => %s | None => %s end)" % (v.s, y, chain, arm(none_arm if none_arm is not None else default))
    return ev(scrut, env, cx, km)


def run_if(e, rest, env, cx):
    clash = (declared(e[2]) | declared(e[3])) & set(env) if rest else set()
    if clash:
        raise TErr("if branch shadows %s" % sorted(clash))

    def kif(v):
        if v.t != "bool":
            raise TErr("if condition of type %s" % v.t)
        a = run(list(e[2]) + list(rest), env, cx)
        b = run(list(e[3]) + list(rest), env, cx)
        return "(if %s then %s else %s)" % (v.s, a, b)
    return ev(e[1], env, cx, kif)


# ------------------------------------------------------------------ per function
def split_params(params):
    out, depth, cur = [], 0, ""
    for ch in params:
        if ch in "([<":
            depth += 1
        elif ch in ")]>":
            depth -= 1
        if ch == "," and depth == 0:
            out.append(cur)
            cur = ""
        else:
            cur += ch
    if cur.strip():
        out.append(cur)
    return [p.strip() for p in out if p.strip()]


def struct_decls(src):
    """struct name -> [(field, type)] in declaration order"""
    out = {}
    for m in re.finditer(r"struct\s+(\w+)\s*\{", src):
        e = match_brace(src, m.end() - 1)
        body = re.sub(r"#\[[^\]]*\]", "", src[m.end():e])
        fields = []
        for part in body.split(","):
            part = part.strip()
            if not part:
                continue
            fm = re.match(r"(?:pub(?:\([a-z]+\))?\s+)?(\w+)\s*:\s*(.+)$", part, re.S)
            if not fm:
                fields = None
                break
            fields.append((fm.group(1), re.sub(r"\s+", "", fm.group(2))))
        if fields and all(t in INTS for _, t in fields):
            out[m.group(1)] = fields
    return out


def translate(fn, src, structs, consts, registry, rel="", impl=None):
    params, ret, body = find_fn(src, impl, fn)
    cx = Cx(structs, consts, registry)
    cx.fn = fn
    cx.slice_self = impl is not None
    toks = tokenize(body)
    cx.used |= {v for k, v in toks if k == "id"}
    env, sig, ptypes = {}, [], []
    for p in split_params(params):
        if impl is not None and re.match(r"&\s*(mut\s+)?self$", p):
            continue
        if ":" not in p or "self" in p.split(":")[0]:
            raise TErr("parameter %s" % p)
        nm, ty = [x.strip() for x in p.split(":", 1)]
        if nm.startswith("mut "):
            raise TErr("mut parameter")
        if not re.match(r"[a-z_][a-z0-9_]*$", nm):
            raise TErr("parameter pattern %s" % nm)
        t = norm_type(ty, cx)
        cx.used.add(nm)
        env[nm] = Val(mangle(nm), t)
        if t == "[u8]" or t.startswith("[u8;"):
            cx.fuel_params.append(mangle(nm))
        sig.append("(%s : %s)" % (mangle(nm), coq_type(t)))
        ptypes.append(t)
    for t in [v for k, v in toks if k == "id"]:
        if re.match(r"x\d+$", t):
            cx.tmp = "x_"
    cx.ret = norm_type(ret, cx) if ret else None
    stmts = WP(toks).block_from_start()
    expr = run(stmts, env, cx)
    rty = "res (%s)" % (coq_type(cx.ret) if cx.ret else "unit")
    doc = "(* %s :: fn %s(%s)%s *)" % (rel if impl else PROTO + rel, fn, " ".join(params.split()), (" -> " + ret) if ret else "")
    if cx.dropped:
        doc += "\n(* return-value slice: dropped `self.%s(..);` *)" % "(..);`, `self.".join(cx.dropped)
    text = "%s\n%sDefinition leaf_wire_%s %s : %s :=\n  %s.\n" % (doc, "".join(l + "\n" for l in cx.loops), fn,
                                                                " ".join(sig), rty, expr)
    registry[fn] = {"ptypes": ptypes, "ret": cx.ret}
    return text, {"params": [s for s in sig], "param_types": ptypes, "ret": cx.ret}


def proto_consts():
    import gen_constants as gc
    items = [it for it in gc.collect_consts() if it[4].startswith(PROTO)]
    values, _failed, _ = gc.evaluate_all(items)
    out = {}
    for it in items:
        key = (it[0], it[3])
        if key in values and it[1] in INTS and isinstance(values[key], int):
            out[it[0]] = (it[1], values[key])
    return out


def main():
    srcs = {}
    for _, f in FUNCS:
        if f not in srcs:
            try:
                srcs[f] = strip_comments(open(os.path.join(REPO, PROTO, f)).read())
            except OSError:
                srcs[f] = ""
    structs = {}
    for f in STRUCT_FILES:
        structs.update(struct_decls(srcs.get(f, "")))
    try:
        consts = proto_consts()
    except Exception as e:                      # noqa: BLE001
        consts = {}
        sys.stderr.write("gen_wire: constants unavailable: %s\n" % e)
    registry, defs, meta, failed = {}, [], {}, {}
    for fn, f in FUNCS:
        name = "wire_" + fn
        try:
            d, m = translate(fn, srcs[f], structs, consts, registry, f)
            m["file"] = PROTO + f
            defs.append(d)
            meta[name] = m
        except (TErr, IndexError, KeyError, ValueError, TypeError, RecursionError) as e:
            failed[name] = "%s: %s" % (type(e).__name__, e)
            defs.append("(* leaf_wire_%s: NOT TRANSLATED (%s) *)\n" % (fn, str(e).replace("*)", "* )").replace("(*", "( *")))
    for fn, path, impl in SLICE_FUNCS:
        name = "wire_" + fn
        try:
            src = strip_comments(open(os.path.join(REPO, path)).read())
            edefs = []
            for m in re.finditer(r"enum\s+(\w+)\s*\{([^{}()]*)\}", src):
                vs = [x.strip() for x in m.group(2).split(",") if x.strip()]
                if vs and all(re.match(r"[A-Z]\w*$", x) for x in vs) and m.group(1) not in ENUMS:
                    ENUMS[m.group(1)] = vs
                    edefs.append("(* %s :: enum %s *)\n%s" % (path, m.group(1), "".join(
                        "Definition %s_%s : Z := %d.\n" % (m.group(1), x, i) for i, x in enumerate(vs))))
            d, m = translate(fn, src, structs, consts, registry, path, impl)
            m["file"] = path
            defs.extend(edefs)
            defs.append(d)
            meta[name] = m
        except (TErr, IndexError, KeyError, ValueError, TypeError, RecursionError, OSError) as e:
            failed[name] = "%s: %s" % (type(e).__name__, e)
            defs.append("(* leaf_wire_%s: NOT TRANSLATED (%s) *)\n" % (fn, str(e).replace("*)", "* )").replace("(*", "( *")))
    hdr = ("(* GENERATED by tools/gen_wire.py from the Rust sources under %s on every run. Do not edit. *)\n"
           "From Coq Require Import ZArith Bool List.\nFrom Srtla Require Import Base Constants Splice.\n"
           "Import ListNotations.\nOpen Scope Z_scope.\n\n" % os.path.join(REPO, PROTO))
    content = hdr + "\n".join(defs)
    try:
        same = open(OUT).read() == content
    except OSError:
        same = False
    if not same:
        os.makedirs(os.path.dirname(OUT), exist_ok=True)
        open(OUT, "w").write(content)
    json.dump({"translated": sorted(meta), "failed": failed, "meta": meta, "changed": [] if same else ["Wire"]},
              sys.stdout, indent=1)
    print()


if __name__ == "__main__":
    main()
