#!/bin/sh
# Run one property's check against a patched PRIVATE copy of /repo (a scratch git worktree) from a private
# copy of /verif, so that /repo itself stays untouched and several seeds can be tried at once.
#   tools/seed_try.sh <patch.diff> <Cxx> [tier] [label]
# Prints the VIOLATION / holds line; the full log is kept in /root/scratch/results/<label>.log, replay files
# the check wrote in /root/scratch/results/<label>.replays/.  Everything else is removed afterwards.
PATCH=$(readlink -f "$1"); ID=$2; TIER=${3:-quick}; LABEL=${4:-$ID-$$}
S=/root/scratch; R=$S/r-$LABEL; V=$S/v-$LABEL
mkdir -p $S/results
rm -rf "$V"; git -C /repo worktree remove --force "$R" 2>/dev/null
git -C /repo worktree add -q --detach "$R" HEAD || exit 2
if ! git -C "$R" apply "$PATCH"; then echo "$LABEL: patch does not apply"; git -C /repo worktree remove --force "$R"; exit 2; fi
mkdir -p "$V"
(cd /verif && tar cf - --exclude=./work --exclude=./.git --exclude=./seeded .) | (cd "$V" && tar xf -)
mkdir -p "$V/work"
sed -i "s#\"/repo#\"$R#g" "$V/harness/Cargo.toml"
(cd "$V" && VERIF_REPO="$R" VERIF_KEEP_WORK=0 ./check "$ID" --tier "$TIER" > "$S/results/$LABEL.log" 2>&1)
rc=$?
rm -rf "$S/results/$LABEL.replays"; mkdir -p "$S/results/$LABEL.replays"
grep -o 'replay=[^ ]*' "$S/results/$LABEL.log" | sed 's/replay=//' | while read f; do
  [ -f "$f" ] && cp "$f" "$S/results/$LABEL.replays/" 2>/dev/null
  [ -f "$V/$f" ] && cp "$V/$f" "$S/results/$LABEL.replays/" 2>/dev/null
done
echo "$LABEL: rc=$rc $(grep -E '^VIOLATION|holds on everything|KNOWN-FINDING' "$S/results/$LABEL.log" | head -3 | tr '\n' ' ')"
rm -rf "$V"
git -C /repo worktree remove --force "$R"
