#!/usr/bin/env python3
"""Dispatch slicer: the type-code dispatch of the uplink receive path, regenerated from the Rust source.

`src/sender/uplink_recv.rs :: process_uplink_packet` is an `async fn` that owns sockets, a channel, the
registration manager and a connection; gen_wire.py cannot (and should not) translate it as a whole.  What
the model of C09 (coq/Model/Uplink.v) hand-models of it is a SLICE: which branch an inbound datagram takes
by its type code, and what that branch does to the `SrtlaIncoming` it returns and to `conn.last_received`:

    relay   how many copies of `data` are pushed onto `incoming.forward_to_client`
    stamp   what is assigned to `conn.last_received`       (0 untouched, 1 `Some(now)`, 2 `None`)
    acks / naks / sacks   which decoder's output is pushed onto `incoming.ack_numbers` / `.nak_numbers` /
                          `.srtla_ack_numbers`             (0 none, 1 parse_srt_ack, 2 parse_srt_nak,
                                                            3 parse_srtla_ack)

This tool computes that slice on every run, from the current source, as ONE Gallina function

    leaf_wire_uplink_dispatch (opt : option Z) (ev : option Z) : list Z      (* [relay; stamp; acks; naks; sacks] *)

of `opt` = the result of `get_packet_type(data)` and `ev` = the result of
`reg.process_registration_packet(conn_idx, data, now)` (translated by gen_wire.py as a return-value slice,
`leaf_wire_process_registration_packet`), written to coq/Gen/LeafUplink.v.  Proofs/LeafUplinkP.v proves
that Model/Uplink.v's `process_uplink_packet` has exactly these effects, for all inputs.

The slice is sound only if EVERY mention of `incoming` and every assignment to `conn.last_received` is one
of the shapes below; anything else is an error (reported by check.py as a broken obligation of C09), never
skipped:

    let mut incoming = SrtlaIncoming { <no list field> , ..Default::default() };
    let pt = get_packet_type(data);                     if let Some(pt) = pt { .. }
    if let Some(event) = reg.process_registration_packet(conn_idx, data, now) { .. }
    match event { RegistrationEvent::V => { .. } .. }   (decision on the event)
    if pt == CONST { .. } else if .. else { .. }        (decision on the type code)
    let v = SmallVec::from_slice_copy(data);            incoming.forward_to_client.push(v | <that call>);
    if let Some(a) = parse_X(data) { incoming.L.push(a); }
    let l = parse_X(data);   for s in l { incoming.L.push(s); }
    incoming.reg1_send = ..;                            (uplink-side I/O, not part of the return path)
    conn.last_received = Some(now) | None;
    return Ok(incoming);   /   Ok(incoming)

Every other `if` / `match` (the keepalive handler's verdict, the try_send_to result, `!l.is_empty()`) is
OPAQUE: all its branches are followed and must agree on relay and stamp (the decoder feeds are "may"
effects and are united); a `for` body may only feed.  Tracked names must not be re-bound.
"""
import json
import os
import re
import sys

sys.path.insert(0, os.path.dirname(os.path.abspath(__file__)))
import gen_wire as gw                                     # noqa: E402
from gen_leaf import TErr, strip_comments, find_fn        # noqa: E402

REPO = os.environ.get("VERIF_REPO", "/repo")
OUT = os.path.join(os.path.dirname(os.path.abspath(__file__)), "..", "coq", "Gen", "LeafUplink.v")
SRC = "src/sender/uplink_recv.rs"
REG_SRC = "crates/srtla-core/src/registration/mod.rs"
FN = "process_uplink_packet"
PARSERS = {"parse_srt_ack": 1, "parse_srt_nak": 2, "parse_srtla_ack": 3}
LISTS = ["ack_numbers", "nak_numbers", "srtla_ack_numbers"]
OPEN, CLOSE = "([{", ")]}"


# ------------------------------------------------------------------ block structure over tokens
class BP:
    def __init__(self, toks):
        self.t, self.i = [v for _, v in toks], 0

    def peek(self, k=0):
        return self.t[self.i + k] if self.i + k < len(self.t) else None

    def take(self):
        v = self.t[self.i]
        self.i += 1
        return v

    def until_brace(self):
        """tokens up to the `{` that opens a block (depth 0 w.r.t. parentheses and brackets)"""
        out, depth = [], 0
        while True:
            v = self.peek()
            if v is None:
                raise TErr("unterminated condition")
            if v == "{" and depth == 0:
                return out
            if v in "([":
                depth += 1
            elif v in ")]":
                depth -= 1
            out.append(self.take())

    def block(self):
        """after `{`: items up to the matching `}`"""
        items = []
        while self.peek() != "}":
            if self.peek() is None:
                raise TErr("unterminated block")
            items.append(self.item())
        self.take()
        return items

    def item(self):
        v = self.peek()
        if v == "if":
            return self.if_item()
        if v == "match":
            self.take()
            scrut = self.until_brace()
            self.take()
            arms = []
            while self.peek() != "}":
                pat = []
                while self.peek() != "=>":
                    if self.peek() is None:
                        raise TErr("match arm")
                    pat.append(self.take())
                self.take()
                if self.peek() == "{":
                    self.take()
                    body = self.block()
                else:
                    body = [("simple", self.simple(stop_comma=True))]
                if self.peek() == ",":
                    self.take()
                arms.append((pat, body))
            self.take()
            if self.peek() == ";":
                self.take()
            return ("match", scrut, arms)
        if v == "for":
            self.take()
            pat = []
            while self.peek() != "in":
                if self.peek() is None:
                    raise TErr("for pattern")
                pat.append(self.take())
            self.take()
            it = self.until_brace()
            self.take()
            return ("for", pat, it, self.block())
        if v in ("while", "loop", "unsafe"):
            raise TErr("`%s` in the dispatch function" % v)
        if v == "{":
            raise TErr("nested bare block")
        return ("simple", self.simple())

    def if_item(self):
        self.take()
        cond = self.until_brace()
        self.take()
        then = self.block()
        els = []
        if self.peek() == "else":
            self.take()
            if self.peek() == "if":
                els = [self.if_item()]
            else:
                if self.take() != "{":
                    raise TErr("else")
                els = self.block()
        if self.peek() == ";":
            self.take()
        return ("if", cond, then, els)

    def simple(self, stop_comma=False):
        """a statement up to `;` at depth 0 (or the tail expression up to the closing `}`)"""
        out, depth = [], 0
        while True:
            v = self.peek()
            if v is None:
                return out
            if depth == 0 and (v == "}" or (stop_comma and v == ",")):
                return out
            if v in OPEN:
                depth += 1
            elif v in CLOSE:
                depth -= 1
            out.append(self.take())
            if v == ";" and depth == 0:
                return out


# ------------------------------------------------------------------ the slice
class St:
    def __init__(self):
        self.inc = None          # name of the SrtlaIncoming local
        self.optpt = None        # local holding get_packet_type(data)
        self.pt = None           # local holding the type code
        self.ev = None           # local holding the registration event
        self.bound = set()       # every name bound so far (parameters, lets, patterns): no shadowing allowed
        self.copies = set()      # locals holding SmallVec::from_slice_copy(data)
        self.parsed = {}         # local -> parser (whole list)
        self.elems = {}          # local -> parser (one element)
        self.relay = 0
        self.stamp = 0
        self.feeds = {}          # list field -> parser

    def copy(self):
        s = St()
        s.__dict__.update({k: (v.copy() if isinstance(v, (set, dict)) else v) for k, v in self.__dict__.items()})
        return s

    def tracked(self):
        return ({self.inc, self.optpt, self.pt, self.ev} | self.bound | self.copies
                | set(self.parsed) | set(self.elems)) - {None, "_"}

    def leaf(self):
        return ("leaf", [self.relay, self.stamp] + [PARSERS.get(self.feeds.get(l), 0) for l in LISTS])


COPY = ["SmallVec::from_slice_copy", "(", "data", ")"]


def is_call(toks, fn_names, arg="data"):
    """toks == fn ( data )  with fn in fn_names -> fn"""
    if len(toks) == 4 and toks[0] in fn_names and toks[1] == "(" and toks[2] == arg and toks[3] == ")":
        return toks[0]
    return None


def simple_stmt(toks, st, consts):
    """effect of one simple statement on st; returns "return" if the function returns here"""
    t = list(toks)
    if t and t[-1] == ";":
        t = t[:-1]
    if not t:
        return None
    if t[0] == "return" or (t[0] == "Ok" and st.inc and t == ["Ok", "(", st.inc, ")"]):
        if t[0] == "return":
            t = t[1:]
        if t != ["Ok", "(", st.inc, ")"]:
            raise TErr("return of something else than Ok(%s): %s" % (st.inc, " ".join(t)))
        return "return"
    if t[0] == "let":
        j = 2 if t[1] == "mut" else 1
        name = t[j]
        k = j + 1
        if k < len(t) and t[k] == ":":
            while k < len(t) and t[k] != "=":
                k += 1
        if k >= len(t) or t[k] != "=" or not re.match(r"[a-z_][a-z0-9_]*$", name):
            raise TErr("let pattern: %s" % " ".join(t[:6]))
        rhs = t[k + 1:]
        if name in st.tracked():
            raise TErr("`%s` is re-bound" % name)
        st.bound.add(name)
        if rhs and rhs[0] == "SrtlaIncoming" and len(rhs) > 1 and rhs[1] == "{":
            if st.inc is not None:
                raise TErr("two SrtlaIncoming values")
            if any(x in rhs for x in LISTS + ["forward_to_client"]) or rhs[-5:] != ["..", "Default::default", "(", ")", "}"]:
                raise TErr("SrtlaIncoming literal sets a list field or is not ..Default::default()")
            st.inc = name
            return None
        if st.inc and st.inc in rhs:
            raise TErr("`%s` used in: %s" % (st.inc, " ".join(t)))
        if is_call(rhs, ["get_packet_type"]):
            st.optpt = name
        elif rhs == COPY:
            st.copies.add(name)
        elif is_call(rhs, PARSERS):
            st.parsed[name] = rhs[0]
        return None
    if st.inc and st.inc in t:
        if t[:2] == [st.inc, "."] and len(t) > 4 and t[3] == "." and t[4] == "push" and t[5] == "(" and t[-1] == ")":
            fld, arg = t[2], t[6:-1]
            if fld == "forward_to_client":
                if arg == COPY or (len(arg) == 1 and arg[0] in st.copies):
                    st.relay += 1
                    return None
                raise TErr("forward_to_client.push of something else than a copy of data: %s" % " ".join(arg))
            if fld in LISTS and len(arg) == 1 and arg[0] in st.elems:
                p = st.elems[arg[0]]
                if st.feeds.get(fld, p) != p:
                    raise TErr("%s fed by two decoders" % fld)
                st.feeds[fld] = p
                return None
        if t[:4] == [st.inc, ".", "reg1_send", "="] and st.inc not in t[4:]:
            return None
        raise TErr("unrecognised use of `%s`: %s" % (st.inc, " ".join(t)))
    if "last_received" in t:
        if t == ["conn", ".", "last_received", "=", "Some", "(", "now", ")"]:
            st.stamp = 1
        elif t == ["conn", ".", "last_received", "=", "None"]:
            st.stamp = 2
        elif "=" in t and t.index("=") > t.index("last_received"):
            raise TErr("unrecognised assignment to last_received: %s" % " ".join(t))
        return None
    for i, v in enumerate(t):                          # plain assignment to a tracked local
        if v == "=" and i == 1 and t[0] in st.tracked():
            raise TErr("`%s` is assigned" % t[0])
    return None


def merge(a, b, what):
    """opaque condition: both outcomes must agree on relay and stamp; feeds are united"""
    if a[0] == "leaf" and b[0] == "leaf":
        if a[1][:2] != b[1][:2]:
            raise TErr("relay/stamp depend on %s" % what)
        feeds = []
        for x, y in zip(a[1][2:], b[1][2:]):
            if x and y and x != y:
                raise TErr("a list fed by two decoders under %s" % what)
            feeds.append(x or y)
        return ("leaf", a[1][:2] + feeds)
    if a[0] == b[0] and a[0] != "leaf" and a[1] == b[1]:
        return (a[0], a[1], merge(a[2], b[2], what), merge(a[3], b[3], what))
    raise TErr("a type-code decision under %s" % what)


def walk(items, st, cont, consts):
    """decision tree of `items` followed by `cont` (st -> tree)"""
    if not items:
        return cont(st)
    it, rest = items[0], items[1:]
    k = it[0]
    if k == "simple":
        st = st.copy()
        if simple_stmt(it[1], st, consts) == "return":
            return st.leaf()
        return walk(rest, st, cont, consts)
    if k == "if":
        _, cond, then, els = it
        after = lambda s: walk(rest, s, cont, consts)          # noqa: E731
        if cond[:3] == ["let", "Some", "("] and cond[4:6] == [")", "="]:
            var, rhs = cond[3], cond[6:]
            if var in st.tracked() and not (st.optpt and rhs == [st.optpt] and var == st.optpt):
                raise TErr("`%s` is re-bound" % var)
            s1 = st.copy()
            s1.bound.add(var)
            if len(rhs) == 1 and rhs[0] == st.optpt and st.optpt:
                s1.pt = var
                if var == st.optpt:
                    s1.optpt = None
                return ("optpt", None, walk(then, s1, after, consts), walk(els, st.copy(), after, consts))
            if rhs[:4] == ["reg", ".", "process_registration_packet", "("] and rhs[-1] == ")" and "data" in rhs:
                s1.ev = var
                return ("optev", None, walk(then, s1, after, consts), walk(els, st.copy(), after, consts))
            if is_call(rhs, PARSERS):
                s1.elems[var] = rhs[0]
            elif st.inc in rhs:
                raise TErr("`%s` in a condition" % st.inc)
            return merge(walk(then, s1, after, consts), walk(els, st.copy(), after, consts), "`if let .. = %s`" % " ".join(rhs[:4]))
        if st.inc in cond:
            raise TErr("`%s` in a condition" % st.inc)
        if len(cond) == 3 and cond[1] == "==" and st.pt and st.pt in (cond[0], cond[2]):
            c = cond[2] if cond[0] == st.pt else cond[0]
            if c.split("::")[-1] not in consts:
                raise TErr("type code compared with %s" % c)
            return ("ifpt", c.split("::")[-1], walk(then, st.copy(), after, consts), walk(els, st.copy(), after, consts))
        if st.pt and st.pt in cond:
            raise TErr("condition on the type code other than `pt == CONST`: %s" % " ".join(cond))
        return merge(walk(then, st.copy(), after, consts), walk(els, st.copy(), after, consts), "`if %s ..`" % " ".join(cond[:6]))
    if k == "match":
        _, scrut, arms = it
        after = lambda s: walk(rest, s, cont, consts)          # noqa: E731
        if st.inc in scrut:
            raise TErr("`%s` in a match scrutinee" % st.inc)
        if scrut == [st.ev] and st.ev:
            trees, default = [], None
            for pat, body in arms:
                if len(pat) == 1 and pat[0].startswith("RegistrationEvent::"):
                    trees.append((pat[0].split("::")[-1], walk(body, st.copy(), after, consts)))
                elif pat == ["_"]:
                    default = walk(body, st.copy(), after, consts)
                else:
                    raise TErr("match event: pattern %s" % " ".join(pat))
            if default is None:                        # exhaustive over the listed variants: the last arm is the default
                default = trees.pop()[1]
            t = default
            for v, tr in reversed(trees):
                t = ("ifev", v, tr, t)
            return t
        if (st.pt and st.pt in scrut) or (st.ev and st.ev in scrut):
            raise TErr("match on the type code / event in another form: %s" % " ".join(scrut))
        out = None
        for pat, body in arms:
            tr = walk(body, st.copy(), after, consts)
            out = tr if out is None else merge(out, tr, "`match %s ..`" % " ".join(scrut[:4]))
        if out is None:
            raise TErr("empty match")
        return out
    if k == "for":
        _, pat, itx, body = it
        if len(pat) != 1 or pat[0] in st.tracked():
            raise TErr("for pattern %s" % " ".join(pat))
        s1 = st.copy()
        s1.bound.add(pat[0])
        if len(itx) == 1 and itx[0] in st.parsed:
            s1.elems[pat[0]] = st.parsed[itx[0]]
        elif st.inc in itx:
            raise TErr("`%s` iterated" % st.inc)
        marker = []

        def end(s):
            marker.append(s)
            return s.leaf()
        tr = walk(body, s1, end, consts)
        if tr[0] != "leaf" or len(marker) != 1:
            raise TErr("a decision or a return inside a for body")
        s2 = marker[0]
        if (s2.relay, s2.stamp) != (st.relay, st.stamp):
            raise TErr("relay / last_received inside a for body")
        s3 = st.copy()
        s3.feeds = s2.feeds
        return walk(rest, s3, cont, consts)
    raise TErr("item %s" % k)


def emit(tree, enum_prefix):
    k = tree[0]
    if k == "leaf":
        return "[%s]" % "; ".join(str(x) for x in tree[1])
    a, b = emit(tree[2], enum_prefix), emit(tree[3], enum_prefix)
    if k == "optpt":
        return "(match opt with Some pt => %s | None => %s end)" % (a, b)
    if k == "optev":
        return "(match ev with Some e => %s | None => %s end)" % (a, b)
    if k == "ifpt":
        return "(if (pt =? %s) then %s else %s)" % (tree[1], a, b)
    if k == "ifev":
        return "(if (e =? %s%s) then %s else %s)" % (enum_prefix, tree[1], a, b)
    raise TErr("tree %s" % k)


def scoped(tree, pt=False, ev=False):
    """`pt` / `e` are only used under the match that binds them"""
    k = tree[0]
    if k == "leaf":
        return
    if (k == "ifpt" and not pt) or (k == "ifev" and not ev):
        raise TErr("decision on a value that is not in scope")
    if k == "optpt":
        scoped(tree[2], True, ev)
        scoped(tree[3], False, ev)
    elif k == "optev":
        scoped(tree[2], pt, True)
        scoped(tree[3], pt, False)
    else:
        scoped(tree[2], pt, ev)
        scoped(tree[3], pt, ev)


def translate():
    src = strip_comments(open(os.path.join(REPO, SRC)).read())
    params, ret, body = find_fn(src, None, FN)
    pnames = [p.split(":")[0].strip() for p in gw.split_params(params)]
    for need in ("conn", "reg", "data"):
        if need not in pnames:
            raise TErr("parameter %s missing" % need)
    if not re.match(r"Result<\s*SrtlaIncoming\s*>$", ret.strip()):
        raise TErr("return type %s" % ret)
    consts = gw.proto_consts()
    bp = BP(gw.tokenize(body))
    items = []
    while bp.peek() is not None:
        items.append(bp.item())

    def fell_off(st):
        raise TErr("the function body ends without Ok(incoming)")
    st0 = St()
    st0.bound = set(pnames)
    tree = walk(items, st0, fell_off, consts)
    scoped(tree)
    text = ("(* %s :: fn %s -- dispatch slice [relay; stamp; acks; naks; sacks], see tools/gen_uplink.py *)\n"
            "Definition leaf_wire_uplink_dispatch (opt : option Z) (ev : option Z) : list Z :=\n  %s.\n"
            % (SRC, FN, emit(tree, "RegistrationEvent_")))
    return text


def main():
    failed, meta, defs = {}, {}, []
    try:
        defs.append(translate())
        meta["wire_uplink_dispatch"] = {"file": SRC, "params": ["(opt : option Z)", "(ev : option Z)"], "ret": "list Z"}
    except (TErr, IndexError, KeyError, ValueError, TypeError, RecursionError, OSError) as e:
        failed["wire_uplink_dispatch"] = "%s: %s" % (type(e).__name__, e)
        defs.append("(* leaf_wire_uplink_dispatch: NOT TRANSLATED (%s) *)\n" % str(e).replace("*)", "* )").replace("(*", "( *"))
    hdr = ("(* GENERATED by tools/gen_uplink.py from %s on every run. Do not edit. *)\n"
           "From Coq Require Import ZArith Bool List.\nFrom Srtla Require Import Base Constants LeafWire.\n"
           "Import ListNotations.\nOpen Scope Z_scope.\n\n" % os.path.join(REPO, SRC))
    content = hdr + "\n".join(defs)
    try:
        same = open(OUT).read() == content
    except OSError:
        same = False
    if not same:
        os.makedirs(os.path.dirname(OUT), exist_ok=True)
        open(OUT, "w").write(content)
    json.dump({"translated": sorted(meta), "failed": failed, "meta": meta, "changed": [] if same else ["Uplink"]},
              sys.stdout, indent=1)
    print()


if __name__ == "__main__":
    main()
