#!/bin/sh
# Confirm one independently written seeded defect in its scratch worktree:
#   (a) patch + demo applied: the whole suite passes except the demo's test(s)
#   (b) demo only: everything in the demo passes
# usage: tools/seed_confirm.sh <worktree> <dir with patch.diff demo.diff>   -> one summary line; logs in <dir>/confirm.*.log
W=$1; D=$(readlink -f "$2")
export CARGO_NET_OFFLINE=true
cd "$W" || exit 2
clean() { git checkout -q -- . ; git clean -fdq -- src crates tests benches examples 2>/dev/null; }
clean
git apply "$D/patch.diff" || { echo "$D: patch does not apply"; exit 2; }
git apply "$D/demo.diff" || { echo "$D: demo does not apply on top of patch"; clean; exit 2; }
cargo nextest run --workspace --no-fail-fast --offline --test-threads 8 > "$D/confirm.a.log" 2>&1
A_SUM=$(grep -E "^\s*Summary" "$D/confirm.a.log" | tail -1)
A_FAIL=$(grep -E "^\s+(FAIL|SIGABRT|TIMEOUT)" "$D/confirm.a.log" | sed -E 's/.*\] +//' | sort -u | tr '\n' ';')
clean
git apply "$D/demo.diff"
cargo nextest run --workspace --no-fail-fast --offline --test-threads 8 > "$D/confirm.b.log" 2>&1
B_SUM=$(grep -E "^\s*Summary" "$D/confirm.b.log" | tail -1)
B_FAIL=$(grep -E "^\s+(FAIL|SIGABRT|TIMEOUT)" "$D/confirm.b.log" | sed -E 's/.*\] +//' | sort -u | tr '\n' ';')
clean
echo "$D | with patch+demo: $A_SUM failing: [$A_FAIL] | demo only: $B_SUM failing: [$B_FAIL]"
