#!/usr/bin/env python3
"""Store one confirmed seeded defect under /verif/seeded/<id>-<n>/ (patch.diff, demo.diff, README.md, meta.json).
usage: seed_store.py <src dir with patch.diff demo.diff README.md> <Cxx> <n> <round> "<confirmed>" "<first_result>" ["<after_strengthening>"]"""
import json, os, shutil, sys
src, pid, n, rnd, confirmed, first = sys.argv[1:7]
after = sys.argv[7] if len(sys.argv) > 7 else ""
dst = "/verif/seeded/%s-%s" % (pid, n)
os.makedirs(dst, exist_ok=True)
for f in ("patch.diff", "demo.diff", "README.md"):
    shutil.copy(os.path.join(src, f), os.path.join(dst, f))
title = open(os.path.join(src, "README.md")).readline().lstrip("# ").strip()
meta = {
    "property": pid, "seed": int(n), "round": int(rnd), "title": title,
    "author": "independent sub-agent given only the property text, the titles of the earlier seeds of this property to avoid, and a scratch worktree of /repo (no access to /verif)",
    "breaks_and_needs": "see README.md (written by the seeder: clause broken, what is needed to manifest, commands run)",
    "confirmed": confirmed,
    "check_run": "patch applied to a scratch git worktree of /repo, `./check %s --tier quick` from a private copy of /verif pointed at it (tools/seed_try.sh), worktree removed afterwards" % pid,
    "check_result": "VIOLATION" if "VIOLATION" in (first + after) or "replay" in (first + after) else "missed",
    "first_result": first,
}
if after:
    meta["after_strengthening"] = after
meta["how_detected"] = first + ("; " + after if after else "")
json.dump(meta, open(os.path.join(dst, "meta.json"), "w"), indent=1, ensure_ascii=False)
print(dst, title)
