#!/usr/bin/env python3
"""Regenerate MANIFEST.json from props/Cxx.json (claimed properties) and properties.jsonl."""
import json, os, glob
ROOT = os.path.dirname(os.path.dirname(os.path.abspath(__file__)))
props = [json.loads(l) for l in open(os.path.join(ROOT, "properties.jsonl"))]
old = json.load(open(os.path.join(ROOT, "MANIFEST.json")))
cfgs = {}
for f in glob.glob(os.path.join(ROOT, "props", "C*.json")):
    c = json.load(open(f))
    if c.get("claimed", True):
        cfgs[c["id"]] = c
try:
    na_reasons = json.load(open(os.path.join(ROOT, "props", "not_applicable.json")))
except OSError:
    na_reasons = {}
checks, na = [], []
for p in props:
    i = p["id"]
    if i in cfgs:
        c = cfgs[i]
        checks.append({
            "property_id": i,
            "quick_cmd": "./check %s --tier quick" % i,
            "thorough_cmd": "./check %s --tier thorough" % i,
            "evidence_file": "/verif/evidence/%s.json" % i,
            "replay_cmd_template": "./check %s --replay {path}" % i,
            "engine": "coq-proof",
            "level_claimed": {"category": "proof",
                              "text": c.get("level_text", "Coq theorems over a Gallina model of the code for all inputs/histories; the model is tied to the source by regenerated constants and a differential correspondence run on every check."),
                              "design_ref": "DESIGN.md §7 " + i},
            "level_note": ("; ".join(c.get("assumptions", []) + ["partial: " + x for x in c.get("partial", [])]))[:1500] or "see DESIGN.md §6",
            "technique": c.get("technique", "machine-checked proof in Coq 8.16 (Gallina model + theorems) with translator-regenerated constants and a model/implementation correspondence evaluated by vm_compute"),
        })
    else:
        na.append({"property_id": i, "reason": na_reasons.get(i, "not yet built in this session (work in progress; see DESIGN.md §11 order of work)")})
old["checks"] = checks
old["not_applicable"] = na
old["engines"][0]["serves_properties"] = sorted(cfgs)
json.dump(old, open(os.path.join(ROOT, "MANIFEST.json"), "w"), indent=1)
print("claimed:", sorted(cfgs))
