#!/bin/sh
# Run every stored seeded defect (seeded/<id>-<k>/patch.diff) through its property's check:
#   git -C /repo apply <patch> ; ./check <id> ; git -C /repo checkout -- .
# One line per seed on stdout.  /repo must be clean; it is restored after every seed (also on ^C).
# Usage: tools/seeded_regress.sh [tier] [seed-dir ...]     (default: quick, all seeds)
cd "$(dirname "$0")/.."
REPO=${VERIF_REPO:-/repo}
TIER=${1:-quick}; [ $# -gt 0 ] && shift
[ -z "$(git -C "$REPO" status --porcelain --untracked-files=no)" ] || { echo "$REPO has uncommitted changes; refusing to run" >&2; exit 2; }
trap 'git -C "$REPO" checkout -q -- . ; exit 130' INT TERM
SEEDS=${*:-seeded/C*-*}
for d in $SEEDS; do
  name=$(basename "$d"); id=${name%-*}
  [ -f "$d/patch.diff" ] || continue
  if git -C "$REPO" apply "$(pwd)/$d/patch.diff" 2>/dev/null; then
    res=$(./check "$id" --tier "$TIER" 2>&1 | grep -E "^VIOLATION|holds on everything" | head -1)
    git -C "$REPO" checkout -q -- .
    git -C "$REPO" clean -fdq -- src crates tests 2>/dev/null
  else
    res="patch does not apply to the current tree"
  fi
  echo "$name: $res"
done
