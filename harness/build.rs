// Generates the property-module registry from the files src/cNN.rs, so adding a
// property harness never edits a shared file.
use std::io::Write;
fn main() {
    println!("cargo:rerun-if-changed=src");
    let out = std::path::PathBuf::from(std::env::var("OUT_DIR").unwrap()).join("registry.rs");
    let src = std::path::PathBuf::from(std::env::var("CARGO_MANIFEST_DIR").unwrap()).join("src");
    let mut mods: Vec<String> = std::fs::read_dir(&src).unwrap().filter_map(|e| {
        let n = e.ok()?.file_name().to_string_lossy().to_string();
        let b = n.strip_suffix(".rs")?;
        if b.len() == 3 && b.starts_with('c') && b[1..].chars().all(|c| c.is_ascii_digit()) { Some(b.to_string()) } else { None }
    }).collect();
    mods.sort();
    let mut f = std::fs::File::create(out).unwrap();
    for m in &mods {
        writeln!(f, "#[path = \"{}/{}.rs\"] mod {};", src.display(), m, m).unwrap();
    }
    writeln!(f, "pub fn dispatch(prop: &str, seed: u64, tier: &str, out: &std::path::Path, extra: &[(String, String)]) -> Option<std::io::Result<()>> {{").unwrap();
    writeln!(f, "    match prop {{").unwrap();
    for m in &mods {
        writeln!(f, "        \"{}\" => Some({}::run(seed, tier, out, extra)),", m.to_uppercase(), m).unwrap();
    }
    writeln!(f, "        _ => None,\n    }}\n}}").unwrap();
}
