//! C06 — congestion windows stay in range and move in the right direction.
use crate::common::*;
use crate::core_ops::*;

pub fn run(seed: u64, tier: &str, out: &std::path::Path, _extra: &[(String, String)]) -> std::io::Result<()> {
    // regression corpus: drive a window to the floor and back through fast recovery
    let mut ops = vec![Op::SetConn(0, true, Some(1_000_000))];
    for k in 0..195 { ops.push(Op::CcNak(0, 1_000_000 + 2000 * k)); }
    for k in 0..400 { ops.push(Op::Recovery(0, 2_000_000 + 301 * k, k % 5 == 0)); }
    let thorough = tier == "thorough";
    run_profile_with("C06", "Run_C06", Profile::C06, seed, tier, out, &[(1, ops)], "CCore", |run, rng| {
        // shell tie: the REAL handle_housekeeping in classic (and, as a control, enhanced) mode on
        // links in every window / fast-recovery / NAK-age situation
        let n_hk = if thorough { 600 } else { 60 };
        for k in 0..n_hk {
            let n = 1 + rng.below(4) as usize;
            let mut w = World::new(n);
            let mut now = 1_000_000 + rng.below(500_000);
            for i in 0..n {
                w.apply(&Op::SetConn(i, true, Some(now)));
                let win = *rng.pick(&[1000i64, 1100, 1500, 2000, 2001, 5000, 11_999, 12_000, 20_000, 59_999, 60_000]);
                w.apply(&Op::SetWindow(i, win));
                for _ in 0..rng.below(4) { now += rng.below(300); w.apply(&Op::CcNak(i, now)); }
            }
            now += *rng.pick(&[0u64, 301, 501, 1001, 2001, 5001, 7001, 10_001, 30_000]);
            let classic = k % 4 != 3;
            let (before, after) = housekeeping_windows(&mut w, classic, now);
            run.count(if classic { "hk:classic" } else { "hk:enhanced" });
            if before != after { run.count("hk:windows_changed"); }
            run.push("housekeeping", true, format!("CHk {} {} {}", boolc(classic), zlist(before), zlist(after)));
        }
        srtla_core::utils::verif_clock::set(None);
    })
}
