//! C06 — congestion windows stay in range and move in the right direction.
use crate::core_ops::*;
pub fn run(seed: u64, tier: &str, out: &std::path::Path, _extra: &[(String, String)]) -> std::io::Result<()> {
    // regression corpus: drive a window to the floor and back through fast recovery
    let mut ops = vec![Op::SetConn(0, true, Some(1_000_000))];
    for k in 0..195 { ops.push(Op::CcNak(0, 1_000_000 + 2000 * k)); }
    for k in 0..400 { ops.push(Op::Recovery(0, 2_000_000 + 301 * k, k % 5 == 0)); }
    run_profile("C06", "Run_C06", Profile::C06, seed, tier, out, &[(1, ops)])
}
