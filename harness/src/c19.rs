//! C19 — IP-list reload: drives the real `analyze_ip_reload` (on real files),
//! `apply_connection_changes` / `create_connections_from_ips` (real UDP sockets on
//! loopback addresses), `SequenceTracker`, `handle_srt_packet`, `reconnect_uplink`
//! and core link events, and records before/after snapshots of the three
//! structures a reload must keep consistent.
use std::cell::RefCell;
use std::collections::{HashMap, HashSet};
use std::net::{IpAddr, Ipv4Addr, Ipv6Addr, SocketAddr};
use std::path::Path;
use std::str::FromStr;
use std::sync::{Arc, Mutex, Weak};

use smallvec::SmallVec;
use srtla_core::connection::{LinkPhase, SrtlaConnection};
use srtla_core::utils::verif_clock;
use srtla_send::net::{BatchUdpSocket, CallbackBinder, UplinkBinder};
use srtla_send::sender::verif_hooks::{self as vh, IpReload};
use srtla_send::sender::{
    ConnIoMap, PendingConnectionChanges, SequenceTracker, apply_connection_changes,
    create_connections_from_ips,
};

use crate::common::*;

// ---------------------------------------------------------------- address coding
/// Coq literal of an address: IPv4 = its u32, IPv6 = 2^32 + its u128.
fn addr_lit(ip: IpAddr) -> String {
    match ip {
        IpAddr::V4(v) => format!("{}", u32::from(v)),
        IpAddr::V6(v) => format!("(4294967296+{})", u128::from(v)),
    }
}
fn addrs_lit<'a, I: IntoIterator<Item = &'a IpAddr>>(it: I) -> String {
    format!("[{}]", it.into_iter().map(|a| addr_lit(*a)).collect::<Vec<_>>().join(";"))
}

// ---------------------------------------------------------------- binder with injected failures
/// The real `CallbackBinder` with a closure that records every attempt, fails for the
/// addresses in `fail`, and otherwise binds the source address like `SourceIpBinder`.
struct BinderCtl {
    fail: Mutex<HashSet<IpAddr>>,
    log: Mutex<Vec<IpAddr>>,
}
fn make_binder(ctl: Arc<BinderCtl>) -> Arc<dyn UplinkBinder> {
    Arc::new(CallbackBinder(move |fd: std::os::fd::RawFd, ip: IpAddr| -> std::io::Result<()> {
        ctl.log.lock().unwrap().push(ip);
        if ctl.fail.lock().unwrap().contains(&ip) {
            return Err(std::io::Error::new(std::io::ErrorKind::AddrNotAvailable, "injected bind failure"));
        }
        let b = unsafe { std::os::fd::BorrowedFd::borrow_raw(fd) };
        let sock = socket2::SockRef::from(&b);
        sock.bind(&SocketAddr::new(ip, 0).into())
    }))
}

// ---------------------------------------------------------------- the world under test
struct World {
    conns: SmallVec<SrtlaConnection, 4>,
    conn_io: ConnIoMap,
    tracker: SequenceTracker,
    last_sel: Option<usize>,
    pending: Option<PendingConnectionChanges>,
    host: String,
    port: u16,
    binder: Arc<BinderCtl>,
    binder_dyn: Arc<dyn UplinkBinder>,
    tokens: Vec<Weak<BatchUdpSocket>>,
    probes: Vec<u32>,
    always_fail: HashSet<IpAddr>,
    /// case-local injective renaming of the random 64-bit conn_ids (0 stays 0) and of
    /// full link records (a record's name = index of its first occurrence), to keep
    /// the case text short; the model only ever compares them for equality
    id_names: RefCell<Vec<u64>>,
    st_names: RefCell<HashMap<String, usize>>,
}

/// Every field of the link record, as one canonical string (hash map sorted).
fn full_record(c: &SrtlaConnection) -> String {
    let mut log: Vec<(i32, u64)> = c.packet_log.iter().map(|(k, v)| (*k, *v)).collect();
    log.sort();
    format!(
        "{}|{}|{}|{}|{}|{}|{:?}|{}|{:?}|{:?}|{:?}|{}|{}|{:?}|{:?}|{:?}|{:?}|{:?}|{:?}|{:?}|{}|{}|{}|{}",
        c.conn_id, c.local_ip, c.label, c.connected, c.window, c.in_flight_packets, log,
        c.highest_acked_seq, c.last_received, c.last_sent, c.last_keepalive_sent,
        c.last_ack_or_rtt_sample_ms, c.stall_gated, c.verif_hidden(), c.rtt, c.congestion,
        c.bitrate, c.reconnection, c.batch_sender, c.phase, c.weak, c.cc_backing_off,
        c.cc_target_bps, c.loss_degraded
    )
}

impl World {
    fn idn(&self, id: u64) -> i128 {
        if id == 0 { return 0; }
        let mut v = self.id_names.borrow_mut();
        if let Some(i) = v.iter().position(|&x| x == id) { return i as i128 + 1; }
        v.push(id);
        v.len() as i128
    }
    /// [name of the full record; connected; in-flight; queued]
    fn dump_link(&self, c: &SrtlaConnection) -> Vec<i128> {
        let full = full_record(c);
        let mut m = self.st_names.borrow_mut();
        let n = m.len();
        let k = *m.entry(full).or_insert(n);
        vec![k as i128, c.connected as i128, c.in_flight_packets as i128, c.batch_sender.queued_count() as i128]
    }
    fn label_addr(&self, label: &str) -> String {
        let prefix = format!("{}:{} via ", self.host, self.port);
        match label.strip_prefix(&prefix).and_then(|r| IpAddr::from_str(r).ok()) {
            Some(ip) => addr_lit(ip),
            None => "(-1)".into(),
        }
    }
    fn token_of(&mut self, s: &Arc<BatchUdpSocket>) -> usize {
        let p = Arc::as_ptr(s);
        if let Some(i) = self.tokens.iter().position(|w| std::ptr::eq(w.as_ptr(), p)) {
            return i;
        }
        self.tokens.push(Arc::downgrade(s));
        self.tokens.len() - 1
    }
    /// name sockets in the order the links were created (vec order), then any leftovers by key
    fn name_tokens(&mut self) {
        let socks: Vec<Arc<BatchUdpSocket>> =
            self.conns.iter().filter_map(|c| self.conn_io.get(&c.conn_id).map(|io| io.socket.clone())).collect();
        for s in &socks { self.token_of(s); }
        let mut keys: Vec<u64> = self.conn_io.keys().copied().collect();
        keys.sort();
        for k in keys {
            let s = self.conn_io.get(&k).unwrap().socket.clone();
            self.token_of(&s);
        }
    }
    fn link_lit(&self, c: &SrtlaConnection) -> String {
        format!("Build_link {} {} {} {}", self.label_addr(&c.label), addr_lit(c.local_ip), self.idn(c.conn_id),
                zlist(self.dump_link(c)))
    }
    fn snapshot(&mut self, now: u64) -> String {
        self.name_tokens();
        let links: Vec<String> = self.conns.iter().map(|c| self.link_lit(c)).collect();
        let mut keys: Vec<u64> = self.conn_io.keys().copied().collect();
        keys.sort();
        let mut io = vec![];
        for k in keys {
            let s = self.conn_io.get(&k).unwrap().socket.clone();
            let t = self.token_of(&s);
            io.push(format!("({},{})", self.idn(k), t));
        }
        let sel = optz(self.last_sel.map(|v| v as i128));
        let pend = match &self.pending {
            Some(p) => match &p.new_ips {
                Some(ips) => format!("(Some {})", addrs_lit(ips.iter())),
                None => "None".into(),
            },
            None => "None".into(),
        };
        let trk: Vec<String> = self.probes.iter().map(|&q| optz(self.tracker.get(q, now).map(|v| self.idn(v)))).collect();
        let alive: Vec<String> = self.tokens.iter().enumerate().filter(|(_, w)| w.strong_count() > 0).map(|(i, _)| i.to_string()).collect();
        format!("(Build_snap [{}] [{}] {} {} [{}] [{}])", links.join(";"), io.join(";"), sel, pend, trk.join(";"), alive.join(";"))
    }
    fn set_fail(&self, extra: &[IpAddr]) -> Vec<IpAddr> {
        let mut f = self.binder.fail.lock().unwrap();
        f.clear();
        for a in &self.always_fail { f.insert(*a); }
        for a in extra { f.insert(*a); }
        self.binder.log.lock().unwrap().clear();
        let mut v: Vec<IpAddr> = f.iter().copied().collect();
        v.sort();
        v
    }
    /// fresh (conn_id, initial state) pairs of the links that are new w.r.t. `old_ids`
    fn fresh_lit(&self, old_ids: &HashSet<u64>) -> String {
        let v: Vec<String> = self.conns.iter().filter(|c| !old_ids.contains(&c.conn_id))
            .map(|c| format!("({},{})", self.idn(c.conn_id), zlist(self.dump_link(c)))).collect();
        format!("[{}]", v.join(";"))
    }
    fn states_lit(&self) -> String {
        format!("[{}]", self.conns.iter().map(|c| zlist(self.dump_link(c))).collect::<Vec<_>>().join(";"))
    }
    fn ids(&self) -> HashSet<u64> { self.conns.iter().map(|c| c.conn_id).collect() }
}

/// REG3 arrived on most of the freshly created links: connected, Live, recently heard from
fn auto_register(w: &mut World, rng: &mut Rng, old: &HashSet<u64>, now: u64, ops: &mut Vec<String>, obs: &mut Vec<String>) {
    for i in 0..w.conns.len() {
        if old.contains(&w.conns[i].conn_id) || !rng.chance(3, 4) { continue; }
        let c = &mut w.conns[i];
        c.connected = true;
        c.phase = LinkPhase::Live;
        c.last_received = Some(now);
        ops.push(format!("OTouch {} {}", i, zlist(w.dump_link(&w.conns[i]))));
        obs.push("ObsNone".into());
    }
}

// ---------------------------------------------------------------- file generation
const WS: &[&str] = &[" ", "\t", "  ", "\u{0b}", "\u{0c}", "\u{85}", "\u{a0}", "\u{1680}", "\u{2000}", "\u{2003}",
    "\u{200a}", "\u{2028}", "\u{2029}", "\u{202f}", "\u{205f}", "\u{3000}", "\r"];
const NOT_WS: &[&str] = &["\u{200b}", "\u{feff}", "\u{180e}", "\u{2060}", "\u{1c}", "\u{1f}", "\0"];
const GARBAGE: &[&str] = &["not-an-ip", "# comment", "127.0.0.256", "127.0.0.01", "127.0.0", "127.0.0.1.5", "127.0.0.1:80",
    "127.0.0.1 # main", "localhost", "127.0.0.1/8", "fe80::1%eth0", ":::1", "1::2::3", "12345::1", "127.0.0.-1", "127..0.1",
    ".127.0.0.1", "127.0.0.1.", "0x7f.0.0.1", "2130706433", "127.0.0.1 127.0.0.2", "١٢٧.٠.٠.١", "127.0.0.1\u{200b}", "1234.0.0.1",
    "0127.0.0.1", "127.0.0.00"];

fn render_addr(rng: &mut Rng, ip: IpAddr) -> String {
    match ip {
        IpAddr::V4(v) => v.to_string(),
        IpAddr::V6(v) => {
            if rng.chance(1, 2) { v.to_string() } else {
                let s = v.segments();
                let up = rng.chance(1, 2);
                s.iter().map(|x| if up { format!("{:X}", x) } else { format!("{:04x}", x) }).collect::<Vec<_>>().join(":")
            }
        }
    }
}
fn ws(rng: &mut Rng) -> String {
    let n = *rng.pick(&[0usize, 0, 0, 1, 1, 2, 3]);
    (0..n).map(|_| *rng.pick(WS)).collect()
}

/// (file content as bytes or None = no readable file, human tag)
fn gen_file(rng: &mut Rng, pool: &[IpAddr], bad: &[IpAddr]) -> (Option<Vec<u8>>, &'static str) {
    match rng.below(20) {
        0 => return (None, "missing"),
        1 => return (Some(vec![]), "empty"),
        2 => {
            let n = rng.range(1, 4);
            let mut s = String::new();
            for _ in 0..n { s.push_str(&ws(rng)); s.push_str(*rng.pick(&["\n", "\r\n", "\n\n"])); }
            s.push_str(&ws(rng));
            return (Some(s.into_bytes()), "blank");
        }
        3 => {
            let n = rng.range(1, 4);
            let mut s = String::new();
            for _ in 0..n {
                if rng.chance(1, 3) { s.push_str(&ws(rng)); s.push('\n'); }
                s.push_str(&ws(rng)); s.push_str(*rng.pick(GARBAGE)); s.push_str(&ws(rng)); s.push('\n');
            }
            return (Some(s.into_bytes()), "garbage");
        }
        4 => {
            // not UTF-8: read_to_string fails
            let mut b = b"127.0.0.1\n".to_vec();
            b.extend_from_slice(&[0xff, 0xfe, 0x80]);
            b.extend_from_slice(b"\n127.0.0.2\n");
            return (Some(b), "not_utf8");
        }
        5 => {
            // a long file: a few addresses, then padding (blank / white-space / repeated comment lines) up to just
            // before a 4 KiB or 8 KiB boundary, then more addresses — one of them straddling the boundary
            let mut s = String::new();
            for _ in 0..rng.below(3) { let a = *rng.pick(pool); s.push_str(&render_addr(rng, a)); s.push('\n'); }
            let boundary = *rng.pick(&[4096usize, 4096, 8192]);
            let stop = boundary - rng.below(14) as usize;
            while s.len() + 12 < stop {
                match rng.below(4) { 0 => s.push('\n'), 1 => s.push_str("   \n"), 2 => s.push_str("\t\n"), _ => s.push_str("# uplinks\n") }
            }
            while s.len() < stop { s.push(' '); }
            for _ in 0..rng.range(1, 3) { let a = *rng.pick(pool); s.push_str(&render_addr(rng, a)); s.push('\n'); }
            if rng.chance(1, 3) { let a = *rng.pick(bad); s.push_str(&render_addr(rng, a)); s.push('\n'); }
            return (Some(s.into_bytes()), "long");
        }
        _ => {}
    }
    let n = *rng.pick(&[1usize, 1, 2, 2, 3, 3, 4, 5, 6]);
    let mut s = String::new();
    if rng.chance(1, 25) { s.push('\u{feff}'); }
    for _ in 0..n {
        match rng.below(12) {
            0 => { s.push_str(&ws(rng)); }
            1 | 2 => { s.push_str(&ws(rng)); s.push_str(*rng.pick(GARBAGE)); s.push_str(&ws(rng)); }
            3 => { let a = *rng.pick(bad); s.push_str(&ws(rng)); s.push_str(&render_addr(rng, a)); s.push_str(&ws(rng)); }
            4 => { let a = *rng.pick(pool); s.push_str(&render_addr(rng, a)); s.push_str(*rng.pick(NOT_WS)); }
            _ => { let a = *rng.pick(pool); s.push_str(&ws(rng)); s.push_str(&render_addr(rng, a)); s.push_str(&ws(rng)); }
        }
        s.push_str(*rng.pick(&["\n", "\n", "\n", "\r\n", "\n\n", "\r\r\n"]));
    }
    if rng.chance(1, 3) {
        // no final newline
        while s.ends_with('\n') || s.ends_with('\r') { s.pop(); }
    }
    (Some(s.into_bytes()), "mixed")
}

fn analysis_lit(r: &IpReload) -> String {
    match r {
        IpReload::Apply { ips, first_invalid_line } =>
            format!("(AApply {} {})", addrs_lit(ips.iter()), optz(first_invalid_line.map(|v| v as i128))),
        IpReload::Refuse(reason) => {
            let d = format!("{:?}", reason);
            if d.starts_with("NotFound") { "(ARefuse RNotFound)".into() }
            else if d.starts_with("Empty") { "(ARefuse REmpty)".into() }
            else {
                let n: String = d.chars().filter(|c| c.is_ascii_digit()).collect();
                format!("(ARefuse (RNoValid {}))", if n.is_empty() { "(-1)".to_string() } else { n })
            }
        }
    }
}

/// the `IpAddr::from_str` oracle for every distinct trimmed non-empty line
fn oracle_lit(text: &str) -> String {
    let mut seen = HashSet::new();
    let mut v = vec![];
    for line in text.lines() {
        let t = line.trim();
        if t.is_empty() || !seen.insert(t.to_string()) { continue; }
        let r = match IpAddr::from_str(t) { Ok(ip) => format!("Some {}", addr_lit(ip)), Err(_) => "None".into() };
        v.push(format!("({},{})", bytes_lit(t.as_bytes()), r));
    }
    format!("[{}]", v.join(";"))
}

// ---------------------------------------------------------------- one case
struct Knobs {
    /// regression witness cases use fixed scripts
    n_ops: usize,
}

async fn one_case(run: &mut Run, rng: &mut Rng, tmp: &Path, knobs: &Knobs, v6_ok: bool) {
    // one case in ten talks to an IPv6 receiver: then ::1 is the only address that gets a socket
    let v6_case = v6_ok && rng.chance(1, 10);
    let host = if v6_case { "::1" } else { "127.0.0.1" };
    let receiver = tokio::net::UdpSocket::bind((host, 0)).await.expect("receiver socket");
    let port = receiver.local_addr().unwrap().port();
    let binder = Arc::new(BinderCtl { fail: Mutex::new(HashSet::new()), log: Mutex::new(vec![]) });
    let binder_dyn: Arc<dyn UplinkBinder> = make_binder(binder.clone());

    // address pool: loopback addresses that can really be bound, plus ones that never get a socket
    let npool = rng.range(3, 8) as usize;
    let mut pool: Vec<IpAddr> = vec![];
    while pool.len() < npool {
        let a = if rng.chance(1, 6) {
            IpAddr::V4(Ipv4Addr::new(127, rng.below(3) as u8, rng.below(3) as u8, rng.range(1, 30) as u8))
        } else {
            IpAddr::V4(Ipv4Addr::new(127, 0, 0, rng.range(1, 14) as u8))
        };
        if !pool.contains(&a) { pool.push(a); }
    }
    let mut bad: Vec<IpAddr> = vec![IpAddr::V4(Ipv4Addr::new(10, 255, 0, rng.range(1, 3) as u8))];
    if v6_case {
        // IPv4 sockets cannot reach the IPv6 receiver: all of them are "socket creation fails"
        bad.extend(pool.drain(..).take(3));
        pool = vec![IpAddr::V6(Ipv6Addr::LOCALHOST)];
        bad.push(IpAddr::V6(Ipv4Addr::new(127, 0, 0, 1).to_ipv6_mapped()));
        bad.push(IpAddr::V6(Ipv6Addr::new(0xfe80, 0, 0, 0, 0, 0, 0, 1)));
        run.count("case:ipv6_receiver");
    } else if v6_ok {
        bad.push(IpAddr::V6(Ipv6Addr::LOCALHOST));
        bad.push(IpAddr::V6(Ipv4Addr::new(127, 0, 0, rng.range(1, 4) as u8).to_ipv6_mapped()));
        bad.push(IpAddr::V6(Ipv6Addr::new(0xfe80, 0, 0, 0, 0, 0, 0, rng.range(1, 3) as u16)));
    }
    let base_seq: u32 = match rng.below(4) { 0 => 0, 1 => 16380, 2 => 0x7fff_ff00, _ => (rng.u64() as u32) & 0x7fff_ffff };
    // probe numbers fixed up front: the numbers this case may track, plus ring-slot aliases
    let mut probes: Vec<u32> = (0..14u32).map(|k| (base_seq.wrapping_add(k)) & 0x7fff_ffff).collect();
    probes.push(base_seq.wrapping_add(16384) & 0x7fff_ffff);
    probes.push(base_seq.wrapping_add(16385) & 0x7fff_ffff);
    probes.push(base_seq.wrapping_add(999) & 0x7fff_ffff);

    let mut w = World {
        conns: SmallVec::new(), conn_io: ConnIoMap::new(), tracker: SequenceTracker::new(), last_sel: None,
        pending: None, host: host.into(), port, binder, binder_dyn, tokens: vec![], probes,
        always_fail: bad.iter().copied().collect(),
        id_names: RefCell::new(vec![]), st_names: RefCell::new(HashMap::new()),
    };
    let mut now: u64 = 100_000 + rng.below(900_000);
    let mut ops: Vec<String> = vec![];
    let mut obs: Vec<String> = vec![];
    let mut next_seq_k: u32 = 0;
    let mut nontrivial = false;
    let cfg = srtla_core::ConfigSnapshot::default();
    let critical = srtla_core::priority::CriticalWindow::new();
    let mut client: Option<SocketAddr> = None;
    let path = tmp.join("c19_ips.txt");
    let missing = tmp.join("c19_no_such_file.txt");

    let pick_list = |rng: &mut Rng, pool: &[IpAddr], bad: &[IpAddr], allow_empty: bool| -> Vec<IpAddr> {
        let n = if allow_empty && rng.chance(1, 12) { 0 } else { rng.range(1, 5) as usize };
        let mut v = vec![];
        for _ in 0..n {
            let a = if rng.chance(1, 8) { *rng.pick(bad) } else { *rng.pick(pool) };
            v.push(a);
            if rng.chance(1, 7) { v.push(a); }
        }
        if !v.is_empty() && rng.chance(1, 6) { let a = v[0]; v.push(a); }
        v
    };
    let pick_fail = |rng: &mut Rng, pool: &[IpAddr]| -> Vec<IpAddr> {
        if rng.chance(1, 5) { vec![*rng.pick(pool)] } else { vec![] }
    };

    // ---- startup
    {
        verif_clock::set(Some(now));
        let ips = pick_list(rng, &pool, &bad, false);
        let extra = pick_fail(rng, &pool);
        let fail = w.set_fail(&extra);
        let before = w.snapshot(now);
        let old = w.ids();
        let mut created = create_connections_from_ips(&ips, &w.host, w.port, &w.binder_dyn, &mut w.conn_io).await;
        w.conns.append(&mut created);
        let after = w.snapshot(now);
        let att: Vec<IpAddr> = w.binder.log.lock().unwrap().clone();
        ops.push(format!("OCreate {} {} {} {}", addrs_lit(ips.iter()), addrs_lit(fail.iter()), w.fresh_lit(&old), now));
        obs.push(format!("ObsStep None {} {} {}", addrs_lit(att.iter()), before, after));
        run.count("op:create");
        auto_register(&mut w, rng, &old, now, &mut ops, &mut obs);
    }

    for _ in 0..knobs.n_ops {
        now += *rng.pick(&[0u64, 1, 7, 15, 40, 120, 400, 1000, 1000, 2500, 4999, 5001, 7000]);
        verif_clock::set(Some(now));
        let r = rng.below(100);
        if r < 30 && !w.conns.is_empty() {
            // ---- route one client data packet through the real handle_srt_packet
            let k = if rng.chance(1, 10) && next_seq_k > 0 { 16384 + rng.below(2) as u32 } else { let k = next_seq_k; next_seq_k += 1; k };
            if k >= 14 && k < 16384 { continue; }
            let seq = base_seq.wrapping_add(k) & 0x7fff_ffff;
            if w.tracker.get(seq, now).is_some() { continue; }
            if rng.chance(3, 4) {
                for c in w.conns.iter_mut() { if c.connected { c.last_received = Some(now); } }
            }
            let mut pkt = vec![0u8; *rng.pick(&[16usize, 64, 188, 1316])];
            pkt[0..4].copy_from_slice(&seq.to_be_bytes());
            if rng.chance(1, 8) { pkt[4] |= 0x04; }
            let n = pkt.len();
            let src: SocketAddr = "127.0.0.1:40000".parse().unwrap();
            let _ = &receiver;
            vh::handle_srt_packet(Ok((n, src)), &mut pkt, &mut w.conns, &w.conn_io, &mut w.last_sel, &mut w.tracker,
                                  &mut client, true, &cfg, &critical).await;
            let fwd = w.tracker.get(seq, now).and_then(|id| w.conns.iter().position(|c| c.conn_id == id));
            ops.push(format!("ORoute {} {} {} {}", optz(fwd.map(|v| v as i128)),
                             if fwd.is_some() { format!("(Some {})", seq) } else { "None".into() }, now, w.states_lit()));
            obs.push("ObsNone".into());
            run.count(if fwd.is_some() { "op:route_forwarded" } else { "op:route_none" });
        } else if r < 42 && !w.conns.is_empty() {
            // ---- a core event on one link
            let i = rng.below(w.conns.len() as u64) as usize;
            let sq = (base_seq.wrapping_add(rng.below(14) as u32) & 0x7fff_ffff) as i32;
            let c = &mut w.conns[i];
            match rng.below(8) {
                0 | 1 | 2 => { c.connected = true; c.phase = LinkPhase::Live; c.last_received = Some(now); }
                3 => c.register_packet(sq, now),
                4 => c.handle_srt_ack(sq, now),
                5 => { c.handle_nak(sq, now); }
                6 => { c.handle_srtla_ack_specific(sq, false, now); }
                _ => c.perform_window_recovery(now),
            }
            ops.push(format!("OTouch {} {}", i, zlist(w.dump_link(&w.conns[i]))));
            obs.push("ObsNone".into());
            run.count("op:touch");
        } else if r < 46 && !w.conns.is_empty() {
            // ---- NAK attribution through the tracker (any link may change)
            let nak = base_seq.wrapping_add(rng.below(16) as u32) & 0x7fff_ffff;
            vh::attribute_nak(&mut w.conns, &w.tracker, nak, now);
            ops.push(format!("ORoute None None {} {}", now, w.states_lit()));
            obs.push("ObsNone".into());
            run.count("op:attribute_nak");
        } else if r < 50 && !w.conns.is_empty() {
            // ---- reconnect in place
            let i = rng.below(w.conns.len() as u64) as usize;
            let id = w.conns[i].conn_id;
            w.set_fail(&[]);
            let ok = match w.conn_io.get_mut(&id) {
                Some(io) => vh::reconnect_uplink(&mut w.conns[i], io, now).await.is_ok(),
                None => false,
            };
            if ok {
                w.name_tokens();
                ops.push(format!("OReconn {} {}", i, zlist(w.dump_link(&w.conns[i]))));
                obs.push("ObsNone".into());
                run.count("op:reconnect");
            }
        } else if r < 70 {
            // ---- SIGHUP arm: real analyze_ip_reload on a real file, then the arm's match
            let (content, tag) = gen_file(rng, &pool, &bad);
            let (file_lit, orc, p) = match (&content, tag) {
                (None, _) => ("None".to_string(), "[]".to_string(), missing.clone()),
                (Some(b), "not_utf8") => { std::fs::write(&path, b).unwrap(); ("None".to_string(), "[]".to_string(), path.clone()) }
                (Some(b), _) => {
                    std::fs::write(&path, b).unwrap();
                    let text = std::str::from_utf8(b).unwrap();
                    (format!("(Some {})", bytes_lit(b)), oracle_lit(text), path.clone())
                }
            };
            let before = w.snapshot(now);
            let res = vh::analyze_ip_reload(p.to_str().unwrap());
            // mirror of the SIGHUP arm in sender/mod.rs
            if let IpReload::Apply { ips, .. } = &res {
                w.pending = Some(PendingConnectionChanges { new_ips: Some(ips.clone()), receiver_host: w.host.clone(), receiver_port: w.port });
            }
            let after = w.snapshot(now);
            ops.push(format!("OSighup {} {} {}", file_lit, orc, now));
            obs.push(format!("ObsStep (Some {}) [] {} {}", analysis_lit(&res), before, after));
            run.count(match &res { IpReload::Apply { .. } => "op:sighup_apply", _ => "op:sighup_refuse" });
            match tag { "missing" => run.count("file:missing"), "empty" => run.count("file:empty"), "blank" => run.count("file:blank"),
                        "garbage" => run.count("file:garbage"), "not_utf8" => run.count("file:not_utf8"), "long" => run.count("file:long(>=4KiB)"), _ => run.count("file:mixed") }
        } else if r < 88 {
            // ---- housekeeping arm: apply what is queued
            let extra = pick_fail(rng, &pool);
            let fail = w.set_fail(&extra);
            let before = w.snapshot(now);
            let old = w.ids();
            let n_before = w.conns.len();
            let had = w.pending.is_some();
            // mirror of the `pending_changes.take()` block in sender/mod.rs
            if let Some(changes) = w.pending.take()
                && let Some(new_ips) = changes.new_ips
            {
                apply_connection_changes(&mut w.conns, &mut w.conn_io, &new_ips, &changes.receiver_host, changes.receiver_port,
                                         &mut w.last_sel, &mut w.tracker, &w.binder_dyn).await;
            }
            let after = w.snapshot(now);
            let att: Vec<IpAddr> = w.binder.log.lock().unwrap().clone();
            let kept = w.conns.iter().filter(|c| old.contains(&c.conn_id)).count();
            if kept < n_before { run.count("apply:removed_some"); nontrivial = true; }
            if w.conns.len() > kept { run.count("apply:added_some"); nontrivial = true; }
            ops.push(format!("OTick {} {} {}", addrs_lit(fail.iter()), w.fresh_lit(&old), now));
            obs.push(format!("ObsStep None {} {} {}", addrs_lit(att.iter()), before, after));
            run.count(if had { "op:tick_apply" } else { "op:tick_idle" });
            auto_register(&mut w, rng, &old, now, &mut ops, &mut obs);
        } else {
            // ---- direct call of apply_connection_changes
            let ips = pick_list(rng, &pool, &bad, true);
            let extra = pick_fail(rng, &pool);
            let fail = w.set_fail(&extra);
            let before = w.snapshot(now);
            let old = w.ids();
            let n_before = w.conns.len();
            let had_sel = w.last_sel.is_some();
            let host = w.host.clone();
            apply_connection_changes(&mut w.conns, &mut w.conn_io, &ips, &host, w.port, &mut w.last_sel, &mut w.tracker,
                                     &w.binder_dyn).await;
            let after = w.snapshot(now);
            let att: Vec<IpAddr> = w.binder.log.lock().unwrap().clone();
            let kept = w.conns.iter().filter(|c| old.contains(&c.conn_id)).count();
            if kept < n_before { run.count("apply:removed_some"); nontrivial = true; if had_sel { run.count("apply:removed_with_choice"); } }
            if w.conns.len() > kept { run.count("apply:added_some"); nontrivial = true; }
            if ips.is_empty() { run.count("apply:empty_list"); }
            ops.push(format!("OApply {} {} {} {}", addrs_lit(ips.iter()), addrs_lit(fail.iter()), w.fresh_lit(&old), now));
            obs.push(format!("ObsStep None {} {} {}", addrs_lit(att.iter()), before, after));
            run.count("op:apply");
            auto_register(&mut w, rng, &old, now, &mut ops, &mut obs);
        }
    }
    verif_clock::set(None);
    let text = format!("Build_case {} [{}] [{}]", zlist(w.probes.iter().map(|&q| q as i128)), ops.join(";"), obs.join(";"));
    run.push("history", nontrivial, text);
    let _ = std::fs::remove_file(&path);
}

pub fn run(seed: u64, tier: &str, out: &Path, _extra: &[(String, String)]) -> std::io::Result<()> {
    let mut run = Run::new("C19", "Run_C19", seed, tier, out);
    let thorough = run.thorough();
    let mut rng = Rng::new(seed ^ 0xC19);
    std::fs::create_dir_all(out)?;
    let rt = tokio::runtime::Builder::new_current_thread().enable_all().build()?;
    let v6_ok = socket2::Socket::new(socket2::Domain::IPV6, socket2::Type::DGRAM, Some(socket2::Protocol::UDP)).is_ok();
    if !v6_ok { run.note("IPv6 sockets cannot be created here: IPv6 addresses only appear in file parsing".into()); }
    let n_cases = if thorough { 3000 } else { 300 };
    rt.block_on(async {
        for i in 0..n_cases {
            let knobs = Knobs { n_ops: *rng.pick(&[6usize, 10, 14, 18, 24]) + (i % 3) };
            let mut r = rng.fork(i as u64);
            one_case(&mut run, &mut r, out, &knobs, v6_ok).await;
        }
    });
    run.note("every case: real create_connections_from_ips at startup, then a random interleaving of routed client packets \
              (handle_srt_packet), core link events, attribute_nak, reconnect_uplink, SIGHUP file analysis (analyze_ip_reload on a real \
              file) + the housekeeping apply, and direct apply_connection_changes calls; sockets are real UDP sockets on 127/8".into());
    run.finish(16, 1_000_000)
}
