//! C04 — stream data is only ever routed onto eligible uplinks.
//! Real links in arbitrary states (evolved by the C12/C13 drivers: real ACK/NAK/keepalive
//! handlers, real `select_connection_idx` decisions, foreign-field tweaks), then the REAL
//! `handle_srt_packet` (session established) for data / retransmit-flagged / control
//! datagrams with the critical window open or closed.  The links before and after the call,
//! the decision inputs and the link that received the unique copy cross into the case.
use std::net::SocketAddr;

use srtla_core::priority::CriticalWindow;
use srtla_core::selection::calculate_quality_multiplier;
use srtla_core::selection::enhanced::in_flight_cap_exceeded;
use srtla_send::sender::SequenceTracker;
use srtla_send::sender::verif_hooks::{ConnIoMap, handle_srt_packet};

use crate::c12::c12_step;
use crate::c13::*;
use crate::common::*;

fn fl(v: f64) -> String {
    if v == 1.0 { return "1".into(); }
    if v == 0.0 && v.is_sign_positive() { return "0".into(); }
    let t = flt(v);
    match t.strip_suffix("%float") { Some(b) if !b.starts_with('(') => b.to_string(), _ => t }
}

pub struct Probe { pub data: bool, pub retr: bool, pub critical: bool }

/// One real `handle_srt_packet` call; returns the case literal and whether the routed link was ineligible.
pub fn probe(w: &mut World, tracker: &mut SequenceTracker, cfg: &Cfg, last: Option<usize>, now: u64, p: &Probe, seq: u32)
             -> (String, Option<usize>) {
    let mut ins = vec![];
    for c in w.conns.iter() {
        ins.push(format!("mkSI {} {}", fl(calculate_quality_multiplier(c, now)), boolc(in_flight_cap_exceeded(c))));
    }
    let pre: Vec<String> = w.conns.iter().map(link_lit).collect();
    let q0: Vec<i32> = w.conns.iter().map(|c| c.batch_sender.queued_count()).collect();
    let mut buf = [0u8; 1500];
    let n = 32usize;
    if p.data {
        buf[0..4].copy_from_slice(&(seq & 0x7fff_ffff).to_be_bytes());
        buf[4] = if p.retr { 0x04 } else { 0x00 };
    } else {
        buf[0] = 0x80; buf[1] = 0x02; // SRT control packet from the client
        buf[4] = if p.retr { 0x04 } else { 0x00 }; // a set R bit on a control packet must not matter
    }
    let cw = CriticalWindow::new();
    if p.critical { cw.extend_to(now + 500); }
    let io: ConnIoMap = std::collections::HashMap::new();
    let mut last_sel = last;
    let mut client: Option<SocketAddr> = None;
    let snap = cfg.snapshot();
    srtla_core::utils::verif_clock::set(Some(now));
    let src: SocketAddr = "127.0.0.1:9".parse().unwrap();
    {
        let World { conns, rt, .. } = w;
        rt.block_on(handle_srt_packet(Ok((n, src)), &mut buf, conns, &io, &mut last_sel, tracker, &mut client,
                                      true, &snap, &cw));
    }
    let grew = w.conns.iter().zip(q0.iter()).any(|(c, q)| c.batch_sender.queued_count() > *q);
    let routed = if grew { last_sel } else { None };
    let post: Vec<String> = w.conns.iter().map(link_lit).collect();
    let text = format!("mkCase {} {} {} [{}] {} (mkP {} {}) [{}] [{}] {}",
        cfg.lit(), optz(last.map(|v| v as i128)), now, ins.join(";"), boolc(p.critical), boolc(p.data), boolc(p.retr),
        pre.join(";"), post.join(";"), optz(routed.map(|v| v as i128)));
    (text, routed)
}

pub fn run(seed: u64, tier: &str, out: &std::path::Path, _extra: &[(String, String)]) -> std::io::Result<()> {
    let mut run = Run::new("C04", "Run_C04", seed, tier, out);
    let mut rng = Rng::new(seed ^ 0xC04);
    let thorough = run.thorough();

    // regression corpus (F3): both links scored once (caches 1.1); link 1 takes a NAK (0.98 after refresh);
    // link 0 stalls and is gated; a retransmit-flagged packet must not be sent to gated link 0.
    {
        let t0 = 100_000u64;
        let mut rec = Recorder::new(2, t0, false, &|_w: &mut World| {});
        let cfg = default_cfg();
        rec.act(&Act::Select(None, t0, cfg));
        rec.act(&Act::Tweak(1, Tw::Nak(t0 + 10)));
        rec.act(&Act::Reg(0, 40, t0));
        rec.act(&Act::SrtlaAck(0, true, false, t0));
        rec.act(&Act::Inbound(0, t0 + 3100)); rec.act(&Act::Inbound(1, t0 + 3100));
        let mut tr = SequenceTracker::new();
        let (text, _) = probe(&mut rec.w, &mut tr, &cfg, Some(1), t0 + 3200, &Probe { data: true, retr: true, critical: false }, 77);
        run.push("corpus_f3", true, text);
    }

    let histories = if thorough { 700 } else { 70 };
    for h in 0..histories {
        let n = 1 + rng.below(4) as usize;
        let t0 = 50_000 + rng.below(1_000_000);
        let mut r2 = rng.fork(h as u64);
        let setup = c13_setup(&mut r2, n, t0);
        let mut rec = Recorder::new(n, t0, false, &setup);
        let mut sc = Script { n, now: t0, cfg: gen_cfg(&mut r2, 70), last: None };
        let mut tracker = SequenceTracker::new();
        let probes = 6 + r2.below(6);
        for k in 0..probes {
            let steps = r2.range(1, 12) as usize;
            let upto = rec.steps.len() + steps;
            while rec.steps.len() < upto { c12_step(&mut r2, &mut rec, &mut sc); }
            if r2.chance(1, 6) { sc.cfg.classic = !sc.cfg.classic; }
            if r2.chance(1, 3) { sc.now += *r2.pick(&[0u64, 1, 49, 50, 51, 999, 1000, 3000, 5000, 5001]); }
            let p = Probe { data: !r2.chance(1, 6), retr: r2.chance(1, 2), critical: r2.chance(1, 3) };
            let last = if r2.chance(1, 5) { if r2.chance(1, 2) { None } else { Some(r2.below(n as u64) as usize) } } else { sc.last };
            let (text, routed) = probe(&mut rec.w, &mut tracker, &sc.cfg, last, sc.now, &p, 1000 + (h * 20 + k as usize) as u32);
            run.count(if sc.cfg.classic { "mode:classic" } else { "mode:enhanced" });
            run.count(match (p.data, p.retr, p.critical) {
                (false, _, _) => "pkt:control", (true, true, _) => "pkt:retransmit", (true, false, true) => "pkt:data_critical",
                _ => "pkt:data" });
            run.count(if routed.is_some() { "routed:some" } else { "routed:none" });
            if rec.w.conns.iter().any(|c| c.is_stall_gated()) { run.count("state:some_link_gated"); }
            if let Some(r) = routed { sc.last = Some(r); }
            run.push("probe", true, text);
        }
    }
    srtla_core::utils::verif_clock::set(None);
    run.finish(16, 1_000_000)
}
