//! C04 — stream data is only ever routed onto eligible uplinks.
//! Real links in arbitrary states (evolved by the C12/C13 drivers: real ACK/NAK/keepalive
//! handlers, real `select_connection_idx` decisions, foreign-field tweaks), then the REAL
//! `handle_srt_packet` (session established) for data / retransmit-flagged / control
//! datagrams with the critical window open or closed.  The links before and after the call,
//! the decision inputs and the link that received the unique copy cross into the case.
use std::net::SocketAddr;

use srtla_core::priority::CriticalWindow;
use srtla_core::selection::calculate_quality_multiplier;
use srtla_core::selection::enhanced::in_flight_cap_exceeded;
use srtla_send::sender::SequenceTracker;
use srtla_send::sender::verif_hooks::{ConnIoMap, handle_srt_packet};

use std::net::{IpAddr, Ipv4Addr, UdpSocket as StdUdp};
use std::sync::Arc;

use smallvec::SmallVec;
use srtla_core::connection::{LinkPhase, SrtlaConnection};
use srtla_core::utils::verif_clock;
use srtla_send::net::{BatchUdpSocket, SourceIpBinder};
use srtla_send::sender::verif_hooks::{self as vh, ConnIo};

use crate::c12::c12_step;
use crate::c13::*;
use crate::common::*;

fn fl(v: f64) -> String {
    if v == 1.0 { return "1".into(); }
    if v == 0.0 && v.is_sign_positive() { return "0".into(); }
    let t = flt(v);
    match t.strip_suffix("%float") { Some(b) if !b.starts_with('(') => b.to_string(), _ => t }
}

pub struct Probe { pub data: bool, pub retr: bool, pub critical: bool }

/// One real `handle_srt_packet` call; returns the case literal and whether the routed link was ineligible.
pub fn probe(w: &mut World, tracker: &mut SequenceTracker, cfg: &Cfg, last: Option<usize>, now: u64, p: &Probe, seq: u32)
             -> (String, Option<usize>) {
    let mut ins = vec![];
    for c in w.conns.iter() {
        ins.push(format!("mkSI {} {}", fl(calculate_quality_multiplier(c, now)), boolc(in_flight_cap_exceeded(c))));
    }
    let pre: Vec<String> = w.conns.iter().map(link_lit).collect();
    let q0: Vec<i32> = w.conns.iter().map(|c| c.batch_sender.queued_count()).collect();
    let mut buf = [0u8; 1500];
    let n = 32usize;
    if p.data {
        buf[0..4].copy_from_slice(&(seq & 0x7fff_ffff).to_be_bytes());
        buf[4] = if p.retr { 0x04 } else { 0x00 };
    } else {
        buf[0] = 0x80; buf[1] = 0x02; // SRT control packet from the client
        buf[4] = if p.retr { 0x04 } else { 0x00 }; // a set R bit on a control packet must not matter
    }
    let cw = CriticalWindow::new();
    if p.critical { cw.extend_to(now + 500); }
    let io: ConnIoMap = std::collections::HashMap::new();
    let mut last_sel = last;
    let mut client: Option<SocketAddr> = None;
    let snap = cfg.snapshot();
    srtla_core::utils::verif_clock::set(Some(now));
    let src: SocketAddr = "127.0.0.1:9".parse().unwrap();
    {
        let World { conns, rt, .. } = w;
        rt.block_on(handle_srt_packet(Ok((n, src)), &mut buf, conns, &io, &mut last_sel, tracker, &mut client,
                                      true, &snap, &cw));
    }
    let grew = w.conns.iter().zip(q0.iter()).any(|(c, q)| c.batch_sender.queued_count() > *q);
    let routed = if grew { last_sel } else { None };
    let post: Vec<String> = w.conns.iter().map(link_lit).collect();
    let text = format!("CDec (mkCase {} {} {} [{}] {} (mkP {} {}) [{}] [{}] {})",
        cfg.lit(), optz(last.map(|v| v as i128)), now, ins.join(";"), boolc(p.critical), boolc(p.data), boolc(p.retr),
        pre.join(";"), post.join(";"), optz(routed.map(|v| v as i128)));
    (text, routed)
}


// ---------------------------------------------------------------- fault histories on real sockets
fn mk_uplink_socket(local: IpAddr, remote: SocketAddr) -> std::io::Result<BatchUdpSocket> {
    let sock = socket2::Socket::new(socket2::Domain::IPV4, socket2::Type::DGRAM, Some(socket2::Protocol::UDP))?;
    sock.bind(&SocketAddr::new(local, 0).into())?;
    sock.connect(&remote.into())?;
    sock.set_nonblocking(true)?;
    BatchUdpSocket::new(sock)
}

/// stream-data datagrams (SRT data: first bit clear, at least a header) waiting on a receiver socket
fn drain_data(r: &StdUdp) -> i128 {
    let mut buf = [0u8; 2048];
    let mut n = 0i128;
    let mut idle = 0;
    while idle < 2 {
        match r.recv(&mut buf) {
            Ok(k) => { if k >= 16 && buf[0] & 0x80 == 0 { n += 1; } idle = 0; }
            Err(_) => { idle += 1; std::thread::yield_now(); }
        }
    }
    n
}

/// One fault history: REAL `handle_srt_packet` (session established), `flush_all_batches`,
/// `mark_for_recovery`, `reconnect_uplink`, the REG3 arm, on links with real loopback sockets.
/// Returns the `CFault [...]` literal.
async fn fault_history(rng: &mut Rng, run: &mut Run, case_no: u64) -> std::io::Result<String> {
    let n = 2 + rng.below(2) as usize;
    let mut now = 300_000 + rng.below(100_000);
    verif_clock::set(Some(now));
    let mut conns: SmallVec<SrtlaConnection, 4> = SmallVec::new();
    let mut io: ConnIoMap = std::collections::HashMap::new();
    let mut rx = vec![];
    let joining = rng.chance(1, 2);
    for j in 0..n {
        let r = StdUdp::bind("127.0.0.1:0")?;
        r.set_nonblocking(true)?;
        let remote = r.local_addr()?;
        let ip = IpAddr::V4(Ipv4Addr::new(127, 0, 0, 2 + j as u8));
        let conn_id = 0x4000 + case_no * 16 + j as u64;
        let mut c = SrtlaConnection::new_registering(conn_id, format!("f{}", j), ip, now);
        // in half of the histories uplink 0 is a late joiner: never established, still inside its start-up
        // grace (not timed out), registering — it must carry no stream data whatever else happens
        if !(j == 0 && joining) {
            c.connected = true;
            c.phase = LinkPhase::Live;
            c.last_received = Some(now);
            c.reconnection.connection_established_ms = now;
        }
        io.insert(conn_id, ConnIo { socket: Arc::new(mk_uplink_socket(ip, remote)?), binder: Arc::new(SourceIpBinder), remote });
        conns.push(c);
        rx.push(r);
    }
    let cfg = Cfg { guard: rng.chance(3, 4), classic: rng.chance(1, 3), ..default_cfg() };
    let snap = cfg.snapshot();
    // the session is established; the event loop hands `reg.has_connected` to handle_srt_packet as the
    // session-established flag on every datagram (src/sender/mod.rs), and so does this history
    let mut reg = srtla_core::SrtlaRegistrationManager::new();
    reg.has_connected = true;
    let (instant_tx, _instant_rx) = tokio::sync::mpsc::unbounded_channel();
    let listener = tokio::net::UdpSocket::bind("127.0.0.1:0").await?;
    let mut tracker = SequenceTracker::new();
    let mut last_sel: Option<usize> = None;
    let mut client: Option<SocketAddr> = None;
    let cw = CriticalWindow::new();
    let src: SocketAddr = "127.0.0.1:9".parse().unwrap();
    let mut seq = 5000u32 + (case_no as u32) * 64;
    let mut steps: Vec<String> = vec![];
    let len = 8 + rng.below(16);
    for _ in 0..len {
        let pre: Vec<bool> = conns.iter().map(|c| c.connected).collect();
        let r = rng.below(100);
        let kind;
        if r < 50 {
            kind = 0;
            // live links hear from the receiver now and then (they stay inside the liveness window)
            for c in conns.iter_mut() { if c.connected && rng.chance(3, 4) { c.last_received = Some(now); } }
            let mut buf = [0u8; 1500];
            seq += 1;
            buf[0..4].copy_from_slice(&(seq & 0x7fff_ffff).to_be_bytes());
            buf[4] = if rng.chance(1, 5) { 0x04 } else { 0x00 };
            verif_clock::set(Some(now));
            vh::handle_srt_packet(Ok((32 + rng.below(900) as usize, src)), &mut buf, &mut conns, &io, &mut last_sel,
                                  &mut tracker, &mut client, reg.has_connected, &snap, &cw).await;
            run.count("fault:client");
        } else if r < 68 {
            kind = 1;
            now += *rng.pick(&[15u64, 16, 20, 40, 100]);
            verif_clock::set(Some(now));
            vh::flush_all_batches(&mut conns, &io).await;
            run.count("fault:flush_tick");
        } else if r < 80 {
            kind = 2;
            let i = rng.below(n as u64) as usize;
            conns[i].mark_for_recovery();         // what housekeeping does when the socket cannot be re-created
            run.count("fault:soft_reset");
        } else if r < 88 {
            kind = 3;
            let i = rng.below(n as u64) as usize;
            let id = conns[i].conn_id;
            verif_clock::set(Some(now));
            if let Some(e) = io.get_mut(&id) {
                if vh::reconnect_uplink(&mut conns[i], e, now).await.is_err() { conns[i].mark_for_recovery(); }
                // the receiver side of a re-created socket is unchanged (same remote)
            }
            run.count("fault:reconnect");
        } else if r < 96 {
            kind = 4;
            let i = rng.below(n as u64) as usize;
            let c = &mut conns[i];
            // the REG3 arm of process_uplink_packet
            c.clear_pre_registration_state(now);
            c.connected = true;
            c.last_received = Some(now);
            if c.reconnection.connection_established_ms == 0 { c.reconnection.connection_established_ms = now; }
            c.phase = LinkPhase::Live;            // warm-up over (RTT probes answered)
            run.count("fault:reg3");
        } else if r < 98 {
            kind = 6;
            // the receiver refuses uplink i (REG_ERR) — through the real uplink arm and registration manager.
            // Its queue is flushed first: what was routed while the link was eligible may still go out.
            let i = rng.below(n as u64) as usize;
            verif_clock::set(Some(now));
            vh::flush_all_batches(&mut conns, &io).await;
            let packet = vh::UplinkPacket { conn_id: conns[i].conn_id, bytes: SmallVec::from_slice_copy(&[0x92, 0x10]) };
            vh::handle_uplink_packet(packet, &mut conns, &io, &mut reg, &instant_tx, client, &listener, &tracker, &snap).await;
            run.count("fault:reg_err");
        } else {
            kind = 5;
            now += *rng.pick(&[1u64, 50, 999, 4999, 5001]);
            run.count("fault:idle");
        }
        let tx: Vec<i128> = rx.iter().map(drain_data).collect();
        if pre.iter().zip(tx.iter()).any(|(c, t)| !*c && *t > 0) { run.count("fault:tx_while_down"); }
        let q: Vec<i128> = conns.iter().map(|c| c.batch_sender.queued_count() as i128).collect();
        steps.push(format!("mkFS {} {} {} {}", kind, blist(&pre), zlist(tx.into_iter()), zlist(q.into_iter())));
    }
    verif_clock::set(None);
    Ok(format!("CFault [{}]", steps.join(";")))
}

pub fn run(seed: u64, tier: &str, out: &std::path::Path, _extra: &[(String, String)]) -> std::io::Result<()> {
    let mut run = Run::new("C04", "Run_C04", seed, tier, out);
    let mut rng = Rng::new(seed ^ 0xC04);
    let thorough = run.thorough();

    // regression corpus (F3): both links scored once (caches 1.1); link 1 takes a NAK (0.98 after refresh);
    // link 0 stalls and is gated; a retransmit-flagged packet must not be sent to gated link 0.
    {
        let t0 = 100_000u64;
        let mut rec = Recorder::new(2, t0, false, &|_w: &mut World| {});
        let cfg = default_cfg();
        rec.act(&Act::Select(None, t0, cfg));
        rec.act(&Act::Tweak(1, Tw::Nak(t0 + 10)));
        rec.act(&Act::Reg(0, 40, t0));
        rec.act(&Act::SrtlaAck(0, true, false, t0));
        rec.act(&Act::Inbound(0, t0 + 3100)); rec.act(&Act::Inbound(1, t0 + 3100));
        let mut tr = SequenceTracker::new();
        let (text, _) = probe(&mut rec.w, &mut tr, &cfg, Some(1), t0 + 3200, &Probe { data: true, retr: true, critical: false }, 77);
        run.push("corpus_f3", true, text);
    }

    let histories = if thorough { 700 } else { 70 };
    for h in 0..histories {
        let n = 1 + rng.below(4) as usize;
        let t0 = 50_000 + rng.below(1_000_000);
        let mut r2 = rng.fork(h as u64);
        let setup = c13_setup(&mut r2, n, t0);
        let mut rec = Recorder::new(n, t0, false, &setup);
        let mut sc = Script { n, now: t0, cfg: gen_cfg(&mut r2, 70), last: None };
        let mut tracker = SequenceTracker::new();
        let probes = 6 + r2.below(6);
        for k in 0..probes {
            let steps = r2.range(1, 12) as usize;
            let upto = rec.steps.len() + steps;
            while rec.steps.len() < upto { c12_step(&mut r2, &mut rec, &mut sc); }
            if r2.chance(1, 6) { sc.cfg.classic = !sc.cfg.classic; }
            if r2.chance(1, 3) { sc.now += *r2.pick(&[0u64, 1, 49, 50, 51, 999, 1000, 3000, 5000, 5001]); }
            let p = Probe { data: !r2.chance(1, 6), retr: r2.chance(1, 2), critical: r2.chance(1, 3) };
            let last = if r2.chance(1, 5) { if r2.chance(1, 2) { None } else { Some(r2.below(n as u64) as usize) } } else { sc.last };
            let (text, routed) = probe(&mut rec.w, &mut tracker, &sc.cfg, last, sc.now, &p, 1000 + (h * 20 + k as usize) as u32);
            run.count(if sc.cfg.classic { "mode:classic" } else { "mode:enhanced" });
            run.count(match (p.data, p.retr, p.critical) {
                (false, _, _) => "pkt:control", (true, true, _) => "pkt:retransmit", (true, false, true) => "pkt:data_critical",
                _ => "pkt:data" });
            run.count(if routed.is_some() { "routed:some" } else { "routed:none" });
            if rec.w.conns.iter().any(|c| c.is_stall_gated()) { run.count("state:some_link_gated"); }
            if let Some(r) = routed { sc.last = Some(r); }
            run.push("probe", true, text);
        }
    }
    // fault histories (link dies, soft reset, reconnect, re-registration) with the flush tick in between
    {
        let rt = tokio::runtime::Builder::new_current_thread().enable_all().build().expect("tokio runtime");
        let nfault = if thorough { 1500 } else { 150 };
        for k in 0..nfault {
            let mut r2 = rng.fork(0xFA17 + k as u64);
            match rt.block_on(fault_history(&mut r2, &mut run, k as u64)) {
                Ok(text) => run.push("fault_history", true, text),
                Err(e) => run.note(format!("fault history {} skipped: {}", k, e)),
            }
        }
    }
    srtla_core::utils::verif_clock::set(None);
    run.finish(16, 1_000_000)
}
