//! C08 — failed uplinks are detected, retried forever, and rejoin cleanly.
//!
//! Drives the REAL shell arms (`handle_housekeeping`, `handle_uplink_packet`,
//! `handle_srt_packet`, `flush_all_batches`, `reconnect_uplink` through housekeeping) on
//! real `SrtlaConnection`s over loopback UDP sockets under the virtual clock, with
//! per-link fault schedules, and records after every op what the code shows:
//! per-link liveness/reconnect/phase/window/in-flight fields, socket generation,
//! manager fields and the handshake datagrams captured on each receiver-side socket.
#![allow(clippy::too_many_arguments)]
use crate::common::{self, Rng, Run};
use std::collections::HashMap;
use std::net::{IpAddr, Ipv4Addr, SocketAddr};
use std::os::fd::{FromRawFd, RawFd};
use std::path::Path;
use std::sync::Arc;
use std::sync::atomic::{AtomicBool, Ordering};

use srtla_core::connection::{LinkPhase, SrtlaConnection};
use srtla_core::registration::SrtlaRegistrationManager;
use srtla_core::utils::verif_clock;
use srtla_protocol as proto;
use srtla_send::config::DynamicConfig;
use srtla_send::net::{BatchUdpSocket, CallbackBinder, UplinkBinder};
use srtla_send::sender::SequenceTracker;
use srtla_send::sender::verif_hooks as vh;

/// Binder whose success the fault schedule controls (socket re-creation oracle): binds the
/// fresh socket to the uplink's source IP like `SourceIpBinder`, or refuses.
fn flaky_binder(ok: Arc<AtomicBool>) -> Arc<dyn UplinkBinder> {
    Arc::new(CallbackBinder(move |fd: RawFd, ip: IpAddr| -> std::io::Result<()> {
        if !ok.load(Ordering::Relaxed) {
            return Err(std::io::Error::new(std::io::ErrorKind::AddrNotAvailable, "scripted bind failure"));
        }
        let s = unsafe { socket2::Socket::from_raw_fd(fd) };
        let r = s.bind(&SocketAddr::new(ip, 0).into());
        std::mem::forget(s);
        r
    }))
}

#[derive(Clone, Debug)]
pub enum Op {
    SetTimeout(u64),
    SetMode(bool),
    StartProbe,
    Tick,
    Reg3(usize),
    Reg2(usize, bool),
    Ngp(usize),
    RegErr(usize),
    Keepalive(usize, u64),   // echo of a stamp `delta` ms old
    Inbound(usize, u8, u32), // kind 0 data, 1 SRT ACK, 2 SRT NAK, 3 SRTLA ACK; seq
    Data(u32),
    Flush,
    SetBind(usize, bool),
    Shut(usize),
    DropIo(usize),
    SetPen(usize, bool, bool, bool, bool),
    Repair(usize),
}

static REFRESH: AtomicBool = AtomicBool::new(true);

pub struct World {
    pub n: usize,
    pub t0: u64,
    pub now: u64,
    pub refresh: bool,
    pub group: bool, // scripted receiver: the group id is known
    conns: Vec<SrtlaConnection>,
    conn_io: vh::ConnIoMap,
    reg: SrtlaRegistrationManager,
    cfg: DynamicConfig,
    all_failed_at: Option<u64>,
    readers: HashMap<vh::ConnectionId, vh::ReaderHandle>,
    packet_tx: tokio::sync::mpsc::UnboundedSender<vh::UplinkPacket>,
    _packet_rx: tokio::sync::mpsc::UnboundedReceiver<vh::UplinkPacket>,
    listener: tokio::net::UdpSocket,
    instant_tx: vh::InstantForwarder,
    _instant_rx: tokio::sync::mpsc::UnboundedReceiver<(SocketAddr, smallvec::SmallVec<u8, 64>)>,
    tracker: SequenceTracker,
    last_sel: Option<usize>,
    client: Option<SocketAddr>,
    critical: srtla_core::priority::CriticalWindow,
    rx: Vec<std::net::UdpSocket>,
    bind_ok: Vec<Arc<AtomicBool>>,
    held: Vec<Option<Arc<BatchUdpSocket>>>,
    gens: Vec<u64>,
    last_err: bool,
    prev_links: Vec<String>,
    prev_glob: String,
    pub steps: Vec<String>,
    pub wires: Vec<Vec<Vec<i128>>>, // per step, per link
    pub obs_conn: Vec<Vec<bool>>,    // per step, per link connected (for the scripted receiver)
    pub hist: std::collections::BTreeMap<&'static str, u64>,
}

fn new_uplink(ip: Ipv4Addr, remote: SocketAddr, ok: Arc<AtomicBool>) -> vh::ConnIo {
    let sock = socket2::Socket::new(socket2::Domain::IPV4, socket2::Type::DGRAM, Some(socket2::Protocol::UDP)).unwrap();
    sock.bind(&SocketAddr::new(IpAddr::V4(ip), 0).into()).unwrap();
    sock.connect(&remote.into()).unwrap();
    sock.set_nonblocking(true).unwrap();
    vh::ConnIo { socket: Arc::new(BatchUdpSocket::new(sock).unwrap()), binder: flaky_binder(ok), remote }
}

impl World {
    pub async fn new(n: usize, t0: u64) -> World {
        verif_clock::set(Some(t0));
        let mut conns = vec![];
        let mut conn_io: vh::ConnIoMap = HashMap::new();
        let mut rx = vec![];
        let mut bind_ok = vec![];
        let mut held = vec![];
        for i in 0..n {
            let r = std::net::UdpSocket::bind("127.0.0.1:0").unwrap();
            r.set_nonblocking(true).unwrap();
            let remote = r.local_addr().unwrap();
            let ip = Ipv4Addr::new(127, 0, 0, 2 + i as u8);
            let ok = Arc::new(AtomicBool::new(true));
            let io = new_uplink(ip, remote, ok.clone());
            let id = 1000 + i as u64;
            held.push(Some(io.socket.clone()));
            conn_io.insert(id, io);
            conns.push(SrtlaConnection::new_registering(id, format!("L{i}"), IpAddr::V4(ip), t0));
            rx.push(r);
            bind_ok.push(ok);
        }
        let (packet_tx, packet_rx) = vh::create_uplink_channel();
        let (instant_tx, instant_rx) = tokio::sync::mpsc::unbounded_channel();
        let listener = tokio::net::UdpSocket::bind("127.0.0.1:0").await.unwrap();
        World {
            n, t0, now: t0, refresh: REFRESH.load(Ordering::Relaxed), group: false, conns, conn_io, reg: SrtlaRegistrationManager::new(),
            cfg: DynamicConfig::new(), all_failed_at: None, readers: HashMap::new(), packet_tx,
            _packet_rx: packet_rx, listener, instant_tx, _instant_rx: instant_rx,
            tracker: SequenceTracker::new(), last_sel: None, client: None,
            critical: srtla_core::priority::CriticalWindow::new(), rx, bind_ok, held,
            gens: vec![0; n], last_err: false, prev_links: vec![], prev_glob: String::new(), steps: vec![], wires: vec![], obs_conn: vec![],
            hist: Default::default(),
        }
    }

    pub fn advance(&mut self, ms: u64) {
        self.now += ms.max(1);
        verif_clock::set(Some(self.now));
    }
    pub fn connected(&self, i: usize) -> bool { self.conns[i].connected }
    pub fn has_connected(&self) -> bool { self.reg.has_connected }

    /// handshake datagrams that reached each receiver-side socket since the last drain
    fn drain_wire(&mut self) -> Vec<Vec<i128>> {
        let mut out = vec![vec![]; self.n];
        let mut buf = [0u8; 2048];
        for i in 0..self.n {
            while let Ok((len, _)) = self.rx[i].recv_from(&mut buf) {
                let d = &buf[..len];
                match proto::get_packet_type(d) {
                    Some(proto::SRTLA_TYPE_REG1) => out[i].push(1),
                    Some(proto::SRTLA_TYPE_REG2) => {
                        let same = d.len() == proto::SRTLA_TYPE_REG2_LEN && d[2..] == self.reg.srtla_id()[..];
                        out[i].push(if same { 2 } else { 3 });
                    }
                    _ => {}
                }
            }
        }
        out
    }
}

fn b(x: bool) -> &'static str { common::boolc(x) }
fn zo(o: Option<u64>) -> String { match o { Some(v) => common::z(v as i128), None => "(-1)".into() } }
fn zi(o: Option<usize>) -> String { match o { Some(v) => format!("{v}"), None => "(-1)".into() } }

impl World {
    fn link_obs(&self, i: usize) -> String {
        let c = &self.conns[i];
        let h = c.verif_hidden();
        let (ph, probes, entered) = match c.phase {
            LinkPhase::Registering => (0, 0, 0),
            LinkPhase::Warming { rtt_probes, entered_ms } => (1, rtt_probes as u64, entered_ms),
            LinkPhase::Live => (2, 0, 0),
            LinkPhase::Degraded => (3, 0, 0),
        };
        let r = &c.reconnection;
        format!(
            "(LO {} {} {} {} {} {} {} {} {} {} {} {} {} {} {} {} {})",
            b(c.connected), zo(c.last_received), h.conn_timeout_ms, r.last_reconnect_attempt_ms,
            r.reconnect_failure_count, r.connection_established_ms, r.startup_grace_deadline_ms,
            ph, probes, entered, common::z(c.window as i128), common::z(c.in_flight_packets as i128),
            self.gens[i], b(c.stall_gated), b(c.weak), b(c.cc_backing_off), b(c.loss_degraded)
        )
    }

    fn glob_obs(&self) -> String {
        let g = &self.reg;
        let snap = self.cfg.snapshot();
        format!(
            "(GO {} {} {} {} {} {} {} {} {} {} {} {} {})",
            zi(g.pending_reg2_idx()), g.pending_timeout_at_ms(), g.active_connections(), b(g.has_connected()),
            b(g.broadcast_reg2_pending()), zi(g.reg1_target_idx()), g.reg1_next_send_at_ms(), b(g.is_probing()),
            zi(self.last_sel), zo(self.all_failed_at), b(self.last_err), snap.conn_timeout_ms,
            b(snap.mode.is_classic())
        )
    }

    /// socket generation: how many times `io.socket` was replaced (the old Arc is kept
    /// alive by the harness until the comparison, so its address cannot be reused)
    fn refresh_gens(&mut self) {
        for i in 0..self.n {
            let cur = self.conn_io.get(&self.conns[i].conn_id).map(|io| io.socket.clone());
            let changed = match (&self.held[i], &cur) {
                (Some(a), Some(bb)) => !Arc::ptr_eq(a, bb),
                _ => false,
            };
            if changed { self.gens[i] += 1; }
            if cur.is_some() { self.held[i] = cur; }
        }
    }

    fn record(&mut self, op_text: String) {
        self.refresh_gens();
        let wire = self.drain_wire();
        let links: Vec<String> = (0..self.n).map(|i| self.link_obs(i)).collect();
        if self.prev_links.is_empty() {
            // observation of a freshly created link (what Run_C08.steps_of starts from)
            self.prev_links = vec![format!("(LO false (-1) 5000 0 0 0 {} 0 0 0 20000 0 0 false false false false)", self.t0 + 5000); self.n];
        }
        let mut delta = vec![];
        for i in 0..self.n {
            if links[i] != self.prev_links[i] { delta.push(format!("({i}%nat,{})", links[i])); }
        }
        self.prev_links = links;
        let wtxt: Vec<String> = wire.iter().enumerate().filter(|(_, w)| !w.is_empty())
            .map(|(i, w)| format!("({i}%nat,{})", common::zlist(w.iter().copied()))).collect();
        let g = self.glob_obs();
        if self.prev_glob.is_empty() { self.prev_glob = "(GO (-1) 0 0 false false (-1) 0 false (-1) (-1) false 5000 false)".into(); }
        let gtxt = if g == self.prev_glob { "None".to_string() } else { format!("(Some {g})") };
        self.prev_glob = g;
        self.steps.push(format!("DS {} [{}] {} [{}]", op_text, delta.join(";"), gtxt, wtxt.join(";")));
        self.obs_conn.push((0..self.n).map(|i| self.conns[i].connected).collect());
        self.wires.push(wire);
        self.last_err = false;
    }

    async fn inject(&mut self, i: usize, bytes: &[u8]) {
        let pkt = vh::UplinkPacket { conn_id: 1000 + i as u64, bytes: smallvec::SmallVec::from_slice_copy(bytes) };
        let snap = self.cfg.snapshot();
        vh::handle_uplink_packet(pkt, &mut self.conns, &self.conn_io, &mut self.reg, &self.instant_tx,
                                 self.client, &self.listener, &self.tracker, &snap).await;
    }

    /// Apply one op to the real code at the current virtual time and record the observation.
    pub async fn apply(&mut self, op: &Op) {
        let now = self.now;
        verif_clock::set(Some(now));
        let key: &'static str;
        let text = match op {
            Op::SetTimeout(ms) => { key = "SetTimeout"; self.cfg.set_conn_timeout_ms(*ms); format!("(OSetTimeout {ms})") }
            Op::SetMode(classic) => {
                key = "SetMode";
                self.cfg.set_mode(if *classic { srtla_core::SchedulingMode::Classic } else { srtla_core::SchedulingMode::Enhanced });
                format!("(OSetMode {})", b(*classic))
            }
            Op::StartProbe => {
                key = "StartProbe";
                let probes = self.reg.start_probing(&mut self.conns, now);
                for (idx, pkt) in probes {
                    if let Some(conn) = self.conns.get(idx) && let Some(io) = self.conn_io.get(&conn.conn_id) {
                        let _ = io.socket.send(&pkt).await;
                    }
                }
                format!("(OStartProbe {now})")
            }
            Op::Tick => {
                key = "Tick";
                let snap = self.cfg.snapshot();
                if self.refresh { tick_refresh(&mut self.conns, &snap); }
                let r = vh::handle_housekeeping(&mut self.conns, &mut self.conn_io, &mut self.reg, snap.mode.is_classic(),
                                                now, &mut self.all_failed_at, &mut self.readers, &self.packet_tx).await;
                self.last_err = r.is_err();
                let dgs: Vec<i128> = self.conns.iter().map(|c| {
                    let q = c.verif_hidden().quality_multiplier;
                    let burst = c.congestion.nak_burst_count;
                    if q < 0.5 && burst >= 5 { 1 } else if q >= 0.5 && burst < 5 { 2 } else { 0 }
                }).collect();
                let ws: Vec<i128> = self.conns.iter().map(|c| c.window as i128).collect();
                format!("(OTick {now} {} {} {})", b(self.refresh), common::zlist(dgs), common::zlist(ws))
            }
            Op::Reg3(i) => { key = "Reg3"; self.inject(*i, &[0x92, 0x02]).await; format!("(OReg3 {i} {now})") }
            Op::Reg2(i, full) => {
                key = "Reg2";
                let mut p = vec![0x92u8, 0x01];
                let idlen = if *full { proto::SRTLA_ID_LEN } else { 17 };
                p.extend((0..idlen).map(|k| (k as u8).wrapping_mul(7).wrapping_add(now as u8)));
                self.inject(*i, &p).await;
                format!("(OReg2 {i} {now} {})", b(*full))
            }
            Op::Ngp(i) => { key = "Ngp"; self.inject(*i, &[0x92, 0x11]).await; format!("(ONgp {i} {now})") }
            Op::RegErr(i) => { key = "RegErr"; self.inject(*i, &[0x92, 0x10]).await; format!("(ORegErr {i} {now})") }
            Op::Keepalive(i, delta) => {
                key = "Keepalive";
                let before = self.conns.get(*i).map(|c| c.last_ack_or_rtt_sample_ms);
                let pkt = proto::create_keepalive_packet(now.saturating_sub(*delta));
                self.inject(*i, &pkt).await;
                let ok = self.conns.get(*i).map(|c| c.last_ack_or_rtt_sample_ms == now) == Some(true) && before != Some(now);
                format!("(OKeepalive {i} {now} {})", b(ok))
            }
            Op::Inbound(i, kind, seq) => {
                key = "Inbound";
                let s = seq.to_be_bytes();
                let p: Vec<u8> = match kind {
                    1 => { let mut p = vec![0x80u8, 0x02]; p.extend([0u8; 14]); p.extend(s); p }
                    2 => { let mut p = vec![0x80u8, 0x03, 0, 0]; p.extend(s); p }
                    3 => { let mut p = vec![0x91u8, 0x00, 0, 0]; p.extend(s); p }
                    _ => { let mut p = s.to_vec(); p[0] &= 0x7f; p.extend([0u8; 12]); p }
                };
                self.inject(*i, &p).await;
                let cc: Vec<String> = self.conns.iter().map(|c| format!("({},{})", common::z(c.window as i128), c.in_flight_packets)).collect();
                format!("(OInbound {i} {now} [{}])", cc.join(";"))
            }
            Op::Data(seq) => { key = "Data"; self.data(*seq).await }
            Op::Flush => {
                key = "Flush";
                vh::flush_all_batches(&mut self.conns, &self.conn_io).await;
                format!("(OFlush {now} {})", common::zlist(self.conns.iter().map(|c| c.in_flight_packets as i128)))
            }
            Op::SetBind(i, ok) => { key = "SetBind"; if let Some(f) = self.bind_ok.get(*i) { f.store(*ok, Ordering::Relaxed); } format!("(OSetBind {i} {})", b(*ok)) }
            Op::Shut(i) => {
                key = "Shut";
                if let Some(c) = self.conns.get(*i) && let Some(io) = self.conn_io.get(&c.conn_id) {
                    let _ = io.socket.get_ref().shutdown(std::net::Shutdown::Write);
                }
                format!("(OShut {i})")
            }
            Op::DropIo(i) => {
                key = "DropIo";
                if let Some(c) = self.conns.get(*i) { self.conn_io.remove(&c.conn_id); }
                format!("(ODropIo {i})")
            }
            Op::SetPen(i, g, w, bo, ld) => {
                key = "SetPen";
                if let Some(c) = self.conns.get_mut(*i) { c.stall_gated = *g; c.weak = *w; c.cc_backing_off = *bo; c.loss_degraded = *ld; }
                format!("(OSetPen {i} (PN {} {} {} {}))", b(*g), b(*w), b(*bo), b(*ld))
            }
            Op::Repair(i) => { key = "Repair"; format!("(ORepair {i} {now})") }
        };
        *self.hist.entry(key).or_insert(0) += 1;
        tokio::task::yield_now().await;
        self.record(text);
    }
}

/// The housekeeping arm of `run_sender_with_config` = timeout refresh + `handle_housekeeping`
/// (the arm itself is a `select!` branch and cannot be called); this is its first statement.
fn tick_refresh(conns: &mut [SrtlaConnection], snap: &srtla_core::ConfigSnapshot) {
    srtla_core::selection::refresh_conn_timeouts(conns, snap);
}

/// Lexical shape fact: does every `handle_housekeeping(` call site in src/sender/mod.rs have
/// `refresh_conn_timeouts(&mut connections` right before it?  If not, the arm no longer
/// refreshes and the cases are generated (and the model run) without the refresh.
fn arm_refreshes() -> bool {
    let repo = std::env::var("VERIF_REPO").unwrap_or_else(|_| "/repo".into());
    let Ok(src) = std::fs::read_to_string(format!("{repo}/src/sender/mod.rs")) else { return false };
    let mut sites = 0;
    let mut ok = 0;
    let mut from = 0;
    while let Some(p) = src[from..].find("handle_housekeeping(") {
        let at = from + p;
        from = at + 1;
        let line_start = src[..at].rfind('\n').map(|x| x + 1).unwrap_or(0);
        if src[line_start..at].contains("use ") || src[line_start..at].trim_start().starts_with("//") { continue; }
        sites += 1;
        let mut lo = at.saturating_sub(260);
        while !src.is_char_boundary(lo) { lo -= 1; }
        let code: String = src[lo..at].lines().filter(|l| !l.trim_start().starts_with("//")).collect::<Vec<_>>().join("\n");
        if code.contains("refresh_conn_timeouts(&mut connections") { ok += 1; }
    }
    sites >= 2 && ok == sites
}

impl World {
    async fn data(&mut self, seq: u32) -> String {
        let now = self.now;
        let before_q: Vec<i32> = self.conns.iter().map(|c| c.batch_sender.queued_count()).collect();
        let before_ls: Vec<Option<u64>> = self.conns.iter().map(|c| c.last_sent).collect();
        let mut buf = vec![0u8; 1500];
        buf[..4].copy_from_slice(&(seq & 0x7fff_ffff).to_be_bytes());
        let len = 24usize;
        let snap = self.cfg.snapshot();
        let complete = self.reg.has_connected;
        let src: SocketAddr = "127.0.0.1:9".parse().unwrap();
        vh::handle_srt_packet(Ok((len, src)), &mut buf, &mut self.conns, &self.conn_io, &mut self.last_sel,
                              &mut self.tracker, &mut self.client, complete, &snap, &self.critical).await;
        self.client = None; // nothing is forwarded to a client in this family
        let mut pick: Option<usize> = None;
        let mut flushed = false;
        for (i, c) in self.conns.iter().enumerate() {
            let fl = c.last_sent == Some(now) && before_ls[i] != Some(now);
            if c.batch_sender.queued_count() == before_q[i] + 1 || fl {
                pick = Some(i);
                flushed = fl;
            }
        }
        let inf = pick.map(|i| self.conns[i].in_flight_packets).unwrap_or(0);
        let gs: Vec<bool> = if complete { self.conns.iter().map(|c| c.stall_gated).collect() } else { vec![] };
        let sel = match pick { Some(i) => format!("(Some {i}%nat)"), None => "None".into() };
        format!("(OData {now} {sel} {} {} {})", b(flushed), common::z(inf as i128), common::blist(&gs))
    }
}

/// How the scripted receiver treats one uplink.
#[derive(Clone, Copy, PartialEq, Debug)]
pub enum Policy { Good, BlackHole, Lossy, Forgot, Refuse }

/// Let the scripted receiver answer whatever the last op put on the wire.
async fn respond(w: &mut World, pol: &[Policy], rng: &mut Rng, echo: bool) {
    let mut depth = 0;
    let mut pending: Vec<(usize, i128)> = vec![];
    if let Some(last) = w.wires.last() {
        for (i, ws) in last.iter().enumerate() { for c in ws { pending.push((i, *c)); } }
    }
    while !pending.is_empty() && depth < 12 {
        depth += 1;
        let (i, code) = pending.remove(0);
        let answer = match pol[i] {
            Policy::BlackHole => None,
            Policy::Lossy => if rng.chance(1, 2) { Some(Policy::Good) } else { None },
            p => Some(p),
        };
        let op = match (answer, code) {
            (None, _) => None,
            (Some(Policy::Refuse), _) => Some(Op::RegErr(i)),
            (Some(Policy::Forgot), 2) => { w.group = false; Some(Op::Ngp(i)) }
            (Some(_), 1) => { w.group = true; Some(Op::Reg2(i, true)) }
            (Some(_), 2) => if w.group { Some(Op::Reg3(i)) } else { Some(Op::Ngp(i)) },
            (Some(_), 3) => Some(Op::Ngp(i)),
            _ => None,
        };
        if let Some(op) = op {
            w.advance(rng.range(1, 40) as u64);
            w.apply(&op).await;
            if let Some(last) = w.wires.last() {
                for (j, ws) in last.iter().enumerate() { for c in ws { pending.push((j, *c)); } }
            }
        }
    }
    if echo {
        for i in 0..w.n {
            if w.connected(i) && matches!(pol[i], Policy::Good | Policy::Forgot) || (pol[i] == Policy::Lossy && w.connected(i) && rng.chance(1, 2)) {
                w.advance(rng.range(1, 30) as u64);
                let d = rng.range(1, 200) as u64;
                w.apply(&Op::Keepalive(i, d)).await;
            }
        }
    }
}

const TICK_DT: &[u64] = &[1000, 1000, 1000, 1000, 1000, 1000, 999, 1001, 500, 250, 1, 2000, 3000, 3999, 4000, 4001,
    4999, 5000, 5001, 9999, 10000, 10001, 20000, 59999, 60000, 60001, 119999, 120000, 120001];
const TIMEOUTS: &[u64] = &[1000, 5000, 60000, 999, 1001, 3000, 59999, 70000, 0];

async fn tick_round(w: &mut World, pol: &[Policy], rng: &mut Rng, dt: u64) {
    w.advance(dt);
    w.apply(&Op::Tick).await;
    respond(w, pol, rng, true).await;
}

/// Bring the group up on every link whose policy answers (used as a scenario prefix).
async fn establish(w: &mut World, pol: &[Policy], rng: &mut Rng, probe: bool) {
    if probe { w.advance(1); w.apply(&Op::StartProbe).await; respond(w, pol, rng, false).await; }
    for _ in 0..9 {
        tick_round(w, pol, rng, 1000).await;
        if (0..w.n).all(|i| w.connected(i) || !matches!(pol[i], Policy::Good)) && w.has_connected() { break; }
    }
}

impl World {
    /// End of a case: abort the reader tasks housekeeping spawned (they hold socket Arcs).
    pub async fn finish(mut self) -> World {
        for (_, r) in self.readers.drain() { r.handle.abort(); }
        for _ in 0..4 { tokio::task::yield_now().await; }
        self
    }
}

fn case_text(w: &World) -> String {
    format!("Case {} {} [{}]", w.n, w.t0, w.steps.join(";"))
}

/// F6 witness: configured timeout 60 s, no client traffic; link 0 goes silent.
async fn sc_timeout_config(rng: &mut Rng, refresh: bool, cfg_ms: u64) -> World {
    let mut w = World::new(2, 1000 + rng.range(0, 999) as u64).await;
    w.refresh = refresh;
    w.apply(&Op::SetTimeout(cfg_ms)).await;
    let mut pol = vec![Policy::Good, Policy::Good];
    establish(&mut w, &pol, rng, true).await;
    pol[0] = Policy::BlackHole;
    let rounds = (cfg_ms.clamp(1000, 60000) / 1000 + 8) as usize;
    for _ in 0..rounds { tick_round(&mut w, &pol, rng, 1000).await; }
    w
}

/// Back-off ladder: an established link dies and socket re-creation keeps failing.
async fn sc_backoff(rng: &mut Rng, n: usize) -> World {
    let mut w = World::new(n, 2000 + rng.range(0, 999) as u64).await;
    let mut pol = vec![Policy::Good; n];
    { let p = rng.chance(1, 2); establish(&mut w, &pol, rng, p).await; }
    pol[0] = Policy::BlackHole;
    w.apply(&Op::SetBind(0, false)).await;
    for _ in 0..7 { tick_round(&mut w, &pol, rng, 1000).await; }
    // walk the ladder 5,10,20,40,80,120,120 s with boundary probes
    for d in [5000u64, 10000, 20000, 40000, 80000, 120000, 120000, 120000] {
        let off = *rng.pick(&[0u64, 0, 1, 2]);
        let mut left = d;
        // keep the survivors alive with 1 s rounds for part of the way, then jump to the edge
        let small = rng.range(0, 3) as u64;
        for _ in 0..small { tick_round(&mut w, &pol, rng, 1000).await; left = left.saturating_sub(1040); }
        if left > 2 + off { tick_round(&mut w, &pol, rng, left - 1 - off).await; }
        tick_round(&mut w, &pol, rng, 1 + off).await;
        tick_round(&mut w, &pol, rng, 1000).await;
    }
    w.apply(&Op::SetBind(0, true)).await;
    pol[0] = Policy::Good;
    for _ in 0..3 { tick_round(&mut w, &pol, rng, 60000).await; tick_round(&mut w, &pol, rng, 1000).await; }
    w
}

/// Fault on link `f` (black-hole / refused / forgot / send error), then repair, then a
/// disciplined 31 s suffix: ticks <= 1 s apart, every handshake datagram answered.
async fn sc_recovery(rng: &mut Rng, n: usize, fault: u8) -> World {
    let mut w = World::new(n, 3000 + rng.range(0, 999) as u64).await;
    if rng.chance(1, 2) { w.apply(&Op::SetMode(true)).await; }
    if rng.chance(1, 2) { w.apply(&Op::SetTimeout(*rng.pick(&[1000u64, 5000, 60000]))).await; }
    let mut pol = vec![Policy::Good; n];
    { let p = rng.chance(1, 2); establish(&mut w, &pol, rng, p).await; }
    let f = rng.below(n as u64) as usize;
    match fault {
        0 => pol[f] = Policy::BlackHole,
        1 => { w.advance(5); w.apply(&Op::RegErr(f)).await; pol[f] = Policy::Refuse; }
        2 => pol[f] = Policy::Lossy,
        _ => {
            w.advance(3); w.apply(&Op::Shut(f)).await;
            for k in 0..40u32 { w.advance(1); w.apply(&Op::Data(100 + k)).await; if !w.connected(f) { break; } }
            pol[f] = Policy::BlackHole;
        }
    }
    let dead = rng.range(2, 70) as usize;
    for _ in 0..dead { tick_round(&mut w, &pol, rng, 1000).await; }
    pol[f] = Policy::Good;
    if !w.connected(f) {
        w.advance(rng.range(1, 900) as u64);
        w.apply(&Op::Repair(f)).await;
    }
    for _ in 0..34 { let dt = rng.range(850, 990) as u64; tick_round(&mut w, &pol, rng, dt).await; }
    w
}

/// Pre-registration data on a re-created link, a NAK charged to it, then REG3 (F8).
async fn sc_prereg_nak(rng: &mut Rng) -> World {
    let mut w = World::new(2, 4000 + rng.range(0, 999) as u64).await;
    let pol = vec![Policy::BlackHole, Policy::BlackHole];
    for _ in 0..7 { tick_round(&mut w, &pol, rng, 1000).await; } // grace runs out, link 0 is re-created
    for k in 0..20u32 { w.advance(1); w.apply(&Op::Data(500 + k)).await; }
    w.advance(16); w.apply(&Op::Flush).await;
    w.advance(5); w.apply(&Op::Inbound(1, 2, 503)).await;
    w.advance(5); w.apply(&Op::Reg3(0)).await;
    w.advance(5); w.apply(&Op::Reg3(1)).await;
    tick_round(&mut w, &[Policy::Good, Policy::Good], rng, 1000).await;
    w
}

/// Random fault/repair schedule on 2-4 links.
async fn sc_random(rng: &mut Rng, len: usize) -> World {
    let n = rng.range(2, 4) as usize;
    let mut w = World::new(n, 1000 + rng.range(0, 4000) as u64).await;
    let pols = [Policy::Good, Policy::Good, Policy::Good, Policy::BlackHole, Policy::Lossy, Policy::Forgot, Policy::Refuse];
    let mut pol: Vec<Policy> = (0..n).map(|_| *rng.pick(&pols)).collect();
    if rng.chance(1, 2) { w.apply(&Op::SetMode(rng.chance(1, 2))).await; }
    if rng.chance(2, 3) { w.apply(&Op::SetTimeout(*rng.pick(TIMEOUTS))).await; }
    if rng.chance(2, 3) { w.advance(1); w.apply(&Op::StartProbe).await; respond(&mut w, &pol, rng, false).await; }
    let mut seq: u32 = rng.range(1, 1000) as u32;
    while w.steps.len() < len {
        match rng.below(100) {
            0..=54 => { let dt = *rng.pick(TICK_DT); tick_round(&mut w, &pol, rng, dt).await; }
            55..=64 => {
                let k = rng.range(1, 20);
                for _ in 0..k { w.advance(rng.range(0, 2) as u64); w.apply(&Op::Data(seq)).await; seq = seq.wrapping_add(1); }
                if rng.chance(1, 2) { w.advance(rng.range(14, 17) as u64); w.apply(&Op::Flush).await; }
            }
            65..=72 => {
                let i = rng.below(n as u64) as usize;
                let kind = rng.below(4) as u8;
                let s = seq.wrapping_sub(rng.range(0, 12) as u32);
                w.advance(rng.range(1, 50) as u64);
                w.apply(&Op::Inbound(i, kind, s)).await;
            }
            73..=78 => { let i = rng.below(n as u64) as usize; pol[i] = *rng.pick(&pols); }
            79..=82 => { let i = rng.below(n as u64) as usize; w.apply(&Op::SetBind(i, rng.chance(1, 2))).await; }
            83..=85 => { let i = rng.below(n as u64) as usize; w.apply(&Op::Shut(i)).await; }
            86 => { let i = rng.below(n as u64) as usize; if rng.chance(1, 3) { w.apply(&Op::DropIo(i)).await; } }
            87..=89 => {
                let i = rng.below(n as u64 + 1) as usize;
                w.advance(rng.range(1, 50) as u64);
                let op = match rng.below(5) { 0 => Op::RegErr(i), 1 => Op::Ngp(i), 2 => Op::Reg3(i), 3 => Op::Reg2(i, rng.chance(3, 4)), _ => Op::Keepalive(i, rng.range(0, 12000) as u64) };
                w.apply(&op).await;
                respond(&mut w, &pol, rng, false).await;
            }
            90..=93 => {
                let i = rng.below(n as u64) as usize;
                w.apply(&Op::SetPen(i, rng.chance(1, 2), rng.chance(1, 2), rng.chance(1, 2), rng.chance(1, 2))).await;
            }
            94..=96 => { w.apply(&Op::SetTimeout(*rng.pick(TIMEOUTS))).await; }
            97 => { w.apply(&Op::SetMode(rng.chance(1, 2))).await; }
            _ => { w.advance(1); w.apply(&Op::StartProbe).await; respond(&mut w, &pol, rng, false).await; }
        }
    }
    w
}

pub fn run(seed: u64, tier: &str, out: &Path, extra: &[(String, String)]) -> std::io::Result<()> {
    let mut run = Run::new("C08", "Run_C08", seed, tier, out);
    let thorough = run.thorough();
    let shape = arm_refreshes();
    let refresh = shape && !extra.iter().any(|(k, v)| k == "refresh" && v == "0");
    REFRESH.store(refresh, Ordering::Relaxed);
    let rt = tokio::runtime::Builder::new_current_thread().enable_all().build()?;
    let mut rng = Rng::new(seed ^ 0xC08);
    let mut hist: std::collections::BTreeMap<&'static str, u64> = Default::default();
    let mut push = |run: &mut Run, kind: &'static str, w: World| {
        for (k, v) in &w.hist { *hist.entry(k).or_insert(0) += v; }
        let nontrivial = w.steps.iter().any(|s| s.contains("OTick"));
        run.push(kind, nontrivial, case_text(&w));
    };
    // directed scenarios (regression witnesses run on every check)
    for cfg in [60000u64, 1000, 5000] {
        let mut r = rng.fork(1);
        let w = rt.block_on(async { sc_timeout_config(&mut r, refresh, cfg).await.finish().await });
        push(&mut run, "timeout_config", w);
    }
    for n in [2usize, 3] {
        let mut r = rng.fork(2);
        let w = rt.block_on(async { sc_backoff(&mut r, n).await.finish().await });
        push(&mut run, "backoff_ladder", w);
    }
    {
        // F8 witness (pre-registration data + NAK on a re-created link, then REG3): regression case
        let mut r = rng.fork(3);
        let w = rt.block_on(async { sc_prereg_nak(&mut r).await.finish().await });
        push(&mut run, "prereg_nak", w);
    }
    let (n_rec, n_rand) = if thorough { (120, 1500) } else { (12, 150) };
    for k in 0..n_rec {
        let mut r = rng.fork(100 + k);
        let w = rt.block_on(async { sc_recovery(&mut r, 2 + (k as usize % 3), (k % 4) as u8).await.finish().await });
        push(&mut run, "recovery", w);
    }
    for k in 0..n_rand {
        let mut r = rng.fork(10_000 + k);
        let len = 30 + (k as usize % 50);
        let w = rt.block_on(async { sc_random(&mut r, len).await.finish().await });
        push(&mut run, "random", w);
    }
    for (k, v) in &hist { run.count_n(&format!("op:{k}"), *v); }
    run.samples.push("F6 witness (regression): SetTimeout 60000; both links registered; link 0 black-holed, no client traffic; ticks every 1 s -> link 0 must stay up until 60 s of silence (before /repo 260b76c it was torn down after 5 s: clause 1)".into());
    run.samples.push("F8 witness (regression): link 0 re-created by housekeeping, 20 pre-registration data packets flushed on it, SRT NAK charged (window 19900), REG3 -> must rejoin with window 20000, in-flight 0, Warming{0} (before /repo 75843c9 window stayed 19900: clause 6)".into());
    run.samples.push("back-off ladder: established link dies, socket re-creation fails; attempts observed at 5,10,20,40,80,120,120,120 s with ticks 1 ms before / at / after each boundary".into());
    run.note(format!("shape: every handle_housekeeping call site in src/sender/mod.rs is preceded by refresh_conn_timeouts = {shape}; ticks generated with refresh = {refresh}"));
    run.note("ops per case 30-140; ticks drawn from boundary pools (1000/4000/5000/10000/60000/120000 +-1); receivers scripted per link (good / black-hole / lossy / forgot group / refuse); faults: bind failure, send failure (socket shut down), I/O entry dropped, REG_ERR/REG_NGP injections".into());
    run.finish(16, 1_000_000)
}
