//! C10 — classic mode reproduces the reference srtla_send algorithm.
//!
//! Drives the REAL shell arms (`handle_srt_packet`, `flush_all_batches`,
//! `handle_uplink_packet` -> `process_connection_events`, `handle_housekeeping(classic = true)`)
//! over loopback UDP sockets under the virtual clock, with `mode = Classic` and
//! `stall_deselect = false`, on 1..4 real `SrtlaConnection`s; records after every op the link
//! each routed packet was queued on, the datagrams that reached each uplink's wire, and the
//! per-link state the reference algorithm reads.
#![allow(dead_code)]
use std::collections::HashMap;
use std::net::{IpAddr, Ipv4Addr, SocketAddr, UdpSocket as StdUdp};
use std::sync::Arc;

use smallvec::SmallVec;
use srtla_core::config_snapshot::ConfigSnapshot;
use srtla_core::connection::{LinkPhase, SrtlaConnection};
use srtla_core::mode::SchedulingMode;
use srtla_core::priority::CriticalWindow;
use srtla_core::registration::SrtlaRegistrationManager;
use srtla_core::utils::verif_clock;
use srtla_send::net::{BatchUdpSocket, SourceIpBinder};
use srtla_send::sender::verif_hooks::{
    ConnIo, ConnIoMap, ConnectionId, InstantForwarder, ReaderHandle, UplinkPacket, create_uplink_channel,
    flush_all_batches, handle_housekeeping, handle_srt_packet, handle_uplink_packet,
};
use srtla_send::sender::SequenceTracker;
use tokio::runtime::Runtime;

use crate::common::*;

const GRACE: u64 = 9_000_000; // never-registered links stay inside their start-up grace

#[derive(Clone, Debug)]
pub enum Op {
    Up(usize, u64),
    Down(usize),
    SetWindow(usize, i64),
    SetQ(usize, f64),
    SetReg(usize, bool),
    SetConn(usize, bool, Option<u64>),
    Noise(u64),
    Critical(u64),
    /// client datagram: seq (None = SRT control packet), retransmit flag, now, conn_timeout_ms of the snapshot
    Pkt(Option<u32>, bool, u64, u64),
    Flush(u64),
    SrtlaAck(usize, Vec<u32>, u64),
    SrtAck(usize, u32, u64),
    Nak(usize, Vec<u32>, u64),
    Housekeep(u64),
}

fn op_kind(o: &Op) -> &'static str {
    match o {
        Op::Up(..) => "up", Op::Down(..) => "down", Op::SetWindow(..) => "set_window", Op::SetQ(..) => "set_quality",
        Op::SetReg(..) => "set_phase", Op::SetConn(..) => "set_conn", Op::Noise(..) => "noise",
        Op::Critical(..) => "critical", Op::Pkt(None, ..) => "pkt_control", Op::Pkt(_, true, ..) => "pkt_retransmit",
        Op::Pkt(..) => "pkt_data", Op::Flush(..) => "flush", Op::SrtlaAck(..) => "srtla_ack",
        Op::SrtAck(..) => "srt_ack", Op::Nak(..) => "nak", Op::Housekeep(..) => "housekeep",
    }
}

fn u32list(v: &[u32]) -> String { zlist(v.iter().map(|&x| x as i128)) }

/// Coq literal of an op; `bs` = batch sizes observed after a housekeeping tick.
fn op_lit(o: &Op, bs: &[i128]) -> String {
    match o {
        Op::Up(i, t) => format!("XUp {} {}", i, t),
        Op::Down(i) => format!("XDown {}", i),
        Op::SetWindow(i, w) => format!("XSetWindow {} {}", i, z(*w as i128)),
        Op::SetQ(i, q) => format!("XSetQ {} {}", i, flt(*q)),
        Op::SetReg(i, b) => format!("XSetReg {} {}", i, boolc(*b)),
        Op::SetConn(i, b, lr) => format!("XSetConn {} {} {}", i, boolc(*b), optz(lr.map(|v| v as i128))),
        Op::Noise(_) => "XNoise".to_string(),
        Op::Critical(d) => format!("XCritical {}", d),
        Op::Pkt(s, r, t, tmo) => format!("XPkt {} {} {} {}", optz(s.map(|v| v as i128)), boolc(*r), t, tmo),
        Op::Flush(t) => format!("XFlush {}", t),
        Op::SrtlaAck(i, s, t) => format!("XSrtlaAck {} {} {}", i, u32list(s), t),
        Op::SrtAck(i, a, t) => format!("XSrtAck {} {} {}", i, a, t),
        Op::Nak(i, s, t) => format!("XNak {} {} {}", i, u32list(s), t),
        Op::Housekeep(t) => format!("XHousekeep {} {}", t, zlist(bs.iter().copied())),
    }
}

fn conn_id_of(i: usize) -> u64 { 101 + i as u64 }

pub struct World {
    conns: SmallVec<SrtlaConnection, 4>,
    conn_io: ConnIoMap,
    rx: Vec<StdUdp>,
    tracker: SequenceTracker,
    last_sel: Option<usize>,
    last_client: Option<SocketAddr>,
    critical: CriticalWindow,
    reg: SrtlaRegistrationManager,
    listener: tokio::net::UdpSocket,
    instant_tx: InstantForwarder,
    _instant_rx: tokio::sync::mpsc::UnboundedReceiver<(SocketAddr, SmallVec<u8, 64>)>,
    all_failed_at: Option<u64>,
    readers: HashMap<ConnectionId, ReaderHandle>,
    packet_tx: tokio::sync::mpsc::UnboundedSender<UplinkPacket>,
    _packet_rx: tokio::sync::mpsc::UnboundedReceiver<UplinkPacket>,
    rng: Rng,
    /// true = compose select_connection_idx + select_best_quality_idx by hand instead of calling
    /// the shell (never used for evidence; kept for diagnosing a disagreement)
    pub send_failures: u64,
}

fn mk_io(rx_addr: SocketAddr) -> ConnIo {
    use socket2::{Domain, Protocol, Socket, Type};
    let s = Socket::new(Domain::IPV4, Type::DGRAM, Some(Protocol::UDP)).unwrap();
    s.bind(&"127.0.0.1:0".parse::<SocketAddr>().unwrap().into()).unwrap();
    s.connect(&rx_addr.into()).unwrap();
    s.set_nonblocking(true).unwrap();
    ConnIo { socket: Arc::new(BatchUdpSocket::new(s).unwrap()), binder: Arc::new(SourceIpBinder), remote: rx_addr }
}

impl World {
    pub fn new(rt: &Runtime, n: usize, seed: u64) -> World {
        let _g = rt.enter();
        let mut conns = SmallVec::new();
        let mut conn_io = ConnIoMap::new();
        let mut rx = vec![];
        for i in 0..n {
            let mut c = SrtlaConnection::new_registering(
                conn_id_of(i), format!("l{}", i), IpAddr::V4(Ipv4Addr::new(127, 0, 0, 1)), 0);
            c.reconnection.startup_grace_deadline_ms = GRACE;
            let r = StdUdp::bind("127.0.0.1:0").unwrap();
            r.set_nonblocking(true).unwrap();
            conn_io.insert(c.conn_id, mk_io(r.local_addr().unwrap()));
            rx.push(r);
            conns.push(c);
        }
        let listener = rt.block_on(async { tokio::net::UdpSocket::bind("127.0.0.1:0").await.unwrap() });
        let (instant_tx, _instant_rx) = tokio::sync::mpsc::unbounded_channel();
        let (packet_tx, _packet_rx) = create_uplink_channel();
        World {
            conns, conn_io, rx, tracker: SequenceTracker::new(), last_sel: None, last_client: None,
            critical: CriticalWindow::new(), reg: SrtlaRegistrationManager::new(), listener, instant_tx, _instant_rx,
            all_failed_at: None, readers: HashMap::new(), packet_tx, _packet_rx, rng: Rng::new(seed),
            send_failures: 0,
        }
    }

    fn cfg(tmo: u64) -> ConfigSnapshot {
        ConfigSnapshot { mode: SchedulingMode::Classic, quality_enabled: true, stall_deselect: false,
                         conn_timeout_ms: tmo, ..ConfigSnapshot::default() }
    }

    /// datagrams that reached each uplink's receiver since the last drain
    fn drain(&self) -> Vec<i128> {
        let mut buf = [0u8; 2048];
        self.rx.iter().map(|r| {
            let mut k = 0i128;
            while r.recv_from(&mut buf).is_ok() { k += 1; }
            k
        }).collect()
    }

    fn qlens(&self) -> Vec<i128> { self.conns.iter().map(|c| c.batch_sender.queued_count() as i128).collect() }

    fn batch_sizes(&self) -> Vec<i128> {
        self.conns.iter().map(|c| match c.batch_sender.regime().as_str() {
            "low_activity" => 4, "normal" => 16, _ => 32 }).collect()
    }
}

// ---------------------------------------------------------------- datagram builders
fn data_pkt(seq: u32, retx: bool, rng: &mut Rng) -> Vec<u8> {
    let mut p = vec![0u8; 16 + rng.below(24) as usize];
    p[0..4].copy_from_slice(&(seq & 0x7fff_ffff).to_be_bytes());
    p[4] = (rng.byte() & !0x04) | if retx { 0x04 } else { 0 };
    for b in p[5..].iter_mut() { *b = rng.byte(); }
    p
}
fn control_pkt(rng: &mut Rng) -> Vec<u8> {
    let mut p = vec![0u8; 16 + rng.below(16) as usize];
    for b in p.iter_mut() { *b = rng.byte(); }
    let ty = *rng.pick(&[0x8000u16, 0x8001, 0x8002, 0x8006]);
    p[0..2].copy_from_slice(&ty.to_be_bytes());
    p[4] |= 0x04; // would read as the R bit on a data packet; must be ignored on control packets
    p
}
fn srtla_ack_pkt(seqs: &[u32]) -> Vec<u8> {
    let mut p = vec![0x91, 0x00, 0, 0];
    for s in seqs { p.extend_from_slice(&s.to_be_bytes()); }
    p
}
fn srt_ack_pkt(ack: u32, rng: &mut Rng) -> Vec<u8> {
    let mut p = vec![0u8; 44];
    for b in p.iter_mut() { *b = rng.byte(); }
    p[0..2].copy_from_slice(&0x8002u16.to_be_bytes());
    p[16..20].copy_from_slice(&ack.to_be_bytes());
    p
}
fn nak_pkt(seqs: &[u32]) -> Vec<u8> {
    let mut p = vec![0x80, 0x03, 0, 0, 0, 0, 0, 0, 0, 0, 0, 0, 0, 0, 0, 0];
    p.truncate(4);
    for s in seqs { p.extend_from_slice(&(s & 0x7fff_ffff).to_be_bytes()); }
    // parse_srt_nak needs len >= 8: an empty list is sent as one harmless far-away number by the generator
    p
}

impl World {
    /// perturb state the reference algorithm must not look at
    fn noise(&mut self, salt: u64) {
        let mut r = Rng::new(salt);
        let now = 10_000 + r.below(30_000);
        for c in self.conns.iter_mut() {
            if r.chance(1, 2) {
                c.congestion.nak_count = r.range(0, 500) as i32;
                c.congestion.last_nak_time_ms = if r.chance(1, 3) { 0 } else { now - r.below(20_000).min(now) };
                c.congestion.nak_burst_count = r.range(0, 12) as i32;
                c.congestion.fast_recovery_mode = r.chance(1, 3);
                c.congestion.last_window_increase_ms = now - r.below(5_000).min(now);
            }
            if r.chance(1, 2) {
                let (_, _, p, _) = c.rtt.kalman_rtt.verif_state();
                c.rtt.kalman_rtt.verif_set_state(r.range(1, 900) as f64, r.range(-5, 9) as f64 * 0.5, p, true);
                c.rtt.rtt_min_ms = r.range(1, 300) as f64;
                c.rtt.rtt_jitter_ms = r.range(0, 80) as f64;
            }
            if r.chance(1, 2) {
                let mut h = c.verif_hidden();
                h.stall_latched_since_ms = if r.chance(1, 2) { now } else { 0 };
                h.stall_recovery_since_ms = if r.chance(1, 3) { now } else { 0 };
                h.stall_probe_counter = r.below(99) as u32;
                h.silence_pulled = r.chance(1, 2);
                h.conn_timeout_ms = *r.pick(&[1000u64, 5000, 60_000]);
                h.quality_last_calculated_ms = if r.chance(1, 2) { 0 } else { now };
                c.verif_set_hidden(h);
                c.stall_gated = r.chance(1, 2);
                c.last_ack_or_rtt_sample_ms = if r.chance(1, 2) { 0 } else { now - r.below(9_000).min(now) };
            }
            if r.chance(1, 2) {
                c.weak = r.chance(1, 2);
                c.cc_backing_off = r.chance(1, 2);
                c.loss_degraded = r.chance(1, 3);
                c.cc_target_bps = *r.pick(&[0u64, 100_000, 2_000_000, 40_000_000]);
            }
            if c.phase != LinkPhase::Registering && r.chance(1, 2) {
                c.phase = match r.below(3) {
                    0 => LinkPhase::Live, 1 => LinkPhase::Degraded,
                    _ => LinkPhase::Warming { rtt_probes: r.below(2) as u32, entered_ms: now },
                };
            }
        }
        let n = self.conns.len() as u64;
        self.last_sel = if r.chance(1, 4) { None } else { Some(r.below(n + 1) as usize) };
    }

    fn uplink(&mut self, rt: &Runtime, idx: usize, bytes: Vec<u8>, now: u64) {
        verif_clock::set(Some(now));
        let pkt = UplinkPacket { conn_id: conn_id_of(idx), bytes: SmallVec::from_slice_copy(&bytes) };
        let cfg = World::cfg(5000);
        let World { conns, conn_io, reg, instant_tx, listener, tracker, .. } = self;
        rt.block_on(handle_uplink_packet(pkt, conns, conn_io, reg, instant_tx, None, listener, tracker, &cfg));
    }

    /// returns (chosen link or -1, datagrams that reached each wire)
    pub fn apply(&mut self, rt: &Runtime, o: &Op) -> (i128, Vec<i128>) {
        let n = self.conns.len();
        let zeros = vec![0i128; n];
        match o {
            Op::Up(i, now) => {
                let c = &mut self.conns[*i];
                c.clear_pre_registration_state(*now);
                c.connected = true;
                c.last_received = Some(*now);
                if c.reconnection.connection_established_ms == 0 { c.reconnection.connection_established_ms = *now; }
                (-1, zeros)
            }
            Op::Down(i) => { self.conns[*i].mark_for_recovery(); (-1, zeros) }
            Op::SetWindow(i, w) => { self.conns[*i].window = *w as i32; (-1, zeros) }
            Op::SetQ(i, q) => {
                let mut h = self.conns[*i].verif_hidden();
                h.quality_multiplier = *q;
                self.conns[*i].verif_set_hidden(h);
                (-1, zeros)
            }
            Op::SetReg(i, b) => {
                self.conns[*i].phase = if *b { LinkPhase::Registering } else { LinkPhase::Live };
                (-1, zeros)
            }
            Op::SetConn(i, b, lr) => { self.conns[*i].connected = *b; self.conns[*i].last_received = *lr; (-1, zeros) }
            Op::Noise(salt) => { self.noise(*salt); (-1, zeros) }
            Op::Critical(d) => { self.critical.extend_to(*d); (-1, zeros) }
            Op::Pkt(seq, retx, now, tmo) => {
                verif_clock::set(Some(*now));
                let before = self.qlens();
                let bytes = match seq { Some(s) => data_pkt(*s, *retx, &mut self.rng), None => control_pkt(&mut self.rng) };
                let mut buf = vec![0u8; 2048];
                buf[..bytes.len()].copy_from_slice(&bytes);
                let cfg = World::cfg(*tmo);
                let src: SocketAddr = "127.0.0.1:40000".parse().unwrap();
                let World { conns, conn_io, last_sel, tracker, last_client, critical, .. } = self;
                rt.block_on(handle_srt_packet(Ok((bytes.len(), src)), &mut buf, conns, conn_io, last_sel, tracker,
                                              last_client, true, &cfg, critical));
                let sent = self.drain();
                let after = self.qlens();
                // the link that accepted the datagram: queued there, or flushed from there together with its queue
                let mut chosen = -1i128;
                for i in 0..n {
                    let accepted = after[i] + sent[i] - before[i];
                    if accepted == 1 && chosen < 0 { chosen = i as i128; }
                    else if accepted != 0 { chosen = -2 - i as i128; }   // cannot happen: duplicated / lost on the way
                }
                (chosen, sent)
            }
            Op::Flush(now) => {
                verif_clock::set(Some(*now));
                let World { conns, conn_io, .. } = self;
                rt.block_on(flush_all_batches(conns, conn_io));
                (-1, self.drain())
            }
            Op::SrtlaAck(i, seqs, now) => { self.uplink(rt, *i, srtla_ack_pkt(seqs), *now); (-1, zeros) }
            Op::SrtAck(i, a, now) => { let p = srt_ack_pkt(*a, &mut self.rng); self.uplink(rt, *i, p, *now); (-1, zeros) }
            Op::Nak(i, seqs, now) => { self.uplink(rt, *i, nak_pkt(seqs), *now); (-1, zeros) }
            Op::Housekeep(now) => {
                verif_clock::set(Some(*now));
                // links stay in reconnect back-off: socket re-creation is C08's business
                for c in self.conns.iter_mut() {
                    c.reconnection.last_reconnect_attempt_ms = *now;
                    c.reconnection.reconnect_failure_count = 5;
                }
                let World { conns, conn_io, reg, all_failed_at, readers, packet_tx, .. } = self;
                let _ = rt.block_on(handle_housekeeping(conns, conn_io, reg, true, *now, all_failed_at, readers, packet_tx));
                let _ = self.drain(); // keepalives / registration datagrams: not stream traffic
                (-1, zeros)
            }
        }
    }

    /// (fast scalars, "keys queue q" as three Coq arguments) per link
    pub fn obs(&self) -> Vec<(String, String)> {
        self.conns.iter().map(|c| {
            let fast = zlist(vec![
                c.connected as i128, (c.phase == LinkPhase::Registering) as i128, c.window as i128,
                c.last_received.is_some() as i128, c.last_received.map(|v| v as i128).unwrap_or(0),
                c.reconnection.connection_established_ms as i128,
                c.reconnection.startup_grace_deadline_ms as i128,
                match c.batch_sender.regime().as_str() { "low_activity" => 4, "normal" => 16, _ => 32 },
            ]);
            let mut keys: Vec<i128> = c.packet_log.keys().map(|&k| k as i128).collect();
            keys.sort();
            let q: Vec<i128> = c.batch_sender.verif_queue().iter().map(|(_, s, _)| s.map(|v| v as i128).unwrap_or(-1)).collect();
            let slow = format!("{} {} {}", zlist(keys), zlist(q), flt(c.verif_hidden().quality_multiplier));
            (fast, slow)
        }).collect()
    }
}

// ---------------------------------------------------------------- cases
fn lobs_lit(o: &(String, String)) -> String { format!("LI {} {}", o.0, o.1) }

pub struct CaseOut { pub text: String, pub panicked: bool, pub anomalies: u64 }

/// Run ops produced on the fly by `next` (which may look at the world: the receiver side of a
/// closed loop answers what it was actually sent).
pub fn run_case(rt: &Runtime, n: usize, seed: u64, mut next: impl FnMut(&World, usize) -> Option<Op>,
                mut on_op: impl FnMut(&Op)) -> CaseOut {
    let mut w = World::new(rt, n, seed);
    let init = w.obs();
    let mut prev = init.clone();
    let mut steps: Vec<String> = vec![];
    let mut panicked = false;
    let mut anomalies = 0u64;
    let mut k = 0usize;
    while let Some(o) = next(&w, k) {
        k += 1;
        on_op(&o);
        let r = std::panic::catch_unwind(std::panic::AssertUnwindSafe(|| w.apply(rt, &o)));
        let (chosen, sent) = match r {
            Ok(x) => x,
            Err(_) => { panicked = true; steps.push(format!("ST ({}) (-9) [] [] []", op_lit(&o, &[]))); break; }
        };
        if chosen < -1 { anomalies += 1; }
        let cur = w.obs();
        let bs = w.batch_sizes();
        let fasts: Vec<String> = cur.iter().enumerate().filter(|(i, c)| prev.get(*i).map(|p| p.0 != c.0).unwrap_or(true))
            .map(|(i, c)| format!("FD {} {}", i, c.0)).collect();
        let slows: Vec<String> = cur.iter().enumerate().filter(|(i, c)| prev.get(*i).map(|p| p.1 != c.1).unwrap_or(true))
            .map(|(i, c)| format!("SD {} {}", i, c.1)).collect();
        steps.push(format!("ST ({}) {} {} [{}] [{}]", op_lit(&o, &bs), z(chosen), zlist(sent), fasts.join(";"), slows.join(";")));
        prev = cur;
    }
    verif_clock::set(None);
    let text = format!("{{| c_n := {}; c_grace := {}; c_init := [{}]; c_steps := [{}] |}}", n, GRACE,
                       init.iter().map(lobs_lit).collect::<Vec<_>>().join(";"), steps.join(";"));
    CaseOut { text, panicked, anomalies }
}

fn fixed(ops: Vec<Op>) -> impl FnMut(&World, usize) -> Option<Op> {
    move |_, k| ops.get(k).cloned()
}

/// F5 witness (DESIGN §8): link 1 has the better score, a retransmit-flagged / critical-window
/// packet must still go to it.  Kept as a regression case on every run.
fn corpus() -> Vec<(usize, Vec<Op>)> {
    let t = 1_000u64;
    let mut f5 = vec![Op::Up(0, t), Op::Up(1, t), Op::SetWindow(0, 10_000), Op::SetWindow(1, 40_000)];
    f5.push(Op::Pkt(Some(7), false, t + 1, 5000));
    f5.push(Op::Pkt(Some(8), true, t + 2, 5000));
    f5.push(Op::Critical(t + 500));
    f5.push(Op::Pkt(Some(9), false, t + 3, 5000));
    f5.push(Op::Pkt(None, false, t + 4, 5000));
    f5.push(Op::Flush(t + 20));
    f5.push(Op::SrtlaAck(1, vec![7, 8], t + 30));
    // stale quality caches left over from an enhanced-mode past
    let mut stale = vec![Op::Up(0, t), Op::Up(1, t), Op::Up(2, t), Op::SetQ(0, 0.5), Op::SetQ(1, 1.1), Op::SetQ(2, 0.9),
                         Op::SetWindow(1, 1000), Op::SetWindow(2, 60_000)];
    for k in 0..6u64 { stale.push(Op::Pkt(Some(100 + k as u32), k % 2 == 0, t + 1 + k, 5000)); }
    // window rules at their thresholds: 2 in flight after the ACK, window 1999 / 2000 / 2001
    let mut thr = vec![Op::Up(0, t), Op::Up(1, t)];
    for (k, w) in [1999i64, 2000, 2001, 59_971, 59_972, 59_999, 60_000].iter().enumerate() {
        let b = 1000 + 10 * k as u32;
        thr.push(Op::SetWindow(0, 1_000_000));
        thr.push(Op::SetWindow(1, 0));
        for s in 0..3 { thr.push(Op::Pkt(Some(b + s), false, t + 100 * k as u64 + s as u64, 5000)); }
        thr.push(Op::Flush(t + 100 * k as u64 + 20));
        thr.push(Op::SetWindow(0, *w));
        thr.push(Op::SrtlaAck(0, vec![b], t + 100 * k as u64 + 30));
        thr.push(Op::SrtAck(0, b + 2, t + 100 * k as u64 + 40));
    }
    for w in [1000i64, 1099, 1100, 1101] {
        thr.push(Op::SetWindow(0, w));
        thr.push(Op::Pkt(Some(5000 + w as u32), false, t + 2000, 5000));
        thr.push(Op::Flush(t + 2001));
        thr.push(Op::Nak(1, vec![5000 + w as u32], t + 2002));
    }
    thr.push(Op::Housekeep(t + 3000));
    thr.push(Op::Housekeep(t + 13_000));
    // equal windows: round robin through the queued count, ties to the lowest index; a connected link
    // that has never received gets no global +1
    let mut ties = vec![Op::Up(0, t), Op::Up(1, t), Op::Up(2, t)];
    for k in 0..7u64 { ties.push(Op::Pkt(Some(300 + k as u32), false, t + 1 + k, 5000)); }
    ties.push(Op::Flush(t + 20));
    ties.push(Op::SetConn(2, true, None));
    ties.push(Op::SrtlaAck(0, vec![300, 303], t + 30));
    ties.push(Op::SrtlaAck(1, vec![302, 999], t + 31));
    ties.push(Op::Pkt(Some(400), false, t + 32, 5000));
    ties.push(Op::Nak(2, vec![301, 301], t + 33));
    vec![(2, f5), (3, stale), (2, thr), (3, ties)]
}

// ---------------------------------------------------------------- closed-loop generator
const WPOOL: [i64; 30] = [0, 5, 999, 1000, 1001, 1099, 1100, 1101, 1971, 1999, 2000, 2001, 2999, 3000, 3001, 5000, 11_971, 12_000,
                          20_000, 20_000, 20_000, 40_000, 59_970, 59_971, 59_972, 59_999, 60_000, 60_001, 100_000, 2_000_000_000];
const TMO: [u64; 6] = [1000, 4999, 5000, 5000, 5001, 60_000];
const QPOOL: [f64; 8] = [0.0, 0.35, 0.5, 0.98, 1.0, 1.0, 1.1, 1.25];

struct Gen { rng: Rng, n: usize, now: u64, next_seq: u32, len: usize, tmo: u64, recent: Vec<u32>, pending: Option<Op> }

impl Gen {
    fn new(mut rng: Rng, n: usize, len: usize) -> Gen {
        let next_seq = match rng.below(5) { 0 => 0, 1 => 16_384 * 2 - 20, 2 => 0x7fff_ffff - 5000, _ => rng.below(1 << 30) as u32 };
        let now = 1_000 + rng.below(2_000);
        let tmo = *rng.pick(&TMO);
        Gen { rng, n, now, next_seq, len, tmo, recent: vec![], pending: None }
    }
    fn link(&mut self) -> usize { self.rng.below(self.n as u64) as usize }
    fn dt(&mut self) -> u64 {
        let d = match self.rng.below(20) { 0 => 15, 1 => 16, 2 => 100, 3..=8 => 0, _ => self.rng.below(4) };
        self.now += d;
        self.now
    }
    /// a sequence number some link still remembers (log or queue), else a recent / unknown one
    fn known_seq(&mut self, w: &World, prefer: Option<usize>) -> u32 {
        let i = prefer.unwrap_or_else(|| self.link());
        let c = &w.conns[i];
        let mut pool: Vec<u32> = c.packet_log.keys().map(|&k| k as u32).collect();
        pool.sort();
        if self.rng.chance(1, 6) { pool.extend(c.batch_sender.verif_queue().iter().filter_map(|(_, s, _)| *s)); }
        if !pool.is_empty() && self.rng.chance(9, 10) { return *self.rng.pick(&pool); }
        if !self.recent.is_empty() && self.rng.chance(3, 4) { return *self.rng.pick(&self.recent); }
        self.rng.below(0x7fff_ffff) as u32
    }
    fn score_parts(w: &World, i: usize) -> (i64, i64) {
        let c = &w.conns[i];
        (c.window as i64, c.in_flight_packets as i64 + c.batch_sender.queued_count() as i64 + 1)
    }

    fn next(&mut self, w: &World, k: usize) -> Option<Op> {
        let n = self.n;
        // prologue: bring links up, arbitrary window vector, sometimes stale quality caches
        if k < n {
            let t = self.dt();
            return Some(if self.rng.chance(7, 8) { Op::Up(k, t) } else { Op::Noise(self.rng.u64()) });
        }
        if k < 2 * n {
            let i = k - n;
            let w0 = if self.rng.chance(1, 3) { 20_000 } else { *self.rng.pick(&WPOOL) };
            return Some(Op::SetWindow(i, w0));
        }
        if k < 3 * n {
            let i = k - 2 * n;
            return Some(if self.rng.chance(1, 3) { Op::SetQ(i, *self.rng.pick(&QPOOL)) } else { Op::Noise(self.rng.u64()) });
        }
        if k >= self.len { return None; }
        if let Some(op) = self.pending.take() { return Some(op); }
        // one SRTLA-ACK datagram naming several numbers of one link, with that link's window placed
        // exactly at the +29 gate of a LATER entry: the per-entry +1 of the earlier entries decides
        // whether the later entry earns +29 (the rules are applied entry by entry, in order)
        if self.rng.chance(1, 25) {
            let i = self.link();
            let mut log: Vec<u32> = w.conns[i].packet_log.keys().map(|&x| x as u32).collect();
            log.sort();
            if log.len() >= 3 {
                let inf = log.len() as i64;
                let cnt = (2 + self.rng.below(3) as usize).min(log.len());
                let pos = 1 + self.rng.below(cnt as u64 - 1) as i64;      // the later entry (0-based) whose gate we sit on
                // earlier entries of the same link each earn +29 (their gate is far open) and +1; the
                // gate of entry `pos` is G = (inf - pos - 1) * 1000 and it reads window + 30*pos in order
                let d = 1 + self.rng.below(pos as u64 + 1) as i64;           // 1..=pos+1 : around the boundary
                let wv = (inf - pos - 1) * 1000 - 29 * pos - d;
                if wv > 0 {
                    let t = self.dt();
                    let seqs: Vec<u32> = log.iter().take(cnt).copied().collect();
                    self.pending = Some(Op::SrtlaAck(i, seqs, t));
                    return Some(Op::SetWindow(i, wv));
                }
            }
        }
        let r = self.rng.below(1000);
        Some(if r < 430 {
            let t = self.dt();
            if self.rng.chance(1, 12) { self.tmo = *self.rng.pick(&TMO); }
            let kind = self.rng.below(100);
            if kind < 8 { Op::Pkt(None, false, t, self.tmo) }
            else if kind < 26 && !self.recent.is_empty() {
                let s = if self.rng.chance(2, 3) { *self.rng.pick(&self.recent) } else { self.known_seq(w, None) };
                Op::Pkt(Some(s), true, t, self.tmo)
            } else {
                let s = self.next_seq;
                self.next_seq = (self.next_seq + 1) & 0x7fff_ffff;
                self.recent.push(s);
                if self.recent.len() > 40 { self.recent.remove(0); }
                Op::Pkt(Some(s), self.rng.chance(1, 25), t, self.tmo)
            }
        } else if r < 500 {
            self.now += *self.rng.pick(&[0u64, 1, 14, 15, 16]);
            Op::Flush(self.now)
        } else if r < 690 {
            let t = self.dt();
            let i = self.link();
            let cnt = *self.rng.pick(&[0usize, 1, 1, 1, 2, 3, 4]);
            let mut seqs = vec![];
            for _ in 0..cnt {
                let from = if self.rng.chance(5, 6) { Some(i) } else { None };
                seqs.push(self.known_seq(w, from));
            }
            if self.rng.chance(1, 10) && !seqs.is_empty() { let s0 = seqs[0]; seqs.push(s0); }
            Op::SrtlaAck(i, seqs, t)
        } else if r < 740 {
            let t = self.dt();
            let i = self.link();
            let a = match self.rng.below(4) { 0 => self.next_seq, 1 => self.next_seq.wrapping_sub(1) & 0x7fff_ffff, _ => self.known_seq(w, None) };
            Op::SrtAck(i, a, t)
        } else if r < 820 {
            let t = self.dt();
            let i = self.link();
            let cnt = *self.rng.pick(&[0usize, 1, 1, 2, 3]);
            let mut seqs = vec![];
            for _ in 0..cnt { seqs.push(self.known_seq(w, None)); }
            if self.rng.chance(1, 8) && !seqs.is_empty() { let s0 = seqs[0]; seqs.push(s0); }
            Op::Nak(i, seqs, t)
        } else if r < 850 {
            self.now += *self.rng.pick(&[0u64, 1, 300, 999, 1000, 1001, 5001]);
            Op::Housekeep(self.now)
        } else if r < 870 {
            Op::Critical(self.now + *self.rng.pick(&[0u64, 1, 2, 50, 500, 60_000]))
        } else if r < 890 { Op::Noise(self.rng.u64()) }
        else if r < 910 { let i = self.link(); Op::SetQ(i, *self.rng.pick(&QPOOL)) }
        else if r < 935 {
            // ACK rule threshold: window around (in-flight after one more ACK) x 1000
            let i = self.link();
            let inf = w.conns[i].in_flight_packets as i64;
            let wv = ((inf - 1).max(0)) * 1000 + *self.rng.pick(&[-1i64, 0, 1]);
            Op::SetWindow(i, wv.max(0))
        } else if r < 960 {
            // score tie / off-by-one against another link
            let i = self.link();
            let j = self.link();
            let (wi, di) = Gen::score_parts(w, i);
            let (_, dj) = Gen::score_parts(w, j);
            let s = wi / di.max(1);
            let wv = s * dj + *self.rng.pick(&[-1i64, 0, 0, dj - 1, dj]);
            Op::SetWindow(j, wv.clamp(0, 2_000_000_000))
        } else if r < 968 { let i = self.link(); Op::SetWindow(i, *self.rng.pick(&WPOOL)) }
        else if r < 976 { let i = self.link(); Op::Down(i) }
        else if r < 984 { let i = self.link(); let t = self.dt(); Op::Up(i, t) }
        else if r < 990 {
            let i = self.link();
            let lr = match self.rng.below(3) { 0 => None, 1 => Some(self.now), _ => Some(self.now.saturating_sub(self.tmo)) };
            Op::SetConn(i, self.rng.chance(2, 3), lr)
        } else if r < 994 { let i = self.link(); Op::SetReg(i, self.rng.chance(1, 2)) }
        else {
            // liveness boundary: the next packet sees link i silent for tmo-1 / tmo / tmo+1 ms
            let i = self.link();
            if let Some(lr) = w.conns[i].last_received {
                let target = lr + self.tmo + *self.rng.pick(&[0u64, 1, 2]) - 1;
                if target >= self.now { self.now = target; }
            }
            Op::Pkt(Some(self.next_seq), false, self.now, self.tmo)
        })
    }
}

pub fn run(seed: u64, tier: &str, out: &std::path::Path, _extra: &[(String, String)]) -> std::io::Result<()> {
    quiet_panics();
    let mut run = Run::new("C10", "Run_C10", seed, tier, out);
    let rt = tokio::runtime::Builder::new_current_thread().enable_all().build().unwrap();
    let mut anomalies = 0u64;
    for (n, ops) in corpus() {
        let c = run_case(&rt, n, 1, fixed(ops), |_| {});
        if c.panicked { run.panics += 1; }
        anomalies += c.anomalies;
        run.push("corpus", true, c.text);
    }
    let mut rng = Rng::new(seed ^ 0xC10C_10C1_0000_0000);
    let ncases = if run.thorough() { 1600 } else { 160 };
    let mut counts: std::collections::BTreeMap<String, u64> = Default::default();
    for k in 0..ncases {
        let n = 1 + (rng.below(4) as usize);
        let len = 3 * n + *rng.pick(&[10usize, 25, 40, 60, 70]);
        let mut g = Gen::new(rng.fork(k as u64), n, len);
        let c = run_case(&rt, n, seed ^ k as u64, |w, i| g.next(w, i),
                         |o| { *counts.entry(format!("op:{}", op_kind(o))).or_insert(0) += 1; });
        *counts.entry(format!("links:{}", n)).or_insert(0) += 1;
        if c.panicked { run.panics += 1; run.count("impl_panic_cases"); }
        anomalies += c.anomalies;
        run.push("history", true, c.text);
    }
    for (k, v) in counts { run.count_n(&k, v); }
    run.count_n("routing_anomalies", anomalies);
    run.note("closed loop: ACK / NAK numbers are drawn from what the real links hold at that moment; windows are pushed to score ties and to the +29 / floor / cap thresholds".into());
    run.finish(16, 600_000)
}
