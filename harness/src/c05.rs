//! C05 — a NAK is charged once, and only to a link that carried the packet.
use crate::core_ops::*;
pub fn run(seed: u64, tier: &str, out: &std::path::Path, _extra: &[(String, String)]) -> std::io::Result<()> {
    let c = vec![Op::Reg3(0, 1_000_000), Op::Reg3(1, 1_000_000), Op::Track(0, 7, 1_000_001), Op::Register(0, 7, 1_000_001),
                 Op::Register(1, 7, 1_000_001), Op::Nak(7, 1_000_100), Op::Nak(7, 1_000_101), Op::Nak(7, 1_006_000)];
    run_profile("C05", "Run_C05", Profile::C05, seed, tier, out, &[(2, c)])
}
