//! C01 — uplink forwarding integrity.  Drives the REAL event-loop arms
//! (`handle_srt_packet`, `flush_all_batches`, `handle_uplink_packet`,
//! `handle_housekeeping`, `reconnect_uplink`, `recompute_batch_regime`,
//! `mark_for_recovery`) over loopback UDP sockets under the virtual clock: one
//! receiver-side socket per uplink captures what reached the wire.  Short
//! `sendmmsg` counts and send errors come from the scripted-send hook
//! (`net::batch_recv::verif_send_script`).  After every op the harness records the
//! per-uplink captured datagrams, queue depths, probe counters and connected flags;
//! the scheduler's answer, the gate flags, the consumed send results and what
//! housekeeping did are read back and become inputs of the model op.
use std::collections::{HashMap, HashSet};
use std::hash::{Hash, Hasher};
use std::net::{IpAddr, Ipv4Addr, SocketAddr, UdpSocket as StdUdp};
use std::path::Path;
use std::sync::Arc;

use smallvec::SmallVec;
use srtla_core::connection::batch_send::BatchRegime;
use srtla_core::connection::{LinkPhase, SrtlaConnection};
use srtla_core::utils::verif_clock;
use srtla_core::{ConfigSnapshot, SchedulingMode, SrtlaRegistrationManager};
use srtla_send::net::batch_recv::verif_send_script::{self as script, Scripted};
use srtla_send::net::{BatchUdpSocket, SourceIpBinder};
use srtla_send::sender::verif_hooks::{self as vh, ConnIo, ConnIoMap, ReaderHandle, UplinkPacket};
use srtla_send::sender::SequenceTracker;

use crate::common::*;

// ---------------------------------------------------------------- datagram text
/// Datagrams of <= 64 bytes cross in full; longer ones as
/// first 16 bytes ++ 16 digest bytes ++ [len / 256; len mod 256] — unless the
/// datagram is in the run's "full" quota.  The same rule is applied to what was
/// injected and to what was captured on the wire.
struct Enc {
    full: HashSet<Vec<u8>>,
    full_budget: usize,
}
fn digest128(b: &[u8]) -> [u8; 16] {
    let mut out = [0u8; 16];
    for (k, salt) in [0x51u64, 0xa7u64].iter().enumerate() {
        let mut h = std::collections::hash_map::DefaultHasher::new();
        salt.hash(&mut h);
        b.hash(&mut h);
        out[k * 8..k * 8 + 8].copy_from_slice(&h.finish().to_be_bytes());
    }
    out
}
impl Enc {
    fn want_full(&mut self, b: &[u8]) {
        if b.len() > 64 && self.full_budget > 0 && !self.full.contains(b) {
            self.full_budget -= 1;
            self.full.insert(b.to_vec());
        }
    }
    fn dg(&self, b: &[u8]) -> String {
        if b.len() <= 64 || self.full.contains(b) {
            return bytes_lit(b);
        }
        let mut v: Vec<u8> = b[..16].to_vec();
        v.extend_from_slice(&digest128(b));
        v.push((b.len() >> 8) as u8);
        v.push((b.len() & 255) as u8);
        bytes_lit(&v)
    }
    fn dgs(&self, l: &[Vec<u8>]) -> String {
        format!("[{}]", l.iter().map(|d| self.dg(d)).collect::<Vec<_>>().join(";"))
    }
}

fn regime_lit(r: BatchRegime) -> &'static str {
    match r {
        BatchRegime::LowActivity => "LowActivity",
        BatchRegime::Normal => "Normal",
        BatchRegime::HighLoad => "HighLoad",
    }
}
fn nat_opt(o: Option<usize>) -> String {
    match o { None => "None".into(), Some(v) => format!("(Some {}%nat)", v) }
}

// ---------------------------------------------------------------- the world under test
struct World {
    conns: SmallVec<SrtlaConnection, 4>,
    conn_io: ConnIoMap,
    /// receiver-side socket of each uplink (index = link index)
    rx: Vec<StdUdp>,
    has_io: Vec<bool>,
    reg: SrtlaRegistrationManager,
    tracker: SequenceTracker,
    last_sel: Option<usize>,
    client: Option<SocketAddr>,
    listener: tokio::net::UdpSocket,
    /// the local SRT endpoint: owns its port, so what the sender returns to the client can
    /// never land on a receiver-side socket
    client_sock: StdUdp,
    instant_tx: vh::InstantForwarder,
    _instant_rx: tokio::sync::mpsc::UnboundedReceiver<(SocketAddr, SmallVec<u8, 64>)>,
    packet_tx: tokio::sync::mpsc::UnboundedSender<UplinkPacket>,
    _packet_rx: tokio::sync::mpsc::UnboundedReceiver<UplinkPacket>,
    readers: HashMap<u64, ReaderHandle>,
    all_failed_at: Option<u64>,
    critical: srtla_core::priority::CriticalWindow,
    cfg: ConfigSnapshot,
}

fn mk_uplink_socket(local: IpAddr, remote: SocketAddr) -> std::io::Result<BatchUdpSocket> {
    let sock = socket2::Socket::new(socket2::Domain::IPV4, socket2::Type::DGRAM, Some(socket2::Protocol::UDP))?;
    sock.bind(&SocketAddr::new(local, 0).into())?;
    sock.connect(&remote.into())?;
    sock.set_nonblocking(true)?;
    BatchUdpSocket::new(sock)
}

struct LinkInit {
    regime: BatchRegime,
    connected: bool,
    ctr: u32,
    io: bool,
}

async fn build_world(inits: &[LinkInit], now: u64, cfg: ConfigSnapshot, case_no: u64) -> std::io::Result<World> {
    let mut conns: SmallVec<SrtlaConnection, 4> = SmallVec::new();
    let mut conn_io = ConnIoMap::new();
    let mut rx = vec![];
    let mut has_io = vec![];
    for (j, li) in inits.iter().enumerate() {
        let r = StdUdp::bind("127.0.0.1:0")?;
        r.set_nonblocking(true)?;
        let remote = r.local_addr()?;
        let ip = IpAddr::V4(Ipv4Addr::new(127, 0, 0, 2 + j as u8));
        let conn_id = 0x1000 + case_no * 16 + j as u64;
        let mut c = SrtlaConnection::new_registering(conn_id, format!("rx via {}", ip), ip, now);
        c.connected = li.connected;
        c.phase = LinkPhase::Live;
        c.last_received = Some(now);
        c.reconnection.connection_established_ms = now;
        let bps = match li.regime {
            BatchRegime::LowActivity => 100_000.0,
            BatchRegime::Normal => 2_000_000.0,
            BatchRegime::HighLoad => 9_000_000.0,
        };
        c.bitrate.current_bitrate_bps = bps;
        c.recompute_batch_regime();
        let mut h = c.verif_hidden();
        h.stall_probe_counter = li.ctr;
        c.verif_set_hidden(h);
        if li.io {
            let socket = Arc::new(mk_uplink_socket(ip, remote)?);
            conn_io.insert(conn_id, ConnIo { socket, binder: Arc::new(SourceIpBinder), remote });
        }
        has_io.push(li.io);
        conns.push(c);
        rx.push(r);
    }
    let listener = tokio::net::UdpSocket::bind("127.0.0.1:0").await?;
    let client_sock = StdUdp::bind("127.0.0.1:0")?;
    client_sock.set_nonblocking(true)?;
    let (instant_tx, _instant_rx) = tokio::sync::mpsc::unbounded_channel();
    let (packet_tx, _packet_rx) = vh::create_uplink_channel();
    let mut reg = SrtlaRegistrationManager::new();
    reg.has_connected = true;
    Ok(World {
        conns, conn_io, rx, has_io, reg, tracker: SequenceTracker::new(), last_sel: None, client: None,
        listener, client_sock, instant_tx, _instant_rx, packet_tx, _packet_rx, readers: HashMap::new(), all_failed_at: None,
        critical: srtla_core::priority::CriticalWindow::new(), cfg,
    })
}

impl World {
    fn n(&self) -> usize { self.conns.len() }
    /// everything that reached each uplink's receiver socket since the last drain
    fn drain(&self) -> Vec<Vec<Vec<u8>>> {
        let mut out = vec![];
        let mut buf = vec![0u8; 2048];
        while self.client_sock.recv(&mut buf).is_ok() {}
        for r in &self.rx {
            let mut v = vec![];
            let mut idle = 0;
            while idle < 2 {
                match r.recv(&mut buf) {
                    Ok(k) => { v.push(buf[..k].to_vec()); idle = 0; }
                    Err(_) => { idle += 1; std::thread::yield_now(); }
                }
            }
            out.push(v);
        }
        out
    }
    fn fd_of(&self, j: usize) -> Option<i32> {
        self.conn_io.get(&self.conns[j].conn_id).map(|io| io.socket.as_raw_fd())
    }
    fn qlens(&self) -> Vec<usize> { self.conns.iter().map(|c| c.batch_sender.queued_count() as usize).collect() }
    fn obs(&self, enc: &Enc, wire: &[Vec<Vec<u8>>]) -> String {
        format!("O [{}] {} {} {}",
            wire.iter().map(|l| enc.dgs(l)).collect::<Vec<_>>().join(";"),
            zlist(self.conns.iter().map(|c| c.batch_sender.queued_count() as i128)),
            zlist(self.conns.iter().map(|c| c.verif_hidden().stall_probe_counter as i128)),
            blist(&self.conns.iter().map(|c| c.connected).collect::<Vec<_>>()))
    }
    fn fin(&self, enc: &Enc) -> String {
        let links: Vec<String> = self.conns.iter().map(|c| {
            let q: Vec<String> = c.batch_sender.verif_queue().iter().map(|(d, s, t)| {
                format!("({},{},{})", enc.dg(d), optz(s.map(|v| v as i128)), t)
            }).collect();
            format!("([{}],{},{})", q.join(";"), c.batch_sender.verif_last_flush_ms(), regime_lit(c.batch_sender.regime()))
        }).collect();
        format!("[{}]", links.join(";"))
    }
}

// ---------------------------------------------------------------- scripted sends
fn sres_lit(s: &Scripted) -> String {
    match s { Scripted::Accept(n) => format!("SOk {}", n), Scripted::Fail(_) => "SErr".into() }
}
/// install the planned scripts; returns (link, fd, entries)
fn install_scripts(w: &World, plan: &[(usize, Vec<Scripted>)]) -> Vec<(usize, i32, Vec<Scripted>)> {
    let mut v = vec![];
    for (j, entries) in plan {
        if let Some(fd) = w.fd_of(*j) {
            script::script_batch(fd, entries);
            v.push((*j, fd, entries.clone()));
        }
    }
    v
}
/// the consumed prefix of every script, as the model's oracle literal
fn consumed_scripts(installed: &[(usize, i32, Vec<Scripted>)], run: &mut Run) -> String {
    let left: HashMap<i32, usize> = script::clear().into_iter().map(|(fd, l)| (fd, l.len())).collect();
    let mut parts = vec![];
    for (j, fd, entries) in installed {
        let used = entries.len() - left.get(fd).copied().unwrap_or(0);
        if used > 0 {
            parts.push(format!("({}%nat,[{}])", j, entries[..used].iter().map(sres_lit).collect::<Vec<_>>().join(";")));
            for e in &entries[..used] {
                run.count(match e { Scripted::Accept(0) => "send:zero", Scripted::Accept(_) => "send:short_or_ok", Scripted::Fail(_) => "send:err" });
            }
        }
    }
    format!("[{}]", parts.join(";"))
}
fn random_script(rng: &mut Rng) -> Vec<Scripted> {
    let err = Scripted::Fail(std::io::ErrorKind::ConnectionRefused);
    match rng.below(8) {
        0 => vec![err],
        1 => vec![Scripted::Accept(0)],
        2 => vec![Scripted::Accept(rng.range(1, 5) as usize), err],
        3 => vec![Scripted::Accept(rng.range(1, 3) as usize), Scripted::Accept(0)],
        4 => vec![Scripted::Accept(31), Scripted::Accept(1), err],
        _ => (0..rng.range(1, 5)).map(|_| Scripted::Accept(rng.range(1, 9) as usize)).collect(),
    }
}

// ---------------------------------------------------------------- packets
struct PktGen { seq: u32 }
impl PktGen {
    fn next(&mut self, rng: &mut Rng, long_ok: bool) -> Vec<u8> {
        let r = rng.below(100);
        let len = if r < 4 { rng.range(1, 15) as usize }
            else if r < 10 && long_ok { *rng.pick(&[65usize, 188, 1316, 1316, 1499, 1500]) }
            else if r < 16 { *rng.pick(&[63usize, 64, 40]) }
            else if r < 24 { rng.range(16, 24) as usize }
            else { rng.range(8, 11) as usize };
        let mut p = rng.bytes(len);
        if rng.chance(85, 100) {
            // SRT data: top bit clear, sequence number in the first 4 bytes
            self.seq = match rng.below(20) { 0 => rng.u64() as u32, 1 => self.seq, 2 => self.seq.wrapping_sub(3), _ => self.seq.wrapping_add(1) } & 0x7fff_ffff;
            let s = self.seq.to_be_bytes();
            for k in 0..len.min(4) { p[k] = s[k]; }
            if len > 4 { if rng.chance(6, 100) { p[4] |= 0x04; } else { p[4] &= !0x04; } }
        } else {
            p[0] |= 0x80;
            if len > 1 && rng.chance(1, 2) { p[0] = 0x80; p[1] = *rng.pick(&[0u8, 1, 2, 3, 5, 6]); }
        }
        p
    }
}

// ---------------------------------------------------------------- ops on the real code
struct Step { op: String, obs: String, usable: bool }

async fn do_client(w: &mut World, enc: &mut Enc, run: &mut Run, now: u64, pkt: &[u8], reg: bool,
                   plan: &[(usize, Vec<Scripted>)]) -> Step {
    verif_clock::set(Some(now));
    enc.want_full(pkt);
    // the harness's own judgement, before the call: is some uplink usable in the sense of the property text
    // (connected, not timed out under the configured liveness window; a link whose own copy of the window
    // disagrees with the configuration is not counted, so the judgement never depends on which one applies)
    let usable = w.conns.iter().any(|c| c.connected && !c.is_timed_out(now)
        && c.verif_hidden().conn_timeout_ms == w.cfg.conn_timeout_ms);
    let pre_q = w.qlens();
    let pre_conn: Vec<bool> = w.conns.iter().map(|c| c.connected).collect();
    let installed = install_scripts(w, plan);
    let mut buf = vec![0u8; 1500];
    buf[..pkt.len()].copy_from_slice(pkt);
    let src: SocketAddr = w.client_sock.local_addr().unwrap();
    vh::handle_srt_packet(Ok((pkt.len(), src)), &mut buf, &mut w.conns, &w.conn_io, &mut w.last_sel, &mut w.tracker,
                          &mut w.client, reg, &w.cfg, &w.critical).await;
    let orc = consumed_scripts(&installed, run);
    let wire = w.drain();
    let post_q = w.qlens();
    // the scheduler's answer, read back: last_selected_idx, provided that link changed
    let sel = match w.last_sel {
        Some(i) if i < w.n() && (post_q[i] != pre_q[i] || !wire[i].is_empty() || pre_conn[i] != w.conns[i].connected) => Some(i),
        _ => None,
    };
    // gate flags as left by the selection pass (a link torn down by a failed probe flush was gated)
    let gated: Vec<bool> = (0..w.n()).map(|j| {
        w.conns[j].stall_gated || (Some(j) != sel && pre_conn[j] && !w.conns[j].connected)
    }).collect();
    run.count(match sel { Some(_) => "client:routed", None => "client:no_link" });
    for j in 0..w.n() {
        if Some(j) != sel && (post_q[j] + wire[j].len() == pre_q[j] + 1) { run.count("client:probe_copy"); }
        if !wire[j].is_empty() { run.count("client:threshold_flush"); }
        if gated[j] { run.count("client:link_gated"); }
    }
    Step {
        op: format!("Client {} {} {} {} {} {}", now, enc.dg(pkt), nat_opt(sel), boolc(reg), blist(&gated), orc),
        obs: w.obs(enc, &wire),
        usable,
    }
}

async fn do_flush(w: &mut World, enc: &Enc, run: &mut Run, now: u64, plan: &[(usize, Vec<Scripted>)]) -> Step {
    verif_clock::set(Some(now));
    let installed = install_scripts(w, plan);
    vh::flush_all_batches(&mut w.conns, &w.conn_io).await;
    let orc = consumed_scripts(&installed, run);
    let wire = w.drain();
    run.count("op:flush_tick");
    Step { op: format!("FlushTick {} {}", now, orc), obs: w.obs(enc, &wire), usable: false }
}

fn do_regime(w: &mut World, enc: &Enc, run: &mut Run, i: usize, bps: f64) -> Step {
    w.conns[i].bitrate.current_bitrate_bps = bps;
    w.conns[i].recompute_batch_regime();
    let wire = w.drain();
    run.count("op:set_regime");
    Step { op: format!("SetRegime {}%nat {}", i, regime_lit(w.conns[i].batch_sender.regime())), obs: w.obs(enc, &wire), usable: false }
}

async fn inject_uplink(w: &mut World, i: usize, bytes: &[u8]) {
    let packet = UplinkPacket { conn_id: w.conns[i].conn_id, bytes: SmallVec::from_slice_copy(bytes) };
    vh::handle_uplink_packet(packet, &mut w.conns, &w.conn_io, &mut w.reg, &w.instant_tx, w.client, &w.listener,
                             &w.tracker, &w.cfg).await;
}

/// kind: 0 mark_for_recovery, 1 reconnect_uplink (real socket re-creation), 2 REG3 through handle_uplink_packet
async fn do_reset(w: &mut World, enc: &Enc, run: &mut Run, now: u64, i: usize, kind: u64) -> Step {
    verif_clock::set(Some(now));
    let name = match kind {
        0 => { w.conns[i].mark_for_recovery(); "MarkRecovery" }
        1 => {
            let id = w.conns[i].conn_id;
            match w.conn_io.get_mut(&id) {
                Some(io) => { if vh::reconnect_uplink(&mut w.conns[i], io, now).await.is_err() { w.conns[i].mark_for_recovery(); } }
                None => w.conns[i].reset_for_reconnect(now),
            }
            "Reconnect"
        }
        _ => { inject_uplink(w, i, &[0x92, 0x02]).await; "Reg3" }
    };
    let wire = w.drain();
    run.count("op:reset");
    Step { op: format!("Reset {}%nat {}", i, name), obs: w.obs(enc, &wire), usable: false }
}

fn ctl_lit(enc: &Enc, wire: &[Vec<Vec<u8>>]) -> String {
    if wire.iter().all(|l| l.is_empty()) { return "[]".into(); }
    format!("[{}]", wire.iter().map(|l| enc.dgs(l)).collect::<Vec<_>>().join(";"))
}

/// an uplink datagram through the real handle_uplink_packet; REG_ERR is the model's SetConn false,
/// everything else (SRT ACK / NAK, SRTLA ACK, keepalive echo, NGP, REG2, garbage) leaves the slice alone
async fn do_uplink(w: &mut World, enc: &Enc, run: &mut Run, rng: &mut Rng, now: u64, i: usize) -> Step {
    verif_clock::set(Some(now));
    let kind = rng.below(8);
    let bytes: Vec<u8> = match kind {
        0 => vec![0x92, 0x10],                                        // REG_ERR
        1 => { let mut b = vec![0x80, 0x02]; b.extend(rng.bytes(18)); b }   // SRT ACK
        2 => { let mut b = vec![0x80, 0x03, 0, 0]; b.extend(rng.bytes(12)); for k in [4usize, 8, 12] { b[k] &= 0x7f; } b } // SRT NAK
        3 => { let mut b = vec![0x91, 0x00, 0, 0]; b.extend(rng.bytes(8)); b }  // SRTLA ACK
        4 => { let mut b = vec![0x90, 0x00]; b.extend(now.saturating_sub(20).to_be_bytes()); b } // keepalive echo
        5 => vec![0x92, 0x11],                                        // REG_NGP
        6 => { let mut b = vec![0x92, 0x01]; b.extend(rng.bytes(256)); b } // REG2
        _ => { let k = rng.range(1, 30) as usize; rng.bytes(k) }
    };
    let is_reg_err = bytes.len() >= 2 && bytes[0] == 0x92 && bytes[1] == 0x10;
    let is_reg3 = bytes.len() >= 2 && bytes[0] == 0x92 && bytes[1] == 0x02;
    inject_uplink(w, i, &bytes).await;
    let wire = w.drain();
    run.count("op:uplink_packet");
    let op = if is_reg_err { format!("SetConn {}%nat false", i) }
        else if is_reg3 { format!("Reset {}%nat Reg3", i) }
        else { format!("Other {}", ctl_lit(enc, &wire)) };
    Step { op, obs: w.obs(enc, &wire), usable: false }
}

/// the real housekeeping arm; what it did to each link (reset / regime) and the control
/// datagrams it originated are read back and become inputs of the model op
async fn do_house(w: &mut World, enc: &Enc, run: &mut Run, now: u64) -> Step {
    verif_clock::set(Some(now));
    let pre_attempt: Vec<u64> = w.conns.iter().map(|c| c.reconnection.last_reconnect_attempt_ms).collect();
    let pre_regime: Vec<BatchRegime> = w.conns.iter().map(|c| c.batch_sender.regime()).collect();
    let pre_sock: Vec<Option<*const BatchUdpSocket>> =
        w.conns.iter().map(|c| w.conn_io.get(&c.conn_id).map(|io| Arc::as_ptr(&io.socket))).collect();
    let classic = w.cfg.mode.is_classic();
    let _ = vh::handle_housekeeping(&mut w.conns, &mut w.conn_io, &mut w.reg, classic, now, &mut w.all_failed_at,
                                    &mut w.readers, &w.packet_tx).await;
    let wire = w.drain();
    let eff: Vec<String> = (0..w.n()).map(|j| {
        let c = &w.conns[j];
        if c.reconnection.last_reconnect_attempt_ms == now && pre_attempt[j] != now {
            let sock = w.conn_io.get(&c.conn_id).map(|io| Arc::as_ptr(&io.socket));
            run.count("house:link_reset");
            if sock != pre_sock[j] { "HReset Reconnect".to_string() } else { "HReset MarkRecovery".to_string() }
        } else if c.batch_sender.regime() != pre_regime[j] {
            run.count("house:regime_change");
            format!("HRegime {}", regime_lit(c.batch_sender.regime()))
        } else { "HKeep".to_string() }
    }).collect();
    run.count("op:housekeeping");
    Step { op: format!("House [{}] {}", eff.join(";"), ctl_lit(enc, &wire)), obs: w.obs(enc, &wire), usable: false }
}

// ---------------------------------------------------------------- one generated case
fn threshold(r: BatchRegime) -> usize {
    match r { BatchRegime::LowActivity => 4, BatchRegime::Normal => 16, BatchRegime::HighLoad => 32 }
}
fn set_latch(c: &mut SrtlaConnection, on: bool, now: u64) {
    let mut h = c.verif_hidden();
    h.stall_latched_since_ms = if on { now.saturating_sub(4000).max(1) } else { 0 };
    h.stall_recovery_since_ms = 0;
    c.verif_set_hidden(h);
    if on { c.last_ack_or_rtt_sample_ms = 0; }
}

async fn one_case(run: &mut Run, rng: &mut Rng, enc: &mut Enc, case_no: u64, profile: u64) -> std::io::Result<()> {
    // weights: client, flush, regime, reset, uplink, house
    let (wts, n_ops, p_fault): ([u64; 6], usize, u64) = match profile {
        0 => ([80, 8, 3, 2, 4, 1], rng.range(60, 160) as usize, 4),
        1 => ([90, 4, 1, 1, 2, 0], rng.range(130, 260) as usize, 3),
        2 => ([70, 12, 3, 8, 4, 1], rng.range(60, 140) as usize, 60),
        3 => ([70, 8, 14, 2, 3, 3], rng.range(60, 140) as usize, 8),
        _ => ([40, 15, 10, 10, 15, 10], rng.range(40, 100) as usize, 25),
    };
    let n = if profile == 1 { rng.range(2, 4) } else { rng.range(1, 4) } as usize;
    let regimes = [BatchRegime::LowActivity, BatchRegime::Normal, BatchRegime::HighLoad];
    let inits: Vec<LinkInit> = (0..n).map(|_| LinkInit {
        regime: *rng.pick(&regimes),
        connected: rng.chance(92, 100),
        ctr: if profile == 1 { *rng.pick(&[0u32, 60, 90, 97, 98, 99]) } else { *rng.pick(&[0u32, 0, 1, 50, 98, 99]) },
        io: rng.chance(94, 100),
    }).collect();
    let cfg = ConfigSnapshot {
        mode: if rng.chance(3, 10) { SchedulingMode::Classic } else { SchedulingMode::Enhanced },
        stall_deselect: rng.chance(9, 10),
        ..ConfigSnapshot::default()
    };
    let mut now: u64 = 100_000 + rng.below(50_000);
    verif_clock::set(Some(now));
    let mut w = build_world(&inits, now, cfg, case_no).await?;
    if profile == 1 || rng.chance(1, 4) {
        for j in 0..n { if rng.chance(1, 2) { set_latch(&mut w.conns[j], true, now); } }
    }
    let mut pg = PktGen { seq: (rng.u64() as u32) & 0x7fff_ffff };
    let mut steps: Vec<Step> = vec![];
    let total: u64 = wts.iter().sum();
    let bps_pool = [0.0, 499_999.0, 500_000.0, 500_001.0, 2_000_000.0, 4_999_999.0, 5_000_000.0, 5_000_001.0, 9e6];
    for _ in 0..n_ops {
        let mut r = rng.below(total);
        let mut kind = 0;
        for (k, wt) in wts.iter().enumerate() { if r < *wt { kind = k; break; } r -= *wt; }
        match kind {
            0 => {
                now += *rng.pick(&[0u64, 0, 0, 1, 1, 2, 5]);
                // harness-only tweaks that steer the (unmodelled) scheduler
                for c in w.conns.iter_mut() { if c.connected && rng.chance(97, 100) { c.last_received = Some(now); } }
                if rng.chance(3, 10) { let j = rng.below(n as u64) as usize; w.conns[j].in_flight_packets = rng.below(24) as i32; }
                if rng.chance(1, 10) { let j = rng.below(n as u64) as usize; w.conns[j].window = rng.range(1000, 60000) as i32; }
                if rng.chance(1, 40) { let j = rng.below(n as u64) as usize; let on = rng.chance(2, 3); set_latch(&mut w.conns[j], on, now); }
                let pkt = pg.next(rng, true);
                let mut plan = vec![];
                for j in 0..n {
                    let near = w.qlens()[j] + 1 >= threshold(w.conns[j].batch_sender.regime());
                    if (near && rng.chance(p_fault, 100)) || rng.chance(1, 200) { plan.push((j, random_script(rng))); }
                }
                let reg = rng.chance(93, 100);
                steps.push(do_client(&mut w, enc, run, now, &pkt, reg, &plan).await);
            }
            1 => {
                // the 15 ms timer is independent of threshold flushes: a tick may come right after one
                now += *rng.pick(&[0u64, 1, 3, 7, 14, 15, 15, 16]);
                let mut plan = vec![];
                for j in 0..n { if w.qlens()[j] > 0 && rng.chance(p_fault, 100) { plan.push((j, random_script(rng))); } }
                steps.push(do_flush(&mut w, enc, run, now, &plan).await);
            }
            2 => {
                let i = rng.below(n as u64) as usize;
                let bps = *rng.pick(&bps_pool);
                steps.push(do_regime(&mut w, enc, run, i, bps));
            }
            3 => {
                now += 1;
                let i = rng.below(n as u64) as usize;
                let k = rng.below(3);
                steps.push(do_reset(&mut w, enc, run, now, i, k).await);
            }
            4 => {
                now += 1;
                let i = rng.below(n as u64) as usize;
                steps.push(do_uplink(&mut w, enc, run, rng, now, i).await);
            }
            _ => {
                now += *rng.pick(&[1000u64, 1000, 2000, 3000]);
                for c in w.conns.iter_mut() {
                    // steer the bitrate the real calculate() will see, and let some links time out
                    let bps = *rng.pick(&bps_pool) as u64;
                    c.bitrate.last_rate_update_ms = now.saturating_sub(2000);
                    c.bitrate.bytes_sent_total = c.bitrate.bytes_sent_total.max(4_000_000);
                    c.bitrate.bytes_sent_window = c.bitrate.bytes_sent_total - bps / 4;
                    if c.connected && rng.chance(4, 5) { c.last_received = Some(now); }
                    else if rng.chance(1, 2) { c.last_received = Some(now.saturating_sub(20_000)); }
                }
                steps.push(do_house(&mut w, enc, run, now).await);
            }
        }
    }
    let init_lit: Vec<String> = inits.iter().map(|l| format!("L {} {} {} {}", regime_lit(l.regime), boolc(l.connected), l.ctr, boolc(l.io))).collect();
    let tr: Vec<String> = steps.iter().map(|s| format!("({},{})", s.op, s.obs)).collect();
    let us: Vec<bool> = steps.iter().map(|s| s.usable).collect();
    let text = format!("CaseU [{}] [{}] {} {}", init_lit.join(";"), tr.join(";"), w.fin(enc), blist(&us));
    let kind: &'static str = match profile { 0 => "steady", 1 => "probe", 2 => "faults", 3 => "regimes", _ => "mixed_arms" };
    if run.samples.len() < 2 && profile == 4 {
        let mut t = text.clone();
        if t.len() > 900 { t.truncate(900); t.push_str(" …"); }
        run.samples.push(t);
    }
    run.push(kind, true, text);
    for h in w.readers.values() { h.handle.abort(); }
    Ok(())
}

pub fn run(seed: u64, tier: &str, out: &Path, _extra: &[(String, String)]) -> std::io::Result<()> {
    let mut run = Run::new("C01", "Run_C01", seed, tier, out);
    let mut rng = Rng::new(seed ^ 0xC01);
    let rt = tokio::runtime::Builder::new_current_thread().enable_all().build()?;
    let n_cases: u64 = if run.thorough() { 1500 } else { 120 };
    let mut enc = Enc { full: HashSet::new(), full_budget: if run.thorough() { 600 } else { 40 } };
    let res: std::io::Result<()> = rt.block_on(async {
        for k in 0..n_cases {
            let profile = match k % 10 { 0 | 1 | 2 => 0, 3 | 4 => 1, 5 | 6 => 2, 7 => 3, _ => 4 };
            let mut crng = rng.fork(k);
            one_case(&mut run, &mut crng, &mut enc, k, profile).await?;
        }
        Ok(())
    });
    verif_clock::set(None);
    res?;
    run.note("real arms executed: handle_srt_packet (selection + override + forward_via_connection + send_stall_probes), \
              flush_all_batches, handle_uplink_packet (REG3 / REG_ERR / ACK / NAK / SRTLA-ACK / keepalive / NGP), handle_housekeeping, \
              reconnect_uplink, mark_for_recovery, recompute_batch_regime; wire = datagrams read from one loopback receiver socket per uplink; \
              sendmmsg short counts / errors from the scripted-send hook".into());
    run.finish(16, 1_000_000)
}
