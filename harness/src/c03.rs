//! C03 / C11 — selection family.  Real `SrtlaConnection`s are put into chosen states (every
//! field the scheduler reads, including the crate-private ones through the verif hooks),
//! `srtla_core::selection::select_connection_idx` is called on them, and the returned index
//! plus every field the call may write are recorded.  `exp()` values the call would use are
//! recomputed here with the same libm and passed to Coq as oracle inputs.
#![allow(dead_code)]
use std::net::{IpAddr, Ipv4Addr};
use std::path::Path;

use srtla_core::config_snapshot::ConfigSnapshot;
use srtla_core::connection::{LinkPhase, SrtlaConnection};
use srtla_core::mode::SchedulingMode;
use srtla_core::selection::enhanced::in_flight_cap_packets;
use srtla_core::selection::select_connection_idx;

use crate::common::*;

#[derive(Clone, Copy, Debug, PartialEq)]
pub enum Ph { Reg, Warm, Live, Deg }

/// Every field of a link the scheduler reads or writes (mirror of Coq `link`).
#[derive(Clone, Debug)]
pub struct L {
    pub conn: bool, pub phase: Ph, pub window: i32, pub inflight: i32, pub queued: usize,
    pub lastrx: Option<u64>, pub proof: u64, pub est: u64, pub grace: u64,
    pub weak: bool, pub lossdeg: bool, pub cct: u64, pub bps: f64, pub srtt: f64, pub rttmin: f64,
    pub nakcnt: i32, pub naklast: u64, pub nakburst: i32,
    // written by select
    pub timeout: u64, pub gated: bool, pub pulled: bool, pub pulls: u64, pub latched: u64,
    pub recov: u64, pub gevents: u64, pub qmult: f64, pub qlast: u64,
}

impl L {
    pub fn healthy(now: u64) -> L {
        L { conn: true, phase: Ph::Live, window: 20000, inflight: 0, queued: 0,
            lastrx: Some(now.saturating_sub(10)), proof: 0, est: now.saturating_sub(60_000).max(1), grace: 0,
            weak: false, lossdeg: false, cct: 0, bps: 0.0, srtt: 0.0, rttmin: 0.0,
            nakcnt: 0, naklast: 0, nakburst: 0,
            timeout: 5000, gated: false, pulled: false, pulls: 0, latched: 0, recov: 0, gevents: 0,
            qmult: 1.0, qlast: 0 }
    }
}

fn ph_lit(p: Ph) -> &'static str {
    match p { Ph::Reg => "PReg", Ph::Warm => "PWarm", Ph::Live => "PLive", Ph::Deg => "PDeg" }
}
fn u(v: u64) -> String { z(v as i128) }
/// float literal for an argument position that already has float scope (shorter common values)
fn fs(v: f64) -> String {
    if v.to_bits() == 0 { "0".into() } else if v == 1.0 { "1".into() } else { flt(v) }
}
fn i(v: i32) -> String { z(v as i128) }
fn onat(o: Option<usize>) -> String {
    match o { None => "None".into(), Some(v) => format!("(Some {}%nat)", v) }
}

pub fn link_lit(l: &L) -> String {
    format!("(Lk {} {} {} {} {} {} {} {} {} {} {} {} {} {} {} {} {} {} {} {} {} {} {} {} {} {} {})",
        boolc(l.conn), ph_lit(l.phase), i(l.window), i(l.inflight), l.queued,
        optz(l.lastrx.map(|v| v as i128)), u(l.proof), u(l.est), u(l.grace),
        boolc(l.weak), boolc(l.lossdeg), u(l.cct), fs(l.bps), fs(l.srtt), fs(l.rttmin),
        i(l.nakcnt), u(l.naklast), i(l.nakburst),
        u(l.timeout), boolc(l.gated), boolc(l.pulled), u(l.pulls), u(l.latched), u(l.recov),
        u(l.gevents), fs(l.qmult), u(l.qlast))
}
pub fn hid_lit(l: &L) -> String {
    format!("(Hd {} {} {} {} {} {} {} {} {})", u(l.timeout), boolc(l.gated), boolc(l.pulled),
        u(l.pulls), u(l.latched), u(l.recov), u(l.gevents), fs(l.qmult), u(l.qlast))
}

/// Write the externally driven fields into a real link.
pub fn apply_pub(c: &mut SrtlaConnection, l: &L) {
    c.connected = l.conn;
    c.phase = match l.phase {
        Ph::Reg => LinkPhase::Registering,
        Ph::Warm => LinkPhase::Warming { rtt_probes: 1, entered_ms: l.est },
        Ph::Live => LinkPhase::Live,
        Ph::Deg => LinkPhase::Degraded,
    };
    c.window = l.window;
    c.in_flight_packets = l.inflight;
    c.batch_sender.reset();
    for k in 0..l.queued { c.batch_sender.queue_packet(&[0u8; 4], Some(k as u32), 0); }
    c.last_received = l.lastrx;
    c.last_ack_or_rtt_sample_ms = l.proof;
    c.reconnection.connection_established_ms = l.est;
    c.reconnection.startup_grace_deadline_ms = l.grace;
    c.weak = l.weak;
    c.loss_degraded = l.lossdeg;
    c.cc_target_bps = l.cct;
    c.bitrate.current_bitrate_bps = l.bps;
    let (_, v, p, init) = c.rtt.kalman_rtt.verif_state();
    c.rtt.kalman_rtt.verif_set_state(l.srtt, v, p, init);
    c.rtt.rtt_min_ms = l.rttmin;
    c.congestion.nak_count = l.nakcnt;
    c.congestion.last_nak_time_ms = l.naklast;
    c.congestion.nak_burst_count = l.nakburst;
}

/// Write the fields only `select_connection_idx` writes (crate-private ones via the hook).
pub fn apply_hid(c: &mut SrtlaConnection, l: &L) {
    c.stall_gated = l.gated;
    let mut h = c.verif_hidden();
    h.conn_timeout_ms = l.timeout;
    h.silence_pulled = l.pulled;
    h.silence_pulls = l.pulls;
    h.stall_latched_since_ms = l.latched;
    h.stall_recovery_since_ms = l.recov;
    h.stall_gate_events = l.gevents;
    h.quality_multiplier = l.qmult;
    h.quality_last_calculated_ms = l.qlast;
    c.verif_set_hidden(h);
}

/// Read every modelled field back from the real link.
pub fn dump(c: &SrtlaConnection) -> L {
    let h = c.verif_hidden();
    L {
        conn: c.connected,
        phase: match c.phase {
            LinkPhase::Registering => Ph::Reg, LinkPhase::Warming { .. } => Ph::Warm,
            LinkPhase::Live => Ph::Live, LinkPhase::Degraded => Ph::Deg },
        window: c.window, inflight: c.in_flight_packets, queued: c.batch_sender.queued_count() as usize,
        lastrx: c.last_received, proof: c.last_ack_or_rtt_sample_ms,
        est: c.reconnection.connection_established_ms, grace: c.reconnection.startup_grace_deadline_ms,
        weak: c.weak, lossdeg: c.loss_degraded, cct: c.cc_target_bps, bps: c.bitrate.current_bitrate_bps,
        srtt: c.rtt.kalman_rtt.verif_state().0, rttmin: c.rtt.rtt_min_ms,
        nakcnt: c.congestion.nak_count, naklast: c.congestion.last_nak_time_ms,
        nakburst: c.congestion.nak_burst_count,
        timeout: h.conn_timeout_ms, gated: c.stall_gated, pulled: h.silence_pulled, pulls: h.silence_pulls,
        latched: h.stall_latched_since_ms, recov: h.stall_recovery_since_ms, gevents: h.stall_gate_events,
        qmult: h.quality_multiplier, qlast: h.quality_last_calculated_ms,
    }
}

fn pub_same(a: &L, b: &L) -> bool {
    a.conn == b.conn && a.phase == b.phase && a.window == b.window && a.inflight == b.inflight
        && a.queued == b.queued && a.lastrx == b.lastrx && a.proof == b.proof && a.est == b.est
        && a.grace == b.grace && a.weak == b.weak && a.lossdeg == b.lossdeg && a.cct == b.cct
        && a.bps.to_bits() == b.bps.to_bits() && a.srtt.to_bits() == b.srtt.to_bits()
        && a.rttmin.to_bits() == b.rttmin.to_bits() && a.nakcnt == b.nakcnt && a.naklast == b.naklast
        && a.nakburst == b.nakburst
}

#[derive(Clone, Copy, Debug)]
pub struct Cf { pub classic: bool, pub quality: bool, pub stall: bool, pub minif: i32, pub stale: u64, pub timeout: u64 }
impl Cf {
    pub fn default_enh() -> Cf { Cf { classic: false, quality: true, stall: true, minif: 32, stale: 3000, timeout: 5000 } }
    fn real(&self) -> ConfigSnapshot {
        ConfigSnapshot {
            mode: if self.classic { SchedulingMode::Classic } else { SchedulingMode::Enhanced },
            quality_enabled: self.quality, stall_deselect: self.stall,
            stall_min_in_flight: self.minif, stall_ack_stale_ms: self.stale, conn_timeout_ms: self.timeout,
        }
    }
    fn lit(&self) -> String {
        format!("(Cfg {} {} {} {} {} {})", if self.classic { "Classic" } else { "Enhanced" },
            boolc(self.quality), boolc(self.stall), i(self.minif), u(self.stale), u(self.timeout))
    }
}

// ------------------------------------------------------------------ case builder
pub struct CaseB {
    pub conns: Vec<SrtlaConnection>,
    ops: Vec<String>,
    obs: Vec<String>,
    pub selects: u32,
    pub panicked: bool,
    pub blackout: bool,
    pub tags: Vec<&'static str>,
}

fn fresh(k: usize) -> SrtlaConnection {
    SrtlaConnection::new_registering(201 + k as u64, format!("s{}", k),
        IpAddr::V4(Ipv4Addr::new(127, 0, 0, 1 + k as u8)), 0)
}

/// `(-(nak_age_ms as f64) / HALF_LIFE_MS).exp()` as quality.rs computes it (HALF_LIFE_MS = 2000.0).
pub fn exp_for(l: &L, now: u64) -> f64 {
    if l.naklast == 0 { return 1.0; }
    let age = now.saturating_sub(l.naklast);
    (-(age as f64) / 2000.0).exp()
}

pub fn usable(l: &L, now: u64, timeout: u64) -> bool {
    l.conn && l.phase != Ph::Reg && l.lastrx.is_none_or(|lr| now.saturating_sub(lr) < timeout)
}

impl CaseB {
    pub fn new() -> CaseB {
        CaseB { conns: vec![], ops: vec![], obs: vec![], selects: 0, panicked: false, blackout: false, tags: vec![] }
    }
    pub fn state(&self) -> Vec<L> { self.conns.iter().map(dump).collect() }
    pub fn load(&mut self, ls: &[L]) {
        self.conns = (0..ls.len()).map(fresh).collect();
        for (c, l) in self.conns.iter_mut().zip(ls) { apply_pub(c, l); apply_hid(c, l); }
        let lits: Vec<String> = self.conns.iter().map(|c| link_lit(&dump(c))).collect();
        self.ops.push(format!("OLoad [{}]", lits.join(";")));
    }
    pub fn upd(&mut self, k: usize, l: &L) {
        if k < self.conns.len() {
            apply_pub(&mut self.conns[k], l);
            let d = dump(&self.conns[k]);
            self.ops.push(format!("OUpd {}%nat {}", k, link_lit(&d)));
        } else {
            self.ops.push(format!("OUpd {}%nat {}", k, link_lit(l)));
        }
    }
    pub fn select(&mut self, last: Option<usize>, now: u64, cf: &Cf) -> Option<usize> {
        let pre = self.state();
        let exps: Vec<f64> = pre.iter().map(|l| exp_for(l, now)).collect();
        let cfg = cf.real();
        let conns = &mut self.conns;
        let r = std::panic::catch_unwind(std::panic::AssertUnwindSafe(|| {
            select_connection_idx(&mut conns[..], last, now, &cfg)
        }));
        self.selects += 1;
        let elit = format!("[{}]", exps.iter().map(|e| if *e == 1.0 { "1%float".to_string() } else { flt(*e) }).collect::<Vec<_>>().join(";"));
        self.ops.push(format!("OSelect {} {} {} {}", onat(last), u(now), cf.lit(), elit));
        match r {
            Ok(res) => {
                let post = self.state();
                let same = pre.len() == post.len() && pre.iter().zip(&post).all(|(a, b)| pub_same(a, b));
                let hl: Vec<String> = post.iter().map(hid_lit).collect();
                self.obs.push(format!("SO {} [{}] {}", onat(res), hl.join(";"), boolc(same)));
                if res.is_none() && pre.iter().any(|l| usable(l, now, cf.timeout)) { self.blackout = true; }
                res
            }
            Err(_) => {
                self.panicked = true;
                self.obs.push("SO None [] false".into());
                None
            }
        }
    }
    pub fn text(&self) -> String {
        format!("Case [{}] [{}]", self.ops.join(";"), self.obs.join(";"))
    }
}

// ------------------------------------------------------------------ value pools
fn pick_u64(r: &mut Rng, xs: &[u64]) -> u64 { *r.pick(xs) }

pub fn gen_cfg(r: &mut Rng) -> Cf {
    let minif = match r.below(10) {
        0 => 0, 1 => 1, 2 => 31, 3 | 4 | 5 => 32, 6 => 33, 7 => r.range(-5, 200) as i32,
        8 => i32::MAX, _ => r.range(2, 64) as i32 };
    let stale = match r.below(12) {
        0 => 0, 1 => 1, 2 => 999, 3 => 1000, 4 => 1001, 5 => 2999, 6 | 7 | 8 => 3000, 9 => 3001,
        10 => r.range(0, 20_000) as u64, _ => u64::MAX };
    let timeout = match r.below(12) {
        0 => 0, 1 => 1, 2 => 1000, 3 => 4999, 4 | 5 | 6 => 5000, 7 => 5001, 8 => 15_000, 9 => 60_000,
        10 => r.range(0, 70_000) as u64, _ => u64::MAX };
    Cf { classic: r.chance(1, 2), quality: r.chance(2, 3), stall: r.chance(5, 6), minif, stale, timeout }
}

fn ago(r: &mut Rng, now: u64, pivots: &[u64]) -> u64 {
    // a time stamp `now - d`, d drawn around the given pivots (p-1, p, p+1), or random
    let d = match r.below(8) {
        0 => 0, 1 => 1,
        2 | 3 | 4 | 5 if !pivots.is_empty() => {
            let p = pick_u64(r, pivots);
            match r.below(4) { 0 => p.saturating_sub(1), 1 | 2 => p, _ => p.saturating_add(1) }
        }
        6 => r.range(0, 400) as u64,
        _ => r.range(0, 40_000) as u64,
    };
    now.saturating_sub(d)
}

fn gen_f_srtt(r: &mut Rng) -> f64 {
    match r.below(16) {
        0 | 1 | 2 => 0.0, 3 => -1.5, 4 => -0.0, 5 => 10.0, 6 => 50.0, 7 => 100.0, 8 => 125.0, 9 => 200.0,
        10 => 250.0, 11 => 300.0, 12 => 800.0, 13 => f64::NAN,
        14 => r.range(1, 2000) as f64 + (r.below(1000) as f64) / 1000.0,
        _ => *r.pick(&[f64::INFINITY, 1e300, 1e19, 2e19, 4.9e-324, 0.999, 1.0, 49.999, 200.0001, 194.17475728155338]),
    }
}
fn gen_f_rttmin(r: &mut Rng) -> f64 {
    match r.below(12) {
        0 | 1 => 0.0, 2 => 1.0, 3 => 20.0, 4 => 50.0, 5 => 300.0, 6 => f64::NAN, 7 => f64::INFINITY,
        8 => -5.0, 9 => r.range(1, 900) as f64 + 0.25, 10 => 1e-3, _ => *r.pick(&[1e300, 4.9e-324, 7.018666666, 1e9]),
    }
}
fn gen_q(r: &mut Rng) -> f64 {
    match r.below(8) {
        0 | 1 => 1.0, 2 => 1.1, 3 => 0.98, 4 => 0.5 * 0.7, 5 => 1.1 * 1.03,
        6 => 0.35 + (r.below(7800) as f64) / 10000.0, _ => 1.0 * 1.03,
    }
}

/// One link drawn from the boundary pools, relative to `now` and the settings in force.
pub fn gen_link(r: &mut Rng, now: u64, cf: &Cf) -> L {
    let srtt = gen_f_srtt(r);
    let rttmin = gen_f_rttmin(r);
    let cct = match r.below(10) {
        0 | 1 | 2 | 3 => 0, 4 => 1, 5 => 100_000, 6 => 1_000_000, 7 => 5_000_000, 8 => 200_000_000,
        _ => *r.pick(&[u64::MAX, 1u64 << 63, (1u64 << 63) + 1025, (1u64 << 53) + 1, 12_345_678, 7]) };
    let cap = in_flight_cap_packets(cct, rttmin);
    let eff_srtt = if srtt.is_nan() || srtt <= 0.0 { 0 } else { srtt as u64 };
    let stale_eff = if eff_srtt == 0 && !(srtt > 0.0) { cf.stale } else { eff_srtt.saturating_mul(4).max(1000).min(cf.stale) };
    let pull_eff = (if !(srtt > 0.0) { 250 } else { eff_srtt.saturating_mul(2).max(250) }).min(stale_eff);
    let inflight = match r.below(14) {
        0 | 1 | 2 => 0, 3 => cf.minif.saturating_sub(1), 4 | 5 => cf.minif, 6 => cf.minif.saturating_add(1),
        7 => cap.map(|c| c.saturating_sub(1)).unwrap_or(5), 8 => cap.unwrap_or(40),
        9 | 10 => cap.map(|c| c.saturating_add(1)).unwrap_or(100),
        11 => r.range(0, 300) as i32, 12 => *r.pick(&[-1, -40, i32::MAX, i32::MAX - 1, i32::MIN]), _ => r.range(32, 5000) as i32 };
    let window = match r.below(12) {
        0 => 0, 1 => 1, 2 => 999, 3 => 1000, 4 => 1001, 5 | 6 | 7 => 20000, 8 => 59999, 9 => 60000,
        10 => r.range(0, 60000) as i32, _ => *r.pick(&[i32::MAX, 30, 100, 12345]) };
    let bps = if cct == 0 { *r.pick(&[0.0, 1e6, -3.0]) } else {
        let c = cct as f64;
        match r.below(12) { 0 | 1 => 0.0, 2 => -1.0, 3 => c * 0.5, 4 => c * 0.9, 5 => c * 0.91, 6 => c * 0.95, 7 => c,
            8 => c * 2.0, 9 => f64::NAN, 10 => f64::INFINITY, _ => r.range(1, 300_000_000) as f64 } };
    let latched_on = r.chance(1, 3);
    L {
        conn: r.chance(5, 6),
        phase: match r.below(10) { 0 => Ph::Reg, 1 | 2 => Ph::Warm, 3 | 4 => Ph::Deg, _ => Ph::Live },
        window, inflight, queued: match r.below(8) { 0 => 1, 1 => 3, 2 => 16, _ => 0 },
        lastrx: if r.chance(1, 12) { None } else if r.chance(1, 25) { Some(now + r.range(1, 5000) as u64) }
                else { Some(ago(r, now, &[cf.timeout, pull_eff, stale_eff])) },
        proof: if r.chance(1, 4) { 0 } else { ago(r, now, &[stale_eff, stale_eff.saturating_mul(2), cf.stale]) },
        est: if r.chance(1, 8) { 0 } else { ago(r, now, &[30_000]).max(1) },
        grace: match r.below(6) { 0 => 0, 1 => now.saturating_sub(1), 2 => now, 3 => now + 1, 4 => now + 5000, _ => 5000 },
        weak: r.chance(1, 4), lossdeg: r.chance(1, 5), cct, bps, srtt, rttmin,
        nakcnt: match r.below(4) { 0 | 1 => 0, 2 => 1, _ => r.range(1, 500) as i32 },
        naklast: if r.chance(1, 2) { 0 } else { ago(r, now, &[3000, 2000, 100, 8000]).max(1) },
        nakburst: match r.below(6) { 0 | 1 | 2 => 0, 3 => 4, 4 => 5, _ => 6 },
        timeout: *r.pick(&[5000u64, 5000, cf.timeout, 1000, 0, 60_000]),
        gated: r.chance(1, 4), pulled: r.chance(1, 4), pulls: r.below(5),
        latched: if latched_on { ago(r, now, &[stale_eff, 100]).max(1) } else { 0 },
        recov: if latched_on && r.chance(1, 2) { ago(r, now, &[stale_eff.saturating_mul(2), stale_eff]).max(1) } else { 0 },
        gevents: r.below(4), qmult: gen_q(r),
        qlast: match r.below(6) { 0 => 0, 1 => now, 2 => now.saturating_sub(49), 3 => now.saturating_sub(50),
                                   4 => now.saturating_sub(51), _ => now + 7 },
    }
}

// ------------------------------------------------------------------ families
/// DESIGN §8-F2 witness: link 0 usable but stalled (gets latched), link 1 disconnected by a
/// REG_ERR yet still Live and recently heard (not timed out, schedulable).
pub fn f2_case(classic: bool) -> CaseB {
    let now = 1_000_000u64;
    let mut a = L::healthy(now);
    a.inflight = 100; a.proof = now - 10_000;
    let mut b = L::healthy(now);
    b.conn = false;
    let mut cb = CaseB::new();
    cb.load(&[a, b]);
    let cf = Cf { classic, ..Cf::default_enh() };
    cb.select(None, now, &cf);
    cb.select(Some(0), now + 1, &cf);
    cb
}

pub const N_PROFILES: usize = 80;
/// Gate-product profile `p` = (usability kind, stall kind, quality-gate kind).
pub fn profile(p: usize, now: u64) -> L {
    let (uk, sk, qk) = (p % 5, (p / 5) % 4, p / 20);
    let mut l = L::healthy(now);
    l.est = now - 100_000;
    match uk {
        0 => {}
        1 => l.conn = false,
        2 => l.lastrx = Some(now - 6000),
        3 => l.phase = Ph::Reg,
        _ => l.phase = Ph::Warm,
    }
    match sk {
        0 => {}
        1 => { l.inflight = 100; l.proof = now - 10_000; }
        2 => { l.inflight = 100; if uk != 2 { l.lastrx = Some(now - 300); } }
        _ => { l.latched = now - 500; l.gevents = 1; l.proof = now - 10; }
    }
    match qk {
        0 => {}
        1 => l.weak = true,
        2 => { l.cct = 1_000_000; l.rttmin = 20.0; if l.inflight < 3 { l.inflight = 3; } }
        _ => { l.lossdeg = true; l.cct = 1_000_000; l.bps = 1_000_000.0; }
    }
    l
}

fn product_case(ps: &[usize], classic: bool, quality: bool, last: Option<usize>) -> CaseB {
    let now = 2_000_000u64;
    let ls: Vec<L> = ps.iter().map(|&p| profile(p, now)).collect();
    let mut cb = CaseB::new();
    cb.load(&ls);
    let cf = Cf { classic, quality, ..Cf::default_enh() };
    cb.select(last, now, &cf);
    cb
}

fn random_state_case(r: &mut Rng) -> CaseB {
    let now = match r.below(6) { 0 => r.range(0, 300) as u64, 1 => r.range(300, 40_000) as u64, _ => r.range(100_000, 50_000_000) as u64 };
    let cf = gen_cfg(r);
    let n = 1 + r.below(4) as usize;
    let ls: Vec<L> = (0..n).map(|_| gen_link(r, now, &cf)).collect();
    let mut cb = CaseB::new();
    cb.load(&ls);
    let last = match r.below(5) { 0 => None, 4 => Some(n + r.below(2) as usize), _ => Some(r.below(n as u64) as usize) };
    let res = cb.select(last, now, &cf);
    if r.chance(1, 3) {
        // the same call again (idempotence), then with `last` = what was returned (stability)
        let r2 = cb.select(last, now, &cf);
        cb.select(r2.or(res), now, &cf);
    }
    cb
}

/// A history: the real code builds latch / pull / cache state over several selects while the
/// harness moves the clock and the externally driven fields.
fn history_case(r: &mut Rng, steps: usize) -> CaseB {
    let mut now = r.range(100_000, 5_000_000) as u64;
    let mut cf = gen_cfg(r);
    if r.chance(2, 3) { cf.stall = true; cf.minif = 32; cf.stale = 3000; cf.timeout = 5000; }
    let n = 1 + r.below(4) as usize;
    let mut cb = CaseB::new();
    let ls: Vec<L> = (0..n).map(|_| {
        let mut l = gen_link(r, now, &cf);
        if r.chance(1, 2) { l.conn = true; if l.phase == Ph::Reg { l.phase = Ph::Live; } }
        l
    }).collect();
    cb.load(&ls);
    let mut last: Option<usize> = None;
    for _ in 0..steps {
        now += *r.pick(&[0u64, 0, 1, 10, 49, 50, 51, 100, 249, 250, 251, 500, 999, 1000, 1001, 2000, 2999, 3000, 3001, 6000]);
        match r.below(10) {
            0..=3 => {
                // drive one link: it speaks / proves delivery / drains / fills / drops / returns
                let k = r.below(n as u64) as usize;
                let mut l = dump(&cb.conns[k]);
                match r.below(9) {
                    0 => l.lastrx = Some(now),
                    1 => { l.lastrx = Some(now); l.proof = now; }
                    2 => l.inflight = 0,
                    3 => l.inflight = *r.pick(&[31, 32, 33, 100, 400]),
                    4 => { l.conn = false; l.lastrx = None; }           // REG_ERR
                    5 => { l.conn = true; l.phase = Ph::Warm; l.lastrx = Some(now); l.inflight = 0; } // REG3
                    6 => { l.weak = !l.weak; }
                    7 => { l.naklast = now.max(1); l.nakcnt = l.nakcnt.saturating_add(1); l.nakburst = *r.pick(&[1, 5, 6]); }
                    _ => { l = gen_link(r, now, &cf); }
                }
                cb.upd(k, &l);
            }
            4 => { cf = gen_cfg(r); }
            5 => { cf.stall = !cf.stall; }
            _ => {}
        }
        let use_last = match r.below(6) { 0 => None, 1 => Some(r.below(n as u64 + 1) as usize), _ => last };
        let res = cb.select(use_last, now, &cf);
        if res.is_some() { last = res; }
    }
    cb
}

/// Score-space cases for C11: base scores placed around the 1.10 hysteresis boundary,
/// equal scores, zero scores, the current link skipped / capped / gated.
fn score_space_case(r: &mut Rng) -> CaseB {
    let now = r.range(200_000, 9_000_000) as u64;
    let n = 2 + r.below(3) as usize;
    let cf = Cf { classic: false, quality: r.chance(1, 2), stall: r.chance(3, 4), ..Cf::default_enh() };
    let cur_inflight = r.range(0, 60) as i32;
    let w = *r.pick(&[20000, 20000, 1000, 60000, 110, 100, 0]);
    let cur_score = w / (cur_inflight + 1);
    let mut ls: Vec<L> = vec![];
    for k in 0..n {
        let mut l = L::healthy(now);
        l.window = w;
        l.qlast = now; // fresh cache: quality = qmult exactly
        if k == 0 { l.inflight = cur_inflight; } else {
            // pick in-flight so that this link's score is near 1.10 x the current one
            let target = match r.below(6) { 0 => cur_score, 1 => cur_score + 1,
                2 => ((cur_score as f64) * 1.1) as i32, 3 => ((cur_score as f64) * 1.1) as i32 + 1,
                4 => ((cur_score as f64) * 1.1) as i32 - 1, _ => r.range(0, 30000) as i32 };
            l.inflight = if target <= 0 { w } else { (w / target.max(1) - 1).max(0) };
            if r.chance(1, 4) { l.inflight = cur_inflight; }
        }
        match r.below(10) { 0 => l.phase = Ph::Warm, 1 => l.weak = true, 2 => l.lossdeg = true,
            3 => { l.cct = 1_000_000; l.rttmin = 20.0; }
            4 => { l.cct = 4_000_000; l.bps = *r.pick(&[3_600_000.0, 3_900_000.0, 2_000_000.0, 4_000_000.0]); }
            5 => { l.qmult = gen_q(r); }
            6 => { l.qlast = now - 50; l.nakcnt = 3; l.naklast = now - r.range(0, 9000) as u64; l.nakburst = *r.pick(&[0, 5]);
                   l.est = *r.pick(&[now - 29_999, now - 30_000, now - 60_000]); l.srtt = gen_f_srtt(r); }
            _ => {} }
        ls.push(l);
    }
    if r.chance(1, 6) { let k = r.below(n as u64) as usize; ls[k].phase = Ph::Reg; }
    if r.chance(1, 6) { let k = r.below(n as u64) as usize; ls[k].lastrx = Some(now - 5000); }
    let mut cb = CaseB::new();
    // rotate so that the "current" link is not always index 0
    let rot = r.below(n as u64) as usize;
    ls.rotate_right(rot);
    cb.load(&ls);
    let last = match r.below(8) { 0 => None, 1 => Some(n), _ => Some(rot % n) };
    let r1 = cb.select(last, now, &cf);
    let r2 = cb.select(last, now, &cf);
    cb.select(r2.or(r1), now, &cf);
    cb
}

// ------------------------------------------------------------------ driver
fn push(run: &mut Run, kind: &'static str, cb: CaseB) {
    if cb.panicked { run.panics += 1; run.count("impl_panic"); }
    if cb.blackout { run.count("blackout_seen_by_harness"); }
    run.count_n("selects", cb.selects as u64);
    let nontrivial = cb.selects > 0 && !cb.conns.is_empty();
    run.push(kind, nontrivial, cb.text());
}

/// `prop` = "C03" | "C11": same case format, different mix.
pub fn run_family(prop: &str, run_module: &str, seed: u64, tier: &str, out: &Path) -> std::io::Result<()> {
    let mut run = Run::new(prop, run_module, seed, tier, out);
    let mut r = Rng::new(seed ^ 0xC03C_11);
    let big = run.thorough();
    let c11 = prop == "C11";

    // regression witnesses first (always)
    push(&mut run, "f2_witness", f2_case(true));
    push(&mut run, "f2_witness", f2_case(false));
    push(&mut run, "empty", { let mut cb = CaseB::new(); cb.load(&[]); cb.select(None, 5, &Cf::default_enh()); cb });

    // gate product over pairs of profiles
    let mut rp = r.fork(1);
    if big {
        for a in 0..N_PROFILES { for b in 0..N_PROFILES {
            let classic = (a + b) % 2 == 0 && !c11;
            push(&mut run, "gate_product2", product_case(&[a, b], classic, (a * 7 + b) % 3 != 0, Some((a + b) % 3)));
        } }
        for _ in 0..1500 {
            let ps = [rp.below(80) as usize, rp.below(80) as usize, rp.below(80) as usize];
            let classic = rp.chance(1, 2) && !c11;
            push(&mut run, "gate_product3", product_case(&ps, classic, rp.chance(2, 3), Some(rp.below(4) as usize)));
        }
    } else {
        let npairs = if c11 { 350 } else { 600 };
        for _ in 0..npairs {
            let ps = [rp.below(80) as usize, rp.below(80) as usize];
            let classic = rp.chance(1, 2) && !c11;
            push(&mut run, "gate_product2", product_case(&ps, classic, rp.chance(2, 3), Some(rp.below(3) as usize)));
        }
        for _ in 0..150 {
            let ps = [rp.below(80) as usize, rp.below(80) as usize, rp.below(80) as usize, rp.below(80) as usize];
            let classic = rp.chance(1, 2) && !c11;
            push(&mut run, "gate_product4", product_case(&ps, classic, rp.chance(2, 3), None));
        }
    }
    for p in 0..N_PROFILES {
        push(&mut run, "gate_product1", product_case(&[p], p % 2 == 0 && !c11, true, Some(0)));
    }

    let scale = if big { 5 } else { 1 };
    let mut rr = r.fork(2);
    for _ in 0..(if c11 { 300 } else { 500 }) * scale {
        let mut cb = random_state_case(&mut rr);
        if c11 && rr.chance(3, 4) { /* keep as is: mode is random; C11 monitor skips classic selects */ }
        cb.tags.push("random");
        push(&mut run, "random_state", cb);
    }
    let mut rh = r.fork(3);
    for _ in 0..(if c11 { 100 } else { 200 }) * scale {
        let steps = 2 + rh.below(7) as usize;
        push(&mut run, "history", history_case(&mut rh, steps));
    }
    let mut rs = r.fork(4);
    for _ in 0..(if c11 { 450 } else { 120 }) * scale {
        push(&mut run, "score_space", score_space_case(&mut rs));
    }
    run.note(format!("selection family for {}: real select_connection_idx on 0..4 real SrtlaConnection objects; \
        exp() recomputed with the same libm for every link and passed as oracle input", prop));
    // ~5 MB of coqc memory per KB of case text: keep shards small enough for 16 parallel evaluators
    run.finish(16, 300_000)
}

pub fn run(seed: u64, tier: &str, out: &Path, _extra: &[(String, String)]) -> std::io::Result<()> {
    run_family("C03", "Run_C03", seed, tier, out)
}
