//! C02 — per-link in-flight equals packets sent and not yet retired.
use crate::core_ops::*;
pub fn run(seed: u64, tier: &str, out: &std::path::Path, _extra: &[(String, String)]) -> std::io::Result<()> {
    // regression corpus: F1 — a retransmission registered at/below the cumulative-ACK high-water mark
    let f1 = vec![Op::SetConn(0, true, Some(1_000_000)), Op::Register(0, 5, 1_000_000), Op::SrtAck(10, 1_000_010),
                  Op::Register(0, 3, 1_000_020), Op::SrtAck(12, 1_000_030)];
    run_profile("C02", "Run_C02", Profile::C02, seed, tier, out, &[(1, f1)])
}
