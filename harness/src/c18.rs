//! C18 — control protocol: feed generated lines to the REAL `dispatch` (stdin entry) and
//! `dispatch_async` (socket entry), each on its own `DynamicConfig`, and record after every
//! line: panicked?, the response line parsed back into a tree, the configuration snapshot.
//!
//! The generator builds a JSON *tree*, serialises it itself (own writer: random white space,
//! escapes, key order, duplicate keys) and hands the tree to the Coq model; serde_json's text
//! parser is therefore exercised but never trusted.  A separate malformed stream (random
//! bytes, mutated valid lines) is classified by an independent strict JSON reader below.
use std::panic::AssertUnwindSafe;
use std::path::Path;

use serde_json::Value;
use srtla_core::mode::SchedulingMode;
use srtla_core::priority::CriticalWindow;
use srtla_send::config::{CONN_TIMEOUT_MS_MAX, CONN_TIMEOUT_MS_MIN, ConfigSnapshot, DynamicConfig};
use srtla_send::control::{SubscriptionContext, dispatch, dispatch_async};
use srtla_send::stats::SharedStats;
use srtla_send::subscriptions::SubscriptionHub;

use crate::common::*;

// ------------------------------------------------------------------ JSON tree
#[derive(Clone, Debug, PartialEq)]
pub enum J {
    Null,
    Bool(bool),
    Int(i128),
    Float(u64),
    Str(String),
    /// a string that crosses as `JStr (D n)` (digest of an unmodelled error text)
    Digest(u32),
    Arr(Vec<J>),
    Obj(Vec<(String, J)>),
}

fn s<T: AsRef<str>>(x: T) -> J { J::Str(x.as_ref().to_string()) }
fn obj(m: Vec<(&str, J)>) -> J { J::Obj(m.into_iter().map(|(k, v)| (k.to_string(), v)).collect()) }

/// interned strings: read from the vocabulary block of coq/Run/Run_C18.v, so both sides agree
fn vocab() -> &'static std::collections::HashMap<String, String> {
    static V: std::sync::OnceLock<std::collections::HashMap<String, String>> = std::sync::OnceLock::new();
    V.get_or_init(|| {
        let path = concat!(env!("CARGO_MANIFEST_DIR"), "/../coq/Run/Run_C18.v");
        let src = std::fs::read_to_string(path).unwrap_or_default();
        let mut m = std::collections::HashMap::new();
        let mut on = false;
        for l in src.lines() {
            if l.contains("vocabulary: BEGIN") { on = true; continue; }
            if l.contains("vocabulary: END") { break; }
            if !on { continue; }
            if let Some(rest) = l.strip_prefix("Definition ") {
                if let Some((name, lit)) = rest.split_once(" : string := \"") {
                    if let Some(body) = lit.strip_suffix("\".") { m.insert(body.replace("\"\"", "\""), name.to_string()); }
                }
            }
        }
        m
    })
}

fn coq_str(x: &str) -> String {
    if let Some(n) = vocab().get(x) { return n.clone(); }
    let mut o = String::with_capacity(x.len() + 2);
    o.push('"');
    for c in x.chars() {
        if c == '"' { o.push_str("\"\""); }
        else if (c as u32) < 0x20 || c as u32 == 0x7f { o.push('?'); }
        else { o.push(c); }
    }
    o.push('"');
    o
}

/// error message / data text is not modelled: anything outside the vocabulary crosses as a digest
fn digest_error_strings(j: &mut J) {
    fn fnv(x: &str) -> u32 { let mut h: u32 = 0x811c9dc5; for b in x.bytes() { h ^= b as u32; h = h.wrapping_mul(0x01000193); } h }
    if let J::Obj(m) = j {
        for (k, v) in m.iter_mut() {
            if k == "error" {
                if let J::Obj(em) = v {
                    for (ek, ev) in em.iter_mut() {
                        if ek == "message" || ek == "data" {
                            if let J::Str(x) = ev { if !vocab().contains_key(x.as_str()) { *ev = J::Digest(fnv(x)); } }
                        }
                    }
                }
            }
        }
    }
}

fn coq_json(j: &J, o: &mut String) {
    match j {
        J::Null => o.push_str("JNull"),
        J::Bool(b) => { o.push_str("JBool "); o.push_str(boolc(*b)); }
        J::Int(v) => { o.push_str("JInt "); o.push_str(&z(*v)); }
        J::Float(b) => { o.push_str("JFloat "); o.push_str(&b.to_string()); }
        J::Str(x) => { o.push_str("JStr "); o.push_str(&coq_str(x)); }
        J::Digest(n) => { o.push_str(&format!("JStr (D {})", n)); }
        J::Arr(l) => {
            o.push_str("JArr [");
            for (i, x) in l.iter().enumerate() {
                if i > 0 { o.push(';'); }
                coq_json(x, o);
            }
            o.push(']');
        }
        J::Obj(m) => {
            o.push_str("JObj [");
            for (i, (k, v)) in m.iter().enumerate() {
                if i > 0 { o.push(';'); }
                o.push('(');
                o.push_str(&coq_str(k));
                o.push(',');
                coq_json(v, o);
                o.push(')');
            }
            o.push(']');
        }
    }
}
fn coq_j(j: &J) -> String { let mut o = String::new(); coq_json(j, &mut o); o }
fn coq_oj(j: &Option<J>) -> String {
    match j { None => "None".into(), Some(j) => format!("(Some ({}))", coq_j(j)) }
}

fn printable(x: &str) -> bool { x.chars().all(|c| (c as u32) >= 0x20 && c as u32 != 0x7f) }
fn tree_printable(j: &J) -> bool {
    match j {
        J::Str(x) => printable(x),
        J::Arr(l) => l.iter().all(tree_printable),
        J::Obj(m) => m.iter().all(|(k, v)| printable(k) && tree_printable(v)),
        _ => true,
    }
}

/// serde_json::Value (a response) -> tree; objects come out in key order (BTreeMap)
fn from_value(v: &Value) -> J {
    match v {
        Value::Null => J::Null,
        Value::Bool(b) => J::Bool(*b),
        Value::Number(n) => {
            if let Some(u) = n.as_u64() { J::Int(u as i128) }
            else if let Some(i) = n.as_i64() { J::Int(i as i128) }
            else { J::Float(n.as_f64().unwrap_or(f64::NAN).to_bits()) }
        }
        Value::String(x) => J::Str(x.clone()),
        Value::Array(l) => J::Arr(l.iter().map(from_value).collect()),
        Value::Object(m) => J::Obj(m.iter().map(|(k, v)| (k.clone(), from_value(v))).collect()),
    }
}

// ------------------------------------------------------------------ own JSON writer
/// float literals whose value is certain: (text, value); validated at start-up
const FLOATS: &[(&str, f64)] = &[
    ("1.5", 1.5), ("-0", -0.0), ("-0.0", -0.0), ("0.0", 0.0), ("1e3", 1000.0), ("2.5E-3", 0.0025),
    ("5000.0", 5000.0), ("1.0", 1.0), ("2.0", 2.0), ("0.1", 0.1), ("1e300", 1e300), ("-2.5", -2.5), ("60000.5", 60000.5),
    ("18446744073709551616", 18446744073709551616.0), ("-9223372036854775809", -9223372036854775809.0),
    ("1E+2", 100.0), ("123456.789", 123456.789),
];

struct Writer { floats: Vec<(String, u64)> }

impl Writer {
    fn new(run: &mut Run) -> Writer {
        let mut floats = vec![];
        for (t, v) in FLOATS {
            // the pair is used only if serde_json reads the text as exactly this f64 and prints
            // something that reads back the same
            let ok = match serde_json::from_str::<Value>(t) {
                Ok(Value::Number(n)) if !n.is_u64() && !n.is_i64() => {
                    let b = n.as_f64().map(|f| f.to_bits());
                    let back = serde_json::to_string(&Value::Number(n.clone())).ok()
                        .and_then(|x| serde_json::from_str::<Value>(&x).ok())
                        .and_then(|x| x.as_f64()).map(|f| f.to_bits());
                    b == Some(v.to_bits()) && back == b
                }
                _ => false,
            };
            if ok { floats.push((t.to_string(), v.to_bits())); } else { run.note(format!("float literal {} dropped from the pool", t)); }
        }
        Writer { floats }
    }
    fn ws(&self, r: &mut Rng, o: &mut String) {
        if r.chance(1, 6) {
            for _ in 0..r.range(1, 3) { o.push(*r.pick(&[' ', ' ', '\t', '\r', '\n'])); }
        }
    }
    fn string(&self, r: &mut Rng, x: &str, o: &mut String) {
        o.push('"');
        for c in x.chars() {
            match c {
                '"' => o.push_str("\\\""),
                '\\' => o.push_str("\\\\"),
                '/' if r.chance(1, 2) => o.push_str("\\/"),
                c if (c as u32) < 0x20 => o.push_str(&format!("\\u{:04x}", c as u32)),
                c if c.is_ascii_alphanumeric() && r.chance(1, 24) => o.push_str(&format!("\\u{:04X}", c as u32)),
                c if (c as u32) > 0xffff && r.chance(1, 2) => {
                    let v = c as u32 - 0x10000;
                    o.push_str(&format!("\\ud{:03x}\\ud{:03x}", 0x800 + (v >> 10), 0xc00 + (v & 0x3ff)));
                }
                c if (c as u32) >= 0x80 && (c as u32) <= 0xffff && r.chance(1, 2) => o.push_str(&format!("\\u{:04x}", c as u32)),
                c => o.push(c),
            }
        }
        o.push('"');
    }
    fn float_text(&self, bits: u64) -> String {
        self.floats.iter().find(|(_, b)| *b == bits).map(|(t, _)| t.clone()).expect("float from the pool")
    }
    fn write(&self, r: &mut Rng, j: &J, o: &mut String) {
        match j {
            J::Null => o.push_str("null"),
            J::Bool(b) => o.push_str(if *b { "true" } else { "false" }),
            J::Int(v) => o.push_str(&v.to_string()),
            J::Float(b) => o.push_str(&self.float_text(*b)),
            J::Str(x) => self.string(r, x, o),
            J::Digest(_) => unreachable!(),
            J::Arr(l) => {
                o.push('[');
                self.ws(r, o);
                for (i, x) in l.iter().enumerate() {
                    if i > 0 { o.push(','); self.ws(r, o); }
                    self.write(r, x, o);
                    self.ws(r, o);
                }
                o.push(']');
            }
            J::Obj(m) => {
                o.push('{');
                self.ws(r, o);
                for (i, (k, v)) in m.iter().enumerate() {
                    if i > 0 { o.push(','); self.ws(r, o); }
                    self.string(r, k, o);
                    self.ws(r, o);
                    o.push(':');
                    self.ws(r, o);
                    self.write(r, v, o);
                    self.ws(r, o);
                }
                o.push('}');
            }
        }
    }
    fn line(&self, r: &mut Rng, j: &J) -> String {
        let mut o = String::new();
        if r.chance(1, 8) { o.push_str(*r.pick(&[" ", "\t", "  ", "\u{a0}", "\u{2003} ", "\r"])); }
        self.write(r, j, &mut o);
        if r.chance(1, 8) { o.push_str(*r.pick(&[" ", "\t", " \r", "\u{a0}", "\u{3000}", "\n"])); }
        o
    }
}

// ------------------------------------------------------------------ independent strict JSON reader
/// `exact`: number tokens kept as f64 are read with the standard library's correctly rounded parser
/// (used for RESPONSES: serde_json's default reader is up to 1 ulp off and does not read back its own
/// shortest-round-trip output exactly); otherwise with serde_json on the token alone (REQUESTS: the
/// value the dispatcher sees is by definition what serde_json reads).
struct Reader<'a> { b: &'a [u8], i: usize, depth: usize, lenient: bool, exact: bool }

impl<'a> Reader<'a> {
    fn ws(&mut self) { while self.i < self.b.len() && matches!(self.b[self.i], b' ' | b'\t' | b'\n' | b'\r') { self.i += 1; } }
    fn lit(&mut self, t: &[u8]) -> Result<(), ()> {
        if self.b[self.i..].starts_with(t) { self.i += t.len(); Ok(()) } else { Err(()) }
    }
    fn hex4(&mut self) -> Result<u32, ()> {
        if self.i + 4 > self.b.len() { return Err(()); }
        let t = std::str::from_utf8(&self.b[self.i..self.i + 4]).map_err(|_| ())?;
        if !t.bytes().all(|c| c.is_ascii_hexdigit()) { return Err(()); }
        self.i += 4;
        u32::from_str_radix(t, 16).map_err(|_| ())
    }
    fn string(&mut self) -> Result<String, ()> {
        self.i += 1; // opening quote
        let mut out: Vec<u8> = vec![];
        loop {
            if self.i >= self.b.len() { return Err(()); }
            let c = self.b[self.i];
            self.i += 1;
            match c {
                b'"' => break,
                b'\\' => {
                    if self.i >= self.b.len() { return Err(()); }
                    let e = self.b[self.i];
                    self.i += 1;
                    match e {
                        b'"' => out.push(b'"'), b'\\' => out.push(b'\\'), b'/' => out.push(b'/'),
                        b'b' => out.push(8), b'f' => out.push(12), b'n' => out.push(10), b'r' => out.push(13), b't' => out.push(9),
                        b'u' => {
                            let mut cp = self.hex4()?;
                            if (0xdc00..0xe000).contains(&cp) { if self.lenient { cp = 0xfffd; } else { return Err(()); } }
                            if (0xd800..0xdc00).contains(&cp) {
                                if self.lenient { cp = 0xfffd; } else {
                                    if !self.b[self.i..].starts_with(b"\\u") { return Err(()); }
                                    self.i += 2;
                                    let lo = self.hex4()?;
                                    if !(0xdc00..0xe000).contains(&lo) { return Err(()); }
                                    cp = 0x10000 + ((cp - 0xd800) << 10) + (lo - 0xdc00);
                                }
                            }
                            let ch = char::from_u32(cp).ok_or(())?;
                            let mut buf = [0u8; 4];
                            out.extend_from_slice(ch.encode_utf8(&mut buf).as_bytes());
                        }
                        _ => return Err(()),
                    }
                }
                c if c < 0x20 => return Err(()),
                c => out.push(c),
            }
        }
        String::from_utf8(out).map_err(|_| ())
    }
    fn number(&mut self) -> Result<J, ()> {
        let st = self.i;
        let mut float = false;
        if self.b[self.i] == b'-' { self.i += 1; }
        if self.i >= self.b.len() { return Err(()); }
        if self.b[self.i] == b'0' { self.i += 1; }
        else if self.b[self.i].is_ascii_digit() { while self.i < self.b.len() && self.b[self.i].is_ascii_digit() { self.i += 1; } }
        else { return Err(()); }
        if self.i < self.b.len() && self.b[self.i] == b'.' {
            float = true;
            self.i += 1;
            let d = self.i;
            while self.i < self.b.len() && self.b[self.i].is_ascii_digit() { self.i += 1; }
            if self.i == d { return Err(()); }
        }
        if self.i < self.b.len() && (self.b[self.i] == b'e' || self.b[self.i] == b'E') {
            float = true;
            self.i += 1;
            if self.i < self.b.len() && (self.b[self.i] == b'+' || self.b[self.i] == b'-') { self.i += 1; }
            let d = self.i;
            while self.i < self.b.len() && self.b[self.i].is_ascii_digit() { self.i += 1; }
            if self.i == d { return Err(()); }
        }
        let t = std::str::from_utf8(&self.b[st..self.i]).map_err(|_| ())?;
        if !float {
            if let Ok(v) = t.parse::<i128>() {
                if t != "-0" && v >= -(1i128 << 63) && v < (1i128 << 64) { return Ok(J::Int(v)); }
            }
        }
        if self.exact {
            return match t.parse::<f64>() { Ok(f) if f.is_finite() => Ok(J::Float(f.to_bits())), _ => Err(()) };
        }
        // a number serde_json keeps as f64: its value is taken from serde_json on the token alone
        match serde_json::from_str::<Value>(t) {
            Ok(Value::Number(n)) => Ok(J::Float(n.as_f64().ok_or(())?.to_bits())),
            _ => if self.lenient { Ok(J::Float(0)) } else { Err(()) },
        }
    }
    fn value(&mut self) -> Result<J, ()> {
        self.ws();
        if self.i >= self.b.len() { return Err(()); }
        match self.b[self.i] {
            b'n' => { self.lit(b"null")?; Ok(J::Null) }
            b't' => { self.lit(b"true")?; Ok(J::Bool(true)) }
            b'f' => { self.lit(b"false")?; Ok(J::Bool(false)) }
            b'"' => Ok(J::Str(self.string()?)),
            b'-' | b'0'..=b'9' => self.number(),
            b'[' => {
                self.depth += 1;
                if self.depth > 2000 { return Err(()); }
                self.i += 1;
                let mut l = vec![];
                self.ws();
                if self.i < self.b.len() && self.b[self.i] == b']' { self.i += 1; self.depth -= 1; return Ok(J::Arr(l)); }
                loop {
                    l.push(self.value()?);
                    self.ws();
                    if self.i >= self.b.len() { return Err(()); }
                    match self.b[self.i] { b',' => self.i += 1, b']' => { self.i += 1; break; } _ => return Err(()) }
                }
                self.depth -= 1;
                Ok(J::Arr(l))
            }
            b'{' => {
                self.depth += 1;
                if self.depth > 2000 { return Err(()); }
                self.i += 1;
                let mut m = vec![];
                self.ws();
                if self.i < self.b.len() && self.b[self.i] == b'}' { self.i += 1; self.depth -= 1; return Ok(J::Obj(m)); }
                loop {
                    self.ws();
                    if self.i >= self.b.len() || self.b[self.i] != b'"' { return Err(()); }
                    let k = self.string()?;
                    self.ws();
                    if self.i >= self.b.len() || self.b[self.i] != b':' { return Err(()); }
                    self.i += 1;
                    let v = self.value()?;
                    m.push((k, v));
                    self.ws();
                    if self.i >= self.b.len() { return Err(()); }
                    match self.b[self.i] { b',' => self.i += 1, b'}' => { self.i += 1; break; } _ => return Err(()) }
                }
                self.depth -= 1;
                Ok(J::Obj(m))
            }
            _ => Err(()),
        }
    }
}

/// Is the line well-formed by the RFC 8259 *grammar* although the strict reader rejects it
/// (escapes naming lone surrogates, number tokens outside f64)?  serde skips such content inside
/// members it ignores but rejects it inside members it decodes, so what the dispatcher must answer
/// depends on where it sits; such lines are outside the oracle's domain and are not generated.
fn grammar_only_valid(line: &str) -> bool {
    let t = line.trim();
    if t.is_empty() { return false; }
    let mut rd = Reader { b: t.as_bytes(), i: 0, depth: 0, lenient: true, exact: false };
    match rd.value() { Ok(_) => { rd.ws(); rd.i == rd.b.len() } Err(()) => false }
}

#[derive(Clone, Debug, PartialEq)]
pub enum Outcome { Blank, Unparsable, Parsed(J) }

/// what a line is, decided without serde_json (except the value of non-integer number tokens)
fn classify(line: &str) -> Outcome {
    let t = line.trim();
    if t.is_empty() { return Outcome::Blank; }
    let mut rd = Reader { b: t.as_bytes(), i: 0, depth: 0, lenient: false, exact: false };
    match rd.value() {
        Ok(j) => { rd.ws(); if rd.i == rd.b.len() { Outcome::Parsed(j) } else { Outcome::Unparsable } }
        Err(()) => Outcome::Unparsable,
    }
}

fn coq_outcome(o: &Outcome) -> String {
    match o {
        Outcome::Blank => "Blank".into(),
        Outcome::Unparsable => "Unparsable".into(),
        Outcome::Parsed(j) => format!("(Parsed ({}))", coq_j(j)),
    }
}

// ------------------------------------------------------------------ generators
const METHODS: &[&str] = &["set_mode", "set_quality", "set_stall_deselect", "set_conn_timeout", "get_status", "get_stats"];
const SUB_METHODS: &[&str] = &["subscribe", "unsubscribe", "get_subscription_count"];
const ODD_METHODS: &[&str] = &["", "noop", "set_mode ", "Set_mode", "SET_MODE", "set-mode", "setmode", "get_statu", "get_status2", "stats",
    "mark_critical", "set_conn_timeout_ms", "subscribe ", "unsubscribe_all", "rpc.discover", "\u{e9}t\u{e9}", "a\"b", "x/y\\z", "\u{1f600}"];

struct Gen { w: Writer, tmo_pool: Vec<i128> }

impl Gen {
    fn new(run: &mut Run) -> Gen {
        let (lo, hi) = (CONN_TIMEOUT_MS_MIN as i128, CONN_TIMEOUT_MS_MAX as i128);
        let mut tmo_pool = vec![0, 1, 2, 500, 999, 1000, 1001, 1500, 4999, 5000, 5001, 15000, 30000, 59999, 60000, 60001, 65535, 65536, 100000,
            (1 << 31) - 1, 1 << 31, 1 << 32, (1 << 53) + 1, (1 << 63) - 1, 1 << 63, (1i128 << 64) - 1, -1, -1000, -(1i128 << 63)];
        for c in [lo, hi] { for d in [-1, 0, 1] { tmo_pool.push(c + d); } }
        Gen { w: Writer::new(run), tmo_pool }
    }
    fn float(&self, r: &mut Rng) -> J { J::Float(r.pick(&self.w.floats).1) }
    fn short_str(&self, r: &mut Rng) -> String {
        const POOL: &[&str] = &["", "a", "abc", "classic", "enhanced", "stats", "priority.window", "2.0", "id", "ms", "mode", "enabled", "sub-0", "sub-1",
            "x y", "a\"b", "back\\slash", "sl/ash", "\u{e9}", "\u{4e2d}\u{6587}", "\u{1f600}", "null", "true", "0", "Classic", "classic ", "{}", "[1]"];
        r.pick(POOL).to_string()
    }
    fn scalar(&self, r: &mut Rng) -> J {
        match r.below(8) {
            0 => J::Null,
            1 => J::Bool(r.chance(1, 2)),
            2 => J::Int(r.range(-5, 100) as i128),
            3 => J::Int(*r.pick(&self.tmo_pool)),
            4 => self.float(r),
            _ => J::Str(self.short_str(r)),
        }
    }
    /// any JSON shape
    fn any(&self, r: &mut Rng, depth: u32) -> J {
        if depth == 0 || r.chance(3, 5) { return self.scalar(r); }
        if r.chance(1, 2) {
            J::Arr((0..r.below(4)).map(|_| self.any(r, depth - 1)).collect())
        } else {
            let n = r.below(4);
            let mut m: Vec<(String, J)> = vec![];
            for _ in 0..n {
                let k = if r.chance(1, 4) && !m.is_empty() { m[r.below(m.len() as u64) as usize].0.clone() } // duplicate key
                        else if r.chance(1, 3) { r.pick(&["ms", "mode", "enabled", "topic", "subscription_id", "id", "jsonrpc", "method", "params"]).to_string() }
                        else { self.short_str(r) };
                m.push((k, self.any(r, depth - 1)));
            }
            J::Obj(m)
        }
    }
    fn nest(&self, n: usize, obj_every: usize) -> J {
        let mut j = J::Arr(vec![]);
        for k in 1..n { j = if obj_every > 0 && k % obj_every == 0 { J::Obj(vec![("k".into(), j)]) } else { J::Arr(vec![j]) }; }
        j
    }
    /// wrap a value into `{key: v}` with optional noise members / duplicates / wrong containers
    fn params_for(&self, r: &mut Rng, key: &str, good: J) -> J {
        match r.below(20) {
            0 => J::Null,
            1 => J::Obj(vec![]),
            2 => J::Arr(vec![good]),
            3 => good,
            4 => obj(vec![(key, good.clone()), (key, self.any(r, 1))]),            // last duplicate wins
            5 => obj(vec![(key, self.any(r, 1)), (key, good)]),
            6 => obj(vec![("zz", self.any(r, 2)), (key, good), ("aa", self.scalar(r))]),
            7 => obj(vec![(&key.to_uppercase(), good)]),
            8 => obj(vec![(&format!("{} ", key), good)]),
            9 => obj(vec![("params", obj(vec![(key, good)]))]),
            _ => obj(vec![(key, good)]),
        }
    }
    /// a long name (30..300 bytes) mixing ASCII with 2-, 3- and 4-byte characters at irregular offsets: whatever
    /// byte length an implementation clips, pads or indexes at, some of these have a character straddling it
    fn long_str(&self, r: &mut Rng) -> String {
        let target = *r.pick(&[30usize, 60, 62, 63, 64, 65, 66, 100, 127, 128, 129, 255, 256, 257, 300]);
        let mut out = String::new();
        // an ASCII run of random length first, so that every offset modulo the character width occurs
        for _ in 0..r.below(5) { out.push(*r.pick(&['a', 'x', '_', '0'])); }
        while out.len() < target {
            match r.below(6) {
                0 | 1 => out.push(*r.pick(&['s', 'e', 't', '_', 'm', 'o', 'd'])),
                2 => out.push('\u{e9}'),
                3 => out.push('\u{4e2d}'),
                4 => out.push('\u{1f600}'),
                _ => { for _ in 0..r.below(7) { out.push('q'); } }
            }
        }
        out
    }
    fn method_and_params(&self, r: &mut Rng) -> (String, Option<J>) {
        let m = match r.below(20) {
            0..=13 => r.pick(METHODS).to_string(),
            14..=16 => r.pick(SUB_METHODS).to_string(),
            17 => if r.chance(1, 2) { self.long_str(r) } else { r.pick(ODD_METHODS).to_string() },
            _ => r.pick(ODD_METHODS).to_string(),
        };
        let p = match m.as_str() {
            "set_mode" => {
                let v = match r.below(10) { 0..=5 => s(r.pick(&["classic", "enhanced"])), 6 => if r.chance(1, 3) { s(&self.long_str(r)) } else { s(&self.short_str(r)) }, 7 => s(r.pick(&["Classic", "ENHANCED", "classic ", " enhanced", "", "0", "1"])), _ => self.scalar(r) };
                Some(self.params_for(r, "mode", v))
            }
            "set_quality" | "set_stall_deselect" => {
                let v = match r.below(10) { 0..=6 => J::Bool(r.chance(1, 2)), 7 => s(r.pick(&["true", "false"])), 8 => J::Int(r.range(0, 1) as i128), _ => self.scalar(r) };
                Some(self.params_for(r, "enabled", v))
            }
            "set_conn_timeout" => {
                let v = match r.below(12) { 0..=7 => J::Int(*r.pick(&self.tmo_pool)), 8 => J::Int(r.range(0, 70000) as i128), 9 => self.float(r), 10 => s(r.pick(&["5000", "1000", ""])), _ => self.scalar(r) };
                Some(self.params_for(r, "ms", v))
            }
            "subscribe" => {
                let v = match r.below(8) { 0..=4 => s(r.pick(&["stats", "priority.window"])), 5 => if r.chance(1, 3) { s(&self.long_str(r)) } else { s(r.pick(&["stat", "Stats", "priority", "priority.window ", ""])) }, _ => self.scalar(r) };
                Some(self.params_for(r, "topic", v))
            }
            "unsubscribe" => {
                let v = match r.below(8) { 0..=4 => s(&format!("sub-{}", r.below(5))), 5 => if r.chance(1, 3) { s(&self.long_str(r)) } else { s(r.pick(&["sub-", "sub-00", "sub-0 ", "0", ""])) }, _ => self.scalar(r) };
                Some(self.params_for(r, "subscription_id", v))
            }
            _ => match r.below(6) { 0 => Some(self.any(r, 2)), 1 => Some(J::Null), 2 => Some(J::Obj(vec![])), _ => None },
        };
        let p = if r.chance(1, 12) { None } else { p };
        (m, p)
    }
    fn id(&self, r: &mut Rng) -> Option<J> {
        match r.below(24) {
            0..=3 => None,
            4 => Some(J::Null),
            5..=11 => Some(J::Int(r.range(0, 1000) as i128)),
            12 => Some(J::Int(*r.pick(&self.tmo_pool))),
            13..=15 => Some(J::Str(self.short_str(r))),
            16 => Some(self.float(r)),
            17 => Some(J::Bool(r.chance(1, 2))),
            18 => Some(J::Int(0)),
            19 => Some(J::Arr(vec![])),
            20 => Some(obj(vec![("b", J::Int(1)), ("a", J::Int(2)), ("b", J::Int(3))])),
            _ => Some(self.any(r, 2)),
        }
    }
    fn version(&self, r: &mut Rng) -> J {
        match r.below(16) {
            0 => s(r.pick(&["1.0", "2", "2.00", "", "2.0 ", " 2.0", "3.0", "2.1"])),
            1 => match r.below(3) { 0 => J::Float(2.0f64.to_bits()).pool_or(&self.w, J::Int(2)), 1 => J::Int(2), _ => J::Null },
            _ => s("2.0"),
        }
    }
    /// a request-like tree (object or positional array), mostly well-formed
    fn request(&self, r: &mut Rng) -> J {
        let (m, p) = self.method_and_params(r);
        let id = self.id(r);
        let ver = self.version(r);
        let meth = if r.chance(1, 30) { self.scalar(r) } else { J::Str(m) };
        if r.chance(1, 10) {
            // positional form: [jsonrpc, method, params?, id?, extra?]
            let mut l = vec![ver, meth];
            let n = r.below(10);
            if n >= 1 { l.push(p.clone().unwrap_or(J::Null)); }
            if n >= 2 { l.push(id.clone().unwrap_or(J::Null)); }
            if n == 9 { l.push(self.scalar(r)); }
            if r.chance(1, 12) { l.truncate(r.below(2) as usize); }
            return J::Arr(l);
        }
        let mut mem: Vec<(String, J)> = vec![];
        if !r.chance(1, 30) { mem.push(("jsonrpc".into(), ver.clone())); }
        if !r.chance(1, 30) { mem.push(("method".into(), meth.clone())); }
        if let Some(p) = &p { mem.push(("params".into(), p.clone())); }
        if let Some(i) = &id { mem.push(("id".into(), i.clone())); }
        // unknown members, duplicates of known members
        if r.chance(1, 8) { mem.push((r.pick(&["extra", "Jsonrpc", "ID", "method ", "param", "x"]).to_string(), self.any(r, 2))); }
        if r.chance(1, 25) {
            let k = *r.pick(&["jsonrpc", "method", "params", "id", "extra"]);
            let v = match k { "jsonrpc" => ver, "method" => meth, "id" => if r.chance(1, 2) { J::Null } else { J::Int(1) }, _ => self.any(r, 1) };
            mem.push((k.to_string(), v));
            if k == "extra" { mem.push((k.to_string(), self.scalar(r))); }
        }
        // key order is free
        for i in (1..mem.len()).rev() { let j = r.below(i as u64 + 1) as usize; mem.swap(i, j); }
        J::Obj(mem)
    }
    fn simple_request(&self, m: &str, p: Option<J>, id: Option<J>) -> J {
        let mut mem = vec![("jsonrpc", s("2.0")), ("method", s(m))];
        if let Some(p) = p { mem.push(("params", p)); }
        if let Some(i) = id { mem.push(("id", i)); }
        obj(mem)
    }
    /// nesting depth around the serde_json recursion limit, in params / id / an unknown member / positional
    fn deep(&self, r: &mut Rng) -> J {
        let n = *r.pick(&[120usize, 125, 126, 127, 128, 129, 140]);
        let v = self.nest(n, *r.pick(&[0usize, 0, 2, 5]));
        match r.below(5) {
            0 => self.simple_request("get_status", Some(v), Some(J::Int(1))),
            1 => self.simple_request("get_status", None, Some(v)),
            2 => obj(vec![("jsonrpc", s("2.0")), ("zzz", v), ("method", s("get_status")), ("id", J::Int(2))]),
            3 => J::Arr(vec![s("2.0"), s("get_status"), v, J::Int(3)]),
            _ => J::Arr(vec![s("2.0"), s("set_quality"), obj(vec![("enabled", J::Bool(false))]), v]),
        }
    }
    fn garbage(&self, r: &mut Rng) -> String {
        match r.below(10) {
            0 => { let n = r.range(1, 24) as usize; String::from_utf8_lossy(&r.bytes(n)).to_string() }
            1 => (0..r.range(1, 16)).map(|_| *r.pick(&['{', '}', '[', ']', '"', ':', ',', ' ', '1', 'a', 'n', 't', '\\', '-', '.', 'e'])).collect(),
            2 => r.pick(&["not valid json", "{", "}", "[", "nul", "tru", "\"abc", "{\"jsonrpc\":\"2.0\"", "{\"a\":}", "[1,]", "{,}", "01", "1.", "-", "+1", ".5", "1e", "0x10",
                "'a'", "{'a':1}", "NaN", "Infinity", "\"\\x\"", "\"\\ud800\"", "\"\\udc00\"", "\"\\ud800\\u0041\"", "[1 2]", "{\"a\" 1}", "{\"a\":1,}", "1e999", "-1e999", "\u{feff}{}", "\u{200b}",
                "{\"jsonrpc\":\"2.0\",\"method\":\"get_status\",\"id\":1} x", "{\"jsonrpc\":\"2.0\",\"method\":\"get_status\",\"id\":1}{}", "/* c */ 1", "// c", "\"tab\there\""]).to_string(),
            _ => {
                // a valid request line, damaged
                let j = self.request(r);
                let mut t: Vec<char> = self.w.line(r, &j).chars().collect();
                for _ in 0..r.range(1, 2) {
                    if t.is_empty() { break; }
                    let i = r.below(t.len() as u64) as usize;
                    match r.below(5) {
                        0 => { t.remove(i); }
                        1 => { t.insert(i, *r.pick(&['"', '{', '}', ',', ':', '\\', 'x', '0', ' ', ']'])); }
                        2 => { t[i] = *r.pick(&['"', '{', '}', ',', ':', '\\', 'x', '0', ' ', '[']); }
                        3 => { t.truncate(i); }
                        _ => { let c = t[i]; t.insert(i, c); }
                    }
                }
                t.into_iter().collect()
            }
        }
    }
    fn blank(&self, r: &mut Rng) -> String {
        r.pick(&["", " ", "   ", "\t", "\r", " \t \r", "\u{a0}", "\u{2003}\u{a0} ", "\u{3000}", "\u{85}", "\u{2028}"]).to_string()
    }
}

trait PoolOr { fn pool_or(self, w: &Writer, alt: J) -> J; }
impl PoolOr for J {
    fn pool_or(self, w: &Writer, alt: J) -> J {
        match &self { J::Float(b) if !w.floats.iter().any(|(_, x)| x == b) => alt, _ => self }
    }
}

// ------------------------------------------------------------------ driving the real code
#[derive(Clone)]
enum Init { New, Cli(bool, bool, bool, i32, u64, u64) } // classic?, no_quality, no_stall, mif, stale, timeout

fn build(i: &Init) -> DynamicConfig {
    match i {
        Init::New => DynamicConfig::new(),
        Init::Cli(c, nq, ns, mif, st, t) => DynamicConfig::from_cli(
            if *c { SchedulingMode::Classic } else { SchedulingMode::Enhanced }, *nq, *ns, *mif, *st, *t),
    }
}
fn coq_init(i: &Init) -> String {
    match i {
        Init::New => "INew".into(),
        Init::Cli(c, nq, ns, mif, st, t) => format!("(ICli {} {} {} {} {} {})", if *c { "Classic" } else { "Enhanced" },
            boolc(*nq), boolc(*ns), z(*mif as i128), z(*st as i128), z(*t as i128)),
    }
}
fn coq_snap(s: &ConfigSnapshot) -> String {
    format!("(Cfg {} {} {} {} {} {})", if s.mode.is_classic() { "Classic" } else { "Enhanced" }, boolc(s.quality_enabled),
        boolc(s.stall_deselect), z(s.stall_min_in_flight as i128), z(s.stall_ack_stale_ms as i128), z(s.conn_timeout_ms as i128))
}

struct Obs1 { panic: bool, resp: Option<J>, snap: ConfigSnapshot }
fn coq_obs1(o: &Obs1) -> String { format!("(O1 {} {} {})", boolc(o.panic), coq_oj(&o.resp), coq_snap(&o.snap)) }

/// objects in byte order of their keys, last duplicate wins (what a serde_json `Value` map gives)
fn key_order(j: &mut J) {
    match j {
        J::Arr(l) => l.iter_mut().for_each(key_order),
        J::Obj(m) => {
            let mut out: Vec<(String, J)> = vec![];
            for (k, mut v) in m.drain(..) {
                key_order(&mut v);
                if let Some(e) = out.iter_mut().find(|(k2, _)| *k2 == k) { e.1 = v; } else { out.push((k, v)); }
            }
            out.sort_by(|a, b| a.0.as_bytes().cmp(b.0.as_bytes()));
            *m = out;
        }
        _ => {}
    }
}

/// a response line -> tree.  Read with the harness's own strict reader and the standard library's
/// correctly rounded float parser: the text was written by serde_json's shortest-round-trip printer,
/// and serde_json's own default reader does not always read that back exactly (1 ulp), which made
/// an echoed fractional/huge numeric id look different from the id of the request (false alarm
/// found with VERIF_SEED=3).  serde_json must still accept the line.
fn resp_tree(line: Option<String>) -> Option<J> {
    line.map(|t| {
        if serde_json::from_str::<Value>(&t).is_err() { return J::Str("<response is not JSON>".into()); }
        let mut rd = Reader { b: t.trim().as_bytes(), i: 0, depth: 0, lenient: false, exact: true };
        match rd.value() {
            Ok(mut j) => { rd.ws(); if rd.i != rd.b.len() { return J::Str("<response is not JSON>".into()); }
                           key_order(&mut j); digest_error_strings(&mut j); j }
            Err(()) => J::Str("<response is not JSON>".into()),
        }
    })
}

struct Line { text: String, outcome: Outcome, stats: bool, cw: bool, bump_w: u32, bump_m: u32 }

struct Driver { rt: tokio::runtime::Runtime }

impl Driver {
    fn new() -> Driver {
        Driver { rt: tokio::runtime::Builder::new_current_thread().enable_all().build().expect("tokio runtime") }
    }

    /// run one history on the real code; returns the Coq case text
    fn sequential(&self, run: &mut Run, init: &Init, ctx_on: bool, lines: &[Line]) -> String {
        let built = catch(AssertUnwindSafe(|| (build(init), build(init))));
        let (cfg_s, cfg_a) = match built {
            Some(p) => p,
            None => {
                run.panics += 1;
                return format!("CSeq {} {} [] None []", coq_init(init), boolc(ctx_on));
            }
        };
        let snap0 = cfg_s.snapshot();
        let stats = SharedStats::new();
        let cw = CriticalWindow::new();
        let hub = SubscriptionHub::new();
        let (push_tx, _push_rx) = tokio::sync::mpsc::channel::<String>(128);
        let mut owned: Vec<String> = vec![];
        let mut ops = String::from("[");
        let mut imp = String::from("[");
        for (k, l) in lines.iter().enumerate() {
            for _ in 0..l.bump_w { cw.extend_to(1); }
            for _ in 0..l.bump_m { cw.record_malformed(); }
            let st_opt = if l.stats { Some(&stats) } else { None };
            let cw_opt = if l.cw { Some(&cw) } else { None };
            // oracle inputs of this call, observed from the real objects
            let st_lit = if l.stats {
                stats.update(&[], &cfg_s.snapshot(), None, None);
                match serde_json::from_str::<Value>(&stats.to_json()) {
                    Ok(v) => format!("(StatsOk ({}))", coq_j(&from_value(&v))),
                    Err(_) => "StatsBad".to_string(),
                }
            } else { "NoStats".to_string() };
            let cw_lit = if l.cw { format!("(Some ({},{}))", cw.windows_received(), cw.malformed_datagrams()) } else { "None".to_string() };

            let rs = catch(AssertUnwindSafe(|| dispatch(&cfg_s, st_opt, cw_opt, &l.text).map(|r| r.to_json())));
            if std::env::var("VERIF_C18_LINES").is_ok() { eprintln!("LINE {:?} -> {:?}", l.text, rs); }
            let ra = catch(AssertUnwindSafe(|| {
                self.rt.block_on(async {
                    if ctx_on {
                        let mut ctx = SubscriptionContext { hub: &hub, push_tx: push_tx.clone(), owned_ids: &mut owned };
                        dispatch_async(&cfg_a, st_opt, cw_opt, Some(&mut ctx), &l.text).await.map(|r| r.to_json())
                    } else {
                        dispatch_async(&cfg_a, st_opt, cw_opt, None, &l.text).await.map(|r| r.to_json())
                    }
                })
            }));
            let os = Obs1 { panic: rs.is_none(), resp: resp_tree(rs.clone().flatten()), snap: cfg_s.snapshot() };
            let oa = Obs1 { panic: ra.is_none(), resp: resp_tree(ra.clone().flatten()), snap: cfg_a.snapshot() };
            if os.panic { run.panics += 1; }
            if oa.panic { run.panics += 1; }
            tally(run, "stdin", &os);
            tally(run, "socket", &oa);
            if k > 0 { ops.push(';'); imp.push(';'); }
            ops.push_str(&format!("Op (Env {} {}) {}", st_lit, cw_lit, coq_outcome(&l.outcome)));
            let (ls, la) = (coq_obs1(&os), coq_obs1(&oa));
            if ls == la { imp.push_str(&format!("Same {}", ls)); } else { imp.push_str(&format!("Ob2 {} {}", ls, la)); }
        }
        ops.push(']');
        imp.push(']');
        format!("CSeq {} {} {} (Some {}) {}", coq_init(init), boolc(ctx_on), ops, coq_snap(&snap0), imp)
    }
}

/// several threads dispatch their programs on ONE shared configuration while readers snapshot it
fn concurrent(run: &mut Run, init: &Init, progs: &[Vec<(String, Outcome)>], readers: usize) -> String {
    use std::sync::{Arc, Barrier, Mutex};
    use std::sync::atomic::{AtomicBool, AtomicUsize, Ordering};
    let cfg = build(init);
    let snap0 = cfg.snapshot();
    let n = progs.len();
    let barrier = Arc::new(Barrier::new(n + readers));
    let done = Arc::new(AtomicUsize::new(0));
    let panicked = Arc::new(AtomicBool::new(false));
    let seen: Arc<Mutex<Vec<String>>> = Arc::new(Mutex::new(vec![]));
    let mut resps: Vec<Vec<Option<J>>> = vec![vec![]; n];
    std::thread::scope(|sc| {
        let mut handles = vec![];
        for p in progs.iter() {
            let cfg = cfg.clone();
            let barrier = barrier.clone();
            let done = done.clone();
            let panicked = panicked.clone();
            handles.push(sc.spawn(move || {
                barrier.wait();
                let mut out = vec![];
                for (text, _) in p.iter() {
                    let r = catch(AssertUnwindSafe(|| dispatch(&cfg, None, None, text).map(|r| r.to_json())));
                    if r.is_none() { panicked.store(true, Ordering::SeqCst); }
                    out.push(resp_tree(r.flatten()));
                    if out.len() % 3 == 0 { std::thread::yield_now(); }
                }
                done.fetch_add(1, Ordering::SeqCst);
                out
            }));
        }
        for _ in 0..readers {
            let cfg = cfg.clone();
            let barrier = barrier.clone();
            let done = done.clone();
            let seen = seen.clone();
            sc.spawn(move || {
                barrier.wait();
                let mut local: Vec<String> = vec![];
                let mut spins = 0u32;
                while done.load(Ordering::SeqCst) < n || spins < 50 {
                    let l = coq_snap(&cfg.snapshot());
                    if !local.contains(&l) { local.push(l); }
                    spins += 1;
                    if spins > 200_000 { break; }
                }
                let mut g = seen.lock().unwrap();
                for l in local { if !g.contains(&l) { g.push(l); } }
            });
        }
        for (k, h) in handles.into_iter().enumerate() {
            match h.join() { Ok(v) => resps[k] = v, Err(_) => panicked.store(true, Ordering::SeqCst) }
        }
    });
    let fin = cfg.snapshot();
    if panicked.load(Ordering::SeqCst) { run.panics += 1; }
    let seen = seen.lock().unwrap();
    run.count_n("conc:distinct_snapshots_seen", seen.len() as u64);
    let progs_lit = format!("[{}]", progs.iter().map(|p| format!("[{}]", p.iter().map(|(_, o)| coq_outcome(o)).collect::<Vec<_>>().join(";"))).collect::<Vec<_>>().join(";"));
    let resps_lit = format!("[{}]", resps.iter().map(|p| format!("[{}]", p.iter().map(coq_oj).collect::<Vec<_>>().join(";"))).collect::<Vec<_>>().join(";"));
    format!("CConc {} {} {} {} {} [{}] {}", coq_init(init), coq_snap(&snap0), progs_lit, resps_lit,
        boolc(panicked.load(Ordering::SeqCst)), seen.join(";"), coq_snap(&fin))
}

/// Race case: three clients, each the ONLY writer of one setting (quality / mode / stall guard),
/// set it `rounds` times through the real dispatcher and after every acknowledged set read it
/// back through `get_status` and `snapshot()`.  A set that its own client cannot see is counted.
fn race_case(rounds: usize) -> String {
    use std::sync::{Arc, Barrier};
    let cfg = DynamicConfig::new();
    let barrier = Arc::new(Barrier::new(3));
    let mut lost = vec![0u64; 3];
    let mut bad_ack = vec![0u64; 3];
    std::thread::scope(|sc| {
        let mut hs = vec![];
        for k in 0..3usize {
            let cfg = cfg.clone();
            let barrier = barrier.clone();
            hs.push(sc.spawn(move || {
                let mut lost = 0u64;
                let mut bad = 0u64;
                barrier.wait();
                for i in 0..rounds {
                    let v = (i + k) % 2 == 0;
                    let line = match k {
                        0 => format!(r#"{{"jsonrpc":"2.0","id":{},"method":"set_quality","params":{{"enabled":{}}}}}"#, i, v),
                        1 => format!(r#"{{"jsonrpc":"2.0","id":{},"method":"set_mode","params":{{"mode":"{}"}}}}"#, i, if v { "classic" } else { "enhanced" }),
                        _ => format!(r#"{{"jsonrpc":"2.0","id":{},"method":"set_stall_deselect","params":{{"enabled":{}}}}}"#, i, v),
                    };
                    let ack: Option<serde_json::Value> = dispatch(&cfg, None, None, &line).and_then(|r| serde_json::from_str(&r.to_json()).ok());
                    let acked = ack.as_ref().map(|j| j.get("result").is_some()).unwrap_or(false);
                    if !acked { bad += 1; continue; }
                    let st: Option<serde_json::Value> = dispatch(&cfg, None, None, r#"{"jsonrpc":"2.0","id":1,"method":"get_status"}"#).and_then(|r| serde_json::from_str(&r.to_json()).ok());
                    let res = st.as_ref().and_then(|j| j.get("result")).cloned().unwrap_or(serde_json::Value::Null);
                    let snap = cfg.snapshot();
                    let (seen_status, seen_snap) = match k {
                        0 => (res.get("quality_enabled").and_then(|x| x.as_bool()), snap.quality_enabled),
                        1 => (res.get("mode").and_then(|x| x.as_str()).map(|m| m == "classic"), snap.mode.is_classic()),
                        _ => (res.get("stall_deselect").and_then(|x| x.as_bool()), snap.stall_deselect),
                    };
                    if seen_status != Some(v) || seen_snap != v { lost += 1; }
                }
                (lost, bad)
            }));
        }
        for (k, h) in hs.into_iter().enumerate() {
            if let Ok((l, b)) = h.join() { lost[k] = l; bad_ack[k] = b; } else { bad_ack[k] = u64::MAX >> 1; }
        }
    });
    format!("CRace {} {} {}", rounds, zlist(lost.iter().map(|&v| v as i128)), zlist(bad_ack.iter().map(|&v| v as i128)))
}

fn tally(run: &mut Run, who: &str, o: &Obs1) {
    let key = match &o.resp {
        None => if o.panic { "panic".to_string() } else { "no_response".to_string() },
        Some(J::Obj(m)) => {
            if m.iter().any(|(k, _)| k == "result") { "result".to_string() }
            else {
                let code = m.iter().find(|(k, _)| k == "error").and_then(|(_, e)| match e { J::Obj(em) => em.iter().find(|(k, _)| k == "code").map(|(_, c)| c.clone()), _ => None });
                match code { Some(J::Int(c)) => format!("error{}", c), _ => "malformed".to_string() }
            }
        }
        Some(_) => "malformed".to_string(),
    };
    run.count(&format!("{}:{}", who, key));
}

fn gen_init(r: &mut Rng, tmo_pool: &[i128]) -> Init {
    if r.chance(1, 2) { return Init::New; }
    let t = loop { let v = *r.pick(tmo_pool); if v >= 0 && v < (1i128 << 64) { break v as u64; } };
    Init::Cli(r.chance(1, 2), r.chance(1, 2), r.chance(1, 2),
        *r.pick(&[32i32, 0, 1, -1, i32::MAX, i32::MIN, 64]), *r.pick(&[3000u64, 0, 1, 1000, u64::MAX, 250]), t)
}

fn make_line(g: &Gen, r: &mut Rng, run: &mut Run, kind: u64) -> Line {
    // kind: 0 request-like tree, 1 any JSON, 2 deep, 3 garbage, 4 blank
    let (text, outcome) = loop {
        match kind {
            0 | 1 | 2 => {
                let j = match kind { 0 => g.request(r), 1 => g.any(r, 3), _ => g.deep(r) };
                let text = g.w.line(r, &j);
                // self-test of the writer against the independent reader (a harness bug, never the code under test)
                if kind != 2 {
                    let c = classify(&text);
                    if c != Outcome::Parsed(j.clone()) {
                        eprintln!("harness self-test failed: writer/reader disagree on {:?}: {:?}", text, c);
                        std::process::exit(3);
                    }
                }
                break (text, Outcome::Parsed(j));
            }
            3 => {
                let t = g.garbage(r);
                let c = classify(&t);
                if let Outcome::Parsed(j) = &c { if !tree_printable(j) { continue; } run.count("garbage:valid_json"); }
                if c == Outcome::Unparsable && grammar_only_valid(&t) { run.count("garbage:skipped_grammar_only_valid"); continue; }
                if c == Outcome::Unparsable { run.count("garbage:unparsable"); }
                if std::env::var("VERIF_C18_DEBUG").is_ok() && c == Outcome::Unparsable {
                    let cfg = DynamicConfig::new();
                    if let Some(resp) = dispatch(&cfg, None, None, &t) {
                        let js = resp.to_json();
                        if !js.contains("-32700") { eprintln!("DEBUG strict-reader/serde disagreement: {:?} -> {}", t, js); }
                    }
                }
                break (t, c);
            }
            _ => { let t = g.blank(r); let c = classify(&t); break (t, c); }
        }
    };
    Line { text, outcome, stats: r.chance(1, 4), cw: r.chance(1, 2), bump_w: if r.chance(1, 6) { r.below(3) as u32 } else { 0 }, bump_m: if r.chance(1, 8) { 1 } else { 0 } }
}


// ------------------------------------------------------------------ the real Unix control socket
/// One socket case: the same non-subscription lines go (a) to the stdin dispatcher one by one on a twin
/// configuration and (b) to a LIVE `control_socket` listener, written in a few arbitrary chunks (several
/// lines per write, writes ending mid-line).  Returns the `CSock` literal.
fn socket_case(g: &Gen, r: &mut Rng, run: &mut Run, rt: &tokio::runtime::Runtime, k: usize) -> Option<String> {
    use std::io::{Read, Write};
    use std::time::{Duration, Instant};
    let init = gen_init(r, &g.tmo_pool);
    let (cfg_std, cfg_sock) = (catch(AssertUnwindSafe(|| build(&init)))?, catch(AssertUnwindSafe(|| build(&init)))?);
    let mut texts: Vec<String> = vec![];
    let n = r.range(2, 9) as usize;
    while texts.len() < n {
        let kind = match r.below(100) { 0..=79 => 0, 80..=89 => 3, _ => 4 };
        let l = make_line(g, r, run, kind);
        let t = l.text.replace('\n', " ");
        // subscription methods and get_stats are outside the "answer identically" clause; the method name may
        // be written with escapes, so the decoded tree is searched, not the text
        fn mentions(j: &J) -> bool {
            match j {
                J::Str(x) => x.contains("subscri") || x.contains("get_stats"),
                J::Arr(l) => l.iter().any(mentions),
                J::Obj(m) => m.iter().any(|(k, v)| k.contains("subscri") || k.contains("get_stats") || mentions(v)),
                _ => false,
            }
        }
        if let Outcome::Parsed(j) = &l.outcome { if mentions(j) { continue; } }
        if t.contains("subscri") || t.contains("get_stats") || t.len() > 1500 { continue; }
        texts.push(t);
    }
    texts.push(r#"{"jsonrpc":"2.0","id":"end-of-case","method":"get_status"}"#.to_string());
    // (a) stdin entry
    let (stats_a, cw_a) = (SharedStats::new(), CriticalWindow::new());
    let mut want: Vec<J> = vec![];
    for t in &texts {
        let resp = catch(AssertUnwindSafe(|| dispatch(&cfg_std, Some(&stats_a), Some(&cw_a), t).map(|x| x.to_json())))?;
        if let Some(j) = resp_tree(resp) { want.push(j); }
    }
    // (b) socket entry
    let path = run.out.join(format!("s{}.sock", k));
    let _ = std::fs::remove_file(&path);
    let task = {
        let _g = rt.enter();
        srtla_send::control_socket::spawn(path.to_string_lossy().into_owned(), cfg_sock.clone(), SharedStats::new(),
                                          CriticalWindow::new(), SubscriptionHub::new())
    };
    let mut stream = None;
    for _ in 0..2000 {
        if let Ok(st) = std::os::unix::net::UnixStream::connect(&path) { stream = Some(st); break; }
        std::thread::sleep(Duration::from_millis(5));
    }
    let mut got: Vec<J> = vec![];
    if let Some(mut st) = stream {
        let all = format!("{}\n", texts.join("\n")).into_bytes();
        let mut cuts: Vec<usize> = (0..r.below(4)).map(|_| r.below(all.len() as u64 + 1) as usize).collect();
        cuts.push(all.len());
        cuts.sort();
        let mut at = 0;
        for c in cuts {
            if c > at { let _ = st.write_all(&all[at..c]); let _ = st.flush(); at = c; std::thread::sleep(Duration::from_millis(2)); }
        }
        run.count_n("socket:lines_written", texts.len() as u64);
        let _ = st.set_read_timeout(Some(Duration::from_millis(50)));
        let mut buf: Vec<u8> = vec![];
        let mut tmp = [0u8; 4096];
        let t0 = Instant::now();
        let mut quiet_since = Instant::now();
        loop {
            match st.read(&mut tmp) {
                Ok(0) => break,
                Ok(m) => { buf.extend_from_slice(&tmp[..m]); quiet_since = Instant::now(); }
                Err(_) => {}
            }
            let have = buf.iter().filter(|b| **b == b'\n').count();
            // all expected answers are in and the line has been quiet for a moment, or the server stays silent
            if have >= want.len() && quiet_since.elapsed() > Duration::from_millis(60) { break; }
            if quiet_since.elapsed() > Duration::from_millis(4000) || t0.elapsed() > Duration::from_secs(20) { break; }
        }
        for line in String::from_utf8_lossy(&buf).split('\n') {
            if line.trim().is_empty() { continue; }
            if let Some(j) = resp_tree(Some(line.to_string())) { got.push(j); }
        }
    } else {
        // a loaded machine may not schedule the listener task in time: no observation, no verdict
        run.note("control socket never came up; case skipped".into());
        task.abort();
        let _ = std::fs::remove_file(&path);
        return None;
    }
    task.abort();
    let _ = std::fs::remove_file(&path);
    let same = coq_snap(&cfg_std.snapshot()) == coq_snap(&cfg_sock.snapshot());
    if got.len() != want.len() { run.count("socket:response_count_differs"); }
    Some(format!("CSock [{}] [{}] {}", want.iter().map(coq_j).collect::<Vec<_>>().join(";"),
                 got.iter().map(coq_j).collect::<Vec<_>>().join(";"), boolc(same)))
}

fn pick_kind(r: &mut Rng) -> u64 {
    match r.below(100) { 0..=64 => 0, 65..=76 => 1, 77..=79 => 2, 80..=95 => 3, _ => 4 }
}

pub fn run(seed: u64, tier: &str, out: &Path, _extra: &[(String, String)]) -> std::io::Result<()> {
    let mut run = Run::new("C18", "Run_C18", seed, tier, out);
    let mut rng = Rng::new(seed ^ 0xC18);
    let g = Gen::new(&mut run);
    let d = Driver::new();
    let scale = if run.thorough() { 10 } else { 1 };

    // (0) regression / witness lines that every run replays
    {
        let fixed: Vec<&str> = vec![
            r#"["2.0","get_status",null,7]"#, r#"["2.0","get_status"]"#, r#"["2.0"]"#, r#"[]"#, r#"["2.0","get_status",null,7,8]"#,
            r#"{"jsonrpc":"2.0","method":"get_status","id":null}"#, r#"{"jsonrpc":"2.0","method":"get_status","id":1,"id":2}"#,
            r#"{"jsonrpc":"2.0","method":"get_status","id":null,"id":null}"#, r#"{"jsonrpc":"2.0","method":"get_status","id":{"b":1,"a":2,"b":3}}"#,
            r#"{"method":"get_status","id":1}"#, r#"{"jsonrpc":"2.0","id":1}"#, r#"{"jsonrpc":"1.0","method":"set_mode","params":{"mode":"classic"}}"#,
            r#"{"jsonrpc":"1.0","id":5,"method":"set_mode","params":{"mode":"classic"}}"#,
            r#"{"jsonrpc":"2.0","method":"set_conn_timeout","id":1,"params":{"ms":5000.0}}"#, r#"{"jsonrpc":"2.0","method":"set_conn_timeout","id":1,"params":{"ms":-0}}"#,
            r#"{"jsonrpc":"2.0","method":"set_conn_timeout","id":1,"params":{"ms":18446744073709551615}}"#,
            r#"{"jsonrpc":"2.0","method":"set_conn_timeout","id":1,"params":{"ms":18446744073709551616}}"#,
            r#"{"jsonrpc":"2.0","method":"set_conn_timeout","id":1,"params":{"ms":1,"ms":2000}}"#, r#"{"jsonrpc":"2.0","method":"set_conn_timeout","params":{"ms":999}}"#,
            r#"{"jsonrpc":"2.0","method":"get_status","id":1}"#, r#"{"jsonrpc":"2.0","method":"get_stats","id":"s"}"#,
            r#"{"jsonrpc":"2.0","method":"subscribe","id":1,"params":{"topic":"stats"}}"#, r#"{"jsonrpc":"2.0","method":"get_subscription_count","id":2}"#,
            r#"{"jsonrpc":"2.0","method":"unsubscribe","id":3,"params":{"subscription_id":"sub-0"}}"#, r#"{"jsonrpc":"2.0","method":"unsubscribe","id":4,"params":{"subscription_id":"sub-0"}}"#,
            "not valid json", "7", "null", "\"abc\"", "", "\u{2003}\u{a0} ", "\u{feff}",
        ];
        for ctx_on in [true, false] {
            let lines: Vec<Line> = fixed.iter().map(|t| Line { text: t.to_string(), outcome: classify(t), stats: false, cw: false, bump_w: 0, bump_m: 0 }).collect();
            let text = d.sequential(&mut run, &Init::New, ctx_on, &lines);
            run.push("fixed", true, text);
        }
    }

    // (a) single lines, each on a fresh configuration
    for _ in 0..(3000 * scale) {
        let kind = pick_kind(&mut rng);
        let l = make_line(&g, &mut rng, &mut run, kind);
        let init = gen_init(&mut rng, &g.tmo_pool);
        let ctx_on = rng.chance(3, 4);
        let nontrivial = matches!(l.outcome, Outcome::Parsed(_));
        let text = d.sequential(&mut run, &init, ctx_on, std::slice::from_ref(&l));
        if run.samples.len() < 4 && (kind == 0 || kind == 3) && l.text.len() < 160 && rng.chance(1, 40) {
            // human-readable sample for the evidence file (re-run on a scratch configuration)
            let scratch = build(&init);
            let r = catch(AssertUnwindSafe(|| dispatch(&scratch, None, None, &l.text).map(|r| r.to_json())));
            run.samples.push(format!("line {:?} on {} => stdin answers {:?}, snapshot then {}", l.text, coq_init(&init), r, coq_snap(&scratch.snapshot())));
        }
        run.push(match kind { 0 => "line:request", 1 => "line:any_json", 2 => "line:deep", 3 => "line:garbage", _ => "line:blank" }, nontrivial, text);
    }

    // (b) histories: mostly setters and status reads, interleaved with everything else
    for _ in 0..(300 * scale) {
        let n = rng.range(4, 40) as usize;
        let init = gen_init(&mut rng, &g.tmo_pool);
        let ctx_on = rng.chance(3, 4);
        let mut lines = vec![];
        for _ in 0..n {
            let l = if rng.chance(1, 3) {
                // a plain status read / well-formed setter, to make "visible in the next status" bite
                let j = match rng.below(6) {
                    0 | 1 => g.simple_request("get_status", None, Some(J::Int(rng.range(1, 99) as i128))),
                    2 => g.simple_request("set_mode", Some(obj(vec![("mode", s(rng.pick(&["classic", "enhanced"])))])), g.id(&mut rng)),
                    3 => g.simple_request("set_quality", Some(obj(vec![("enabled", J::Bool(rng.chance(1, 2)))])), g.id(&mut rng)),
                    4 => g.simple_request("set_stall_deselect", Some(obj(vec![("enabled", J::Bool(rng.chance(1, 2)))])), g.id(&mut rng)),
                    _ => g.simple_request("set_conn_timeout", Some(obj(vec![("ms", J::Int(*rng.pick(&g.tmo_pool)))])), g.id(&mut rng)),
                };
                let text = g.w.line(&mut rng, &j);
                Line { text, outcome: Outcome::Parsed(j), stats: rng.chance(1, 6), cw: rng.chance(1, 2), bump_w: 0, bump_m: 0 }
            } else {
                let kind = pick_kind(&mut rng);
                { let k2 = if kind == 2 && rng.chance(2, 3) { 0 } else { kind }; make_line(&g, &mut rng, &mut run, k2) }
            };
            lines.push(l);
        }
        let text = d.sequential(&mut run, &init, ctx_on, &lines);
        run.count_n("history:lines", n as u64);
        run.push("history", true, text);
    }

    // (c) concurrent setters / status readers / snapshot readers on one shared configuration
    for _ in 0..(40 * scale) {
        let init = gen_init(&mut rng, &g.tmo_pool);
        let nthreads = rng.range(2, 4) as usize;
        // each field is written by a random subset of the threads, so that "own write visible" bites
        let writers: Vec<u64> = (0..4).map(|_| rng.below(1 << nthreads)).collect();
        let mut progs: Vec<Vec<(String, Outcome)>> = vec![];
        for k in 0..nthreads {
            let len = rng.range(6, 24) as usize;
            let mut p = vec![];
            for _ in 0..len {
                let id = if rng.chance(1, 5) { None } else { Some(J::Int(rng.range(1, 999) as i128)) };
                let f = rng.below(7);
                let j = if f < 4 && (writers[f as usize] >> k) & 1 == 1 {
                    match f {
                        0 => g.simple_request("set_mode", Some(obj(vec![("mode", s(rng.pick(&["classic", "enhanced"])))])), id),
                        1 => g.simple_request("set_quality", Some(obj(vec![("enabled", J::Bool(rng.chance(1, 2)))])), id),
                        2 => g.simple_request("set_stall_deselect", Some(obj(vec![("enabled", J::Bool(rng.chance(1, 2)))])), id),
                        _ => g.simple_request("set_conn_timeout", Some(obj(vec![("ms", J::Int(*rng.pick(&g.tmo_pool)))])), id),
                    }
                } else if f == 6 { g.request(&mut rng) } else { g.simple_request("get_status", None, Some(J::Int(rng.range(1, 999) as i128))) };
                // a random request-like line may write any field: keep the writer sets honest by re-classifying below (the
                // monitor derives the writer sets from the programs themselves, not from this table)
                let text = g.w.line(&mut rng, &j);
                p.push((text, Outcome::Parsed(j)));
            }
            progs.push(p);
        }
        let readers = rng.range(1, 2) as usize;
        let text = concurrent(&mut run, &init, &progs, readers);
        run.count_n("conc:threads", nthreads as u64);
        run.push("concurrent", true, text);
    }

    // (d) single-writer-per-field races through the real dispatcher (lost-update detector)
    for k in 0..(6 * scale) {
        let rounds = if k % 2 == 0 { 4000 } else { 800 };
        let text = race_case(rounds);
        run.count_n("race:sets", 3 * rounds as u64);
        run.push("race", true, text);
    }

    // (e) the real Unix control socket against the stdin dispatcher (pipelined / split writes)
    {
        let rt = tokio::runtime::Builder::new_multi_thread().worker_threads(2).enable_all().build().expect("tokio runtime");
        for k in 0..(40 * scale) {
            if let Some(text) = socket_case(&g, &mut rng, &mut run, &rt, k as usize) { run.push("socket", true, text); }
        }
    }

    run.note(format!("timeout pool: {:?}", g.tmo_pool));
    run.finish(16, 1_000_000)
}
