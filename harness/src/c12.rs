//! C12 — the stall guard is a routing penalty only; off means baseline.
//! Same driver as C13 (`crate::c13`): real links, real `select_connection_idx`.  Every case is run
//! on TWO identical sets of real links; before each guard-off decision the twin's stall history is
//! erased (latch, rejoin run, pull, gated flag, lifetime counters, probe counter), the decision is
//! taken on both, and the twin's decision crosses into the case (clause 3 of the monitor).  The
//! full dump of every link before/after each decision crosses too (clause 1: view unchanged).
use crate::c13::*;
use crate::common::*;

pub fn c12_step(rng: &mut Rng, rec: &mut Recorder, sc: &mut Script) {
    let n = sc.n;
    let i = rng.below(n as u64) as usize;
    if rng.chance(1, 2) {
        let pool = dt_pool(&rec.w, i, &sc.cfg);
        sc.now += *rng.pick(&pool);
    }
    let now = sc.now;
    match rng.below(100) {
        0..=39 => {
            if rng.chance(1, 3) { sc.cfg.guard = !sc.cfg.guard; }
            if rng.chance(1, 6) { sc.cfg.classic = !sc.cfg.classic; }
            if rng.chance(1, 8) { sc.cfg.quality = !sc.cfg.quality; }
            if rng.chance(1, 20) { let g = sc.cfg.guard; sc.cfg = gen_cfg(rng, 50); sc.cfg.guard = g; }
            let last = if rng.chance(1, 5) { if rng.chance(1, 3) { None } else { Some(rng.below(n as u64 + 1) as usize) } } else { sc.last };
            rec.act(&Act::Select(last, now, sc.cfg));
            if rec.last_res.is_some() { sc.last = rec.last_res; }
        }
        40..=47 => rec.act(&Act::Tweak(i, Tw::Window(*rng.pick(&[1000i32, 1001, 5000, 19999, 20000, 20001, 30000, 60000])))),
        48..=51 => rec.act(&Act::Tweak(i, Tw::Weak(rng.chance(1, 2)))),
        52..=54 => rec.act(&Act::Tweak(i, Tw::Loss(rng.chance(1, 2)))),
        55..=58 => rec.act(&Act::Tweak(i, Tw::Cc(*rng.pick(&[0u64, 100_000, 1_000_000, 8_000_000]), *rng.pick(&[0.0f64, 90_000.0, 500_000.0, 999_999.0, 1_000_000.0, 9_000_000.0])))),
        59..=61 => rec.act(&Act::Tweak(i, Tw::Queue(rng.below(5) as usize))),
        62..=64 => rec.act(&Act::Tweak(i, Tw::Phase(rng.below(4) as u8))),
        65..=68 => rec.act(&Act::Tweak(i, Tw::Nak(now))),
        69..=70 => rec.act(&Act::Tweak(i, Tw::Estab(if rng.chance(1, 2) { 0 } else { now.saturating_sub(*rng.pick(&[0u64, 29_999, 30_000, 30_001])) }))),
        71 => rec.act(&Act::Tweak(i, Tw::Grace(now.saturating_add(*rng.pick(&[0u64, 1, 5000]))))),
        72..=74 => rec.act(&Act::Tweak(i, Tw::Rtt(if rng.chance(1, 4) { None } else { Some(*rng.pick(&RTT_POOL)) }))),
        _ => c13_step(rng, rec, sc, i),
    }
}

pub fn gen_c12_case(rng: &mut Rng, len: usize) -> Recorder {
    let n = 1 + rng.below(4) as usize;
    let t0 = 50_000 + rng.below(1_000_000);
    let setup = c13_setup(rng, n, t0);
    // "no stall history at all" also means the LIFETIME record (engagement and pull counts) plays no part in a
    // guard-off decision: half of the cases start from links that already have one (1 .. a long session's worth),
    // which a 50-step history cannot build up by itself
    // (drawn from a generator of its own, seeded by values already drawn, so that the op stream of every case is the
    // one it was before this was added — the stored seeds keep being reported by the default run)
    let mut r2 = Rng::new(t0 ^ 0x0C12_0C12 ^ ((n as u64) << 40));
    let mut record: Vec<(u64, u64)> = vec![];
    for _ in 0..n {
        if r2.chance(1, 2) { record.push((0, 0)); }
        else { record.push((*r2.pick(&[1u64, 2, 3, 4, 7, 100, 1_000_000]), *r2.pick(&[0u64, 1, 3, 50]))); }
    }
    let setup2 = move |w: &mut World| {
        setup(w);
        for (i, (ev, pulls)) in record.iter().enumerate() {
            let mut h = w.conns[i].verif_hidden();
            h.stall_gate_events = h.stall_gate_events.max(*ev);
            h.silence_pulls = h.silence_pulls.max(*pulls);
            w.conns[i].verif_set_hidden(h);
        }
    };
    let mut rec = Recorder::new(n, t0, true, &setup2);
    let mut sc = Script { n, now: t0, cfg: gen_cfg(rng, 50), last: None };
    while rec.steps.len() < len { c12_step(rng, &mut rec, &mut sc); }
    rec
}

/// a flapping link: `rounds` separate latch engagements on link 0, each unwound by a guard-off decision; then
/// guard-off decisions on near-equal scores (every incumbent, both modes, quality on/off) — identical to the
/// decisions on links that never stalled
pub fn scenario_flapper(rounds: usize) -> Recorder {
    let t0 = 200_000u64;
    let mut r = Recorder::new(2, t0, true, &|_w: &mut World| {});
    let on = default_cfg();
    let off = Cfg { guard: false, ..on };
    let mut t = t0;
    for _ in 0..rounds {
        r.act(&Act::Reg(0, 40, t));
        r.act(&Act::SrtlaAck(0, true, false, t));
        r.act(&Act::Inbound(0, t + 3000)); r.act(&Act::Inbound(1, t + 3000));
        r.act(&Act::Select(Some(1), t + 3000, on));                 // engages (proof 3 s old, backlog)
        r.act(&Act::Select(Some(1), t + 3001, off));                // unwound
        r.act(&Act::SrtAck(0, 1000, t + 3002));                     // backlog retired
        t += 4000;
    }
    for load in [0u32, 1, 3] {
        if load > 0 { r.act(&Act::Reg(1, load, t)); }
        r.act(&Act::Inbound(0, t)); r.act(&Act::Inbound(1, t));
        for classic in [false, true] {
            for quality in [true, false] {
                for last in [None, Some(0), Some(1)] {
                    r.act(&Act::Select(last, t + 1, Cfg { classic, quality, ..off }));
                }
            }
        }
        t += 10;
    }
    r
}

/// a latched link with the better score: guard on routes around it, guard off must not
pub fn scenario_penalty() -> Recorder {
    let t0 = 100_000u64;
    let mut r = Recorder::new(2, t0, true, &|_w: &mut World| {});
    let on = default_cfg();
    r.act(&Act::Reg(0, 40, t0));
    r.act(&Act::SrtlaAck(0, true, false, t0));
    r.act(&Act::Reg(1, 45, t0));
    r.act(&Act::Inbound(0, t0 + 3000)); r.act(&Act::Inbound(1, t0 + 3000));
    r.act(&Act::Select(None, t0 + 3000, on));                       // link 0 latched and gated
    for classic in [false, true] {
        let off = Cfg { guard: false, classic, ..on };
        let onm = Cfg { classic, ..on };
        r.act(&Act::Select(Some(1), t0 + 3001, onm));
        r.act(&Act::Select(Some(1), t0 + 3002, off));               // cleared; decision = baseline
        r.act(&Act::Select(Some(0), t0 + 3003, onm));               // re-engages
    }
    r
}

pub fn run(seed: u64, tier: &str, out: &std::path::Path, _extra: &[(String, String)]) -> std::io::Result<()> {
    let mut run = Run::new("C12", "Run_C12", seed, tier, out);
    let mut rng = Rng::new(seed ^ 0xC12);
    let mut totals = Default::default();
    let mut diverged = 0u64;
    push_case(&mut run, "scenario", &scenario_penalty(), &mut totals);
    push_case(&mut run, "scenario", &scenario_flapper(3), &mut totals);
    push_case(&mut run, "scenario", &scenario_flapper(6), &mut totals);
    let (cases, len) = if tier == "thorough" { (1700, 56) } else { (170, 56) };
    for k in 0..cases {
        let mut r = rng.fork(k as u64);
        let l = len / 2 + r.below(len as u64) as usize;
        let rec = gen_c12_case(&mut r, l);
        if rec.twin_diverged { diverged += 1; }
        push_case(&mut run, "generated", &rec, &mut totals);
    }
    for (k, v) in totals.iter() { run.count_n(&format!("event:{}", k), *v); }
    if diverged > 0 { run.note(format!("twin link sets diverged from the primary in {} cases (harness determinism problem)", diverged)); }
    if !totals.contains_key("twin_decisions") { run.note("guard never hit in this run: guard-off decision with a twin".into()); }
    srtla_core::utils::verif_clock::set(None);
    run.finish(16, 1_000_000)
}
