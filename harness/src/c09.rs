//! C09 — return path: drive the real `handle_uplink_packet` (process_uplink_packet +
//! process_connection_events) over loopback sockets under the virtual clock; observe
//! what reaches the SRT client socket and every link's accounting fields.
use std::collections::HashMap;
use std::net::{SocketAddr, UdpSocket as StdUdp};
use std::path::Path;
use std::sync::Arc;

use smallvec::SmallVec;
use socket2::{Domain, Protocol, Socket, Type};
use srtla_core::connection::{LinkPhase, SrtlaConnection};
use srtla_core::{ConfigSnapshot, SchedulingMode, SrtlaRegistrationManager};
use srtla_send::net::{BatchUdpSocket, SourceIpBinder};
use srtla_send::sender::SequenceTracker;
use srtla_send::sender::verif_hooks::{ConnIo, ConnIoMap, UplinkPacket, handle_uplink_packet};

use crate::common::*;

const MAX_LINKS: usize = 3;
pub fn conn_id_of(i: usize) -> u64 { 101 + i as u64 }

#[derive(Clone, Debug)]
pub enum Ph { Registering, Warming(u32, u64), Live, Degraded }

#[derive(Clone, Debug)]
pub enum Op {
    Register(usize, i32, u64),
    Track(usize, u32, u64),
    Conn(usize, bool, Option<u64>),
    Wait(usize, bool),
    Phase(usize, Ph),
    Recon(usize, u64, u32),
    Proof(usize, u64),
    Mark(usize),
    Client(bool),
    /// conn_id, datagram, now, classic, cross-in-full
    Uplink(u64, Vec<u8>, u64, bool, bool),
    /// a backlog of uplink datagrams queued on the reader channel before the event loop wakes up: they go
    /// through the REAL `drain_packet_queue` (64 per slice, called until the queue is empty, as the loop does)
    Burst(Vec<(u64, Vec<u8>)>, u64, bool),
    /// link index, datagram, now, classic: the datagram is SENT by the receiver-side socket to the uplink socket,
    /// picked up by the real reader task (`spawn_reader`: recvmmsg batch -> channel) and handled by the real
    /// `drain_packet_queue` — the whole return path from the wire to the client socket
    Net(usize, Vec<u8>, u64, bool),
}

fn fnv(b: &[u8]) -> u64 {
    let mut h: u64 = 0xcbf2_9ce4_8422_2325;
    for &x in b { h ^= x as u64; h = h.wrapping_mul(0x0000_0100_0000_01b3); }
    h
}

/// Datagram literal: in full when short or when `full` is requested, else length +
/// first 20 bytes + digest of the whole.
pub fn wd_lit(b: &[u8], full: bool) -> String {
    if b.len() <= 64 || full {
        format!("(WFull {})", bytes_lit(b))
    } else {
        format!("(WAbbr {} {} {})", b.len(), bytes_lit(&b[..20]), fnv(b))
    }
}

fn ph_lit(p: &Ph) -> String {
    match p {
        Ph::Registering => "PRegistering".into(),
        Ph::Warming(n, e) => format!("(PWarming {} {})", n, e),
        Ph::Live => "PLive".into(),
        Ph::Degraded => "PDegraded".into(),
    }
}

pub fn op_lit(o: &Op) -> String {
    match o {
        Op::Register(i, s, t) => format!("SRegister {} {} {}", i, z(*s as i128), t),
        Op::Track(i, n, t) => format!("STrack {} {} {}", i, n, t),
        Op::Conn(i, b, lr) => format!("SConn {} {} {}", i, boolc(*b), optz(lr.map(|v| v as i128))),
        Op::Wait(i, b) => format!("SWait {} {}", i, boolc(*b)),
        Op::Phase(i, p) => format!("SPhase {} {}", i, ph_lit(p)),
        Op::Recon(i, e, f) => format!("SRecon {} {} {}", i, e, f),
        Op::Proof(i, v) => format!("SProof {} {}", i, v),
        Op::Mark(i) => format!("SMark {}", i),
        Op::Client(b) => format!("SClient {}", boolc(*b)),
        Op::Uplink(id, d, now, cl, full) => format!("UUplink {} {} {} {}", id, wd_lit(d, *full), now, boolc(*cl)),
        Op::Burst(..) => unreachable!("a burst is expanded into its datagrams by run_hist"),
        Op::Net(i, d, now, cl) => format!("UUplink {} {} {} {}", conn_id_of(*i), wd_lit(d, true), now, boolc(*cl)),
    }
}

pub fn op_kind(o: &Op) -> &'static str {
    match o {
        Op::Register(..) => "register", Op::Track(..) => "track", Op::Conn(..) => "set_conn",
        Op::Wait(..) => "set_waiting", Op::Phase(..) => "set_phase", Op::Recon(..) => "set_recon",
        Op::Proof(..) => "set_proof", Op::Mark(..) => "mark_recovery", Op::Client(..) => "set_client",
        Op::Uplink(..) => "uplink", Op::Burst(..) => "uplink_burst", Op::Net(..) => "uplink_via_reader",
    }
}

pub struct World {
    rt: tokio::runtime::Runtime,
    listener: tokio::net::UdpSocket,
    client: StdUdp,
    client_addr: SocketAddr,
    receivers: Vec<StdUdp>,
    /// local address of every uplink socket (where the receiver side sends to)
    uplink_addrs: Vec<SocketAddr>,
    /// the real reader tasks of the uplink sockets (spawned on first use) and their channel
    readers: Vec<srtla_send::sender::verif_hooks::ReaderHandle>,
    reader_tx: tokio::sync::mpsc::UnboundedSender<UplinkPacket>,
    reader_rx: tokio::sync::mpsc::UnboundedReceiver<UplinkPacket>,
    conn_io: ConnIoMap,
    instant_tx: tokio::sync::mpsc::UnboundedSender<(SocketAddr, SmallVec<u8, 64>)>,
    instant_rx: tokio::sync::mpsc::UnboundedReceiver<(SocketAddr, SmallVec<u8, 64>)>,
    pub conns: Vec<SrtlaConnection>,
    reg: SrtlaRegistrationManager,
    tracker: SequenceTracker,
    client_known: bool,
    pub slow_path: u64,
    pub uplink_out: u64,
}

impl World {
    pub fn new() -> World {
        let rt = tokio::runtime::Builder::new_current_thread().enable_all().build().unwrap();
        let listener = rt.block_on(async {
            let l = tokio::net::UdpSocket::bind("127.0.0.1:0").await.unwrap();
            // make write readiness known to the runtime so the ACK fast path can take try_send_to
            l.writable().await.unwrap();
            l
        });
        let client = StdUdp::bind("127.0.0.1:0").unwrap();
        client.set_nonblocking(true).unwrap();
        let client_addr = client.local_addr().unwrap();
        let mut receivers = vec![];
        let mut uplink_addrs = vec![];
        let (reader_tx, reader_rx) = srtla_send::sender::verif_hooks::create_uplink_channel();
        let mut conn_io: ConnIoMap = HashMap::new();
        for i in 0..MAX_LINKS {
            let r = StdUdp::bind("127.0.0.1:0").unwrap();
            r.set_nonblocking(true).unwrap();
            let raddr = r.local_addr().unwrap();
            let s = Socket::new(Domain::IPV4, Type::DGRAM, Some(Protocol::UDP)).unwrap();
            s.bind(&"127.0.0.1:0".parse::<SocketAddr>().unwrap().into()).unwrap();
            s.connect(&raddr.into()).unwrap();
            s.set_nonblocking(true).unwrap();
            uplink_addrs.push(s.local_addr().unwrap().as_socket().unwrap());
            let bs = { let _g = rt.enter(); BatchUdpSocket::new(s).unwrap() };
            conn_io.insert(conn_id_of(i), ConnIo { socket: Arc::new(bs), binder: Arc::new(SourceIpBinder), remote: raddr });
            receivers.push(r);
        }
        let (instant_tx, instant_rx) = tokio::sync::mpsc::unbounded_channel();
        World { rt, listener, client, client_addr, receivers, uplink_addrs, readers: vec![], reader_tx, reader_rx,
                conn_io, instant_tx, instant_rx, conns: vec![],
                reg: SrtlaRegistrationManager::new(), tracker: SequenceTracker::new(), client_known: false,
                slow_path: 0, uplink_out: 0 }
    }

    /// fresh links / manager / tracker; sockets are kept
    pub fn reset(&mut self, n: usize) {
        self.conns.clear();
        for i in 0..n {
            self.conns.push(SrtlaConnection::new_registering(
                conn_id_of(i), format!("l{}", i), std::net::IpAddr::V4(std::net::Ipv4Addr::new(127, 0, 0, 1)), 0));
        }
        self.reg = SrtlaRegistrationManager::new();
        self.tracker = SequenceTracker::new();
        self.client_known = false;
        let _ = self.drain();
    }

    /// everything that reached the client socket (plus what the slow path queued for it)
    pub fn drain(&mut self) -> Vec<Vec<u8>> {
        let mut got = vec![];
        let mut buf = [0u8; 4096];
        while let Ok((n, _)) = self.client.recv_from(&mut buf) { got.push(buf[..n].to_vec()); }
        while let Ok((_, pkt)) = self.instant_rx.try_recv() { self.slow_path += 1; got.push(pkt.to_vec()); }
        for r in &self.receivers {
            while let Ok((_n, _)) = r.recv_from(&mut buf) { self.uplink_out += 1; }
        }
        got
    }

    pub fn apply(&mut self, o: &Op) {
        match o {
            Op::Register(i, s, t) => self.conns[*i].register_packet(*s, *t),
            Op::Track(i, n, t) => { let id = self.conns[*i].conn_id; self.tracker.insert(*n, id, *t) }
            Op::Conn(i, b, lr) => { self.conns[*i].connected = *b; self.conns[*i].last_received = *lr; }
            Op::Wait(i, b) => self.conns[*i].rtt.waiting_for_keepalive_response = *b,
            Op::Phase(i, p) => {
                self.conns[*i].phase = match p {
                    Ph::Registering => LinkPhase::Registering,
                    Ph::Warming(n, e) => LinkPhase::Warming { rtt_probes: *n, entered_ms: *e },
                    Ph::Live => LinkPhase::Live,
                    Ph::Degraded => LinkPhase::Degraded,
                }
            }
            Op::Recon(i, e, f) => {
                self.conns[*i].reconnection.connection_established_ms = *e;
                self.conns[*i].reconnection.reconnect_failure_count = *f;
            }
            Op::Proof(i, v) => self.conns[*i].last_ack_or_rtt_sample_ms = *v,
            Op::Mark(i) => self.conns[*i].mark_for_recovery(),
            Op::Client(b) => self.client_known = *b,
            Op::Burst(items, now, classic) => {
                srtla_core::utils::verif_clock::set(Some(*now));
                let snap = ConfigSnapshot {
                    mode: if *classic { SchedulingMode::Classic } else { SchedulingMode::Enhanced },
                    ..ConfigSnapshot::default()
                };
                let (tx, mut rx) = srtla_send::sender::verif_hooks::create_uplink_channel();
                for (id, d) in items { let _ = tx.send(UplinkPacket { conn_id: *id, bytes: SmallVec::from_slice_copy(d) }); }
                let addr = if self.client_known { Some(self.client_addr) } else { None };
                let World { rt, listener, conn_io, instant_tx, conns, reg, tracker, .. } = self;
                rt.block_on(async {
                    let mut slices = 0;
                    while !rx.is_empty() && slices < 10_000 {
                        srtla_send::sender::verif_hooks::drain_packet_queue(&mut rx, conns, conn_io, reg, instant_tx, addr,
                                                                             listener, tracker, &snap).await;
                        slices += 1;
                    }
                });
            }
            Op::Net(i, d, now, classic) => {
                srtla_core::utils::verif_clock::set(Some(*now));
                let snap = ConfigSnapshot {
                    mode: if *classic { SchedulingMode::Classic } else { SchedulingMode::Enhanced },
                    ..ConfigSnapshot::default()
                };
                if self.readers.is_empty() {
                    let _g = self.rt.enter();
                    for j in 0..MAX_LINKS {
                        let io = self.conn_io.get(&conn_id_of(j)).expect("io entry");
                        self.readers.push(srtla_send::sender::verif_hooks::spawn_reader(
                            conn_id_of(j), format!("l{}", j), io.socket.clone(), self.reader_tx.clone()));
                    }
                }
                let _ = self.receivers[*i].send_to(d, self.uplink_addrs[*i]);
                let addr = if self.client_known { Some(self.client_addr) } else { None };
                let World { rt, listener, conn_io, instant_tx, conns, reg, tracker, reader_rx, .. } = self;
                rt.block_on(async {
                    // give the reader task the runtime until the datagram is in the channel (a reader that drops it
                    // leaves the channel empty: the op then shows no relay and no liveness stamp)
                    let t0 = std::time::Instant::now();
                    while reader_rx.is_empty() && t0.elapsed() < std::time::Duration::from_secs(10) {
                        tokio::time::sleep(std::time::Duration::from_millis(1)).await;
                    }
                    let mut slices = 0;
                    while !reader_rx.is_empty() && slices < 100 {
                        srtla_send::sender::verif_hooks::drain_packet_queue(reader_rx, conns, conn_io, reg, instant_tx, addr,
                                                                             listener, tracker, &snap).await;
                        slices += 1;
                    }
                });
            }
            Op::Uplink(id, d, now, classic, _) => {
                srtla_core::utils::verif_clock::set(Some(*now));
                let snap = ConfigSnapshot {
                    mode: if *classic { SchedulingMode::Classic } else { SchedulingMode::Enhanced },
                    ..ConfigSnapshot::default()
                };
                let pkt = UplinkPacket { conn_id: *id, bytes: SmallVec::from_slice_copy(d) };
                let addr = if self.client_known { Some(self.client_addr) } else { None };
                let World { rt, listener, conn_io, instant_tx, conns, reg, tracker, .. } = self;
                rt.block_on(handle_uplink_packet(pkt, conns, conn_io, reg, instant_tx, addr, listener, tracker, &snap));
            }
        }
    }

    fn link_scalars(c: &SrtlaConnection) -> (Vec<i128>, Vec<i128>, Vec<i128>) {
        let g = &c.congestion;
        let sc = vec![
            c.connected as i128, c.window as i128, c.in_flight_packets as i128, c.highest_acked_seq as i128,
            c.last_received.map(|v| v as i128).unwrap_or(-1), c.last_ack_or_rtt_sample_ms as i128,
            g.nak_count as i128, g.last_nak_time_ms as i128, g.last_window_increase_ms as i128,
            g.fast_recovery_mode as i128, g.fast_recovery_start_ms as i128, g.nak_burst_count as i128,
            g.nak_burst_start_time_ms as i128,
        ];
        let mut keys: Vec<i128> = c.packet_log.keys().map(|&k| k as i128).collect();
        keys.sort();
        let (pk, pn, pe) = match c.phase {
            LinkPhase::Registering => (0, 0, 0),
            LinkPhase::Warming { rtt_probes, entered_ms } => (1, rtt_probes as i128, entered_ms as i128),
            LinkPhase::Live => (2, 0, 0),
            LinkPhase::Degraded => (3, 0, 0),
        };
        let xs = vec![c.rtt.waiting_for_keepalive_response as i128, pk, pn, pe,
                      c.reconnection.connection_established_ms as i128, c.reconnection.reconnect_failure_count as i128];
        (sc, keys, xs)
    }
}

// ---------------- observation: literal and checksum (same rule as Run_C09.hash_uobs) ----------------
pub struct Obs {
    links: Vec<(Vec<i128>, Vec<i128>)>,
    xs: Vec<Vec<i128>>,
    fwd: Vec<Vec<u8>>,
    panic: bool,
}

impl World {
    pub fn obs(&self, fwd: Vec<Vec<u8>>, panic: bool) -> Obs {
        let mut links = vec![];
        let mut xs = vec![];
        for c in &self.conns {
            let (sc, keys, x) = World::link_scalars(c);
            links.push((sc, keys));
            xs.push(x);
        }
        Obs { links, xs, fwd, panic }
    }
}

fn obs_lit(o: &Obs, full: bool) -> String {
    let links: Vec<String> = o.links.iter().map(|(s, k)| format!("({},{})", zlist(s.iter().copied()), zlist(k.iter().copied()))).collect();
    let xs: Vec<String> = o.xs.iter().map(|x| zlist(x.iter().copied())).collect();
    let fwd: Vec<String> = o.fwd.iter().map(|d| wd_lit(d, full)).collect();
    format!("{{| u_links := [{}]; u_xs := [{}]; u_fwd := [{}]; u_panic := {} |}}",
            links.join(";"), xs.join(";"), fwd.join(";"), boolc(o.panic))
}

fn hstep(acc: &mut (i128, i128), v: i128) {
    acc.0 += (v + 7) * acc.1;
    acc.1 += 1;
}
fn hlist(acc: &mut (i128, i128), l: &[i128]) {
    hstep(acc, l.len() as i128);
    for &v in l { hstep(acc, v); }
}
fn hash_obs(acc: &mut (i128, i128), o: &Obs) {
    for (s, k) in &o.links { hlist(acc, s); hlist(acc, k); }
    for x in &o.xs { hlist(acc, x); }
    hstep(acc, o.fwd.len() as i128);
    for d in &o.fwd {
        hstep(acc, 0);
        hstep(acc, d.len() as i128);
        for &b in d { hstep(acc, b as i128); }
    }
    hstep(acc, o.panic as i128);
}

/// same rule as Run_C15.fam_frame
pub fn fam_frame(len: usize, salt: u64, t: u32) -> Vec<u8> {
    let mut v = vec![(t / 256) as u8, (t % 256) as u8];
    let mut j = 2u64;
    while v.len() < len {
        let x = (t as u64 * 7 + j * 31 + salt + (t as u64 / 256) * 13) % 256;
        v.push(x as u8);
        j += 1;
    }
    v.truncate(len);
    v
}

/// Apply one op to the real code; returns the observation (None fields never happen) and
/// whether the code under test panicked.
fn step(w: &mut World, o: &Op) -> Obs {
    let r = std::panic::catch_unwind(std::panic::AssertUnwindSafe(|| w.apply(o)));
    let fwd = w.drain();
    w.obs(fwd, r.is_err())
}

fn dobs_lit(prev: &Obs, o: &Obs, full: bool) -> String {
    let mut ch = vec![];
    for i in 0..o.links.len() {
        if i >= prev.links.len() || prev.links[i] != o.links[i] || prev.xs[i] != o.xs[i] {
            ch.push(format!("DL {} ({},{}) {}", i, zlist(o.links[i].0.iter().copied()), zlist(o.links[i].1.iter().copied()),
                            zlist(o.xs[i].iter().copied())));
        }
    }
    let fwd: Vec<String> = o.fwd.iter().map(|d| wd_lit(d, full)).collect();
    format!("{{| d_links := [{}]; d_fwd := [{}]; d_panic := {} |}}", ch.join(";"), fwd.join(";"), boolc(o.panic))
}

/// Run an op list on `n` fresh links; returns the CHistD literal (per step: only the links whose
/// observation changed), whether a panic was seen, and how many datagrams reached the client.
pub fn run_hist(w: &mut World, n: usize, ops: &[Op]) -> (String, bool, usize) {
    w.reset(n);
    let ids = zlist((0..n).map(|i| conn_id_of(i) as i128));
    let mut prev = w.obs(vec![], false);
    let init = obs_lit(&prev, true);
    let mut steps = Vec::with_capacity(ops.len());
    let mut panicked = false;
    let mut delivered = 0usize;
    for (pos, o) in ops.iter().enumerate() {
        if let Op::Burst(items, now, classic) = o {
            // One backlog = one run of the real drain loop.  The observation after its first j datagrams is
            // taken from a re-execution of the same history with the backlog cut after j entries (the drain
            // handles the queue in order, so that is the state the full run passes through); the last
            // re-execution is the full backlog and leaves the world in the state the history continues from.
            let mut seen: Vec<Vec<u8>> = vec![];
            for j in 1..=items.len() {
                w.reset(n);
                for p in &ops[..pos] { let _ = step(w, p); }
                let cut = Op::Burst(items[..j].to_vec(), *now, *classic);
                let mut ob = step(w, &cut);
                let all = ob.fwd.clone();
                ob.fwd = if all.len() >= seen.len() && all[..seen.len()] == seen[..] { all[seen.len()..].to_vec() } else { all.clone() };
                seen = all;
                delivered += ob.fwd.len();
                let single = Op::Uplink(items[j - 1].0, items[j - 1].1.clone(), *now, *classic, true);
                steps.push(format!("({},{})", op_lit(&single), dobs_lit(&prev, &ob, true)));
                if ob.panic { panicked = true; break; }
                prev = ob;
            }
            if panicked { break; }
            continue;
        }
        let ob = step(w, o);
        let full = matches!(o, Op::Uplink(_, _, _, _, true)) || matches!(o, Op::Net(..));
        delivered += ob.fwd.len();
        steps.push(format!("({},{})", op_lit(o), dobs_lit(&prev, &ob, full)));
        if ob.panic { panicked = true; break; }
        prev = ob;
    }
    srtla_core::utils::verif_clock::set(None);
    (format!("CHistD {} {} [{}]", ids, init, steps.join(";")), panicked, delivered)
}

// ---------------- generators ----------------
const DT: [u64; 14] = [0, 1, 2, 7, 15, 100, 999, 1000, 1001, 3000, 9999, 10_000, 10_001, 20_000];

struct Gen<'a> {
    rng: &'a mut Rng,
    n: usize,
    now: u64,
    next_seq: u32,
    sent: Vec<Vec<u32>>,
    thorough: bool,
    mtu_quota: &'a mut usize,
}

impl<'a> Gen<'a> {
    fn link(&mut self) -> usize { self.rng.below(self.n as u64) as usize }
    fn tick(&mut self) -> u64 { self.now += *self.rng.pick(&DT); self.now }
    fn fresh_seq(&mut self) -> u32 {
        let s = self.next_seq;
        self.next_seq = self.next_seq.wrapping_add(1 + (self.rng.below(6) == 0) as u32 * self.rng.range(1, 70) as u32);
        s
    }
    /// a number held somewhere, recently used, or unknown
    fn some_seq(&mut self) -> u32 {
        let i = self.link();
        if !self.sent[i].is_empty() && self.rng.chance(4, 5) { *self.rng.pick(&self.sent[i]) }
        else if self.rng.chance(1, 2) { self.next_seq.wrapping_sub(self.rng.below(40) as u32) }
        else { self.rng.u64() as u32 }
    }
    fn payload_len(&mut self) -> usize {
        match self.rng.below(10) {
            0 => 2, 1 => 3, 2 => *self.rng.pick(&[4usize, 7, 8, 9, 10, 16, 19, 20, 37, 38]),
            3 | 4 => self.rng.range(11, 64) as usize,
            5 => *self.rng.pick(&[64usize, 65, 66, 188, 258]),
            6 | 7 => *self.rng.pick(&[1316usize, 1456, 1499, 1500]),
            _ => self.rng.range(2, 300) as usize,
        }
    }
    fn with_type(&mut self, ty: u16, len: usize) -> Vec<u8> {
        let mut b = ty.to_be_bytes().to_vec();
        let extra = len.saturating_sub(2);
        b.extend_from_slice(&self.rng.bytes(extra));
        b.truncate(len.max(2));
        b
    }
    fn srt_ack(&mut self) -> Vec<u8> {
        let len = *self.rng.pick(&[2usize, 16, 19, 20, 21, 24, 44, 44, 44, 70]);
        let mut b = self.with_type(0x8002, len);
        if len >= 20 {
            let top = self.next_seq;
            let a = match self.rng.below(6) {
                0 => top, 1 => top.wrapping_add(64), 2 => top.wrapping_add(65), 3 => self.some_seq(),
                4 => self.rng.u64() as u32, _ => top.wrapping_sub(self.rng.below(20) as u32),
            };
            b[16..20].copy_from_slice(&a.to_be_bytes());
        }
        b
    }
    fn nak(&mut self) -> Vec<u8> {
        let mut b = vec![0x80, 0x03, self.rng.byte(), self.rng.byte()];
        let k = self.rng.range(0, 5);
        for _ in 0..k {
            match self.rng.below(8) {
                0..=3 => { let s = self.some_seq() & 0x7fff_ffff; b.extend_from_slice(&s.to_be_bytes()); }
                4 | 5 => {
                    let s = self.some_seq() & 0x7fff_ffff;
                    let wdt = *self.rng.pick(&[0u32, 1, 2, 5, 30]);
                    b.extend_from_slice(&(s | 0x8000_0000).to_be_bytes());
                    b.extend_from_slice(&s.wrapping_add(wdt).to_be_bytes());
                }
                6 => {
                    // oversized / inverted / wrapping ranges (expansion is capped at 1000 entries)
                    let s = if self.rng.chance(1, 2) { 0x7fff_fffe } else { self.some_seq() & 0x7fff_ffff };
                    let e = *self.rng.pick(&[0u32, s.wrapping_sub(1), u32::MAX, s.wrapping_add(1200), 0x8000_0003]);
                    b.extend_from_slice(&(s | 0x8000_0000).to_be_bytes());
                    b.extend_from_slice(&e.to_be_bytes());
                }
                _ => { let v = self.rng.u64() as u32 | 0x8000_0000; b.extend_from_slice(&v.to_be_bytes()); }
            }
        }
        let cut = self.rng.below(4) as usize;
        b.extend_from_slice(&self.rng.bytes(cut));
        if self.rng.chance(1, 10) { b.truncate(self.rng.range(2, 8) as usize); }
        b
    }
    fn srtla_ack(&mut self, arrival: usize) -> Vec<u8> {
        let mut b = vec![0x91, 0x00, self.rng.byte(), self.rng.byte()];
        let k = *self.rng.pick(&[0usize, 1, 1, 2, 3, 10]);
        for _ in 0..k {
            let s = match self.rng.below(6) {
                0 | 1 | 2 if !self.sent[arrival].is_empty() => *self.rng.pick(&self.sent[arrival]),
                3 | 4 => self.some_seq(),
                _ => self.rng.u64() as u32,
            };
            b.extend_from_slice(&s.to_be_bytes());
            if self.rng.chance(1, 8) { b.extend_from_slice(&s.to_be_bytes()); }
        }
        let cut = self.rng.below(4) as usize;
        b.extend_from_slice(&self.rng.bytes(cut));
        if self.rng.chance(1, 10) { b.truncate(self.rng.range(2, 8) as usize); }
        b
    }
    fn keepalive(&mut self, now: u64) -> Vec<u8> {
        let d = if self.rng.chance(2, 3) { *self.rng.pick(&[0u64, 1, 2, 50, 9999, 10_000, 10_001, 60_000]) } else { self.rng.below(400) };
        let ts = if self.rng.chance(1, 12) { now + 1 + self.rng.below(5) } else { now.saturating_sub(d) };
        let mut b = vec![0x90, 0x00];
        b.extend_from_slice(&ts.to_be_bytes());
        match self.rng.below(6) {
            0 => b.truncate(*self.rng.pick(&[2usize, 3, 9])),
            1 => { let e = self.rng.bytes(28); b.extend_from_slice(&e); }
            2 => { let k = self.rng.range(1, 40) as usize; let e = self.rng.bytes(k); b.extend_from_slice(&e); }
            _ => {}
        }
        b
    }
    fn reg_frame(&mut self) -> Vec<u8> {
        let ty = *self.rng.pick(&[0x9200u16, 0x9201, 0x9201, 0x9202, 0x9202, 0x9210, 0x9211, 0x9211, 0x9212]);
        let len = *self.rng.pick(&[2usize, 2, 3, 10, 257, 258, 259]);
        self.with_type(ty, len)
    }
    fn datagram(&mut self, arrival: usize, now: u64) -> Vec<u8> {
        match self.rng.below(20) {
            0..=3 => { let l = self.payload_len(); let mut b = self.rng.bytes(l); b[0] &= 0x7f; b }     // SRT data
            4 => { let ty = *self.rng.pick(&[0x8000u16, 0x8001, 0x8004, 0x8005, 0x8006, 0x8007, 0xffff]); let l = self.payload_len(); self.with_type(ty, l) }
            5 | 6 => self.srt_ack(),
            7 | 8 => if *self.mtu_quota > 0 && self.rng.chance(1, 12) { *self.mtu_quota -= 1; self.long_list(0x8003) } else { self.nak() },
            9..=11 => if *self.mtu_quota > 0 && self.rng.chance(1, 16) { *self.mtu_quota -= 1; self.long_list(0x9100) } else { self.srtla_ack(arrival) },
            12..=14 => self.keepalive(now),
            15 | 16 => self.reg_frame(),
            17 => { let l = self.rng.below(3) as usize; self.rng.bytes(l) }                              // 0..2 bytes
            18 => {
                // neighbours of the internal type codes
                let ty = *self.rng.pick(&[0x8fffu16, 0x9001, 0x90ff, 0x9101, 0x91ff, 0x9203, 0x920f, 0x9213, 0x8003, 0x8002, 0x0090, 0x0091]);
                let l = self.payload_len(); self.with_type(ty, l)
            }
            _ => { let l = self.rng.range(0, 64) as usize; self.rng.bytes(l) }
        }
    }
    /// an MTU-size NAK (singles, a few ranges) or SRTLA ACK naming recent numbers
    fn long_list(&mut self, ty: u16) -> Vec<u8> {
        let n = *self.rng.pick(&[1316usize, 1456, 1499, 1500]);
        let mut b = vec![(ty >> 8) as u8, ty as u8, 0, 0];
        while b.len() + 4 <= n {
            let mut v = if self.rng.chance(1, 3) { self.some_seq() } else { self.next_seq.wrapping_sub(self.rng.below(400) as u32) };
            if ty == 0x8003 {
                v &= 0x7fff_ffff;
                if self.rng.chance(1, 40) && b.len() + 8 <= n {
                    b.extend_from_slice(&(v | 0x8000_0000).to_be_bytes());
                    v = v.wrapping_add(self.rng.below(6) as u32);
                }
            }
            b.extend_from_slice(&v.to_be_bytes());
        }
        let pad = n - b.len();
        b.extend_from_slice(&self.rng.bytes(pad));
        b
    }
    fn full_for(&mut self, d: &[u8]) -> bool {
        if d.len() <= 64 { return true; }
        // NAK and SRTLA-ACK lists are decoded from the whole datagram: always in full
        if d[0] == 0x80 && d[1] == 0x03 || d[0] == 0x91 && d[1] == 0x00 { return true; }
        if *self.mtu_quota > 0 && self.rng.chance(1, if self.thorough { 4 } else { 6 }) { *self.mtu_quota -= 1; return true; }
        false
    }
}

fn gen_hist(rng: &mut Rng, n: usize, len: usize, thorough: bool, mtu_quota: &mut usize) -> Vec<Op> {
    let base = match rng.below(5) { 0 => 0u32, 1 => 0x7fff_ff00, 2 => 16384 * 3 - 20, 3 => 0xffff_fff0, _ => rng.u64() as u32 & 0x7fff_ffff };
    let now0 = 1_000_000 + rng.below(1_000_000);
    let mut g = Gen { rng, n, now: now0, next_seq: base, sent: vec![vec![]; n], thorough, mtu_quota };
    let mut ops = vec![];
    // before a client is known (sometimes), then known
    let late_client = g.rng.chance(1, 4);
    if !late_client { ops.push(Op::Client(true)); }
    // bring links up: by a real REG3 datagram, by direct set-up, or leave registering
    for i in 0..n {
        match g.rng.below(6) {
            0 | 1 | 2 => { let t = g.tick(); ops.push(Op::Uplink(conn_id_of(i), vec![0x92, 0x02], t, false, true)); }
            3 | 4 => { let t = g.tick(); ops.push(Op::Conn(i, true, if g.rng.chance(3, 4) { Some(t) } else { None }));
                       ops.push(Op::Phase(i, if g.rng.chance(1, 2) { Ph::Live } else { Ph::Warming(g.rng.below(3) as u32, t) })); }
            _ => {}
        }
        if g.rng.chance(1, 2) { ops.push(Op::Wait(i, true)); }
    }
    let classic = g.rng.chance(1, 3);
    while ops.len() < len {
        let r = g.rng.below(100);
        if r < 55 {
            let i = g.link();
            let now = g.tick();
            let d = g.datagram(i, now);
            let full = g.full_for(&d);
            let id = if g.rng.chance(1, 40) { 999 } else { conn_id_of(i) };
            ops.push(Op::Uplink(id, d, now, classic, full));
        } else if r < 70 {
            // a data packet goes out on link i: tracked + registered (sometimes a duplicate probe elsewhere)
            let i = g.link(); let t = g.tick();
            let s = if g.rng.chance(4, 5) { g.fresh_seq() } else { g.some_seq() } & 0x7fff_ffff;
            if g.rng.chance(5, 6) { ops.push(Op::Track(i, s, t)); }
            ops.push(Op::Register(i, s as i32, t)); g.sent[i].push(s);
            if g.rng.chance(1, 6) { let j = g.link(); ops.push(Op::Register(j, s as i32, t)); g.sent[j].push(s); }
        } else if r < 78 { let i = g.link(); ops.push(Op::Wait(i, g.rng.chance(3, 4))); }
        else if r < 82 {
            let i = g.link(); let t = g.now;
            let p = match g.rng.below(5) { 0 => Ph::Registering, 1 => Ph::Warming(0, t), 2 => Ph::Warming(1, t), 3 => Ph::Live, _ => Ph::Degraded };
            ops.push(Op::Phase(i, p));
        }
        else if r < 86 { let i = g.link(); let t = g.now; ops.push(Op::Conn(i, g.rng.chance(3, 4), if g.rng.chance(3, 4) { Some(t) } else { None })); }
        else if r < 89 { let i = g.link(); let v = if g.rng.chance(1, 3) { 0 } else { g.now - g.rng.below(5000) }; ops.push(Op::Proof(i, v)); }
        else if r < 92 { let i = g.link(); ops.push(Op::Mark(i)); g.sent[i].clear(); }
        else if r < 95 { let i = g.link(); let e = if g.rng.chance(1, 2) { 0 } else { g.now - 1 }; ops.push(Op::Recon(i, e, g.rng.below(4) as u32)); }
        else if r < 97 { ops.push(Op::Client(g.rng.chance(3, 4))); }
        else {
            // the receiver acknowledges what was just sent: SRTLA ACK on the sending link, then a cumulative SRT ACK
            let i = g.link();
            if let Some(&s) = g.sent[i].last() {
                let now = g.tick();
                let mut b = vec![0x91, 0x00, 0, 0]; b.extend_from_slice(&s.to_be_bytes());
                ops.push(Op::Uplink(conn_id_of(i), b, now, classic, true));
                let mut a = vec![0x80, 0x02]; a.extend_from_slice(&[0u8; 14]); a.extend_from_slice(&s.wrapping_add(1).to_be_bytes());
                ops.push(Op::Uplink(conn_id_of(i), a, now, classic, true));
            }
        }
        if late_client && ops.len() == len / 2 { ops.push(Op::Client(true)); }
    }
    ops
}

/// set-up prelude of a family part, derived from (seed, len, part) so that `--expand` can rebuild it
fn fam_prelude(seed: u64, len: usize, part: u32) -> (usize, Vec<Op>, u64, u64, bool) {
    let mut rng = Rng::new(seed ^ 0xFA09 ^ ((len as u64) << 20) ^ ((part as u64) << 8));
    let n = 1 + (part as usize % 2);
    let now0 = 2_000_000 + rng.below(1000);
    let mut ops = vec![];
    if part % 4 != 3 { ops.push(Op::Client(true)); }
    for i in 0..n {
        ops.push(Op::Conn(i, true, Some(now0 - 10)));
        ops.push(Op::Phase(i, if part % 8 < 4 { Ph::Warming(1, now0 - 10) } else { Ph::Live }));
        for k in 0..3u32 {
            // numbers the short frames can name: 0x00000000.. and pseudo-random tails are unlikely to hit, keep a few low ones
            let s = (k + i as u32 * 3) as i32;
            ops.push(Op::Track(i, s as u32, now0 - 5));
            ops.push(Op::Register(i, s, now0 - 5));
        }
    }
    if part % 2 == 0 { ops.push(Op::Wait(0, true)); }
    (n, ops, conn_id_of(0), now0, part % 3 == 0)
}

fn family(run: &mut Run, w: &mut World, seed: u64, len: usize, salt: u64) {
    let all: Vec<u32> = (0..256).collect();
    family_blocks(run, w, seed, len, salt, &all, 16);
    run.note(format!("family: all 65536 type codes at length {} (salt {}) on a prepared link — frames generated inside Coq, block checksums of the whole observation cross", len, salt));
}

/// `blks`: 256-code blocks to run, grouped `group` consecutive list entries per case (entries of one
/// group must be consecutive block numbers within one part of 16)
fn family_blocks(run: &mut Run, w: &mut World, seed: u64, len: usize, salt: u64, blks: &[u32], group: usize) {
    for chunk in blks.chunks(group) {
        let part = chunk[0] / 16;
        let (n, pre, target, now0, classic) = fam_prelude(seed, len, part);
        let mut blocks = vec![];
        for &k in chunk {
            w.reset(n);
            for o in &pre { w.apply(o); }
            let _ = w.drain();
            let mut acc = (0i128, 1i128);
            for t in (k * 256)..(k * 256 + 256) {
                let f = fam_frame(len, salt, t);
                let ob = step(w, &Op::Uplink(target, f, now0 + (t % 256) as u64, classic, true));
                if ob.panic { run.panics += 1; }
                if !ob.fwd.is_empty() { run.count("family:frames_delivered"); }
                hash_obs(&mut acc, &ob);
            }
            blocks.push(acc.0);
        }
        run.count_n("family:frames", 256 * chunk.len() as u64);
        let ids = zlist((0..n).map(|i| conn_id_of(i) as i128));
        let pre_lit: Vec<String> = pre.iter().map(op_lit).collect();
        run.push_cost("family", true,
            format!("CFam {} {} {} {} [{}] {} {} {} {}", len, salt, chunk[0], ids, pre_lit.join(";"), target, now0, boolc(classic), zlist(blocks)),
            (5_000 + len * 200) * chunk.len());
    }
}

/// fixed histories that are run on every check (each documents one clause of the property)
fn corpus() -> Vec<(usize, Vec<Op>)> {
    let id0 = conn_id_of(0);
    let id1 = conn_id_of(1);
    let ka = |ts: u64| { let mut b = vec![0x90u8, 0x00]; b.extend_from_slice(&ts.to_be_bytes()); b };
    let sack = |s: u32| { let mut b = vec![0x91u8, 0x00, 0, 0]; b.extend_from_slice(&s.to_be_bytes()); b };
    vec![
        // relay: data, unknown control type, REG1-typed and REG_NAK-typed frames are not SRTLA-internal
        (1, vec![Op::Client(true), Op::Uplink(id0, vec![0x92, 0x02], 1000, false, true),
                 Op::Uplink(id0, vec![0x00, 0x01, 2, 3], 1001, false, true),
                 Op::Uplink(id0, vec![0x80, 0x05], 1002, false, true),
                 Op::Uplink(id0, vec![0x92, 0x00, 9], 1003, false, true),
                 Op::Uplink(id0, vec![0x92, 0x12], 1004, false, true),
                 Op::Uplink(id0, vec![0x7f], 1005, false, true),
                 Op::Uplink(id0, vec![], 1006, false, true)]),
        // internal frames are consumed; no client known => nothing delivered
        (2, vec![Op::Uplink(id0, vec![0x00, 0x01, 2, 3], 900, false, true), Op::Client(true),
                 Op::Uplink(id0, vec![0x92, 0x11], 1000, false, true), Op::Uplink(id0, vec![0x92, 0x01, 1, 2], 1001, false, true),
                 Op::Uplink(id1, vec![0x92, 0x02], 1002, false, true), Op::Uplink(id1, vec![0x92, 0x10], 1003, false, true),
                 Op::Uplink(id1, vec![0x91, 0x00], 1004, false, true), Op::Uplink(id1, vec![0x90, 0x00], 1005, false, true)]),
        // delivery proof: keepalive echo only when awaited and within (0, 10000] ms; earned SRTLA ACK on the holder
        (2, vec![Op::Client(true), Op::Conn(0, true, Some(5)), Op::Conn(1, true, Some(5)), Op::Phase(0, Ph::Warming(1, 5)),
                 Op::Uplink(id0, ka(19_000), 20_000, false, true),
                 Op::Wait(0, true), Op::Uplink(id0, ka(20_000), 20_000, false, true),
                 Op::Wait(0, true), Op::Uplink(id0, ka(9_999), 20_000, false, true),
                 Op::Wait(0, true), Op::Uplink(id0, ka(10_000), 20_000, false, true),
                 Op::Register(1, 7, 20_001), Op::Register(0, 8, 20_001),
                 Op::Uplink(id0, sack(7), 20_002, false, true), Op::Uplink(id0, sack(7), 20_003, false, true),
                 Op::Uplink(id0, sack(8), 20_004, true, true), Op::Uplink(id0, sack(99), 20_005, true, true)]),
    ]
}

pub fn run(seed: u64, tier: &str, out: &Path, extra: &[(String, String)]) -> std::io::Result<()> {
    let mut run = Run::new("C09", "Run_C09", seed, tier, out);
    let thorough = run.thorough();
    let mut rng = Rng::new(seed ^ 0xC09);
    let mut w = World::new();
    let salt = seed % 251;

    if let Some((_, spec)) = extra.iter().find(|(k, _)| k == "expand") {
        // expand one disagreeing family block into a history case: "len:salt:block"
        let p: Vec<u64> = spec.split(':').filter_map(|x| x.parse().ok()).collect();
        if p.len() == 3 {
            let (len, salt, blk) = (p[0] as usize, p[1], p[2] as u32);
            let (n, mut ops, target, now0, classic) = fam_prelude(seed, len, blk / 16);
            for t in (blk * 256)..(blk * 256 + 256) {
                ops.push(Op::Uplink(target, fam_frame(len, salt, t), now0 + (t % 256) as u64, classic, true));
            }
            let (text, p, _) = run_hist(&mut w, n, &ops);
            if p { run.panics += 1; }
            run.push("family_expanded", true, text);
        }
        return run.finish(16, 1_000_000);
    }

    for (n, ops) in corpus() {
        let (text, p, _) = run_hist(&mut w, n, &ops);
        if p { run.panics += 1; }
        run.push("corpus", true, text);
    }

    // backlogs through the real bounded drain: sizes around the 64-per-slice budget
    {
        let sizes: &[usize] = if thorough { &[1, 2, 63, 64, 65, 66, 127, 128, 129, 130, 200] } else { &[64, 65, 130] };
        for (k, &nb) in sizes.iter().enumerate() {
            let mut r2 = rng.fork(0xB0 + k as u64);
            let n = 1 + r2.below(3) as usize;
            let now0 = 2_000_000 + r2.below(1000);
            let mut ops = vec![Op::Client(true)];
            for i in 0..n { ops.push(Op::Conn(i, true, Some(now0))); ops.push(Op::Phase(i, Ph::Live)); }
            let mut items = vec![];
            for j in 0..nb {
                let i = r2.below(n as u64) as usize;
                let mut d: Vec<u8> = match r2.below(10) {
                    0 => vec![0x80, 0x02],                       // SRT ACK type, short
                    1 => vec![0x80, 0x03, 0, 0, 0, 0, 0, 9],     // SRT NAK
                    2 => vec![0x80, 0x07],                       // other SRT control
                    _ => { let mut b = ((7000 + j as u32) & 0x7fff_ffff).to_be_bytes().to_vec(); b.extend_from_slice(&[0, 0, 0, 0]); b }
                };
                d.extend_from_slice(&(j as u16).to_be_bytes());  // every datagram of the backlog is distinct
                items.push((conn_id_of(i), d));
            }
            ops.push(Op::Burst(items, now0 + 5, r2.chance(1, 3)));
            run.count("op:uplink_burst");
            run.count_n("burst_datagrams", nb as u64);
            let (text, p, _) = run_hist(&mut w, n, &ops);
            if p { run.panics += 1; }
            run.push("drain_backlog", true, text);
        }
    }

    // the whole return path, from the wire: receiver-side socket -> uplink socket -> real reader task
    // (recvmmsg batch) -> channel -> real drain -> client socket; sizes around the MTU slot of the reader
    {
        let ncase = if thorough { 12 } else { 2 };
        for k in 0..ncase {
            let mut r2 = rng.fork(0xE7 + k as u64);
            let n = 1 + r2.below(2) as usize;
            let now0 = 3_000_000 + r2.below(1000);
            let mut ops = vec![Op::Client(true)];
            for i in 0..n { ops.push(Op::Conn(i, true, Some(now0))); ops.push(Op::Phase(i, Ph::Live)); }
            let sizes: Vec<usize> = if k == 0 { vec![24, 1332, 1499, 1500, 2, 1500, 64] }
                                    else { (0..8).map(|_| *r2.pick(&[2usize, 3, 16, 24, 188, 1316, 1332, 1400, 1498, 1499, 1500])).collect() };
            for (j, sz) in sizes.iter().enumerate() {
                let i = r2.below(n as u64) as usize;
                let mut d = vec![0u8; *sz];
                for (x, b) in d.iter_mut().enumerate() { *b = ((x * 31 + j * 7 + k) & 0xff) as u8; }
                // SRT data (first bit clear) or an SRT control type that is not SRTLA-internal
                if r2.chance(3, 4) { d[0] &= 0x7f; } else { d[0] = 0x80; d[1] = 0x07; }
                ops.push(Op::Net(i, d, now0 + 10 + j as u64, r2.chance(1, 3)));
                run.count("op:uplink_via_reader");
            }
            let (text, p, _) = run_hist(&mut w, n, &ops);
            if p { run.panics += 1; }
            run.push("wire_to_client", true, text);
        }
    }

    // exhaustive type-code families
    let lens = [2usize, 3, 4, 7, 8, 9, 10, 19, 20, 37, 38];
    if thorough {
        for &l in &lens { family(&mut run, &mut w, seed, l, salt); }
        family(&mut run, &mut w, seed, 258, salt);
        // MTU-size frames: the blocks holding every type code the dispatch distinguishes, their
        // neighbours and the extremes (a full sweep at this length is too much text-free work for Coq)
        let sel = [0x00u32, 0x7f, 0x80, 0x81, 0x8f, 0x90, 0x91, 0x92, 0x93, 0xff];
        family_blocks(&mut run, &mut w, seed, 1500, salt, &sel, 1);
        run.note(format!("family: type-code blocks {:02x?} at length 1500", sel));
    } else {
        family(&mut run, &mut w, seed, lens[(seed as usize) % lens.len()], salt);
    }

    // generated histories
    let ncases = if thorough { 2200 } else { 220 };
    let mut mtu_quota = if thorough { 600 } else { 40 };
    for k in 0..ncases {
        let n = 1 + (rng.below(MAX_LINKS as u64) as usize);
        let len = *rng.pick(&[6usize, 12, 25, 40, 60]);
        let mut r2 = rng.fork(k as u64);
        let ops = gen_hist(&mut r2, n, len, thorough, &mut mtu_quota);
        for o in &ops {
            run.count(&format!("op:{}", op_kind(o)));
            if let Op::Uplink(_, d, _, _, full) = o {
                let ty = if d.len() >= 2 { format!("{:02x}{:02x}", d[0], d[1]) } else { "short".into() };
                let class = match ty.as_str() {
                    "8002" => "srt_ack", "8003" => "srt_nak", "9100" => "srtla_ack", "9000" => "keepalive",
                    "9201" | "9202" | "9210" | "9211" => "registration", "short" => "short(<2)",
                    _ => if d[0] & 0x80 == 0 { "srt_data" } else { "other_control" },
                };
                run.count(&format!("dgram:{}", class));
                if d.len() > 64 { run.count(if *full { "dgram:long_in_full" } else { "dgram:long_abbreviated" }); }
            }
        }
        run.count(&format!("links:{}", n));
        let (text, p, delivered) = run_hist(&mut w, n, &ops);
        if p { run.panics += 1; run.count("impl_panic_cases"); }
        run.count_n("delivered_to_client", delivered as u64);
        run.push("history", true, text);
    }
    run.count_n("ack_slow_path_sends", w.slow_path);
    run.count_n("uplink_side_datagrams(REG1 replies)", w.uplink_out);
    run.finish(16, 1_000_000)
}
