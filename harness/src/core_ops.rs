//! Shared driver for the integer core family (C02 C05 C06 C10): real `SrtlaConnection`s,
//! a real `SequenceTracker`, and the real `process_connection_events` fan-out.
#![allow(dead_code)]
use std::net::{IpAddr, Ipv4Addr};

use smallvec::SmallVec;
use srtla_core::connection::{SrtlaConnection, SrtlaIncoming};
use srtla_send::sender::SequenceTracker;
use srtla_send::sender::verif_hooks::process_connection_events;

use crate::common::*;

#[derive(Clone, Debug)]
pub enum Op {
    Register(usize, i64, u64),
    Track(usize, i64, u64),
    SrtAck(i64, u64),
    SrtlaAck(usize, i64, bool, u64),
    Nak(i64, u64),
    /// one NAK datagram listing the consecutive numbers s, s+1, .., s+k-1 (what a range entry expands to)
    NakRun(i64, u32, u64),
    /// one flushed batch on link i: k queued datagrams through the REAL queue_data_packet + take_batch; bit j of
    /// the mask set = entry j is an SRT control packet (no sequence number), clear = a data packet carrying the
    /// next number from the base.  (link, base, k, mask, now)
    Batch(usize, i64, u32, u32, u64),
    /// one SRTLA ACK datagram listing the consecutive numbers s .. s+k-1, through the real fan-out in ONE call
    SrtlaAckRun(usize, i64, u32, bool, u64),
    Recovery(usize, u64, bool),
    CcAck(usize, bool, i64),
    CcNak(usize, u64),
    Global(usize),
    MarkRecovery(usize),
    ResetReconnect(usize, u64),
    Reg3(usize, u64),
    SetConn(usize, bool, Option<u64>),
    SetWindow(usize, i64),
    RemoveConn(usize),
    /// an IP-list reload that drops the uplinks whose bit is set, through the REAL apply_connection_changes (on a
    /// stand-in link list with the same conn_ids and labels, and the world's own tracker); for the model: one
    /// ORemoveConn per dropped uplink, lowest index first
    Reload(u32),
    /// a data packet with number s through the REAL handle_srt_packet while uplink g is stall-gated with its 1-in-100
    /// duplicate probe due (stage 1), then the routed link's queue is drained by the real take_batch (stage 2), then
    /// the probe's (stage 3).  For the model: OTrack h s t (h = the link the scheduler chose), ORegister h s t,
    /// ORegister g s t — a probe is registered where it is sent but never tracked.  (g, s, now, stages to run)
    Routed(usize, i64, u64, u8),
}

pub fn op_lit(o: &Op) -> String {
    match o {
        Op::Register(i, s, t) => format!("ORegister {} {} {}", i, z(*s as i128), t),
        Op::Track(i, s, t) => format!("OTrack {} {} {}", i, z(*s as i128), t),
        Op::SrtAck(a, t) => format!("OSrtAck {} {}", z(*a as i128), t),
        Op::SrtlaAck(i, s, c, t) => format!("OSrtlaAck {} {} {} {}", i, z(*s as i128), boolc(*c), t),
        Op::Nak(s, t) => format!("ONak {} {}", z(*s as i128), t),
        Op::NakRun(s, _, t) => format!("ONak {} {}", z(*s as i128), t),   // expanded per element by run_case
        Op::Batch(i, s, _, _, t) => format!("ORegister {} {} {}", i, z(*s as i128), t),           // expanded by run_case
        Op::SrtlaAckRun(i, s, _, c, t) => format!("OSrtlaAck {} {} {} {}", i, z(*s as i128), boolc(*c), t),   // expanded by run_case
        Op::Recovery(i, t, v) => format!("ORecovery {} {} {}", i, t, boolc(*v)),
        Op::CcAck(i, c, inf) => format!("OCcAck {} {} {}", i, boolc(*c), z(*inf as i128)),
        Op::CcNak(i, t) => format!("OCcNak {} {}", i, t),
        Op::Global(i) => format!("OGlobal {}", i),
        Op::MarkRecovery(i) => format!("OMarkRecovery {}", i),
        Op::ResetReconnect(i, _) => format!("OResetReconnect {}", i),
        Op::Reg3(i, t) => format!("OReg3 {} {}", i, t),
        Op::SetConn(i, b, lr) => format!("OSetConn {} {} {}", i, boolc(*b), optz(lr.map(|v| v as i128))),
        Op::SetWindow(i, w) => format!("OSetWindow {} {}", i, z(*w as i128)),
        Op::RemoveConn(i) => format!("ORemoveConn {}", i),
        Op::Reload(m) => format!("ORemoveConn {}", m.trailing_zeros()),                     // expanded by run_case
        Op::Routed(g, s, t, _) => format!("ORegister {} {} {}", g, z(*s as i128), t),       // expanded by run_case
    }
}

pub fn op_kind(o: &Op) -> &'static str {
    match o {
        Op::Register(..) => "register", Op::Track(..) => "track", Op::SrtAck(..) => "srt_ack",
        Op::SrtlaAck(..) => "srtla_ack", Op::Nak(..) => "nak", Op::NakRun(..) => "nak_run", Op::Batch(..) => "flushed_batch",
        Op::SrtlaAckRun(..) => "srtla_ack_run", Op::Recovery(..) => "recovery",
        Op::CcAck(..) => "cc_ack", Op::CcNak(..) => "cc_nak", Op::Global(..) => "global",
        Op::MarkRecovery(..) => "mark_recovery", Op::ResetReconnect(..) => "reset_reconnect",
        Op::Reg3(..) => "reg3", Op::SetConn(..) => "set_conn", Op::SetWindow(..) => "set_window",
        Op::RemoveConn(..) => "remove_conn", Op::Reload(..) => "reload_dropping_uplinks", Op::Routed(..) => "routed_with_due_probe",
    }
}

pub struct World {
    /// what the last `Routed` op saw: (link the scheduler chose, a copy was queued on the gated link)
    pub last_routed: Option<(usize, bool)>,
    pub conns: SmallVec<SrtlaConnection, 4>,
    pub tracker: SequenceTracker,
    pub rt: tokio::runtime::Runtime,
    pub sock: tokio::net::UdpSocket,
}

pub fn conn_id_of(i: usize) -> u64 { 101 + i as u64 }

impl World {
    pub fn new(n: usize) -> World {
        let rt = tokio::runtime::Builder::new_current_thread().enable_all().build().unwrap();
        let sock = rt.block_on(async { tokio::net::UdpSocket::bind("127.0.0.1:0").await.unwrap() });
        let mut conns = SmallVec::new();
        for i in 0..n {
            conns.push(SrtlaConnection::new_registering(
                conn_id_of(i), format!("l{}", i), IpAddr::V4(Ipv4Addr::new(127, 0, 0, 1 + i as u8)), 0));
        }
        World { last_routed: None, conns, tracker: SequenceTracker::new(), rt, sock }
    }

    fn events(&mut self, idx: usize, classic: bool, now: u64, inc: SrtlaIncoming) {
        srtla_core::utils::verif_clock::set(Some(now));
        let World { conns, tracker, rt, sock, .. } = self;
        let _ = rt.block_on(process_connection_events(idx, conns, None, sock, tracker, classic, inc));
    }

    pub fn apply(&mut self, o: &Op) {
        match *o {
            Op::Register(i, s, t) => self.conns[i].register_packet(s as i32, t),
            Op::Track(i, s, t) => { let id = self.conns[i].conn_id; self.tracker.insert(s as u32, id, t) }
            Op::SrtAck(a, now) => {
                let mut inc = SrtlaIncoming { read_any: true, ..Default::default() };
                inc.ack_numbers.push(a as u32);
                self.events(0, false, now, inc);
            }
            Op::SrtlaAck(idx, s, classic, now) => {
                let mut inc = SrtlaIncoming { read_any: true, ..Default::default() };
                inc.srtla_ack_numbers.push(s as u32);
                self.events(idx, classic, now, inc);
            }
            Op::Nak(s, now) => {
                let mut inc = SrtlaIncoming { read_any: true, ..Default::default() };
                inc.nak_numbers.push(s as u32);
                self.events(0, false, now, inc);
            }
            Op::NakRun(s, k, now) => {
                let mut inc = SrtlaIncoming { read_any: true, ..Default::default() };
                for j in 0..k as i64 { inc.nak_numbers.push((s + j) as u32); }
                self.events(0, false, now, inc);
            }
            Op::Batch(i, s0, k, mask, t) => {
                let mut d = 0i64;
                for j in 0..k {
                    let seq = if (mask >> j) & 1 == 1 { None } else { d += 1; Some((s0 + d - 1) as u32) };
                    let data = [0x80u8; 20];
                    let _ = self.conns[i].queue_data_packet(&data, seq, t);
                }
                let _ = self.conns[i].take_batch(t);
            }
            Op::SrtlaAckRun(idx, s, k, classic, now) => {
                let mut inc = SrtlaIncoming { read_any: true, ..Default::default() };
                for j in 0..k as i64 { inc.srtla_ack_numbers.push((s + j) as u32); }
                self.events(idx, classic, now, inc);
            }
            Op::Recovery(i, now, vel_hi) => {
                let c = &mut self.conns[i];
                let (x, _, p, init) = c.rtt.kalman_rtt.verif_state();
                // the velocity behind the gate `velocity > 2.0` is drawn (deterministically, from the clock value)
                // from the whole range a Kalman trend can take, not one representative per side: just above the
                // gate, steep ramps, huge, infinite / at the gate, zero, falling, NaN
                const HI: [f64; 11] = [2.0000000000000004, 3.5, 5.0, 7.9, 8.0, 8.5, 9.0, 30.0, 1000.0, 1e300, f64::INFINITY];
                const LO: [f64; 9] = [0.25, 2.0, 1.9999, 0.0, -0.0, -3.5, -1e9, f64::NAN, f64::NEG_INFINITY];
                let v = if vel_hi { HI[(now % 11) as usize] } else { LO[(now % 9) as usize] };
                c.rtt.kalman_rtt.verif_set_state(x, v, p, init);
                c.perform_window_recovery(now);
            }
            Op::CcAck(i, classic, inf) => {
                let c = &mut self.conns[i];
                let mut w = c.window;
                if classic {
                    c.congestion.handle_srtla_ack_specific_classic(&mut w, inf as i32, 0, "x");
                } else {
                    c.congestion.handle_srtla_ack_enhanced(&mut w, inf as i32, "x", 0);
                }
                c.window = w;
            }
            Op::CcNak(i, now) => {
                let c = &mut self.conns[i];
                let mut w = c.window;
                c.congestion.handle_nak(&mut w, 0, "x", now);
                c.window = w;
            }
            Op::Global(i) => self.conns[i].handle_srtla_ack_global(),
            Op::MarkRecovery(i) => self.conns[i].mark_for_recovery(),
            Op::ResetReconnect(i, now) => self.conns[i].reset_for_reconnect(now),
            Op::Reg3(i, now) => {
                // what process_uplink_packet does on RegistrationEvent::Reg3
                let c = &mut self.conns[i];
                c.clear_pre_registration_state(now);
                c.connected = true;
                c.last_received = Some(now);
                if c.reconnection.connection_established_ms == 0 { c.reconnection.connection_established_ms = now; }
            }
            Op::SetConn(i, b, lr) => { self.conns[i].connected = b; self.conns[i].last_received = lr; }
            Op::SetWindow(i, w) => self.conns[i].window = w as i32,
            Op::RemoveConn(i) => { let id = self.conns[i].conn_id; self.tracker.remove_connection(id) }
            Op::Routed(g, s, t, stages) => {
                use srtla_send::sender::ConnIoMap;
                // uplink g: latch engaged (guard-private state only; nothing the core observation shows), probe due
                let mut h = self.conns[g].verif_hidden();
                h.stall_latched_since_ms = t.saturating_sub(100).max(1);
                h.stall_recovery_since_ms = 0;
                h.stall_probe_counter = 99;
                self.conns[g].verif_set_hidden(h);
                let q0: Vec<i32> = self.conns.iter().map(|c| c.batch_sender.queued_count()).collect();
                let mut buf = [0u8; 1500];
                buf[0..4].copy_from_slice(&((s as u32) & 0x7fff_ffff).to_be_bytes());
                let io: ConnIoMap = Default::default();
                let mut last_sel = None;
                let mut client: Option<std::net::SocketAddr> = None;
                let snap = srtla_send::ConfigSnapshot { stall_deselect: true, ..Default::default() };
                let cw = srtla_core::priority::CriticalWindow::new();
                let src: std::net::SocketAddr = "127.0.0.1:9".parse().unwrap();
                srtla_core::utils::verif_clock::set(Some(t));
                {
                    let World { conns, tracker, rt, .. } = self;
                    rt.block_on(srtla_send::sender::verif_hooks::handle_srt_packet(Ok((40, src)), &mut buf, conns, &io, &mut last_sel,
                                tracker, &mut client, true, &snap, &cw));
                }
                let grew: Vec<bool> = self.conns.iter().zip(q0.iter()).map(|(c, q)| c.batch_sender.queued_count() > *q).collect();
                self.last_routed = match last_sel { Some(i) if i < grew.len() && grew[i] && i != g => Some((i, grew[g])), _ => None };
                if let Some((hsel, probe)) = self.last_routed {
                    if stages >= 2 { let _ = self.conns[hsel].take_batch(t); }
                    if stages >= 3 && probe { let _ = self.conns[g].take_batch(t); }
                } else {
                    // not the situation this op is about (no healthy alternative / g chosen): put the queues back
                    for c in self.conns.iter_mut() { let _ = c.batch_sender.drain(t); }
                }
            }
            Op::Reload(mask) => {
                use srtla_send::sender::{ConnIoMap, apply_connection_changes};
                let host = "h"; let port = 9u16;
                let mut standin: SmallVec<SrtlaConnection, 4> = SmallVec::new();
                let mut keep: Vec<IpAddr> = vec![];
                for (i, c) in self.conns.iter().enumerate() {
                    let ip = IpAddr::V4(Ipv4Addr::new(127, 0, 0, 1 + i as u8));
                    standin.push(SrtlaConnection::new_registering(c.conn_id, format!("{}:{} via {}", host, port, ip), ip, 0));
                    if (mask >> i) & 1 == 0 { keep.push(ip); }
                }
                let mut io: ConnIoMap = Default::default();
                let mut last = None;
                let binder: std::sync::Arc<dyn srtla_send::net::UplinkBinder> = std::sync::Arc::new(srtla_send::net::SourceIpBinder);
                let World { tracker, rt, .. } = self;
                rt.block_on(apply_connection_changes(&mut standin, &mut io, &keep, host, port, &mut last, tracker, &binder));
            }
        }
    }

    pub fn obs(&self) -> String {
        let mut parts = vec![];
        for c in self.conns.iter() {
            let g = &c.congestion;
            let sc = vec![
                c.connected as i128, c.window as i128, c.in_flight_packets as i128, c.highest_acked_seq as i128,
                c.last_received.map(|v| v as i128).unwrap_or(-1), c.last_ack_or_rtt_sample_ms as i128,
                g.nak_count as i128, g.last_nak_time_ms as i128, g.last_window_increase_ms as i128,
                g.fast_recovery_mode as i128, g.fast_recovery_start_ms as i128, g.nak_burst_count as i128,
                g.nak_burst_start_time_ms as i128,
            ];
            let mut keys: Vec<i128> = c.packet_log.keys().map(|&k| k as i128).collect();
            keys.sort();
            parts.push(format!("({},{})", zlist(sc), zlist(keys)));
        }
        format!("[{}]", parts.join(";"))
    }
}

/// Shell tie for "classic mode never applies time-based recovery": run the REAL
/// `handle_housekeeping(classic)` on the current links (all made alive first, so no teardown
/// interferes) and return (windows, fast flags) before and after.
pub fn housekeeping_windows(w: &mut World, classic: bool, now: u64) -> (Vec<i128>, Vec<i128>) {
    use srtla_send::sender::verif_hooks as vh;
    use std::sync::Arc;
    let _guard = w.rt.handle().clone();
    let _enter = _guard.enter();
    let mut conn_io: vh::ConnIoMap = std::collections::HashMap::new();
    let sink = std::net::UdpSocket::bind("127.0.0.1:0").unwrap();
    let remote = sink.local_addr().unwrap();
    for c in w.conns.iter_mut() {
        c.connected = true;
        c.last_received = Some(now);
        c.reconnection.connection_established_ms = now.saturating_sub(60_000).max(1);
        let sock = socket2::Socket::new(socket2::Domain::IPV4, socket2::Type::DGRAM, Some(socket2::Protocol::UDP)).unwrap();
        sock.bind(&std::net::SocketAddr::new(c.local_ip, 0).into()).unwrap();
        sock.connect(&remote.into()).unwrap();
        sock.set_nonblocking(true).unwrap();
        conn_io.insert(c.conn_id, vh::ConnIo {
            socket: Arc::new(srtla_send::net::BatchUdpSocket::new(sock).unwrap()),
            binder: Arc::new(srtla_send::net::SourceIpBinder), remote });
    }
    let snap = |w: &World| -> Vec<i128> {
        w.conns.iter().flat_map(|c| [c.window as i128, c.congestion.fast_recovery_mode as i128]).collect()
    };
    let before = snap(w);
    srtla_core::utils::verif_clock::set(Some(now));
    let mut reg = srtla_core::registration::SrtlaRegistrationManager::new();
    let mut all_failed_at = None;
    let mut readers = std::collections::HashMap::new();
    let (tx, _rx) = vh::create_uplink_channel();
    let World { conns, rt, .. } = w;
    let _ = rt.block_on(async {
        let _g = (); // a tokio context is needed by BatchUdpSocket's AsyncFd
        vh::handle_housekeeping(conns, &mut conn_io, &mut reg, classic, now, &mut all_failed_at, &mut readers, &tx).await
    });
    for (_, h) in readers.drain() { drop(h); }
    let after = snap(w);
    (before, after)
}

/// Run an op list on fresh links; returns the one-line Coq case literal.
pub fn run_case(n: usize, ops: &[Op]) -> (String, bool) {
    let mut w = World::new(n);
    let ids = zlist((0..n).map(|i| conn_id_of(i) as i128));
    let init = w.obs();
    let mut steps = Vec::with_capacity(ops.len());
    let mut panicked = false;
    // ops that turned out not to apply (a `Routed` whose situation did not arise) are skipped on the main world AND in
    // every prefix replay, so that a replay passes through exactly the states the main run passed through
    let mut skipped: Vec<usize> = vec![];
    for (pos, o) in ops.iter().enumerate() {
        if let Op::NakRun(s, k, now) = *o {
            // A multi-entry NAK list is ONE call of the real event fan-out.  The observation after
            // its first j entries is taken from a second execution of the same history whose list is
            // cut after j entries (the loop over the list is sequential, so that is the state the
            // full call passes through); the last observation is the full call on the main world.
            for j in 1..k {
                let mut w2 = World::new(n);
                let r = std::panic::catch_unwind(std::panic::AssertUnwindSafe(|| {
                    for (q, p) in ops[..pos].iter().enumerate() { if !skipped.contains(&q) { w2.apply(p); } }
                    w2.apply(&Op::NakRun(s, j, now));
                }));
                if r.is_err() { panicked = true; break; }
                steps.push(format!("({},{})", op_lit(&Op::Nak(s + j as i64 - 1, now)), w2.obs()));
            }
            if panicked { steps.push(format!("({},[])", op_lit(o))); break; }
            let r = std::panic::catch_unwind(std::panic::AssertUnwindSafe(|| w.apply(o)));
            if r.is_err() { panicked = true; steps.push(format!("({},[])", op_lit(o))); break; }
            steps.push(format!("({},{})", op_lit(&Op::Nak(s + k as i64 - 1, now)), w.obs()));
            continue;
        }
        // Multi-item calls of a real outer function (a flushed batch = k registrations, an SRTLA ACK list = k
        // entries): like NakRun, the observation after the first j items comes from a second execution of the same
        // history whose call is cut after j items; the last one is the full call on the main world.
        let mut skip_apply = false;
        let items: Option<Vec<(Op, Op)>> = match *o {       // (cut call up to and including this item, the model's op)
            Op::Batch(i, s0, k, mask, t) => {
                let mut v = vec![]; let mut d = 0i64;
                for j in 0..k { if (mask >> j) & 1 == 0 { v.push((Op::Batch(i, s0, j + 1, mask, t), Op::Register(i, s0 + d, t))); d += 1; } }
                Some(v)
            }
            Op::SrtlaAckRun(idx, s, k, c, t) =>
                Some((1..=k).map(|j| (Op::SrtlaAckRun(idx, s, j, c, t), Op::SrtlaAck(idx, s + j as i64 - 1, c, t))).collect()),
            Op::Routed(g, s, t, _) => {
                // which link the scheduler chooses is only known by running stage 1 (on a replay of the history)
                let mut w2 = World::new(n);
                let r = std::panic::catch_unwind(std::panic::AssertUnwindSafe(|| {
                    for (q, p) in ops[..pos].iter().enumerate() { if !skipped.contains(&q) { w2.apply(p); } }
                    w2.apply(&Op::Routed(g, s, t, 1));
                }));
                match (r.is_ok(), w2.last_routed) {
                    (true, Some((h, true))) => Some(vec![(Op::Routed(g, s, t, 1), Op::Track(h, s, t)), (Op::Routed(g, s, t, 2), Op::Register(h, s, t)),
                                                         (Op::Routed(g, s, t, 3), Op::Register(g, s, t))]),
                    (true, _) => { skip_apply = true; skipped.push(pos); Some(vec![]) }
                    (false, _) => None,      // a panic: let the ordinary path record it
                }
            }
            Op::Reload(mask) => {
                // cut after the j lowest dropped uplinks = a reload that drops only those
                let mut v = vec![]; let mut m = 0u32;
                for i in 0..n as u32 { if (mask >> i) & 1 == 1 { m |= 1 << i; v.push((Op::Reload(m), Op::RemoveConn(i as usize))); } }
                Some(v)
            }
            _ => None,
        };
        if let Some(items) = items {
            let m = items.len();
            for (q, (cut, single)) in items.iter().enumerate() {
                if q + 1 < m {
                    let mut w2 = World::new(n);
                    let r = std::panic::catch_unwind(std::panic::AssertUnwindSafe(|| {
                        for (q, p) in ops[..pos].iter().enumerate() { if !skipped.contains(&q) { w2.apply(p); } }
                        w2.apply(cut);
                    }));
                    if r.is_err() { panicked = true; break; }
                    steps.push(format!("({},{})", op_lit(single), w2.obs()));
                } else {
                    let r = std::panic::catch_unwind(std::panic::AssertUnwindSafe(|| w.apply(o)));
                    if r.is_err() { panicked = true; break; }
                    steps.push(format!("({},{})", op_lit(single), w.obs()));
                }
            }
            if panicked { steps.push(format!("({},[])", op_lit(o))); break; }
            if m == 0 && !skip_apply { let _ = std::panic::catch_unwind(std::panic::AssertUnwindSafe(|| w.apply(o))); }
            continue;
        }
        let r = std::panic::catch_unwind(std::panic::AssertUnwindSafe(|| w.apply(o)));
        if r.is_err() {
            panicked = true;
            steps.push(format!("({},[])", op_lit(o)));
            break;
        }
        steps.push(format!("({},{})", op_lit(o), w.obs()));
    }
    srtla_core::utils::verif_clock::set(None);
    (format!("{{| c_ids := {}; c_init := {}; c_steps := [{}] |}}", ids, init, steps.join(";")), panicked)
}

// ---------------- generators ----------------
#[derive(Clone, Copy, PartialEq)]
pub enum Profile { C02, C05, C06, C10 }

pub struct Gen<'a> {
    pub rng: &'a mut Rng,
    pub n: usize,
    pub now: u64,
    pub base: i64,
    pub next_seq: i64,
    pub sent: Vec<Vec<i64>>, // recently registered per link
}

const DT: [u64; 16] = [0, 1, 5, 15, 100, 299, 300, 301, 499, 500, 501, 999, 1000, 1001, 2000, 2001];
const DT_LONG: [u64; 10] = [4999, 5000, 5001, 6999, 7000, 7001, 9999, 10_000, 10_001, 30_000];

impl<'a> Gen<'a> {
    pub fn new(rng: &'a mut Rng, n: usize) -> Self {
        let base = match rng.below(6) {
            0 => 0, 1 => 1, 2 => (1i64 << 31) - 100_000, 3 => 16384 * 3 - 40,
            _ => rng.range(0, (1 << 31) - 200_000),
        };
        let now = 1_000_000 + rng.below(1_000_000);
        Gen { rng, n, now, base, next_seq: base, sent: vec![vec![]; n] }
    }
    pub fn tick(&mut self, long: bool) -> u64 {
        let d = if long && self.rng.chance(1, 4) { *self.rng.pick(&DT_LONG) } else { *self.rng.pick(&DT) };
        self.now += d;
        self.now
    }
    pub fn link(&mut self) -> usize { self.rng.below(self.n as u64) as usize }
    pub fn fresh_seq(&mut self) -> i64 {
        let s = self.next_seq;
        self.next_seq += 1 + (self.rng.below(8) == 0) as i64 * self.rng.range(1, 70);
        s
    }
    /// a sequence number that is interesting for ACK/NAK: held somewhere, recently retired, or unknown
    pub fn some_seq(&mut self) -> i64 {
        let i = self.link();
        if !self.sent[i].is_empty() && self.rng.chance(4, 5) {
            *self.rng.pick(&self.sent[i])
        } else if self.rng.chance(1, 2) {
            self.base + self.rng.range(-3, (self.next_seq - self.base) + 70)
        } else {
            self.rng.range(0, (1 << 31) - 1)
        }
    }
}

pub fn gen_ops(rng: &mut Rng, profile: Profile, n: usize, len: usize) -> Vec<Op> {
    let mut g = Gen::new(rng, n);
    let mut ops = vec![];
    // bring most links up
    for i in 0..n {
        if g.rng.chance(5, 6) {
            let t = g.tick(false);
            if g.rng.chance(1, 2) { ops.push(Op::Reg3(i, t)); } else { ops.push(Op::SetConn(i, true, Some(t))); }
        }
    }
    if profile == Profile::C10 || (profile == Profile::C06 && g.rng.chance(1, 2)) {
        for i in 0..n {
            if g.rng.chance(2, 3) {
                let w = *g.rng.pick(&[1000i64, 1001, 1099, 1100, 1971, 2000, 2001, 2100, 5000, 11_970, 11_971, 11_999, 12_000,
                                      20_000, 59_970, 59_971, 59_999, 60_000]);
                ops.push(Op::SetWindow(i, w));
            }
        }
    }
    if profile == Profile::C05 && g.rng.chance(1, 3) {
        // windows just above the floor: the NAK decrement must clamp (1001..1099 -> 1000)
        for i in 0..n {
            if g.rng.chance(2, 3) {
                let w = *g.rng.pick(&[1000i64, 1001, 1050, 1099, 1100, 1101, 1199, 1200]);
                ops.push(Op::SetWindow(i, w));
            }
        }
    }
    let classic_case = g.rng.chance(1, 2);
    while ops.len() < len {
        let r = g.rng.below(100);
        let long = profile == Profile::C06;
        match profile {
            Profile::C06 => {
                let i = g.link();
                if r < 14 { let t = g.tick(long); ops.push(Op::CcNak(i, t)); }
                else if r < 22 {
                    // NAK burst
                    let k = g.rng.range(2, 12);
                    for _ in 0..k { let t = g.tick(false); ops.push(Op::CcNak(i, t)); }
                }
                else if r < 40 {
                    let w = 20_000i64;
                    let inf = *g.rng.pick(&[0i64, 1, 2, 19, 20, 21, 59, 60, 61, w / 1000 - 1, w / 1000, w / 1000 + 1,
                        (i32::MAX / 1000) as i64 - 1, (i32::MAX / 1000) as i64, (i32::MAX / 1000) as i64 + 1, i32::MAX as i64]);
                    let k = g.rng.range(1, 6);
                    let classic = g.rng.chance(1, 2);
                    for _ in 0..k { ops.push(Op::CcAck(i, classic, inf)); }
                }
                else if r < 62 { let t = g.tick(long); let v = g.rng.chance(1, 3); ops.push(Op::Recovery(i, t, v)); }
                else if r < 66 { ops.push(Op::Global(i)); }
                else if r < 70 {
                    // an SRTLA ACK list (2..12 numbers) through the real fan-out in one call, some links placed just
                    // below the ceiling first: the global +1 per entry must stop at 60000 on every link
                    if g.rng.chance(2, 3) {
                        for l in 0..g.n { if g.rng.chance(1, 2) { ops.push(Op::SetWindow(l, 60_000 - g.rng.range(0, 12))); } }
                    }
                    let k = g.rng.range(2, 13) as u32;
                    let t = g.tick(false);
                    let s = if g.rng.chance(1, 2) {
                        let s0 = g.next_seq; g.next_seq += k as i64;
                        for j in 0..k as i64 { ops.push(Op::Register(i, s0 + j, t)); g.sent[i].push(s0 + j); }
                        s0
                    } else { g.some_seq() };
                    if s >= 0 && s + (k as i64) < (1i64 << 31) { ops.push(Op::SrtlaAckRun(i, s, k, g.rng.chance(1, 2), t)); }
                }
                else if r < 80 {
                    let s = g.fresh_seq(); let t = g.tick(false);
                    ops.push(Op::Register(i, s, t)); g.sent[i].push(s);
                    if g.rng.chance(1, 2) { let t = g.tick(false); ops.push(Op::SrtlaAck(i, s, g.rng.chance(1, 2), t)); }
                    else { let t = g.tick(false); ops.push(Op::Track(i, s, t)); ops.push(Op::Nak(s, t)); }
                }
                else if r < 84 { ops.push(Op::MarkRecovery(i)); }
                else if r < 88 { let t = g.tick(false); ops.push(Op::ResetReconnect(i, t)); }
                else if r < 93 { let t = g.tick(false); ops.push(Op::Reg3(i, t)); }
                else if r < 96 { let t = g.now; ops.push(Op::SetConn(i, g.rng.chance(3, 4), if g.rng.chance(3, 4) { Some(t) } else { None })); }
                else if r < 98 {
                    // drive the window down to the fast-recovery region quickly
                    let w = *g.rng.pick(&[2000i64, 2001, 2100, 2099, 1000, 1100, 11_971, 12_000, 59_999]);
                    ops.push(Op::SetWindow(i, w));
                }
                else {
                    // fast-recovery flag carried up to the ceiling (classic ACK growth and the global +1 never
                    // clear it; a mode switch then runs time-based recovery on it): NAK at the entry window,
                    // window placed within one recovery step of a boundary, recovery ticks after the waits
                    ops.push(Op::SetWindow(i, *g.rng.pick(&[2000i64, 2100, 1500])));
                    let t = g.tick(false); ops.push(Op::CcNak(i, t));
                    let w = *g.rng.pick(&[59_999i64, 59_990, 59_941, 59_940, 59_881, 59_880, 59_879, 60_000, 11_999, 11_941, 11_880]);
                    ops.push(Op::SetWindow(i, w));
                    for _ in 0..g.rng.range(1, 4) {
                        g.now += *g.rng.pick(&[301u64, 501, 1001, 2001, 5001, 7001, 10_001]);
                        let t = g.now; let v = g.rng.chance(1, 4);
                        ops.push(Op::Recovery(i, t, v));
                    }
                }
            }
            Profile::C02 | Profile::C10 => {
                if r < 8 {
                    // a flushed batch through the real take_batch: data packets with SRT control packets (no number)
                    // at the front, in the middle, at the end
                    let i = g.link(); let t = g.tick(false);
                    let k = g.rng.range(2, 7) as u32;
                    let mut mask = (g.rng.below(1 << k) as u32) & !(1u32 << g.rng.below(k as u64));   // >= 1 data entry
                    if g.rng.chance(1, 3) { mask |= 1; if mask == (1u32 << k) - 1 { mask &= !2; } }   // control packet first
                    let nd = (0..k).filter(|j| (mask >> j) & 1 == 0).count() as i64;
                    let s0 = g.next_seq;
                    if s0 + nd < (1i64 << 31) {
                        g.next_seq += nd;
                        ops.push(Op::Batch(i, s0, k, mask, t));
                        for d in 0..nd { g.sent[i].push(s0 + d); }
                    }
                }
                else if r < 12 {
                    // an SRTLA ACK datagram with several numbers, one call of the real fan-out
                    let idx = g.link(); let t = g.tick(false); let s = g.some_seq(); let k = g.rng.range(2, 10) as u32;
                    if s >= 0 && s + (k as i64) < (1i64 << 31) { ops.push(Op::SrtlaAckRun(idx, s, k, classic_case, t)); }
                }
                else if r < 40 {
                    let i = g.link(); let t = g.tick(false);
                    // fresh send, retransmission of an older (possibly already acked) number, or duplicate probe
                    let s = if g.rng.chance(3, 4) { g.fresh_seq() } else { g.some_seq() };
                    if s >= 0 && s < (1i64 << 31) {
                        ops.push(Op::Register(i, s, t)); g.sent[i].push(s);
                        if g.rng.chance(1, 8) { let j = g.link(); ops.push(Op::Register(j, s, t)); g.sent[j].push(s); }
                    }
                }
                else if r < 58 {
                    let t = g.tick(false);
                    let top = g.next_seq;
                    let a = match g.rng.below(8) {
                        0 => top - 1, 1 => top + 63, 2 => top + 64, 3 => top + 65, 4 => top + 5000,
                        5 => g.base - 1, 6 => g.some_seq(), _ => g.base + g.rng.range(0, (top - g.base).max(1)),
                    };
                    if a >= 0 && a < (1i64 << 31) {
                        ops.push(Op::SrtAck(a, t));
                        if g.rng.chance(1, 5) { ops.push(Op::SrtAck(a, t)); }
                    }
                }
                else if r < 76 {
                    let idx = g.link(); let t = g.tick(false); let s = g.some_seq();
                    if s >= 0 && s < (1i64 << 31) { ops.push(Op::SrtlaAck(idx, s, classic_case, t)); }
                }
                else if r < 88 {
                    let t = g.tick(false); let s = g.some_seq();
                    if s >= 0 && s < (1i64 << 31) {
                        if g.rng.chance(1, 2) { let i = g.link(); ops.push(Op::Track(i, s, t)); }
                        ops.push(Op::Nak(s, t));
                    }
                }
                else if r < 91 { let i = g.link(); ops.push(Op::MarkRecovery(i)); g.sent[i].clear(); }
                else if r < 94 { let i = g.link(); let t = g.tick(false); ops.push(Op::ResetReconnect(i, t)); g.sent[i].clear(); }
                else if r < 98 { let i = g.link(); let t = g.tick(false); ops.push(Op::Reg3(i, t)); g.sent[i].clear(); }
                else { let i = g.link(); let t = g.now; ops.push(Op::SetConn(i, true, Some(t))); }
            }
            Profile::C05 => {
                if r < 40 {
                    // routed packet: tracked at queue time, registered at flush
                    let i = g.link(); let t = g.tick(false);
                    let s = match g.rng.below(6) {
                        0 => { let b = g.some_seq(); b + 16384 * g.rng.range(1, 3) }   // collides modulo the ring
                        1 => g.some_seq(),                                              // retransmission, maybe on another link
                        _ => g.fresh_seq(),
                    };
                    if s >= 0 && s < (1i64 << 31) {
                        ops.push(Op::Track(i, s, t));
                        ops.push(Op::Register(i, s, t)); g.sent[i].push(s);
                        if g.rng.chance(1, 6) {
                            // duplicate probe on another link: registered, never tracked
                            let j = g.link(); ops.push(Op::Register(j, s, t)); g.sent[j].push(s);
                        }
                    }
                }
                else if r < 75 {
                    let s = g.some_seq();
                    let d = *g.rng.pick(&[0u64, 1, 100, 4999, 5000, 5001, 6000]);
                    g.now += if g.rng.chance(1, 3) { d } else { g.rng.below(50) };
                    let t = g.now;
                    if s >= 0 && s < (1i64 << 31) {
                        ops.push(Op::Nak(s, t));
                        if g.rng.chance(1, 3) { ops.push(Op::Nak(s, t + g.rng.below(3))); }
                        if g.rng.chance(1, 6) && s + 8 < (1i64 << 31) {
                            // NAK range: the following numbers arrive in ONE list
                            let k = g.rng.range(2, 6) as u32;
                            ops.push(Op::NakRun(s + 1, k, t));
                        }
                    }
                }
                else if r < 78 && g.n >= 2 {
                    // a burst sent on link l; one number of it retransmitted and re-routed to link m
                    // (l keeps its copy, the tracker now names m); then the whole run is NAKed in one list
                    let l = g.link(); let mut m = g.link(); if m == l { m = (l + 1) % g.n; }
                    let k = g.rng.range(2, 5);
                    let t = g.tick(false);
                    let s0 = g.next_seq; g.next_seq += k;
                    if s0 + k < (1i64 << 31) {
                        for j in 0..k { ops.push(Op::Track(l, s0 + j, t)); ops.push(Op::Register(l, s0 + j, t)); g.sent[l].push(s0 + j); }
                        let rr = s0 + g.rng.range(0, k - 1);
                        let t2 = g.tick(false);
                        ops.push(Op::Track(m, rr, t2)); ops.push(Op::Register(m, rr, t2)); g.sent[m].push(rr);
                        let t3 = g.tick(false);
                        ops.push(Op::NakRun(s0, k as u32, t3));
                    }
                }
                else if r < 79 { let i = g.link(); ops.push(Op::RemoveConn(i)); }
                else if r < 80 && g.n >= 2 {
                    // a routed packet whose duplicate probe is due on a stall-gated uplink, through the real
                    // handle_srt_packet; every uplink heard from just now so that a healthy alternative exists; then NAKed
                    let t = g.tick(false);
                    for l in 0..g.n { ops.push(Op::SetConn(l, true, Some(t))); }
                    let gl = g.link(); let s = g.fresh_seq();
                    if s >= 0 && s < (1i64 << 31) {
                        ops.push(Op::Routed(gl, s, t, 3));
                        for l in 0..g.n { g.sent[l].push(s); }
                        let t2 = t + g.rng.below(3000);
                        g.now = t2;
                        ops.push(Op::Nak(s, t2));
                        if g.rng.chance(1, 2) { ops.push(Op::Nak(s, t2 + 1)); }
                    }
                }
                else if r < 82 {
                    // a reload dropping 1 .. n-1 uplinks at once (the survivors keep what the tracker knows of them)
                    let mut m = (g.rng.below(1 << g.n) as u32) & ((1u32 << g.n) - 1);
                    if m == (1u32 << g.n) - 1 { m &= !(1u32 << g.rng.below(g.n as u64)); }
                    if m != 0 { ops.push(Op::Reload(m)); }
                }
                else if r < 88 { let t = g.tick(false); let top = g.next_seq; let a = top - g.rng.range(0, 40); if a >= 0 { ops.push(Op::SrtAck(a, t)); } }
                else if r < 94 { let idx = g.link(); let t = g.tick(false); let s = g.some_seq(); if s >= 0 && s < (1i64 << 31) { ops.push(Op::SrtlaAck(idx, s, classic_case, t)); } }
                else if r < 97 { let i = g.link(); ops.push(Op::MarkRecovery(i)); g.sent[i].clear(); }
                else { let i = g.link(); let t = g.tick(false); ops.push(Op::Reg3(i, t)); g.sent[i].clear(); }
            }
        }
    }
    ops.truncate(len + 12);
    ops
}

/// Standard driver used by the per-property modules.
pub fn run_profile(prop: &str, run_module: &str, profile: Profile, seed: u64, tier: &str, out: &std::path::Path,
                   corpus: &[(usize, Vec<Op>)]) -> std::io::Result<()> {
    run_profile_with(prop, run_module, profile, seed, tier, out, corpus, "", |_, _| {})
}

/// `wrap`: constructor applied to the core case literal; `extra`: further cases of the property.
#[allow(clippy::too_many_arguments)]
pub fn run_profile_with(prop: &str, run_module: &str, profile: Profile, seed: u64, tier: &str, out: &std::path::Path,
                        corpus: &[(usize, Vec<Op>)], wrap: &str, extra: impl FnOnce(&mut Run, &mut Rng)) -> std::io::Result<()> {
    let mut run = Run::new(prop, run_module, seed, tier, out);
    let mut rng = Rng::new(seed ^ 0xC0DE_0000 ^ (prop.as_bytes()[2] as u64) << 8 ^ prop.as_bytes()[1] as u64);
    for (n, ops) in corpus {
        let (text, p) = run_case(*n, ops);
        if p { run.panics += 1; }
        run.push("corpus", true, if wrap.is_empty() { text } else { format!("{} {}", wrap, text) });
    }
    let ncases = if run.thorough() { 6000 } else { 500 };
    for k in 0..ncases {
        let n = 1 + (rng.below(4) as usize);
        let len = *rng.pick(&[8usize, 20, 40, 60, 90]);
        let mut r2 = rng.fork(k as u64);
        let ops = gen_ops(&mut r2, profile, n, len);
        for o in &ops { run.count(&format!("op:{}", op_kind(o))); }
        run.count(&format!("links:{}", n));
        let (text, p) = run_case(n, &ops);
        if p { run.panics += 1; run.count("impl_panic_cases"); }
        run.push("history", ops.len() >= 8, if wrap.is_empty() { text } else { format!("{} {}", wrap, text) });
    }
    extra(&mut run, &mut rng);
    run.finish(16, 1_000_000)
}
