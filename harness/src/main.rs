//! vharness — runs the real srtla_send code on generated inputs and writes Coq case
//! files (inputs + observed implementation behaviour) for the per-property evaluators.
mod common;
mod core_ops;
include!(concat!(env!("OUT_DIR"), "/registry.rs"));

use std::path::PathBuf;

fn main() {
    let args: Vec<String> = std::env::args().collect();
    if args.len() < 2 {
        eprintln!("usage: vharness <prop> --seed N --tier quick|thorough --out DIR [--expand K] [--scale F]");
        std::process::exit(2);
    }
    let prop = args[1].to_uppercase();
    let mut seed: u64 = 1;
    let mut tier = "quick".to_string();
    let mut out = PathBuf::from(format!("/verif/work/{}", prop));
    let mut extra: Vec<(String, String)> = vec![];
    let mut i = 2;
    while i + 1 < args.len() {
        match args[i].as_str() {
            "--seed" => seed = args[i + 1].parse().unwrap_or(1),
            "--tier" => tier = args[i + 1].clone(),
            "--out" => out = PathBuf::from(&args[i + 1]),
            k => extra.push((k.trim_start_matches("--").to_string(), args[i + 1].clone())),
        }
        i += 2;
    }
    if std::env::var("VERIF_SHOW_PANICS").is_err() { common::quiet_panics(); }
    let r = match dispatch(prop.as_str(), seed, &tier, &out, &extra) {
        Some(r) => r,
        None => {
            eprintln!("unknown property {}", prop);
            std::process::exit(2);
        }
    };
    if let Err(e) = r {
        eprintln!("harness error: {}", e);
        std::process::exit(3);
    }
}
