//! Shared harness plumbing: PRNG, Coq literal printers, shard writer, run summary.
#![allow(dead_code)]
use std::collections::{BTreeMap, HashSet};
use std::fmt::Write as _;
use std::hash::{Hash, Hasher};
use std::path::{Path, PathBuf};

/// splitmix64 / xoshiro256** — every random choice of a run derives from one seed.
#[derive(Clone)]
pub struct Rng {
    s: [u64; 4],
}

impl Rng {
    pub fn new(seed: u64) -> Self {
        let mut z = seed.wrapping_add(0x9E37_79B9_7F4A_7C15);
        let mut next = || {
            z = z.wrapping_add(0x9E37_79B9_7F4A_7C15);
            let mut x = z;
            x = (x ^ (x >> 30)).wrapping_mul(0xBF58_476D_1CE4_E5B9);
            x = (x ^ (x >> 27)).wrapping_mul(0x94D0_49BB_1331_11EB);
            x ^ (x >> 31)
        };
        Rng { s: [next(), next(), next(), next()] }
    }
    pub fn fork(&mut self, salt: u64) -> Rng {
        Rng::new(self.u64() ^ salt.wrapping_mul(0xD6E8_FEB8_6659_FD93))
    }
    pub fn u64(&mut self) -> u64 {
        let r = self.s[1].wrapping_mul(5).rotate_left(7).wrapping_mul(9);
        let t = self.s[1] << 17;
        self.s[2] ^= self.s[0];
        self.s[3] ^= self.s[1];
        self.s[1] ^= self.s[2];
        self.s[0] ^= self.s[3];
        self.s[2] ^= t;
        self.s[3] = self.s[3].rotate_left(45);
        r
    }
    /// uniform in [0, n)
    pub fn below(&mut self, n: u64) -> u64 {
        if n == 0 { 0 } else { self.u64() % n }
    }
    /// uniform in [lo, hi]
    pub fn range(&mut self, lo: i64, hi: i64) -> i64 {
        if hi <= lo { return lo; }
        lo + (self.u64() % ((hi - lo) as u64 + 1)) as i64
    }
    pub fn chance(&mut self, num: u64, den: u64) -> bool {
        self.below(den) < num
    }
    pub fn pick<'a, T>(&mut self, xs: &'a [T]) -> &'a T {
        &xs[self.below(xs.len() as u64) as usize]
    }
    pub fn byte(&mut self) -> u8 {
        self.u64() as u8
    }
    pub fn bytes(&mut self, n: usize) -> Vec<u8> {
        (0..n).map(|_| self.byte()).collect()
    }
}

// ---------- Coq literal printers ----------
pub fn z(v: i128) -> String {
    if v < 0 { format!("({})", v) } else { format!("{}", v) }
}
pub fn zlist<I: IntoIterator<Item = i128>>(it: I) -> String {
    let mut s = String::from("[");
    let mut first = true;
    for v in it {
        if !first { s.push(';'); }
        first = false;
        if v < 0 { let _ = write!(s, "({})", v); } else { let _ = write!(s, "{}", v); }
    }
    s.push(']');
    s
}
pub fn bytes_lit(b: &[u8]) -> String {
    zlist(b.iter().map(|&x| x as i128))
}
pub fn optz(o: Option<i128>) -> String {
    match o { None => "None".into(), Some(v) => format!("(Some {})", z(v)) }
}
pub fn boolc(b: bool) -> &'static str {
    if b { "true" } else { "false" }
}
pub fn blist(bs: &[bool]) -> String {
    format!("[{}]", bs.iter().map(|&b| boolc(b)).collect::<Vec<_>>().join(";"))
}
pub fn optlist(o: Option<Vec<i128>>) -> String {
    match o { None => "None".into(), Some(v) => format!("(Some {})", zlist(v)) }
}
/// f64 as a Coq primitive-float literal (bit exact).
pub fn flt(v: f64) -> String {
    if v.is_nan() { return "nan".into(); }
    if v == f64::INFINITY { return "infinity".into(); }
    if v == f64::NEG_INFINITY { return "neg_infinity".into(); }
    let bits = v.to_bits();
    let neg = (bits >> 63) != 0;
    let exp = ((bits >> 52) & 0x7ff) as i64;
    let man = bits & 0x000f_ffff_ffff_ffff;
    let body = if exp == 0 {
        if man == 0 { "0x0p+0".to_string() } else { format!("0x0.{:013x}p-1022", man) }
    } else {
        let e = exp - 1023;
        format!("0x1.{:013x}p{}{}", man, if e < 0 { "-" } else { "+" }, e.abs())
    };
    if neg { format!("(-{})%float", body) } else { format!("{}%float", body) }
}

// ---------- cases, shards, summary ----------
pub struct Case {
    pub text: String,
    pub kind: &'static str,
    pub nontrivial: bool,
    /// extra cost on top of the text size (e.g. heavy in-Coq evaluation), in "bytes"
    pub extra_cost: usize,
}

pub struct Run {
    pub prop: String,
    pub seed: u64,
    pub tier: String,
    pub out: PathBuf,
    pub run_module: String,
    pub cases: Vec<Case>,
    pub notes: Vec<String>,
    pub counters: BTreeMap<String, u64>,
    pub samples: Vec<String>,
    pub panics: u64,
}

impl Run {
    pub fn new(prop: &str, run_module: &str, seed: u64, tier: &str, out: &Path) -> Self {
        Run {
            prop: prop.into(), seed, tier: tier.into(), out: out.into(), run_module: run_module.into(),
            cases: vec![], notes: vec![], counters: BTreeMap::new(), samples: vec![], panics: 0,
        }
    }
    pub fn thorough(&self) -> bool { self.tier == "thorough" }
    pub fn push(&mut self, kind: &'static str, nontrivial: bool, text: String) {
        self.push_cost(kind, nontrivial, text, 0);
    }
    pub fn push_cost(&mut self, kind: &'static str, nontrivial: bool, text: String, extra_cost: usize) {
        debug_assert!(!text.contains('\n'));
        *self.counters.entry(format!("kind:{}", kind)).or_insert(0) += 1;
        self.cases.push(Case { text, kind, nontrivial, extra_cost });
    }
    pub fn count(&mut self, key: &str) {
        *self.counters.entry(key.to_string()).or_insert(0) += 1;
    }
    pub fn count_n(&mut self, key: &str, n: u64) {
        *self.counters.entry(key.to_string()).or_insert(0) += n;
    }
    pub fn note(&mut self, s: String) { self.notes.push(s); }

    /// Distribute cases over shard files (greedy by cost), write them and the summary.
    pub fn finish(mut self, shards_hint: usize, max_shard_bytes: usize) -> std::io::Result<()> {
        std::fs::create_dir_all(&self.out)?;
        // remove stale shard files
        for e in std::fs::read_dir(&self.out)? {
            let p = e?.path();
            let n = p.file_name().unwrap().to_string_lossy().to_string();
            if n.starts_with("cases_") || n.starts_with(".cases_") { let _ = std::fs::remove_file(p); }
        }
        let total: usize = self.cases.iter().map(|c| c.text.len() + c.extra_cost + 16).sum();
        let nshards = std::cmp::max(shards_hint, total / max_shard_bytes + 1);
        let mut order: Vec<usize> = (0..self.cases.len()).collect();
        order.sort_by_key(|&i| std::cmp::Reverse(self.cases[i].text.len() + self.cases[i].extra_cost));
        let mut bins: Vec<(usize, Vec<usize>)> = vec![(0, vec![]); nshards];
        for i in order {
            let b = bins.iter_mut().min_by_key(|b| b.0).unwrap();
            b.0 += self.cases[i].text.len() + self.cases[i].extra_cost + 16;
            b.1.push(i);
        }
        let mut shard_meta = vec![];
        let mut distinct = HashSet::new();
        let mut distinct_nontrivial = 0u64;
        for c in &self.cases {
            let mut h = std::collections::hash_map::DefaultHasher::new();
            c.text.hash(&mut h);
            if distinct.insert(h.finish()) && c.nontrivial { distinct_nontrivial += 1; }
        }
        for (k, (_, idxs)) in bins.iter_mut().enumerate() {
            if idxs.is_empty() { continue; }
            idxs.sort();
            let name = format!("cases_{:03}.v", k);
            let mut s = String::new();
            let _ = writeln!(s, "From Srtla Require Import Base {}.", self.run_module);
            let _ = writeln!(s, "Local Open Scope Z_scope.");
            let _ = writeln!(s, "Definition cases : list case := [");
            for (j, &i) in idxs.iter().enumerate() {
                let _ = writeln!(s, "{}{}", self.cases[i].text, if j + 1 < idxs.len() { ";" } else { "" });
            }
            let _ = writeln!(s, "].");
            let _ = writeln!(s, "Eval vm_compute in (map check_case cases).");
            std::fs::write(self.out.join(&name), s)?;
            shard_meta.push(serde_json::json!({
                "file": name, "cases": idxs.len(), "first_line": 4,
                "kinds": idxs.iter().map(|&i| self.cases[i].kind).collect::<Vec<_>>(),
            }));
        }
        if self.samples.is_empty() {
            for c in self.cases.iter().filter(|c| c.nontrivial).take(3) {
                let mut t = c.text.clone();
                if t.len() > 600 { t.truncate(600); t.push_str(" …"); }
                self.samples.push(t);
            }
        }
        let summary = serde_json::json!({
            "property": self.prop, "seed": self.seed, "tier": self.tier,
            "evaluations": self.cases.len(),
            "distinct": distinct.len(), "distinct_nontrivial": distinct_nontrivial,
            "shards": shard_meta, "counters": self.counters, "notes": self.notes,
            "samples": self.samples, "impl_panics": self.panics,
        });
        std::fs::write(self.out.join("summary.json"), serde_json::to_string_pretty(&summary).unwrap())?;
        Ok(())
    }
}

/// Run `f`, catching a panic of the code under test.
pub fn catch<T>(f: impl FnOnce() -> T + std::panic::UnwindSafe) -> Option<T> {
    std::panic::catch_unwind(f).ok()
}

pub fn quiet_panics() {
    std::panic::set_hook(Box::new(|_| {}));
}
