//! C13 — stall latch: quick to drop, conservative to rejoin, never blind.
//! Also hosts the shared driver of the stall-guard family (C12 uses it through `crate::c13`).
//!
//! Real `SrtlaConnection`s; every op calls the real code:
//!   register_packet / handle_srtla_ack_specific / handle_srt_ack / mark_for_recovery /
//!   reset_for_reconnect / clear_pre_registration_state, the real shell function
//!   `process_uplink_packet` for inbound datagrams and keepalive echoes (virtual clock),
//!   and `select_connection_idx` for routing decisions.  After each op the touched link
//!   (after a decision: every link) is dumped field by field.
#![allow(dead_code)]
use std::collections::VecDeque;
use std::net::{IpAddr, Ipv4Addr};

use smallvec::SmallVec;
use srtla_core::config_snapshot::ConfigSnapshot;
use srtla_core::connection::{LinkPhase, SrtlaConnection};
use srtla_core::mode::SchedulingMode;
use srtla_core::registration::SrtlaRegistrationManager;
use srtla_core::selection::enhanced::in_flight_cap_exceeded;
use srtla_core::selection::{calculate_quality_multiplier, select_connection_idx};
use srtla_send::sender::verif_hooks::process_uplink_packet;

use crate::common::*;

#[derive(Clone, Copy, Debug)]
pub struct Cfg {
    pub classic: bool,
    pub quality: bool,
    pub guard: bool,
    pub min: i32,
    pub ceil: u64,
    pub ctimeout: u64,
}

impl Cfg {
    pub fn snapshot(&self) -> ConfigSnapshot {
        ConfigSnapshot {
            mode: if self.classic { SchedulingMode::Classic } else { SchedulingMode::Enhanced },
            quality_enabled: self.quality,
            stall_deselect: self.guard,
            stall_min_in_flight: self.min,
            stall_ack_stale_ms: self.ceil,
            conn_timeout_ms: self.ctimeout,
        }
    }
    pub fn lit(&self) -> String {
        format!("(mkCfg {} {} {} {} {} {})", boolc(self.classic), boolc(self.quality), boolc(self.guard),
                z(self.min as i128), self.ceil, self.ctimeout)
    }
}

/// Foreign-field tweaks (fields no model op computes; reported through `OForeign`).
#[derive(Clone, Debug)]
pub enum Tw {
    Rtt(Option<f64>),
    Window(i32),
    Phase(u8),
    Weak(bool),
    Loss(bool),
    Cc(u64, f64),
    Queue(usize),
    Nak(u64),
    Estab(u64),
    Grace(u64),
    Keepalive(u64),
}

#[derive(Clone, Debug)]
pub enum Act {
    Reg(usize, u32, u64),
    SrtlaAck(usize, bool, bool, u64),
    SrtAck(usize, u32, u64),
    Force(usize, i32),
    Inbound(usize, u64),
    Echo(usize, bool, u64, u64),
    SetConn(usize, bool),
    SetRecv(usize, Option<u64>),
    Reset(usize, bool, u64),
    Reg3(usize, u64),
    Tweak(usize, Tw),
    Select(Option<usize>, u64, Cfg),
}

pub fn act_kind(a: &Act) -> &'static str {
    match a {
        Act::Reg(..) => "reg", Act::SrtlaAck(_, true, _, _) => "earned_ack", Act::SrtlaAck(..) => "unknown_ack",
        Act::SrtAck(..) => "cumulative_ack", Act::Force(..) => "force_inflight", Act::Inbound(..) => "inbound",
        Act::Echo(..) => "echo", Act::SetConn(..) => "set_conn", Act::SetRecv(..) => "set_recv",
        Act::Reset(..) => "reset", Act::Reg3(..) => "reg3", Act::Tweak(..) => "tweak", Act::Select(..) => "select",
    }
}

pub struct World {
    pub conns: SmallVec<SrtlaConnection, 4>,
    pub out: Vec<VecDeque<i32>>,
    pub next_seq: i32,
    pub rt: tokio::runtime::Runtime,
    pub sock: tokio::net::UdpSocket,
    pub reg: SrtlaRegistrationManager,
    pub fwd_tx: tokio::sync::mpsc::UnboundedSender<(std::net::SocketAddr, SmallVec<u8, 64>)>,
    pub fwd_rx: tokio::sync::mpsc::UnboundedReceiver<(std::net::SocketAddr, SmallVec<u8, 64>)>,
}

fn phase_code(p: &LinkPhase) -> (i128, i128, i128) {
    match p {
        LinkPhase::Registering => (0, 0, 0),
        LinkPhase::Warming { rtt_probes, entered_ms } => (1, *rtt_probes as i128, *entered_ms as i128),
        LinkPhase::Live => (2, 0, 0),
        LinkPhase::Degraded => (3, 0, 0),
    }
}

/// compact float literal for positions whose argument scope is float_scope
fn fl(v: f64) -> String {
    if v == 1.0 { return "1".into(); }
    if v == 0.0 && v.is_sign_positive() { return "0".into(); }
    let t = flt(v);
    match t.strip_suffix("%float") { Some(b) if !b.starts_with('(') => b.to_string(), _ => t }
}

fn o64(v: Option<u64>) -> String { optz(v.map(|x| x as i128)) }

fn rest_of(c: &SrtlaConnection) -> Vec<i128> {
    let (_, probes, entered) = phase_code(&c.phase);
    let g = &c.congestion;
    vec![
        g.last_nak_time_ms as i128, g.last_window_increase_ms as i128, g.fast_recovery_mode as i128,
        g.nak_burst_start_time_ms as i128, probes, entered,
        c.rtt.waiting_for_keepalive_response as i128, c.rtt.last_keepalive_sent_ms as i128,
        c.rtt.last_rtt_measurement_ms as i128,
    ]
}

fn aux_lit(c: &SrtlaConnection) -> String {
    let srtt = c.get_smooth_rtt_ms();
    format!("(mkX {} {} {} {} {} {} {})",
        z(c.batch_sender.queued_count() as i128), boolc(c.weak), boolc(c.loss_degraded), c.cc_target_bps,
        fl(c.bitrate.current_bitrate_bps), boolc(!(srtt <= 0.0)), srtt as u64)
}

/// the foreign projection of a link (fields no model op computes)
pub fn foreign_lit(c: &SrtlaConnection) -> String {
    let (ph, _, _) = phase_code(&c.phase);
    let g = &c.congestion;
    format!("(mkF {} {} {} {} {} {} {} {} {} {} {} {})",
        z(c.window as i128), o64(c.last_sent), o64(c.last_keepalive_sent), z(g.nak_count as i128),
        z(g.nak_burst_count as i128), ph, c.reconnection.connection_established_ms,
        c.reconnection.startup_grace_deadline_ms, c.reconnection.last_reconnect_attempt_ms,
        c.reconnection.reconnect_failure_count, zlist(rest_of(c)), aux_lit(c))
}

/// dump of one link in four parts: acct, guard, aux, cache literals
#[derive(Clone, PartialEq)]
pub struct Parts { pub a: String, pub g: String, pub x: String, pub c: String }

pub fn link_parts(c: &SrtlaConnection) -> Parts {
    let (ph, _, _) = phase_code(&c.phase);
    let g = &c.congestion;
    let h = c.verif_hidden();
    Parts {
        a: format!("(mkA {} {} {} {} {} {} {} {} {} {} {} {} {} {} {} {})",
            boolc(c.connected), z(c.window as i128), z(c.in_flight_packets as i128), c.packet_log.len(),
            o64(c.last_received), o64(c.last_sent), o64(c.last_keepalive_sent), c.last_ack_or_rtt_sample_ms,
            z(g.nak_count as i128), z(g.nak_burst_count as i128), ph, c.reconnection.connection_established_ms,
            c.reconnection.startup_grace_deadline_ms, c.reconnection.last_reconnect_attempt_ms,
            c.reconnection.reconnect_failure_count, zlist(rest_of(c))),
        g: format!("(mkG {} {} {} {} {} {} {})",
            boolc(c.stall_gated), h.stall_latched_since_ms, h.stall_recovery_since_ms, h.stall_gate_events,
            h.stall_probe_counter, boolc(h.silence_pulled), h.silence_pulls),
        x: aux_lit(c),
        c: format!("(mkC {} {} {})", h.conn_timeout_ms, fl(h.quality_multiplier), h.quality_last_calculated_ms),
    }
}

impl Parts {
    pub fn full(&self) -> String { format!("(mkL {} {} {} {})", self.a, self.g, self.x, self.c) }
}

pub fn link_lit(c: &SrtlaConnection) -> String { link_parts(c).full() }

pub struct Step {
    pub op: String,
    /// (link index, dump) of every observed link; empty = unobserved
    pub obs: Vec<(usize, Parts)>,
    pub res: Vec<Option<usize>>,
    pub kind: &'static str,
}

fn idx_lit(o: Option<usize>) -> String { optz(o.map(|v| v as i128)) }

impl World {
    /// `n` links built by the real constructor at `t0`, then brought up (connected, Live).
    pub fn new(n: usize, t0: u64) -> World {
        let rt = tokio::runtime::Builder::new_current_thread().enable_all().build().unwrap();
        let sock = rt.block_on(async { tokio::net::UdpSocket::bind("127.0.0.1:0").await.unwrap() });
        let (fwd_tx, fwd_rx) = tokio::sync::mpsc::unbounded_channel();
        let mut conns = SmallVec::new();
        for i in 0..n {
            let mut c = SrtlaConnection::new_registering(
                201 + i as u64, format!("s{}", i), IpAddr::V4(Ipv4Addr::new(127, 0, 0, 1 + i as u8)), t0);
            c.connected = true;
            c.phase = LinkPhase::Live;
            c.last_received = Some(t0);
            c.reconnection.connection_established_ms = t0;
            conns.push(c);
        }
        World { conns, out: vec![VecDeque::new(); n], next_seq: 1, rt, sock,
                reg: SrtlaRegistrationManager::new(), fwd_tx, fwd_rx }
    }

    fn uplink(&mut self, i: usize, now: u64, data: &[u8]) {
        srtla_core::utils::verif_clock::set(Some(now));
        let World { conns, rt, sock, reg, fwd_tx, .. } = self;
        let _ = rt.block_on(process_uplink_packet(&mut conns[i], i, reg, sock, fwd_tx, None, data));
        while self.fwd_rx.try_recv().is_ok() {}
    }

    fn tweak(&mut self, i: usize, t: &Tw) {
        let c = &mut self.conns[i];
        match *t {
            Tw::Rtt(Some(x)) => { let (_, _, p, _) = c.rtt.kalman_rtt.verif_state(); c.rtt.kalman_rtt.verif_set_state(x, 0.0, p, true); }
            Tw::Rtt(None) => { let (_, _, p, _) = c.rtt.kalman_rtt.verif_state(); c.rtt.kalman_rtt.verif_set_state(0.0, 0.0, p, false); }
            Tw::Window(w) => c.window = w,
            Tw::Phase(p) => c.phase = match p { 0 => LinkPhase::Registering, 1 => LinkPhase::Warming { rtt_probes: 0, entered_ms: 7 }, 2 => LinkPhase::Live, _ => LinkPhase::Degraded },
            Tw::Weak(b) => c.weak = b,
            Tw::Loss(b) => c.loss_degraded = b,
            Tw::Cc(t, b) => { c.cc_target_bps = t; c.bitrate.current_bitrate_bps = b; }
            Tw::Queue(k) => { if k == 0 { c.batch_sender.reset(); } for _ in 0..k { c.queue_data_packet(&[0u8; 20], None, 1); } }
            Tw::Nak(now) => { let mut w = c.window; c.congestion.handle_nak(&mut w, 0, "x", now); c.window = w; }
            Tw::Estab(v) => c.reconnection.connection_established_ms = v,
            Tw::Grace(v) => c.reconnection.startup_grace_deadline_ms = v,
            Tw::Keepalive(now) => { let _ = c.keepalive_packet(now); }
        }
    }

    /// Apply one action to the real links; returns the recorded steps (possibly none).
    pub fn apply(&mut self, a: &Act) -> Vec<Step> {
        let kind = act_kind(a);
        if let Act::Select(last, now, cfg) = a {
            let mut ins = vec![];
            for c in self.conns.iter() {
                ins.push(format!("mkSI {} {}", fl(calculate_quality_multiplier(c, *now)), boolc(in_flight_cap_exceeded(c))));
            }
            let r = select_connection_idx(&mut self.conns, *last, *now, &cfg.snapshot());
            let obs = self.conns.iter().map(link_parts).enumerate().collect::<Vec<_>>();
            return vec![Step { op: format!("OSelect {} {} {} [{}]", idx_lit(*last), now, cfg.lit(), ins.join(";")),
                               obs, res: vec![r], kind }];
        }
        let i = match *a {
            Act::Reg(i, ..) | Act::SrtlaAck(i, ..) | Act::SrtAck(i, ..) | Act::Force(i, ..) | Act::Inbound(i, ..)
            | Act::Echo(i, ..) | Act::SetConn(i, ..) | Act::SetRecv(i, ..) | Act::Reset(i, ..) | Act::Reg3(i, ..)
            | Act::Tweak(i, ..) => i,
            Act::Select(..) => unreachable!(),
        };
        let f0 = foreign_lit(&self.conns[i]);
        let mut op: Option<String> = None;
        match *a {
            Act::Reg(_, k, now) => {
                if k == 0 { return vec![]; }
                for _ in 0..k {
                    let s = self.next_seq; self.next_seq += 1;
                    self.conns[i].register_packet(s, now);
                    self.out[i].push_back(s);
                }
                op = Some(format!("OReg {} {} {}", i, k, now));
            }
            Act::SrtlaAck(_, known, classic, now) => {
                let seq = if known && !self.out[i].is_empty() { self.out[i].pop_front().unwrap() } else { 0x7ff0_0000 + (now % 1000) as i32 };
                let _ = self.conns[i].handle_srtla_ack_specific(seq, classic, now);
                op = Some(format!("OSrtlaAck {} {} {}", i, boolc(known), now));
            }
            Act::SrtAck(_, k, now) => {
                if k == 0 || self.out[i].is_empty() { return vec![]; }
                let k2 = std::cmp::min(k as usize, self.out[i].len());
                let ack = self.out[i][k2 - 1];
                for _ in 0..k2 { self.out[i].pop_front(); }
                self.conns[i].handle_srt_ack(ack, now);
                op = Some(format!("OSrtAck {} {}", i, k2));
            }
            Act::Force(_, n) => {
                self.conns[i].packet_log.clear(); self.out[i].clear();
                self.conns[i].in_flight_packets = n;
                op = Some(format!("OForce {} {}", i, z(n as i128)));
            }
            Act::Inbound(_, now) => {
                let mut d = [0u8; 20]; d[3] = 42;
                self.uplink(i, now, &d);
                op = Some(format!("OInbound {} {}", i, now));
            }
            Act::Echo(_, waiting, ts, now) => {
                self.conns[i].rtt.waiting_for_keepalive_response = waiting;
                let pkt = srtla_protocol::create_keepalive_packet(ts);
                self.uplink(i, now, &pkt);
                op = Some(format!("OEcho {} {} {} {}", i, boolc(waiting), ts, now));
            }
            Act::SetConn(_, b) => { self.conns[i].connected = b; op = Some(format!("OSetConn {} {}", i, boolc(b))); }
            Act::SetRecv(_, r) => { self.conns[i].last_received = r; op = Some(format!("OSetRecv {} {}", i, o64(r))); }
            Act::Reset(_, hard, now) => {
                if hard { self.conns[i].reset_for_reconnect(now); } else { self.conns[i].mark_for_recovery(); }
                self.out[i].clear();
                op = Some(format!("OReset {}", i));
            }
            Act::Reg3(_, now) => {
                // what process_uplink_packet does on RegistrationEvent::Reg3
                let c = &mut self.conns[i];
                c.clear_pre_registration_state(now);
                c.connected = true;
                c.last_received = Some(now);
                if c.reconnection.connection_established_ms == 0 { c.reconnection.connection_established_ms = now; }
                self.out[i].clear();
                op = Some(format!("OReg3 {} {}", i, now));
            }
            Act::Tweak(_, ref t) => self.tweak(i, t),
            Act::Select(..) => unreachable!(),
        }
        srtla_core::utils::verif_clock::set(None);
        let f1 = foreign_lit(&self.conns[i]);
        let dump = vec![(i, link_parts(&self.conns[i]))];
        let mut steps = vec![];
        match op {
            None => { if f1 != f0 { steps.push(Step { op: format!("OForeign {} {}", i, f1), obs: dump, res: vec![], kind }); } }
            Some(o) => {
                // foreign-field changes caused by the op are reported just before it (unobserved)
                if f1 != f0 { steps.push(Step { op: format!("OForeign {} {}", i, f1), obs: vec![], res: vec![], kind: "foreign_sync" }); }
                steps.push(Step { op: o, obs: dump, res: vec![], kind });
            }
        }
        steps
    }
}

// ---------------------------------------------------------------- case recording
pub struct Recorder {
    pub w: World,
    pub twin: Option<World>,
    pub init: String,
    pub steps: Vec<String>,
    pub kinds: Vec<&'static str>,
    pub events: std::collections::BTreeMap<&'static str, u64>,
    pub twin_diverged: bool,
    pub last_res: Option<usize>,
    pub seen: Vec<Parts>,
}

fn dump_all(w: &World) -> String {
    format!("[{}]", w.conns.iter().map(link_lit).collect::<Vec<_>>().join(";"))
}

impl Recorder {
    /// `setup` prepares the initial state (applied to the twin as well); recording starts after it.
    pub fn new(n: usize, t0: u64, twin: bool, setup: &dyn Fn(&mut World)) -> Recorder {
        let mut w = World::new(n, t0);
        setup(&mut w);
        let twin = if twin { let mut t = World::new(n, t0); setup(&mut t); Some(t) } else { None };
        let init = dump_all(&w);
        let seen = w.conns.iter().map(link_parts).collect();
        Recorder { seen, w, twin, init, steps: vec![], kinds: vec![], events: Default::default(), twin_diverged: false, last_res: None }
    }

    fn bump(&mut self, k: &'static str) { *self.events.entry(k).or_insert(0) += 1; }

    pub fn act(&mut self, a: &Act) {
        let before: Vec<_> = self.w.conns.iter().map(|c| (c.verif_hidden(), c.stall_gated)).collect();
        let mut steps = self.w.apply(a);
        if let Act::Select(last, now, cfg) = a {
            self.last_res = steps[0].res[0];
            let mut ev: Vec<&'static str> = vec![];
            for (k, c) in self.w.conns.iter().enumerate() {
                let (h0, g0) = before[k];
                let h1 = c.verif_hidden();
                if h0.stall_latched_since_ms == 0 && h1.stall_latched_since_ms != 0 {
                    ev.push(if h1.silence_pulled && !(c.connected && c.in_flight_packets >= cfg.min) { "latch_engaged_via_pull" } else { "latch_engaged" });
                }
                if h0.stall_latched_since_ms != 0 && h1.stall_latched_since_ms == 0 { ev.push(if cfg.guard { "latch_released_after_dwell" } else { "latch_cleared_guard_off" }); }
                if h0.stall_latched_since_ms != 0 && h1.stall_latched_since_ms != 0 && h0.stall_recovery_since_ms != 0 && h1.stall_recovery_since_ms == 0 { ev.push("rejoin_run_lapsed"); }
                if h0.stall_recovery_since_ms == 0 && h1.stall_recovery_since_ms != 0 { ev.push("rejoin_run_started"); }
                if !h0.silence_pulled && h1.silence_pulled { ev.push("pull_engaged"); }
                if h0.silence_pulled && !h1.silence_pulled && cfg.guard { ev.push("pull_released"); }
                if !g0 && c.stall_gated { ev.push("gated"); }
            }
            for e in ev { self.bump(e); }
            if let Some(t) = self.twin.as_mut() {
                // the twin holds the same links; for a guard-off decision its stall history is erased first
                if !cfg.guard {
                    for c in t.conns.iter_mut() {
                        let mut h = c.verif_hidden();
                        h.stall_latched_since_ms = 0; h.stall_recovery_since_ms = 0; h.stall_gate_events = 0;
                        h.stall_probe_counter = 0; h.silence_pulled = false; h.silence_pulls = 0;
                        c.verif_set_hidden(h);
                        c.stall_gated = false;
                    }
                    let r2 = select_connection_idx(&mut t.conns, *last, *now, &cfg.snapshot());
                    steps[0].res.push(r2);
                    *self.events.entry("twin_decisions").or_insert(0) += 1;
                }
                for (k, c) in t.conns.iter_mut().enumerate() {
                    c.verif_set_hidden(self.w.conns[k].verif_hidden());
                    c.stall_gated = self.w.conns[k].stall_gated;
                }
            }
        } else if let Some(t) = self.twin.as_mut() {
            let _ = t.apply(a);
        }
        if let Some(t) = self.twin.as_ref() {
            if dump_all(t) != dump_all(&self.w) { self.twin_diverged = true; }
        }
        for s in steps {
            let res = format!("[{}]", s.res.iter().map(|r| idx_lit(*r)).collect::<Vec<_>>().join(";"));
            let mut obs = vec![];
            for (i, p) in s.obs.iter() {
                if self.seen[*i].a == p.a && self.seen[*i].x == p.x { obs.push(format!("LS {} {}", p.g, p.c)); }
                else { obs.push(format!("LF {}", p.full())); }
                self.seen[*i] = p.clone();
            }
            self.steps.push(format!("({},[{}],{})", s.op, obs.join(";"), res));
            self.kinds.push(s.kind);
        }
    }

    pub fn case_lit(&self) -> String {
        format!("mkCase {} [{}]", self.init, self.steps.join(";"))
    }
}

// ---------------------------------------------------------------- generators
pub const MIN_POOL: [i32; 9] = [32, 32, 31, 33, 1, 0, 5, -1, 64];
pub const CEIL_POOL: [u64; 14] = [3000, 3000, 2999, 3001, 1000, 999, 1001, 500, 250, 1, 0, 60000, 10_000, u64::MAX];
pub const RTT_POOL: [f64; 16] = [20.0, 50.0, 62.5, 124.9, 125.0, 125.4, 249.75, 250.0, 250.5, 500.0, 750.0, 1000.0, 2000.0, 0.4, 1999.9, 3.0e19];
pub const CT_POOL: [u64; 6] = [5000, 5000, 4999, 5001, 1000, 60000];

pub fn gen_cfg(rng: &mut Rng, guard_on_pct: u64) -> Cfg {
    Cfg {
        classic: rng.chance(1, 2), quality: rng.chance(1, 2), guard: rng.chance(guard_on_pct, 100),
        min: if rng.chance(1, 2) { 32 } else { *rng.pick(&MIN_POOL) },
        ceil: if rng.chance(1, 2) { 3000 } else { *rng.pick(&CEIL_POOL) },
        ctimeout: *rng.pick(&CT_POOL),
    }
}

/// time steps around the thresholds that matter for link `v` under `cfg`
pub fn dt_pool(w: &World, v: usize, cfg: &Cfg) -> Vec<u64> {
    let e = w.conns[v].effective_stall_stale_ms(cfg.ceil).min(120_000);
    let p = w.conns[v].silence_pull_window_ms(cfg.ceil).min(120_000);
    let mut d = vec![0, 1, 2, 17, 50, 249, 250, 251, p.saturating_sub(1), p, p + 1, e / 4, e / 2, e.saturating_sub(1), e, e + 1,
                     (2 * e).saturating_sub(1), 2 * e, 2 * e + 1, 3 * e, cfg.ctimeout.saturating_sub(1), cfg.ctimeout];
    d.retain(|&x| x <= 250_000);
    d
}

pub struct Script {
    pub n: usize,
    pub now: u64,
    pub cfg: Cfg,
    pub last: Option<usize>,
}

/// one random step of a C13 history
pub fn c13_step(rng: &mut Rng, rec: &mut Recorder, sc: &mut Script, victim: usize) {
    let n = sc.n;
    let i = if rng.chance(3, 5) { victim } else { rng.below(n as u64) as usize };
    if rng.chance(3, 5) {
        let pool = dt_pool(&rec.w, i, &sc.cfg);
        sc.now += *rng.pick(&pool);
    }
    let now = sc.now;
    let latched = rec.w.conns[i].stall_latched();
    let roll = rng.below(100);
    let e = rec.w.conns[i].effective_stall_stale_ms(sc.cfg.ceil).min(120_000);
    if latched && rng.chance(1, 2) {
        // keep the proof fresh (or just miss): a proof event, a short wait, a decision
        if rng.chance(1, 2) {
            if rec.w.out[i].is_empty() { rec.act(&Act::Reg(i, 1 + rng.below(3) as u32, now)); }
            rec.act(&Act::SrtlaAck(i, true, rng.chance(1, 2), now));
        } else {
            let rtt = *rng.pick(&[1u64, 20, 100, 9999, 10_000]);
            rec.act(&Act::Echo(i, true, now.saturating_sub(rtt), now));
        }
        sc.now += *rng.pick(&[0u64, 1, e / 4, e / 2, e.saturating_sub(1), e]);
        rec.act(&Act::Select(sc.last, sc.now, sc.cfg));
        return;
    }
    match roll {
        0..=33 => {
            if rng.chance(1, 40) { sc.cfg.guard = !sc.cfg.guard; }
            if rng.chance(1, 25) { sc.cfg = gen_cfg(rng, 95); }
            let last = if rng.chance(1, 8) { Some(rng.below(n as u64 + 1) as usize) } else { sc.last };
            rec.act(&Act::Select(last, now, sc.cfg));
        }
        34..=43 => rec.act(&Act::Reg(i, *rng.pick(&[1u32, 2, 5, 31, 32, 33, 40]), now)),
        44..=51 => { if rec.w.out[i].is_empty() { rec.act(&Act::Reg(i, 1, now)); } rec.act(&Act::SrtlaAck(i, true, rng.chance(1, 2), now)) }
        52..=55 => rec.act(&Act::SrtlaAck(i, false, rng.chance(1, 2), now)),
        56..=62 => rec.act(&Act::SrtAck(i, *rng.pick(&[1u32, 2, 8, 31, 32, 100]), now)),
        63..=70 => rec.act(&Act::Inbound(i, now)),
        71..=76 => {
            let rtt = *rng.pick(&[0u64, 1, 20, 100, 9999, 10_000, 10_001]);
            rec.act(&Act::Echo(i, rng.chance(4, 5), now.saturating_sub(rtt), now));
        }
        77..=79 => rec.act(&Act::SetConn(i, rng.chance(1, 2))),
        80..=81 => rec.act(&Act::SetRecv(i, if rng.chance(1, 3) { None } else { Some(now.saturating_sub(*rng.pick(&[0u64, 249, 250, 251, 1000, 6000]))) })),
        82..=83 => rec.act(&Act::Reset(i, rng.chance(1, 2), now)),
        84 => rec.act(&Act::Reg3(i, now)),
        85..=87 => rec.act(&Act::Force(i, *rng.pick(&[0i32, 31, 32, 33, 1000, -1, i32::MAX]))),
        88..=92 => rec.act(&Act::Tweak(i, Tw::Rtt(if rng.chance(1, 5) { None } else { Some(*rng.pick(&RTT_POOL)) }))),
        93 => rec.act(&Act::Tweak(i, Tw::Phase(rng.below(4) as u8))),
        94 => rec.act(&Act::Tweak(i, Tw::Keepalive(now))),
        95 => rec.act(&Act::Tweak(i, Tw::Nak(now))),
        96 => rec.act(&Act::Tweak(i, Tw::Queue(rng.below(4) as usize))),
        97 => rec.act(&Act::Tweak(i, Tw::Window(*rng.pick(&[1000i32, 20000, 60000, 5000])))),
        _ => rec.act(&Act::Tweak(i, Tw::Cc(*rng.pick(&[0u64, 1_000_000, 8_000_000]), *rng.pick(&[0.0f64, 500_000.0, 2_000_000.0])))),
    }
    if rec.last_res.is_some() { sc.last = rec.last_res; }
}

/// initial state of a random C13 case (satisfies: latched => proof present, no rejoin run in progress)
pub fn c13_setup(rng: &mut Rng, n: usize, t0: u64) -> impl Fn(&mut World) + 'static {
    let mut plan: Vec<(Option<f64>, bool, u32, bool)> = vec![];
    for _ in 0..n {
        let rtt = if rng.chance(1, 4) { None } else { Some(*rng.pick(&RTT_POOL)) };
        plan.push((rtt, rng.chance(1, 7), *rng.pick(&[0u32, 0, 5, 32, 40]), rng.chance(1, 10)));
    }
    move |w: &mut World| {
        for (i, (rtt, latched, backlog, registering)) in plan.iter().enumerate() {
            w.tweak(i, &Tw::Rtt(*rtt));
            if *backlog > 0 { let _ = w.apply(&Act::Reg(i, *backlog, t0)); }
            if *registering { w.conns[i].connected = false; w.conns[i].phase = LinkPhase::Registering; w.conns[i].last_received = None; }
            if *latched {
                w.conns[i].last_ack_or_rtt_sample_ms = t0.saturating_sub(4000).max(1);
                let mut h = w.conns[i].verif_hidden();
                h.stall_latched_since_ms = t0.saturating_sub(100).max(1);
                h.stall_gate_events = 1;
                w.conns[i].verif_set_hidden(h);
            } else if *backlog > 0 {
                w.conns[i].last_ack_or_rtt_sample_ms = t0;
            }
        }
    }
}

pub fn gen_c13_case(rng: &mut Rng, len: usize) -> Recorder {
    let n = 2 + rng.below(2) as usize;
    let t0 = if rng.chance(1, 10) { 1 + rng.below(3000) } else { 10_000 + rng.below(1_000_000) };
    let setup = c13_setup(rng, n, t0);
    let mut rec = Recorder::new(n, t0, false, &setup);
    let mut sc = Script { n, now: t0, cfg: gen_cfg(rng, 97), last: None };
    let victim = rng.below(n as u64) as usize;
    while rec.steps.len() < len { c13_step(rng, &mut rec, &mut sc, victim); }
    rec
}

// ---------------------------------------------------------------- fixed scenarios (always run first)
pub fn default_cfg() -> Cfg { Cfg { classic: false, quality: true, guard: true, min: 32, ceil: 3000, ctimeout: 5000 } }

/// engage at exactly the window; a draining backlog and a single ACK do not release;
/// a lapse resets the run; sustained proof releases at exactly 2 x window.
pub fn scenario_dwell() -> Recorder {
    let t0 = 100_000u64;
    let mut r = Recorder::new(2, t0, false, &|_w: &mut World| {});
    let cfg = default_cfg();
    r.act(&Act::Reg(0, 40, t0));
    r.act(&Act::SrtlaAck(0, true, false, t0));
    r.act(&Act::Inbound(1, t0));
    r.act(&Act::Select(None, t0 + 2999, cfg));
    r.act(&Act::Inbound(0, t0 + 2999));
    r.act(&Act::Select(Some(1), t0 + 3000, cfg));          // latch engages
    r.act(&Act::SrtAck(0, 100, t0 + 3050));                 // backlog drains via cumulative ACKs
    r.act(&Act::Inbound(0, t0 + 3090));
    r.act(&Act::Select(Some(1), t0 + 3100, cfg));           // still latched
    r.act(&Act::Reg(0, 1, t0 + 3150));
    r.act(&Act::SrtlaAck(0, true, false, t0 + 3200));       // a single earned ACK
    for dt in [3300u64, 5000, 6199, 6200] {                 // fresh ... fresh, then stale again: run lapses
        r.act(&Act::Inbound(0, t0 + dt)); r.act(&Act::Inbound(1, t0 + dt));
        r.act(&Act::Select(Some(1), t0 + dt, cfg));
    }
    let mut t = t0 + 6300;
    while t <= t0 + 12300 {                                  // sustained proof: one echo per second
        r.act(&Act::Inbound(1, t));
        r.act(&Act::Echo(0, true, t - 40, t));
        r.act(&Act::Select(Some(1), t, cfg));
        if t == t0 + 11300 { r.act(&Act::Select(Some(1), t0 + 12299, cfg)); }   // one ms short of 2 x 3000
        t += 1000;
    }
    r
}

/// silence pull at the window, held while drained but mute, escalates to the latch when the
/// proof goes stale, releases only when the link is heard from again.
pub fn scenario_pull() -> Recorder {
    let t0 = 500_000u64;
    let mut r = Recorder::new(3, t0, false, &|w: &mut World| { w.tweak(0, &Tw::Rtt(Some(100.0))); });
    let cfg = default_cfg();
    r.act(&Act::Reg(0, 40, t0));
    r.act(&Act::SrtlaAck(0, true, true, t0));
    r.act(&Act::Inbound(0, t0)); r.act(&Act::Inbound(1, t0)); r.act(&Act::Inbound(2, t0));
    r.act(&Act::Select(None, t0 + 249, cfg));
    r.act(&Act::Select(Some(1), t0 + 250, cfg));            // pulled
    r.act(&Act::SrtAck(0, 100, t0 + 300));                  // drained, still mute
    r.act(&Act::Inbound(1, t0 + 900));
    r.act(&Act::Select(Some(1), t0 + 999, cfg));            // pull held
    r.act(&Act::Select(Some(1), t0 + 1000, cfg));           // proof stale + pulled => latched
    r.act(&Act::Inbound(0, t0 + 1100));
    r.act(&Act::Select(Some(1), t0 + 1101, cfg));           // heard again: pull falls, latch stays
    r.act(&Act::SetConn(0, false));
    r.act(&Act::Select(Some(1), t0 + 1200, cfg));
    let off = Cfg { guard: false, ..cfg };
    r.act(&Act::Select(Some(1), t0 + 1300, off));           // guard off clears everything
    r.act(&Act::Reset(0, false, t0 + 1400));
    r
}

pub fn push_case(run: &mut Run, kind: &'static str, rec: &Recorder, totals: &mut std::collections::BTreeMap<&'static str, u64>) {
    for (k, v) in rec.events.iter() { *totals.entry(*k).or_insert(0) += *v; }
    for k in rec.kinds.iter() { run.count(&format!("op:{}", k)); }
    let nontrivial = rec.events.keys().any(|k| *k != "twin_decisions");
    run.push(kind, nontrivial, rec.case_lit());
}

pub fn run(seed: u64, tier: &str, out: &std::path::Path, _extra: &[(String, String)]) -> std::io::Result<()> {
    let mut run = Run::new("C13", "Run_C13", seed, tier, out);
    let mut rng = Rng::new(seed ^ 0xC13);
    let mut totals = Default::default();
    push_case(&mut run, "scenario", &scenario_dwell(), &mut totals);
    push_case(&mut run, "scenario", &scenario_pull(), &mut totals);
    let (cases, len) = if tier == "thorough" { (1700, 56) } else { (170, 56) };
    for k in 0..cases {
        let mut r = rng.fork(k as u64);
        let l = len / 2 + r.below(len as u64) as usize;
        let rec = gen_c13_case(&mut r, l);
        push_case(&mut run, "generated", &rec, &mut totals);
    }
    for (k, v) in totals.iter() { run.count_n(&format!("event:{}", k), *v); }
    for must in ["latch_engaged", "latch_engaged_via_pull", "latch_released_after_dwell", "rejoin_run_lapsed", "pull_engaged", "pull_released", "latch_cleared_guard_off"] {
        if !totals.contains_key(must) { run.note(format!("guard never hit in this run: {}", must)); }
    }
    srtla_core::utils::verif_clock::set(None);
    run.finish(16, 1_000_000)
}
