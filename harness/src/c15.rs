//! C15 — wire codec: run every decoder/builder of srtla-protocol on generated inputs.
use std::path::Path;

use srtla_protocol::*;

use crate::common::*;

pub struct DecOut {
    pub panic: bool,
    pub ty: Option<i128>,
    pub seq: Option<i128>,
    pub retr: bool,
    pub kats: Option<i128>,
    pub info: Option<Vec<i128>>,
    pub ack: Option<i128>,
    pub nak: Vec<i128>,
    pub sack: Vec<i128>,
    pub is: Vec<bool>,
}

pub fn decode_all(b: &[u8]) -> DecOut {
    let r = catch(|| {
        let ty = get_packet_type(b).map(|v| v as i128);
        let seq = get_srt_sequence_number(b).map(|v| v as i128);
        let retr = is_srt_data_retransmit(b);
        let kats = extract_keepalive_timestamp(b).map(|v| v as i128);
        let info = extract_keepalive_conn_info(b).map(|i| {
            vec![i.conn_id as i128, i.window as i128, i.in_flight as i128, i.rtt_ms as i128,
                 i.nak_count as i128, i.bitrate_bytes_per_sec as i128]
        });
        let ack = parse_srt_ack(b).map(|v| v as i128);
        let nak: Vec<i128> = parse_srt_nak(b).iter().map(|&v| v as i128).collect();
        let sack: Vec<i128> = parse_srtla_ack(b).iter().map(|&v| v as i128).collect();
        let is = vec![is_srtla_reg1(b), is_srtla_reg2(b), is_srtla_reg3(b), is_srtla_keepalive(b), is_srt_ack(b)];
        DecOut { panic: false, ty, seq, retr, kats, info, ack, nak, sack, is }
    });
    r.unwrap_or(DecOut { panic: true, ty: None, seq: None, retr: false, kats: None, info: None, ack: None,
                         nak: vec![], sack: vec![], is: vec![] })
}

fn dec_lit(o: &DecOut) -> String {
    format!("{{| d_panic := {}; d_type := {}; d_seq := {}; d_retr := {}; d_kats := {}; d_info := {}; d_ack := {}; d_nak := {}; d_sack := {}; d_is := {} |}}",
        boolc(o.panic), optz(o.ty), optz(o.seq), boolc(o.retr), optz(o.kats), optlist(o.info.clone()),
        optz(o.ack), zlist(o.nak.iter().copied()), zlist(o.sack.iter().copied()), blist(&o.is))
}

fn cdec(run: &mut Run, kind: &'static str, b: &[u8]) {
    let o = decode_all(b);
    if o.panic { run.panics += 1; }
    let nontrivial = o.panic || o.ty.is_some();
    if !o.nak.is_empty() { run.count("dec:nak_nonempty"); }
    if o.nak.len() >= 1000 { run.count("dec:nak_cap_hit"); }
    if !o.sack.is_empty() { run.count("dec:sack_nonempty"); }
    if o.ack.is_some() { run.count("dec:srt_ack_some"); }
    if o.kats.is_some() { run.count("dec:ka_ts_some"); }
    if o.info.is_some() { run.count("dec:ka_info_some"); }
    if o.retr { run.count("dec:retransmit_true"); }
    if o.seq.is_some() { run.count("dec:seq_some"); }
    run.count_n("dec:input_bytes", b.len() as u64);
    let text = format!("CDec {} {}", bytes_lit(b), dec_lit(&o));
    // NAK expansion of long ranges is the costly part of in-Coq evaluation
    let extra = o.nak.len() * 40;
    run.push_cost(kind, nontrivial, text, extra);
}

// ---- exhaustive type-code family: same rule as Run_C15.fam_frame ----
pub fn fam_frame(len: usize, salt: u64, t: u32) -> Vec<u8> {
    let mut v = vec![(t / 256) as u8, (t % 256) as u8];
    let mut j = 2u64;
    while v.len() < len {
        let x = (t as u64 * 7 + j * 31 + salt + (t as u64 / 256) * 13) % 256;
        v.push(x as u8);
        j += 1;
    }
    v.truncate(len);
    v
}

fn hstep(acc: &mut (i128, i128), v: i128) {
    acc.0 += (v + 7) * acc.1;
    acc.1 += 1;
}
fn hopt(acc: &mut (i128, i128), o: Option<i128>) {
    match o { None => hstep(acc, -1), Some(v) => { hstep(acc, 1); hstep(acc, v); } }
}
fn hlist(acc: &mut (i128, i128), l: &[i128]) {
    hstep(acc, l.len() as i128);
    for &v in l { hstep(acc, v); }
}
fn hash_out(acc: &mut (i128, i128), o: &DecOut) {
    hstep(acc, o.panic as i128);
    hopt(acc, o.ty);
    hopt(acc, o.seq);
    hstep(acc, o.retr as i128);
    hopt(acc, o.kats);
    match &o.info { None => hstep(acc, -1), Some(l) => { hstep(acc, 1); hlist(acc, l); } }
    hopt(acc, o.ack);
    hlist(acc, &o.nak);
    hlist(acc, &o.sack);
    for &b in &o.is { hstep(acc, b as i128); }
}

fn family(run: &mut Run, len: usize, salt: u64) {
    // 16 cases of 16 blocks of 256 type codes = all 65536 codes at this length
    for part in 0..16u32 {
        let mut blocks = vec![];
        for blk in 0..16u32 {
            let k = part * 16 + blk;
            let mut acc = (0i128, 1i128);
            for t in (k * 256)..(k * 256 + 256) {
                let f = fam_frame(len, salt, t);
                let o = decode_all(&f);
                if o.panic { run.panics += 1; }
                hash_out(&mut acc, &o);
            }
            blocks.push(acc.0);
        }
        run.count_n("family:frames", 4096);
        run.push_cost("family", true, format!("CFam {} {} {} {}", len, salt, part * 16, zlist(blocks)),
                      60_000 + len * 1500);
    }
    run.note(format!("family: all 65536 type codes at length {} (salt {}) — inputs generated inside Coq, block checksums cross", len, salt));
}

fn nak_packet(rng: &mut Rng, big: bool) -> Vec<u8> {
    let mut b = vec![0x80, 0x03, 0, 0];
    let n = rng.range(1, if big { 40 } else { 6 });
    for _ in 0..n {
        match rng.below(10) {
            0..=3 => b.extend_from_slice(&(rng.u64() as u32 & 0x7fff_ffff).to_be_bytes()),
            4..=6 => {
                let s = rng.u64() as u32 & 0x7fff_ffff;
                let w = *rng.pick(&[0u32, 1, 2, 5, 50, 999, 1000, 1001, 5000]);
                b.extend_from_slice(&(s | 0x8000_0000).to_be_bytes());
                b.extend_from_slice(&s.wrapping_add(w).to_be_bytes());
            }
            7 => {
                // end < start, end = u32::MAX, 2^31-wide
                let s = rng.u64() as u32 & 0x7fff_ffff;
                let e = *rng.pick(&[0u32, s.wrapping_sub(1), u32::MAX, s.wrapping_add(1 << 31), 0x7fff_ffff, 0x8000_0000]);
                b.extend_from_slice(&(s | 0x8000_0000).to_be_bytes());
                b.extend_from_slice(&e.to_be_bytes());
            }
            8 => {
                // start near wrap of u32 with end = MAX: exercises wrapping_add
                let s = 0x7fff_ffffu32 - rng.below(4) as u32;
                b.extend_from_slice(&(s | 0x8000_0000).to_be_bytes());
                b.extend_from_slice(&u32::MAX.to_be_bytes());
            }
            _ => {
                // range marker as the last word (truncated tail)
                b.extend_from_slice(&((rng.u64() as u32) | 0x8000_0000).to_be_bytes());
                let cut = rng.below(4) as usize;
                b.extend_from_slice(&rng.bytes(cut));
                return b;
            }
        }
    }
    let cut = rng.below(4) as usize;
    b.extend_from_slice(&rng.bytes(cut));
    b
}

pub fn run(seed: u64, tier: &str, out: &Path, extra: &[(String, String)]) -> std::io::Result<()> {
    let mut run = Run::new("C15", "Run_C15", seed, tier, out);
    let thorough = run.thorough();
    let mut rng = Rng::new(seed ^ 0xC15);

    if let Some((_, spec)) = extra.iter().find(|(k, _)| k == "expand") {
        // expand one disagreeing family block into individual CDec cases: "len:salt:block"
        let p: Vec<u64> = spec.split(':').filter_map(|x| x.parse().ok()).collect();
        if p.len() == 3 {
            for t in (p[2] * 256)..(p[2] * 256 + 256) {
                let f = fam_frame(p[0] as usize, p[1], t as u32);
                cdec(&mut run, "family_expanded", &f);
            }
        }
        return run.finish(16, 1_000_000);
    }

    // 1. exhaustive: every byte string of length 0 and 1; length 2 = the family at len 2
    cdec(&mut run, "exhaustive_len0", &[]);
    for x in 0..=255u8 { cdec(&mut run, "exhaustive_len1", &[x]); }
    let salt = seed % 251;
    family(&mut run, 2, salt);
    let lens = [3usize, 4, 7, 8, 9, 10, 19, 20, 37, 38];
    if thorough {
        for &l in &lens { family(&mut run, l, salt); }
    } else {
        for k in 0..2 { family(&mut run, lens[((seed as usize) * 2 + k) % lens.len()], salt); }
    }

    // 2. structured decoder inputs
    let n_struct = if thorough { 12_000 } else { 1_200 };
    for i in 0..n_struct {
        let b: Vec<u8> = match i % 12 {
            0 | 1 => nak_packet(&mut rng, i % 24 == 0),
            2 => {
                // SRTLA ACK, lengths around the 8-byte minimum and word boundaries
                let n = *rng.pick(&[0usize, 1, 2, 3, 4, 5, 6, 7, 8, 9, 11, 12, 40, 44, 45]);
                let mut b = vec![0x91, 0x00, rng.byte(), rng.byte()];
                b.extend_from_slice(&rng.bytes(n));
                b
            }
            3 => {
                // SRT ACK around 20 bytes
                let n = *rng.pick(&[15usize, 16, 17, 18, 19, 20, 21, 24, 44]);
                let mut b = vec![0x80, 0x02];
                b.extend_from_slice(&rng.bytes(n));
                b.truncate(std::cmp::max(n, 2));
                b
            }
            4 | 5 => {
                // keepalives: std/ext, right/wrong magic+version, truncated
                let info = ConnectionInfo {
                    conn_id: rng.u64() as u32, window: rng.u64() as i32, in_flight: rng.u64() as i32,
                    rtt_ms: rng.u64() as u32, nak_count: rng.u64() as u32, bitrate_bytes_per_sec: rng.u64() as u32,
                };
                let mut b = create_keepalive_packet_ext(info, rng.u64()).to_vec();
                match rng.below(6) {
                    0 => b[10] ^= 1 << rng.below(8),
                    1 => b[13] ^= 1 << rng.below(8),
                    2 => b.truncate(*rng.pick(&[2usize, 9, 10, 11, 13, 37])),
                    3 => { let k = rng.below(20) as usize; b.extend_from_slice(&rng.bytes(k)); }
                    4 => b[1] ^= 1,
                    _ => {}
                }
                b
            }
            6 => {
                // SRT data packets with flags
                let n = *rng.pick(&[3usize, 4, 5, 7, 8, 9, 16, 188]);
                let mut b = rng.bytes(n);
                if n > 0 { b[0] &= 0x7f; }
                if n > 4 && rng.chance(1, 2) { b[4] = *rng.pick(&[0x04, 0xf8, 0xfc, 0x00, 0x84]); }
                b
            }
            7 => {
                // REG1/REG2/REG3/ERR/NGP at right and off-by-one lengths
                let ty = *rng.pick(&[0x9200u16, 0x9201, 0x9202, 0x9210, 0x9211, 0x9212]);
                let n = *rng.pick(&[2usize, 3, 257, 258, 259]);
                let mut b = ty.to_be_bytes().to_vec();
                b.extend_from_slice(&rng.bytes(n - 2));
                b
            }
            8 => {
                // valid type code, random short length
                let ty = *rng.pick(&[0x9000u16, 0x9100, 0x8002, 0x8003, 0x8000, 0x8005, 0x0000]);
                let n = rng.range(2, 48) as usize;
                let mut b = ty.to_be_bytes().to_vec();
                b.extend_from_slice(&rng.bytes(n - 2));
                b
            }
            _ => {
                let n = rng.range(0, 64) as usize;
                rng.bytes(n)
            }
        };
        cdec(&mut run, "structured", &b);
    }
    // 3. MTU-size inputs crossing in full (quota)
    let n_mtu = if thorough { 300 } else { 32 };
    for i in 0..n_mtu {
        let n = *rng.pick(&[1316usize, 1456, 1499, 1500]);
        let mut b = rng.bytes(n);
        match i % 4 {
            0 => { b[0] = 0x80; b[1] = 0x03; for w in (4..n - 3).step_by(4) { b[w] &= 0x7f; } } // long NAK, singles
            1 => { b[0] = 0x91; b[1] = 0x00; }
            2 => { b[0] &= 0x7f; }
            _ => {}
        }
        cdec(&mut run, "mtu", &b);
    }

    // 4. builders + round trips
    let n_build = if thorough { 3000 } else { 400 };
    let u64s = [0u64, 1, 255, 256, u32::MAX as u64, 1 << 32, u64::MAX - 1, u64::MAX];
    for i in 0..n_build {
        match i % 4 {
            0 => {
                let which = 1 + (rng.below(2) as i128);
                let mut id = [0u8; SRTLA_ID_LEN];
                for x in id.iter_mut() { *x = rng.byte(); }
                let outp = if which == 1 { create_reg1_packet(&id).to_vec() } else { create_reg2_packet(&id).to_vec() };
                let isr = if which == 1 { is_srtla_reg1(&outp) } else { is_srtla_reg2(&outp) };
                run.push("build_reg", true, format!("CReg {} {} {} {}", which, bytes_lit(&id), bytes_lit(&outp), boolc(isr)));
            }
            1 => {
                let now = if rng.chance(1, 3) { *rng.pick(&u64s) } else { rng.u64() >> rng.below(64) };
                let outp = create_keepalive_packet(now);
                let rts = extract_keepalive_timestamp(&outp).map(|v| v as i128);
                run.push("build_ka", true, format!("CKa {} {} {}", now, bytes_lit(&outp), optz(rts)));
            }
            2 => {
                let i32s = [i32::MIN, -1, 0, 1, 20000, 60000, i32::MAX];
                let u32s = [0u32, 1, 1000, u32::MAX - 1, u32::MAX];
                let pi = |r: &mut Rng| if r.chance(1, 2) { *r.pick(&i32s) } else { r.u64() as i32 };
                let pu = |r: &mut Rng| if r.chance(1, 2) { *r.pick(&u32s) } else { r.u64() as u32 };
                let info = ConnectionInfo {
                    conn_id: pu(&mut rng), window: pi(&mut rng), in_flight: pi(&mut rng),
                    rtt_ms: pu(&mut rng), nak_count: pu(&mut rng), bitrate_bytes_per_sec: pu(&mut rng),
                };
                let now = if rng.chance(1, 3) { *rng.pick(&u64s) } else { rng.u64() >> rng.below(64) };
                let outp = create_keepalive_packet_ext(info, now);
                let rts = extract_keepalive_timestamp(&outp).map(|v| v as i128);
                let rinfo = extract_keepalive_conn_info(&outp).map(|i| vec![i.conn_id as i128, i.window as i128,
                    i.in_flight as i128, i.rtt_ms as i128, i.nak_count as i128, i.bitrate_bytes_per_sec as i128]);
                let il = vec![info.conn_id as i128, info.window as i128, info.in_flight as i128, info.rtt_ms as i128,
                              info.nak_count as i128, info.bitrate_bytes_per_sec as i128];
                run.push("build_ka_ext", true, format!("CKaExt {} {} {} {} {}", zlist(il), now, bytes_lit(&outp), optz(rts), optlist(rinfo)));
            }
            _ => {
                let n = *rng.pick(&[0usize, 1, 2, 3, 10, 11, 64, 100]);
                let acks: Vec<u32> = (0..n).map(|_| if rng.chance(1, 4) { *rng.pick(&[0u32, 1, 0x7fff_ffff, 0x8000_0000, u32::MAX]) } else { rng.u64() as u32 }).collect();
                let outp = create_ack_packet(&acks);
                let rt: Vec<i128> = parse_srtla_ack(&outp).iter().map(|&v| v as i128).collect();
                run.push("build_ack", true, format!("CAck {} {} {}", zlist(acks.iter().map(|&v| v as i128)), bytes_lit(&outp), zlist(rt)));
            }
        }
    }
    run.finish(16, 1_000_000)
}
