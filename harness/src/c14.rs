//! C14 — keepalive cadence / frame / RTT sampling.  Drives the REAL
//! `handle_housekeeping` and `handle_uplink_packet` (feature verif-hooks re-exports) on real
//! `SrtlaConnection`s over loopback UDP sockets under the virtual clock; every frame that
//! reaches a per-uplink "receiver" socket and the link / RTT-tracker / Kalman state after
//! every op are written into the case, bit-exact.
use std::collections::HashMap;
use std::net::{IpAddr, Ipv4Addr, SocketAddr, UdpSocket as StdUdp};
use std::os::fd::{FromRawFd, IntoRawFd, RawFd};
use std::path::Path;
use std::sync::Arc;
use std::sync::atomic::{AtomicBool, Ordering};

use smallvec::SmallVec;
use socket2::{Domain, Protocol, Socket, Type};
use srtla_core::connection::SrtlaConnection;
use srtla_core::registration::SrtlaRegistrationManager;
use srtla_core::utils::verif_clock;
use srtla_send::ConfigSnapshot;
use srtla_send::net::{BatchUdpSocket, CallbackBinder, UplinkBinder};
use srtla_send::sender::SequenceTracker;
use srtla_send::sender::verif_hooks::{
    ConnIo, ConnIoMap, ConnectionId, InstantForwarder, ReaderHandle, UplinkPacket,
    create_uplink_channel, handle_housekeeping, handle_uplink_packet,
};
use tokio::sync::mpsc::{UnboundedReceiver, UnboundedSender};

use crate::common::{Rng, Run, boolc, bytes_lit, optz, z};

/// Binder whose failure can be scripted: the socket re-creation result is an input of a tick.
fn script_binder(fail: Arc<AtomicBool>) -> Arc<dyn UplinkBinder> {
    Arc::new(CallbackBinder(move |fd: RawFd, ip: IpAddr| -> std::io::Result<()> {
        if fail.load(Ordering::SeqCst) {
            return Err(std::io::Error::other("scripted bind failure"));
        }
        let sock = unsafe { Socket::from_raw_fd(fd) };
        let r = sock.bind(&SocketAddr::new(ip, 0).into());
        let _ = sock.into_raw_fd();
        r
    }))
}

struct Sim {
    conns: Vec<SrtlaConnection>,
    conn_io: ConnIoMap,
    reg: SrtlaRegistrationManager,
    readers: HashMap<ConnectionId, ReaderHandle>,
    packet_tx: UnboundedSender<UplinkPacket>,
    _packet_rx: UnboundedReceiver<UplinkPacket>,
    receivers: Vec<StdUdp>,
    fail: Vec<Arc<AtomicBool>>,
    listener: tokio::net::UdpSocket,
    instant_tx: InstantForwarder,
    _instant_rx: UnboundedReceiver<(SocketAddr, SmallVec<u8, 64>)>,
    seq: SequenceTracker,
    cfg: ConfigSnapshot,
    all_failed_at: Option<u64>,
}

impl Sim {
    async fn new(ids: &[u64], t0: u64) -> std::io::Result<Sim> {
        let mut conns = vec![];
        let mut conn_io: ConnIoMap = HashMap::new();
        let mut receivers = vec![];
        let mut fail = vec![];
        for (i, &id) in ids.iter().enumerate() {
            let recv = StdUdp::bind("127.0.0.1:0")?;
            recv.set_nonblocking(true)?;
            let remote = recv.local_addr()?;
            let ip = IpAddr::V4(Ipv4Addr::new(127, 0, 0, 2 + i as u8));
            let sock = Socket::new(Domain::IPV4, Type::DGRAM, Some(Protocol::UDP))?;
            sock.bind(&SocketAddr::new(ip, 0).into())?;
            sock.connect(&remote.into())?;
            sock.set_nonblocking(true)?;
            let flag = Arc::new(AtomicBool::new(false));
            conn_io.insert(id, ConnIo {
                socket: Arc::new(BatchUdpSocket::new(sock)?),
                binder: script_binder(flag.clone()),
                remote,
            });
            conns.push(SrtlaConnection::new_registering(id, format!("L{}", i), ip, t0));
            receivers.push(recv);
            fail.push(flag);
        }
        let (packet_tx, packet_rx) = create_uplink_channel();
        let (instant_tx, instant_rx) = tokio::sync::mpsc::unbounded_channel();
        let mut reg = SrtlaRegistrationManager::new();
        reg.has_connected = true;
        Ok(Sim {
            conns, conn_io, reg, readers: HashMap::new(), packet_tx, _packet_rx: packet_rx,
            receivers, fail, listener: tokio::net::UdpSocket::bind("127.0.0.1:0").await?,
            instant_tx, _instant_rx: instant_rx, seq: SequenceTracker::new(),
            cfg: ConfigSnapshot::default(), all_failed_at: None,
        })
    }

    /// everything that reached uplink i's receiver socket since the last drain
    fn drain(&self, i: usize) -> Vec<Vec<u8>> {
        let mut out = vec![];
        let mut buf = [0u8; 2048];
        while let Ok((n, _)) = self.receivers[i].recv_from(&mut buf) {
            out.push(buf[..n].to_vec());
        }
        out
    }

    async fn tick(&mut self, now: u64, classic: bool) {
        verif_clock::set(Some(now));
        let _ = handle_housekeeping(&mut self.conns, &mut self.conn_io, &mut self.reg, classic, now,
            &mut self.all_failed_at, &mut self.readers, &self.packet_tx).await;
    }

    async fn packet(&mut self, i: usize, bytes: &[u8], now: u64) {
        verif_clock::set(Some(now));
        let pkt = UplinkPacket { conn_id: self.conns[i].conn_id, bytes: SmallVec::from_slice_copy(bytes) };
        handle_uplink_packet(pkt, &mut self.conns, &self.conn_io, &mut self.reg, &self.instant_tx, None,
            &self.listener, &self.seq, &self.cfg).await;
    }
}

// ---------- printers ----------
/// compact, exact Coq float literal (argument scopes in Run_C14 are %float)
fn fl(v: f64) -> String {
    if v.is_nan() { return "nan".into(); }
    if v == f64::INFINITY { return "infinity".into(); }
    if v == f64::NEG_INFINITY { return "neg_infinity".into(); }
    if v == 0.0 { return if v.is_sign_negative() { "(-0)".into() } else { "0".into() }; }
    if v.fract() == 0.0 && v.abs() < 9.0e15 {
        let i = v as i64;
        return if i < 0 { format!("({})", i) } else { format!("{}", i) };
    }
    let bits = v.to_bits();
    let neg = (bits >> 63) != 0;
    let exp = ((bits >> 52) & 0x7ff) as i64;
    let man = bits & 0x000f_ffff_ffff_ffff;
    let mut hex = format!("{:013x}", man);
    while hex.ends_with('0') { hex.pop(); }
    let body = if exp == 0 {
        format!("0x0.{}p-1022", hex)
    } else {
        let e = exp - 1023;
        if hex.is_empty() { format!("0x1p{}{}", if e < 0 { "-" } else { "+" }, e.abs()) }
        else { format!("0x1.{}p{}{}", hex, if e < 0 { "-" } else { "+" }, e.abs()) }
    };
    if neg { format!("(-{})", body) } else { body }
}
fn flist(vs: &[f64]) -> String {
    format!("[{}]%float", vs.iter().map(|&v| fl(v)).collect::<Vec<_>>().join(";"))
}
fn ou(o: Option<u64>) -> String { optz(o.map(|v| v as i128)) }

fn lobs(c: &SrtlaConnection) -> String {
    let h = c.verif_hidden();
    let k = c.rtt.kalman_rtt.verif_state();
    format!("(LO {} {} {} {} {} {} {} {} {} {} {} {} {} {})",
        boolc(c.connected), ou(c.last_received), ou(c.last_keepalive_sent), c.last_ack_or_rtt_sample_ms,
        h.conn_timeout_ms, c.reconnection.connection_established_ms, c.reconnection.startup_grace_deadline_ms,
        c.reconnection.last_reconnect_attempt_ms, c.reconnection.reconnect_failure_count,
        boolc(c.rtt.waiting_for_keepalive_response), c.rtt.last_keepalive_sent_ms,
        c.rtt.last_rtt_measurement_ms, boolc(k.3), fl(c.get_smooth_rtt_ms()))
}
fn pobs(c: &SrtlaConnection) -> String {
    format!("(PO {} {} {} {} {} {})", boolc(c.connected), ou(c.last_received), c.verif_hidden().conn_timeout_ms,
        c.rtt.last_rtt_measurement_ms, boolc(c.rtt.kalman_rtt.verif_state().3), fl(c.get_smooth_rtt_ms()))
}
fn kobs(c: &SrtlaConnection) -> String {
    let k = c.rtt.kalman_rtt.verif_state();
    flist(&[k.0, k.1, k.2[0], k.2[1], k.2[2], k.2[3]])
}
fn fobs(c: &SrtlaConnection) -> String {
    let r = &c.rtt;
    flist(&[r.rtt_jitter_ms, r.prev_rtt_ms, r.rtt_avg_delta.value(), r.rtt_min_ms, r.rtt_min_fast_ms,
            r.rtt_min_slow_ms, r.rtt_masd_ms, r.estimated_rtt_ms])
}
fn dump(c: &SrtlaConnection) -> String {
    let (fw, sw, sf) = c.rtt.verif_windows();
    format!("(DU {} {} {} {} {} {})", lobs(c), kobs(c), fobs(c), flist(&fw), flist(&sw), flist(&sf))
}
/// a byte string as (length, one hexadecimal numeral), unpacked inside Coq
fn hexbytes(b: &[u8]) -> String {
    let mut h = String::with_capacity(2 * b.len() + 8);
    for x in b { h.push_str(&format!("{:02x}", x)); }
    let t = h.trim_start_matches('0');
    format!("{} 0x{}", b.len(), if t.is_empty() { "0" } else { t })
}
fn frame(b: &[u8]) -> String {
    if b.len() <= 64 { format!("FB {}", hexbytes(b)) } else { format!("FG {} {}", b.len(), bytes_lit(&b[..2])) }
}

// ---------- case generation ----------
const WPOOL: [i32; 12] = [i32::MIN, -1, 0, 1, 999, 1000, 1001, 20000, 59999, 60000, 60001, i32::MAX];
const FPOOL: [i32; 8] = [i32::MIN, -5, 0, 1, 7, 100, 12000, i32::MAX];
const NPOOL: [i32; 8] = [0, 0, 1, 4, 5, 1000, i32::MAX, -1];
const BPOOL: [f64; 20] = [0.0, -0.0, 7.99, 8.0, 8.01, 1.0e6, 2.5e6, 12345678.9, 34359738360.0, 34359738367.9,
    34359738368.0, 34359738376.0, 1.0e20, f64::MAX, f64::INFINITY, f64::NEG_INFINITY, f64::NAN, -1.0, -8.5, 5e-324];
const TICK_ON: [u64; 8] = [1000, 1000, 1000, 1000, 999, 500, 250, 1];
const TICK_OFF: [u64; 14] = [0, 1001, 1500, 2000, 2999, 3000, 3001, 4000, 4999, 5000, 5001, 10001, 30000, 120001];

struct Gen {
    sim: Sim,
    now: u64,
    ops: Vec<String>,
    obs: Vec<String>,
    /// (due time, link, bytes)
    planned: Vec<(u64, usize, Vec<u8>)>,
    /// recent keepalive frames seen on the wire: (link, bytes, sent_at)
    recent: Vec<(usize, Vec<u8>, u64)>,
    samples: u64,
    rejected: u64,
    ka_frames: u64,
    reg2_frames: u64,
    live_ticks: u64,
    link_samples: Vec<u64>,
    /// send-fault history (case kind CF): sends on a down uplink whose re-open is refused fail too
    send_faults: bool,
}

fn ka10(ts: u64) -> Vec<u8> {
    let mut v = vec![0x90, 0x00];
    v.extend_from_slice(&ts.to_be_bytes());
    v
}

impl Gen {
    async fn pkt(&mut self, i: usize, bytes: &[u8], at: u64, run: &mut Run) {
        let now = at.max(self.now);
        self.now = now;
        // keep the registration manager quiescent: no REG_NGP / REG2 from the receiver side
        if bytes.len() >= 2 && bytes[0] == 0x92 && (bytes[1] == 0x11 || bytes[1] == 0x01) { return; }
        let (pre, prek) = (lobs(&self.sim.conns[i]), kobs(&self.sim.conns[i]));
        let before = self.sim.conns[i].rtt.last_rtt_measurement_ms;
        let waiting = self.sim.conns[i].rtt.waiting_for_keepalive_response;
        self.sim.packet(i, bytes, now).await;
        let c = &self.sim.conns[i];
        if c.rtt.last_rtt_measurement_ms != before {
            self.samples += 1; self.link_samples[i] += 1; run.count("echo:sample_taken");
            if c.rtt.kalman_rtt.value() < 0.0 { run.count("kalman:negative_overshoot_after_sample"); }
        }
        else if waiting && bytes.len() >= 2 && bytes[0] == 0x90 && bytes[1] == 0 { self.rejected += 1; run.count("echo:rejected_while_waiting"); }
        else if bytes.len() >= 2 && bytes[0] == 0x90 && bytes[1] == 0 { run.count("echo:no_probe_outstanding"); }
        self.ops.push(format!("OPkt {} (BH {}) {}", i, hexbytes(bytes), now));
        self.obs.push(format!("BPkt {} {} {} {} {}", pre, prek, lobs(c), kobs(c), fobs(c)));
        for j in 0..self.sim.conns.len() { let _ = self.sim.drain(j); }
    }

    async fn mark(&mut self, i: usize, run: &mut Run) {
        self.sim.conns[i].mark_for_recovery();
        run.count("reset:mark_for_recovery");
        self.ops.push(format!("OMark {}", i));
        self.obs.push(format!("BMark {}", lobs(&self.sim.conns[i])));
    }

    /// the run-time liveness window reaches link i (what `refresh_conn_timeouts` does with the snapshot value)
    fn set_timeout(&mut self, i: usize, t: u64, run: &mut Run) {
        let mut h = self.sim.conns[i].verif_hidden();
        h.conn_timeout_ms = t;
        self.sim.conns[i].verif_set_hidden(h);
        run.count("config:set_conn_timeout");
        self.ops.push(format!("OSetTimeout {} {}", i, t));
        self.obs.push("BNone".into());
    }

    async fn tick(&mut self, at: u64, classic: bool, r: &mut Rng, run: &mut Run, echo_p: &[u64], rereg_p: &[u64], rtt_ms: &[u64]) {
        let now = at.max(self.now);
        self.now = now;
        let n = self.sim.conns.len();
        let mut teles = vec![];
        let mut rcs = vec![];
        let mut pres = vec![];
        for i in 0..n {
            let c = &mut self.sim.conns[i];
            if r.chance(1, 3) {
                c.window = *r.pick(&WPOOL);
                c.in_flight_packets = *r.pick(&FPOOL);
                c.congestion.nak_count = *r.pick(&NPOOL);
                c.bitrate.current_bitrate_bps = if r.chance(1, 2) { *r.pick(&BPOOL) } else { (r.below(40_000_000) as f64) * 1.37 };
            } else if r.chance(1, 4) {
                c.window = r.range(1000, 60000) as i32;
                c.in_flight_packets = r.range(0, 500) as i32;
                c.congestion.nak_count = r.range(0, 50) as i32;
            }
            teles.push(format!("TE {} {} {} {}", z(c.window as i128), z(c.in_flight_packets as i128),
                z(c.congestion.nak_count as i128), fl(c.bitrate.current_bitrate_bps)));
            let bad = r.chance(1, 6);
            self.sim.fail[i].store(bad, Ordering::SeqCst);
            rcs.push(boolc(!bad).to_string());
            if c.connected && !c.is_timed_out(now) { self.live_ticks += 1; }
            // an uplink that is down, whose socket re-open is refused this pass AND whose sends on the socket it
            // still has fail (REG1 / REG2 re-send): the pass must go on to the uplinks listed after it.  Only on
            // links that emit no keepalive this pass (timed out), so the frames the model predicts are unaffected.
            if self.send_faults && bad && c.is_timed_out(now) && r.chance(2, 3) {
                use std::os::fd::AsRawFd;
                if let Some(io) = self.sim.conn_io.get(&c.conn_id) {
                    let err = srtla_send::net::batch_recv::verif_send_script::Scripted::Fail(std::io::ErrorKind::ConnectionRefused);
                    srtla_send::net::batch_recv::verif_send_script::script_send(io.socket.as_raw_fd(), &[err, err, err]);
                    run.count("tick:down_link_send_errors_scripted");
                }
            }
            pres.push(pobs(c));
        }
        self.sim.tick(now, classic).await;
        let _ = srtla_send::net::batch_recv::verif_send_script::clear();
        // telemetry is an input of the tick only: put unreachable extremes back so that the
        // ACK paths (window + 1, C06's subject) are not driven from impossible states
        for c in self.sim.conns.iter_mut() {
            if c.window < 0 || c.window > 100_000 { c.window = 20_000; }
            if c.in_flight_packets < 0 || c.in_flight_packets > 100_000 { c.in_flight_packets = 0; }
            if c.congestion.nak_count < 0 || c.congestion.nak_count > 1_000_000 { c.congestion.nak_count = 0; }
        }
        let mut per = vec![];
        for i in 0..n {
            let frames = self.sim.drain(i);
            let mut ftxt = vec![];
            for f in &frames {
                ftxt.push(frame(f));
                if f.len() >= 2 && f[0] == 0x90 && f[1] == 0x00 {
                    self.ka_frames += 1;
                    self.recent.push((i, f.clone(), now));
                    if self.recent.len() > 12 { self.recent.remove(0); }
                    if r.below(100) < echo_p[i] {
                        let jitter = r.below(rtt_ms[i] / 2 + 2);
                        self.planned.push((now + rtt_ms[i] + jitter, i, f.clone()));
                    }
                } else if f.len() == 258 && f[0] == 0x92 && f[1] == 0x01 {
                    self.reg2_frames += 1;
                    run.count("reset:reconnect_attempt_reg2");
                    if r.below(100) < rereg_p[i] {
                        self.planned.push((now + rtt_ms[i] + r.below(50), i, vec![0x92, 0x02]));
                    }
                }
            }
            per.push(format!("TB {} {} [{}]", pres[i], lobs(&self.sim.conns[i]), ftxt.join(";")));
        }
        self.ops.push(format!("OTick {} [{}] [{}]", now, teles.join(";"), rcs.join(";")));
        self.obs.push(format!("BTick [{}]", per.join(";")));
    }

    /// a hand-crafted / fuzzed echo for link i derived from a recent keepalive (or from scratch)
    fn fuzz_echo(&self, i: usize, r: &mut Rng) -> (Vec<u8>, u64) {
        let base = self.recent.iter().rev().find(|e| e.0 == i).cloned();
        let (frame, sent) = match base { Some((_, f, s)) => (f, s), None => (ka10(self.now), self.now) };
        let now = self.now;
        match r.below(12) {
            0 => (frame[..10].to_vec(), now + 1 + r.below(300)),                       // standard 10-byte echo
            1 => { let d = *r.pick(&[9999u64, 10000, 10001, 15000]); (frame.clone(), sent + d) } // late
            2 => (frame.clone(), now),                                                // possibly same-ms
            3 => { let l = *r.pick(&[2usize, 3, 9, 9, 11, 37]); (frame[..l.min(frame.len())].to_vec(), now + r.below(50)) }
            4 => { let ts = now.wrapping_add(*r.pick(&[1u64, 1000, 1 << 62])); (ka10(ts), now + r.below(20)) } // future
            5 => (ka10(0), now + r.below(20)),                                        // zero timestamp
            6 => { let mut f = frame.clone(); let extra = r.below(30) as usize; f.extend(r.bytes(extra)); (f, now + 1 + r.below(200)) }
            7 => { let mut f = frame.clone(); f[1] = 0x01; (f, now + 1 + r.below(100)) } // not a keepalive type
            8 => { let at = now + r.below(30); let d = *r.pick(&[0u64, 1, 2, 9999, 10000, 10001]); (ka10(at.saturating_sub(d)), at) }
            9 => { let mut f = ka10(sent); f.extend(r.bytes(28)); (f, now + 1 + r.below(400)) } // arbitrary bytes after header
            10 => { let k = 1 + r.below(40) as usize; (r.bytes(k), now + r.below(100)) }              // arbitrary datagram
            _ => (frame.clone(), now + 1 + r.below(400)),                              // timely
        }
    }
}

fn pick_ids(n: usize, r: &mut Rng) -> Vec<u64> {
    let mut ids: Vec<u64> = vec![];
    while ids.len() < n {
        let id = match r.below(6) {
            0 => r.below(10),
            1 => u64::MAX - r.below(3),
            2 => (1u64 << 32) + r.below(5),
            3 => (1u64 << 32) - 1 - r.below(2),
            _ => r.u64(),
        };
        if !ids.contains(&id) { ids.push(id); }
    }
    ids
}

/// style: 0 steady (on-schedule ticks, echoing receivers), 1 mixed, 2 hostile (fuzz + resets),
/// 3 silent receivers (timeouts, reconnect back-off), 4 tiny clock (t0 small: now <= 10 s),
/// 5 RTT drop (a link's round trip collapses after one or two samples: Kalman overshoot)
async fn gen_case(r: &mut Rng, run: &mut Run, style: u64, nticks: usize) -> std::io::Result<()> {
    let n = *r.pick(&[1usize, 1, 1, 2, 2, 2, 2, 3, 3, 4]);
    let n = if style == 6 { n.max(2) } else { n };
    let ids = pick_ids(n, r);
    let t0: u64 = match style {
        4 => *r.pick(&[0u64, 1, 1000, 4000]),
        // short clocks keep the case text cheap to parse; one case in five runs on a realistic / huge clock
        _ => *r.pick(&[20_000u64, 20_000, 20_000, 20_000, 100_000, 100_000, 100_000, 100_000, 86_400_000, 1_700_000_000_000, (1 << 40) + 12345, (1u64 << 53) + 1]),
    };
    let sim = Sim::new(&ids, t0).await?;
    let mut g = Gen { sim, now: t0, ops: vec![], obs: vec![], planned: vec![], recent: vec![],
        samples: 0, rejected: 0, ka_frames: 0, reg2_frames: 0, live_ticks: 0, link_samples: vec![0; n], send_faults: style == 6 };
    let classic = r.chance(1, 3);
    let mut echo_p = vec![];
    let mut rereg_p = vec![];
    let mut rtt_ms = vec![];
    for _ in 0..n {
        echo_p.push(match style { 0 | 5 => 100, 3 => *r.pick(&[0u64, 0, 30]), _ => *r.pick(&[0u64, 30, 80, 100, 100]) });
        rereg_p.push(match style { 3 => *r.pick(&[0u64, 50, 100]), _ => *r.pick(&[50u64, 100, 100]) });
        rtt_ms.push(*r.pick(&[1u64, 5, 20, 45, 80, 150, 400, 950, 1000, 2500, 9990, 10050]));
    }
    if style == 0 { for x in rtt_ms.iter_mut() { *x = (*x).min(400); } }
    // send-fault histories: the first uplink is mute (times out, is retried, cannot re-register), the uplinks
    // listed after it are healthy and must keep their keepalive cadence on every pass
    let mute = if style == 6 { 1 + r.below((n - 1) as u64) as usize } else { 0 };
    if style == 6 { for i in 0..n { if i < mute { echo_p[i] = 0; rereg_p[i] = 0; } else { echo_p[i] = 100; rtt_ms[i] = rtt_ms[i].min(400); } } }
    let mut drop_after = vec![];
    let mut drop_to = vec![];
    for i in 0..n {
        drop_after.push(1 + r.below(2));
        drop_to.push(*r.pick(&[1u64, 2, 5, 20]));
        if style == 5 { rtt_ms[i] = *r.pick(&[400u64, 950, 2500, 4000]); }
    }
    // one case in three runs on a configured liveness window other than the default (clamped range 1..60 s)
    if r.chance(1, 3) {
        let t = *r.pick(&[1000u64, 2000, 3000, 8000, 15_000, 60_000]);
        for i in 0..n { g.set_timeout(i, t, run); }
    }
    // initial registration: REG3 from the receiver on most links
    for i in 0..n {
        if style == 3 && r.chance(1, 3) { continue; }
        if style == 6 && i < mute && r.chance(1, 2) { continue; }
        if style == 6 && i >= mute { let at = g.now + r.below(30); g.pkt(i, &[0x92, 0x02], at, run).await; continue; }
        if r.chance(9, 10) { let at = g.now + r.below(30); g.pkt(i, &[0x92, 0x02], at, run).await; }
    }
    let mut last_tick = g.now;
    for _ in 0..nticks {
        let delta = match style {
            0 | 5 | 6 => 1000,
            3 => if r.chance(1, 2) { 1000 } else { *r.pick(&TICK_OFF) },
            _ => if r.chance(3, 4) { *r.pick(&TICK_ON) } else { *r.pick(&TICK_OFF) },
        };
        let tick_at = last_tick + delta;
        if style == 5 { for i in 0..n { if g.link_samples[i] >= drop_after[i] { rtt_ms[i] = drop_to[i]; } } }
        // deliver what is due before the tick, in time order, plus random extras
        g.planned.sort_by_key(|e| e.0);
        while let Some(pos) = g.planned.iter().position(|e| e.0 <= tick_at) {
            let (at, i, bytes) = g.planned.remove(pos);
            g.pkt(i, &bytes, at, run).await;
            if r.chance(1, 12) { g.pkt(i, &bytes, at, run).await; run.count("echo:duplicate"); } // duplicate delivery
        }
        let extras = match style { 0 | 5 => 0, 2 => r.below(4), _ => r.below(2) };
        for _ in 0..extras {
            let i = r.below(n as u64) as usize;
            match r.below(10) {
                0 => g.mark(i, run).await,
                1 => { let at = g.now + r.below(200); g.pkt(i, &[0x92, 0x10], at, run).await; run.count("reset:reg_err"); }
                2 => { let at = g.now + r.below(200); g.pkt(i, &[0x92, 0x02], at, run).await; run.count("reset:reg3"); }
                3 => { // other inbound traffic: keeps the link alive, must not move the estimator
                    let mut b = r.pick(&[vec![0x80u8, 0x02], vec![0x80, 0x03], vec![0x91, 0x00], vec![0x00, 0x01]]).clone();
                    let k = 2 + r.below(30) as usize;
                    b.extend(r.bytes(k));
                    let at = g.now + r.below(300);
                    g.pkt(i, &b, at, run).await;
                }
                _ => { let (b, at) = g.fuzz_echo(i, r); let at = at.min(tick_at.max(g.now)); if !b.is_empty() { g.pkt(i, &b, at, run).await; } }
            }
        }
        g.tick(tick_at, classic, r, run, &echo_p, &rereg_p, &rtt_ms).await;
        last_tick = g.now;
    }
    g.ops.push("OEnd".into());
    g.obs.push(format!("BEnd [{}]", g.sim.conns.iter().map(dump).collect::<Vec<_>>().join(";")));
    run.count_n("frames:keepalive", g.ka_frames);
    run.count_n("frames:reg2_after_reconnect", g.reg2_frames);
    run.count_n("ticks:link_live", g.live_ticks);
    let text = format!("{} {} {} [{}] [{}]", if g.send_faults { "CF" } else { "CA" }, crate::common::zlist(ids.iter().map(|&x| x as i128)), t0,
        g.ops.join(";"), g.obs.join(";"));
    let kind: &'static str = match style { 0 => "steady", 1 => "mixed", 2 => "hostile", 3 => "silent", 4 => "tinyclock", 6 => "sendfaults", _ => "rttdrop" };
    run.push(kind, g.samples > 0 && g.ka_frames > 0, text);
    // stop the reader tasks housekeeping spawned on reconnects (they own the sockets)
    for (_, h) in g.sim.readers.drain() { h.handle.abort(); }
    drop(g);
    tokio::task::yield_now().await;
    Ok(())
}

/// Fixed regression history run first on every tier: the sampling-filter boundaries
/// (RTT exactly 10 000 / 10 001 / 0 ms, echo without a probe), a reset and the reconnect.
async fn fixed_case(run: &mut Run) -> std::io::Result<()> {
    let ids = [7u64, (1u64 << 32) + 5];
    let t0 = 100_000u64;
    let mut r = Rng::new(14);
    let sim = Sim::new(&ids, t0).await?;
    let mut g = Gen { sim, now: t0, ops: vec![], obs: vec![], planned: vec![], recent: vec![],
        samples: 0, rejected: 0, ka_frames: 0, reg2_frames: 0, live_ticks: 0, link_samples: vec![0; 2], send_faults: false };
    let (none, all, rtt) = ([0u64, 0], [100u64, 100], [1u64, 1]);
    g.pkt(0, &[0x92, 0x02], t0 + 10, run).await;
    g.pkt(1, &[0x92, 0x02], t0 + 10, run).await;
    g.tick(t0 + 1000, false, &mut r, run, &none, &all, &rtt).await;       // probes armed at 101000
    g.pkt(0, &ka10(t0 + 1000), t0 + 11_000, run).await;                   // RTT = 10 000: accepted
    g.pkt(1, &ka10(t0 + 1000), t0 + 11_001, run).await;                   // RTT = 10 001: rejected
    g.pkt(1, &ka10(t0 + 1000), t0 + 11_002, run).await;                   // no probe outstanding
    g.tick(t0 + 12_000, true, &mut r, run, &none, &all, &rtt).await;      // 1 re-arms (never measured)
    g.pkt(1, &ka10(t0 + 12_000), t0 + 12_000, run).await;                 // same-ms echo: RTT 0 rejected
    g.tick(t0 + 13_000, true, &mut r, run, &none, &all, &rtt).await;
    g.pkt(1, &ka10(t0 + 13_000)[..9], t0 + 13_005, run).await;            // truncated
    g.tick(t0 + 14_000, false, &mut r, run, &none, &all, &rtt).await;
    g.tick(t0 + 15_000, false, &mut r, run, &none, &all, &rtt).await;     // 0: 3 000 ms gap not yet exceeded
    g.tick(t0 + 15_001, false, &mut r, run, &none, &all, &rtt).await;     // off-schedule tick: probe for 0
    g.pkt(0, &ka10(t0 + 15_001), t0 + 15_003, run).await;                 // RTT 2 after 10 000: overshoot
    g.mark(0, run).await;
    g.tick(t0 + 16_000, false, &mut r, run, &none, &all, &rtt).await;     // 0 reconnects, REG2; REG3 planned
    g.planned.clear();
    g.pkt(0, &[0x92, 0x02], t0 + 16_020, run).await;
    g.tick(t0 + 17_000, false, &mut r, run, &none, &all, &rtt).await;     // 0 live again
    g.ops.push("OEnd".into());
    g.obs.push(format!("BEnd [{}]", g.sim.conns.iter().map(dump).collect::<Vec<_>>().join(";")));
    let text = format!("CA {} {} [{}] [{}]", crate::common::zlist(ids.iter().map(|&x| x as i128)), t0,
        g.ops.join(";"), g.obs.join(";"));
    run.push("fixed", true, text);
    for (_, h) in g.sim.readers.drain() { h.handle.abort(); }
    Ok(())
}

fn nt(r: &mut Rng) -> usize {
    match r.below(10) { 0 => 3 + r.below(5) as usize, 1..=7 => 8 + r.below(10) as usize, _ => 18 + r.below(14) as usize }
}

pub fn run(seed: u64, tier: &str, out: &Path, extra: &[(String, String)]) -> std::io::Result<()> {
    // a panic of the code under test aborts the run: say where
    std::panic::set_hook(Box::new(|i| eprintln!("C14 harness: panic: {}", i)));
    let mut run = Run::new("C14", "Run_C14", seed, tier, out);
    let mut rng = Rng::new(seed ^ 0xC14C_14C1_4C14);
    let mut scale: f64 = 1.0;
    for (k, v) in extra { if k == "scale" { scale = v.parse().unwrap_or(1.0); } }
    let ncases = ((if run.thorough() { 600.0 } else { 100.0 }) * scale) as usize;
    let rt = tokio::runtime::Builder::new_current_thread().enable_all().build()?;
    let res: std::io::Result<()> = rt.block_on(async {
        fixed_case(&mut run).await?;
        for i in 0..ncases {
            let mut r = rng.fork(i as u64);
            let style = match r.below(20) { 0..=2 => 0, 3..=7 => 1, 8..=12 => 2, 13..=15 => 3, 16..=17 => 4, _ => 5 };
            let nticks = if style == 5 { 20 + r.below(10) as usize } else { nt(&mut r) };
            gen_case(&mut r, &mut run, style, nticks).await?;
        }
        // send-fault histories (case kind CF, judged by the monitor only): additional cases, own PRNG forks
        for i in 0..(ncases / 5).max(4) {
            let mut r = rng.fork(1_000_000 + i as u64);
            let nticks = 8 + r.below(10) as usize;
            gen_case(&mut r, &mut run, 6, nticks).await?;
        }
        Ok(())
    });
    verif_clock::set(None);
    res?;
    run.note(format!("{} generated histories on 1..4 links; every op goes through the real handle_housekeeping / handle_uplink_packet (mark_for_recovery called directly); frames are read from per-uplink loopback receiver sockets", ncases));
    run.finish(16, 1_000_000)
}
