//! C11 — enhanced selection is stable, hysteretic and respects its gates.
//! Same selection family and case format as C03 (see c03.rs), with the mix shifted towards
//! enhanced-mode score-space cases (hysteresis boundary, equal / zero scores, stale and fresh
//! quality cache, repeated calls); evaluated by Run_C11's independent score oracle.
use std::path::Path;

pub fn run(seed: u64, tier: &str, out: &Path, _extra: &[(String, String)]) -> std::io::Result<()> {
    crate::c03::run_family("C11", "Run_C11", seed, tier, out)
}
