//! C07 — registration handshake.  Drives the REAL shell arms of srtla_send over loopback
//! sockets under the virtual clock:
//!   * every handshake datagram goes through `handle_uplink_packet` (which calls
//!     `process_uplink_packet`, the real `SrtlaRegistrationManager`, and flushes the
//!     immediate REG1 on the uplink's socket),
//!   * every driver tick is one call of `handle_housekeeping`,
//!   * start-up probing is `start_probing` + the send loop of `run_sender_with_config`.
//! One receiver-side socket per uplink captures what the sender really put on the wire.
//! After each event the harness records the captured REG1/REG2 datagrams and the
//! accessor-visible manager state; Run_C07.check_case compares that with the model and
//! evaluates the property's monitor on it.
use std::collections::HashMap;
use std::net::{IpAddr, Ipv4Addr, SocketAddr, UdpSocket as StdUdp};
use std::path::Path;
use std::sync::Arc;
use std::time::Duration;

use smallvec::SmallVec;
use socket2::{Domain, Protocol, Socket, Type};
use srtla_core::config_snapshot::ConfigSnapshot;
use srtla_core::connection::SrtlaConnection;
use srtla_core::registration::SrtlaRegistrationManager;
use srtla_core::utils::verif_clock;
use srtla_protocol::*;
use srtla_send::net::{BatchUdpSocket, SourceIpBinder};
use srtla_send::sender::SequenceTracker;
use srtla_send::sender::verif_hooks::{
    ConnIo, ConnIoMap, ConnectionId, ReaderHandle, UplinkPacket, create_uplink_channel,
    handle_housekeeping, handle_uplink_packet,
};

use crate::common::*;

const SENTINEL: [u8; 3] = [0xff, 0xfe, 0x07];

#[derive(Clone, Debug)]
enum Op {
    Ngp(usize),
    /// link, datagram length, id carried (padded / truncated to the length)
    Reg2(usize, usize, [u8; SRTLA_ID_LEN]),
    Reg3(usize),
    RegErr(usize),
    /// ambient clock offset, links to steer into "timed out and due" (None = leave links alone)
    Tick(u64, Option<Vec<usize>>),
}

struct Ids {
    table: Vec<[u8; SRTLA_ID_LEN]>,
}
impl Ids {
    fn tag(&mut self, id: &[u8]) -> i128 {
        if let Some(p) = self.table.iter().position(|x| &x[..] == id) {
            return p as i128;
        }
        let mut a = [0u8; SRTLA_ID_LEN];
        a.copy_from_slice(id);
        self.table.push(a);
        (self.table.len() - 1) as i128
    }
}

struct World {
    conns: SmallVec<SrtlaConnection, 4>,
    io: ConnIoMap,
    peers: Vec<StdUdp>,
    reg: SrtlaRegistrationManager,
    readers: HashMap<ConnectionId, ReaderHandle>,
    packet_tx: tokio::sync::mpsc::UnboundedSender<UplinkPacket>,
    _packet_rx: tokio::sync::mpsc::UnboundedReceiver<UplinkPacket>,
    all_failed_at: Option<u64>,
    ids: Ids,
}

#[derive(Clone, PartialEq, Debug)]
struct Obs {
    out: Vec<(i128, i128, i128)>,
    id: i128,
    pending: Option<i128>,
    ptimeout: i128,
    active: i128,
    hasconn: bool,
    flag: bool,
    target: Option<i128>,
    next: i128,
    probing: bool,
    nprobes: i128,
    conn: Vec<bool>,
}

fn obs_lit(o: &Obs) -> String {
    let out = o.out.iter().map(|p| format!("({},{},{})", p.0, p.1, p.2)).collect::<Vec<_>>().join(";");
    format!("(Ob [{}] {} {} {} {} {} {} {} {} {} {} {})", out, z(o.id), optz(o.pending), z(o.ptimeout),
            z(o.active), boolc(o.hasconn), boolc(o.flag), optz(o.target), z(o.next), boolc(o.probing),
            z(o.nprobes), blist(&o.conn))
}

fn make_world(n: usize, t0: u64) -> std::io::Result<World> {
    let mut conns: SmallVec<SrtlaConnection, 4> = SmallVec::new();
    let mut io: ConnIoMap = HashMap::new();
    let mut peers = vec![];
    let lo = IpAddr::V4(Ipv4Addr::LOCALHOST);
    for i in 0..n {
        let peer = StdUdp::bind(SocketAddr::new(lo, 0))?;
        peer.set_read_timeout(Some(Duration::from_millis(1500)))?;
        let remote = peer.local_addr()?;
        let sock = Socket::new(Domain::IPV4, Type::DGRAM, Some(Protocol::UDP))?;
        sock.bind(&SocketAddr::new(lo, 0).into())?;
        sock.connect(&remote.into())?;
        sock.set_nonblocking(true)?;
        let conn_id = 7000 + i as u64;
        // the constructor the shell uses for a fresh uplink (connect_uplink)
        conns.push(SrtlaConnection::new_registering(conn_id, format!("uplink-{}", i), lo, t0));
        io.insert(conn_id, ConnIo { socket: Arc::new(BatchUdpSocket::new(sock)?), binder: Arc::new(SourceIpBinder), remote });
        peers.push(peer);
    }
    let (packet_tx, packet_rx) = create_uplink_channel();
    let reg = SrtlaRegistrationManager::new();
    let mut ids = Ids { table: vec![] };
    ids.tag(&reg.srtla_id);
    Ok(World { conns, io, peers, reg, readers: HashMap::new(), packet_tx, _packet_rx: packet_rx, all_failed_at: None, ids })
}

/// Everything the sender put on the wire since the last call, per uplink, registration
/// datagrams only.  A sentinel sent through each uplink's current socket marks the end.
fn capture(w: &mut World) -> std::io::Result<Vec<(i128, i128, i128)>> {
    let mut out = vec![];
    let mut buf = [0u8; 2048];
    for i in 0..w.conns.len() {
        let io = w.io.get(&w.conns[i].conn_id).expect("io entry");
        let mut tries = 0;
        while io.socket.try_send(&SENTINEL).is_err() {
            tries += 1;
            if tries > 1000 { return Err(std::io::Error::other("sentinel send failed")); }
            std::thread::sleep(Duration::from_millis(1));
        }
        loop {
            let (len, _) = w.peers[i].recv_from(&mut buf)?;
            let d = &buf[..len];
            if d == SENTINEL { break; }
            if len < 2 || d[0] != 0x92 { continue; } // keepalives etc. are not registration traffic
            let ty = u16::from_be_bytes([d[0], d[1]]);
            let kind: i128 = if ty == SRTLA_TYPE_REG1 && len == SRTLA_TYPE_REG1_LEN { 1 }
                             else if ty == SRTLA_TYPE_REG2 && len == SRTLA_TYPE_REG2_LEN { 2 }
                             else { 900 + (ty & 0xff) as i128 }; // malformed / unexpected registration datagram
            let tag = if len >= 2 + SRTLA_ID_LEN { w.ids.tag(&d[2..2 + SRTLA_ID_LEN]) } else { -1 };
            out.push((kind, i as i128, tag));
        }
    }
    Ok(out)
}

fn observe(w: &mut World, out: Vec<(i128, i128, i128)>) -> Obs {
    let id = w.ids.tag(&w.reg.srtla_id.clone());
    Obs {
        out,
        id,
        pending: w.reg.pending_reg2_idx().map(|x| x as i128),
        ptimeout: w.reg.pending_timeout_at_ms() as i128,
        active: w.reg.active_connections() as i128,
        hasconn: w.reg.has_connected(),
        flag: w.reg.broadcast_reg2_pending(),
        target: w.reg.reg1_target_idx().map(|x| x as i128),
        next: w.reg.reg1_next_send_at_ms() as i128,
        probing: w.reg.is_probing(),
        nprobes: w.reg.probe_results_count() as i128,
        conn: w.conns.iter().map(|c| c.connected).collect(),
    }
}

struct Env {
    listener: tokio::net::UdpSocket,
    instant_tx: tokio::sync::mpsc::UnboundedSender<(SocketAddr, SmallVec<u8, 64>)>,
    _instant_rx: tokio::sync::mpsc::UnboundedReceiver<(SocketAddr, SmallVec<u8, 64>)>,
    seq: SequenceTracker,
    cfg: ConfigSnapshot,
}

fn reg2_datagram(len: usize, id: &[u8; SRTLA_ID_LEN], fill: u8) -> Vec<u8> {
    let mut d = vec![0x92u8, 0x01];
    d.extend_from_slice(id);
    while d.len() < len { d.push(fill); }
    d.truncate(len.max(2));
    d
}

/// Apply one event to the real code. Returns the Coq literal of the op as executed.
async fn apply(w: &mut World, env: &Env, op: &Op, now: u64, run: &mut Run) -> String {
    verif_clock::set(Some(now));
    let inject = |w: &World, i: usize, bytes: &[u8]| UplinkPacket {
        conn_id: w.conns[i].conn_id,
        bytes: SmallVec::from_slice_copy(bytes),
    };
    match op {
        Op::Ngp(i) => {
            let p = inject(w, *i, &SRTLA_TYPE_REG_NGP.to_be_bytes());
            handle_uplink_packet(p, &mut w.conns, &w.io, &mut w.reg, &env.instant_tx, None, &env.listener, &env.seq, &env.cfg).await;
            format!("Ngp {} {}", i, now)
        }
        Op::Reg2(i, len, id) => {
            let d = reg2_datagram(*len, id, (now % 251) as u8);
            let tag = if d.len() >= 2 + SRTLA_ID_LEN { w.ids.tag(&d[2..2 + SRTLA_ID_LEN]) } else { 0 };
            let p = inject(w, *i, &d);
            handle_uplink_packet(p, &mut w.conns, &w.io, &mut w.reg, &env.instant_tx, None, &env.listener, &env.seq, &env.cfg).await;
            format!("Reg2 {} {} {} {}", i, d.len(), tag, now)
        }
        Op::Reg3(i) => {
            let p = inject(w, *i, &SRTLA_TYPE_REG3.to_be_bytes());
            handle_uplink_packet(p, &mut w.conns, &w.io, &mut w.reg, &env.instant_tx, None, &env.listener, &env.seq, &env.cfg).await;
            format!("Reg3 {} {}", i, now)
        }
        Op::RegErr(i) => {
            let p = inject(w, *i, &SRTLA_TYPE_REG_ERR.to_be_bytes());
            handle_uplink_packet(p, &mut w.conns, &w.io, &mut w.reg, &env.instant_tx, None, &env.listener, &env.seq, &env.cfg).await;
            format!("RegErr {} {}", i, now)
        }
        Op::Tick(amb_off, steer) => {
            if let Some(want) = steer {
                // Link liveness is an input of the registration property: put the chosen links
                // into "silent past the timeout, retry due", all others into "just heard from".
                for (i, c) in w.conns.iter_mut().enumerate() {
                    if want.contains(&i) {
                        if c.connected {
                            c.last_received = Some(now.saturating_sub(600_000));
                        } else {
                            c.last_received = None;
                            c.reconnection.startup_grace_deadline_ms = 0;
                        }
                        c.reconnection.last_reconnect_attempt_ms = 0;
                    } else {
                        c.last_received = Some(now);
                    }
                }
            }
            // Which links housekeeping resets in this pass is an input of the registration model
            // (link liveness is property C08): a link was reset iff its reconnect attempt got
            // stamped with this pass's clock (record_reconnect_attempt / reset_for_reconnect).
            // [is_timed_out && should_attempt_reconnect], evaluated before the call, differs only
            // for the link whose grace period the probing-completion step of this pass renews.
            let before: Vec<u64> = w.conns.iter().map(|c| c.reconnection.last_reconnect_attempt_ms).collect();
            let predicted: Vec<usize> = w.conns.iter().enumerate()
                .filter(|(_, c)| c.is_timed_out(now) && c.should_attempt_reconnect(now)).map(|(i, _)| i).collect();
            let was_probing = w.reg.is_probing();
            let amb = now + amb_off;
            verif_clock::set(Some(amb));
            let _ = handle_housekeeping(&mut w.conns, &mut w.io, &mut w.reg, false, now, &mut w.all_failed_at,
                                        &mut w.readers, &w.packet_tx).await;
            let due: Vec<i128> = w.conns.iter().enumerate()
                .filter(|(i, c)| before[*i] != now && c.reconnection.last_reconnect_attempt_ms == now)
                .map(|(i, _)| i as i128).collect();
            if !due.is_empty() { run.count("tick:some_link_due"); }
            let same = predicted.iter().map(|&i| i as i128).collect::<Vec<_>>() == due;
            if !same {
                run.count("tick:due_differs_from_prediction");
                // only the probing-completion grace renewal may explain a difference
                if !(was_probing && !w.reg.is_probing()) { run.count("tick:due_unexplained"); }
            }
            format!("Tick {} {} {}", now, amb, zlist(due))
        }
    }
}

fn count_transition(run: &mut Run, op: &Op, pre: &Obs, post: &Obs) {
    let r1: Vec<_> = post.out.iter().filter(|p| p.0 == 1).collect();
    let r2 = post.out.iter().filter(|p| p.0 == 2).count();
    match op {
        Op::Ngp(_) => {
            if !r1.is_empty() { run.count("ngp:immediate_reg1"); }
            else if pre.probing { run.count("ngp:probe_response"); }
            else if pre.pending.is_some() { run.count("ngp:ignored_pending"); }
            else if pre.active > 0 { run.count("ngp:ignored_active"); }
            else { run.count("ngp:other"); }
        }
        Op::Reg2(_, len, _) => {
            if pre.pending.is_some() && post.pending.is_none() { run.count("reg2:accepted"); if pre.id == post.id { run.count("reg2:accepted_same_id"); } }
            else if *len < 2 + SRTLA_ID_LEN { run.count("reg2:short"); }
            else if pre.pending.is_none() { run.count("reg2:late_or_unsolicited"); }
            else { run.count("reg2:wrong_link"); }
        }
        Op::Reg3(i) => { if !pre.conn[*i] { run.count("reg3:connects"); } else { run.count("reg3:duplicate"); }
                         if pre.pending.is_some() { run.count("reg3:while_pending"); } }
        Op::RegErr(_) => { if pre.pending.is_some() { run.count("regerr:cancels_pending"); } else { run.count("regerr:nothing_pending"); } }
        Op::Tick(_, _) => {
            if pre.pending.is_some() && post.pending.is_none() { run.count("tick:timeout_abandons"); }
            if pre.pending.is_some() && post.pending.is_some() && r1.is_empty() { run.count("tick:pending_kept"); }
            if !r1.is_empty() { if pre.pending.is_some() { run.count("tick:reg1_resend"); } else { run.count("tick:driver_reg1"); } }
            if pre.flag && !post.flag { run.count("tick:broadcast_round"); }
            if r2 > 0 && !pre.flag { run.count("tick:reg2_rejoin_only"); }
            if pre.probing && !post.probing { run.count("tick:probing_completes"); }
            if pre.probing && post.probing { run.count("tick:probing_waits"); }
        }
    }
}

/// Run one case on the real code.
async fn run_case(env: &Env, n: usize, t0: u64, probe: bool, script: &mut dyn FnMut(&World, u64, &Obs, usize) -> Option<(Op, u64)>,
                  run: &mut Run, kind: &'static str) -> std::io::Result<()> {
    verif_clock::set(Some(t0));
    let mut w = make_world(n, t0)?;
    if probe {
        // run_sender_with_config: start_probing, then send each probe on its uplink
        let probes = w.reg.start_probing(&mut w.conns, t0);
        for (idx, pkt) in probes {
            if let Some(conn) = w.conns.get(idx) && let Some(io) = w.io.get(&conn.conn_id) {
                let _ = io.socket.send(&pkt).await;
            }
        }
    }
    let cap = capture(&mut w)?;
    let obs0 = observe(&mut w, cap);
    let pid = if probe { obs0.out.first().map(|p| p.2).unwrap_or(1) } else { 1 };
    let mut ops_txt = vec![];
    let mut impl_txt = vec![];
    let mut pre = obs0.clone();
    let mut now = t0;
    let mut k = 0usize;
    let mut any_reg1 = false;
    while let Some((op, dt)) = script(&w, now, &pre, k) {
        now += dt;
        let txt = apply(&mut w, env, &op, now, run).await;
        tokio::task::yield_now().await;
        let cap = capture(&mut w)?;
        let post = observe(&mut w, cap);
        count_transition(run, &op, &pre, &post);
        if post.out.iter().any(|p| p.0 == 1) { any_reg1 = true; }
        ops_txt.push(txt);
        impl_txt.push(obs_lit(&post));
        pre = post;
        k += 1;
    }
    for (_, r) in w.readers.drain() { r.handle.abort(); }
    tokio::task::yield_now().await;
    verif_clock::set(None);
    let text = format!("C {} 0 {} {} [{}] {} [{}]", n, pid, if probe { format!("(Some {})", t0) } else { "None".into() },
                       ops_txt.join(";"), obs_lit(&obs0), impl_txt.join(";"));
    run.count_n("ops", k as u64);
    run.push(kind, any_reg1, text);
    Ok(())
}

fn pick_link(rng: &mut Rng, n: usize) -> usize { rng.below(n as u64) as usize }

pub fn run(seed: u64, tier: &str, out: &Path, _extra: &[(String, String)]) -> std::io::Result<()> {
    let mut run = Run::new("C07", "Run_C07", seed, tier, out);
    let thorough = run.thorough();
    let rt = tokio::runtime::Builder::new_current_thread().enable_all().build()?;
    let res: std::io::Result<()> = rt.block_on(async {
        let (instant_tx, instant_rx) = tokio::sync::mpsc::unbounded_channel();
        let env = Env {
            listener: tokio::net::UdpSocket::bind("127.0.0.1:0").await?,
            instant_tx, _instant_rx: instant_rx, seq: SequenceTracker::new(), cfg: ConfigSnapshot::default(),
        };
        let mut rng = Rng::new(seed ^ 0xC07);
        let mk_id = |rng: &mut Rng| { let mut a = [0u8; SRTLA_ID_LEN]; for x in a.iter_mut() { *x = rng.byte(); } a };

        // ---- fixed regression histories (always run) ----
        // F4: REG3 on uplink 0, then REG_NGP on uplink 1 before the next housekeeping tick.
        for probe in [false, true] {
            let gid = mk_id(&mut rng);
            let fixed: Vec<(Op, u64)> = if !probe {
                vec![(Op::Ngp(0), 10), (Op::Reg2(0, 258, gid), 20), (Op::Tick(0, None), 30), (Op::Reg3(0), 15), (Op::Ngp(1), 5),
                     (Op::Tick(0, None), 100), (Op::Ngp(1), 5)]
            } else {
                vec![(Op::Ngp(1), 30), (Op::Ngp(0), 40), (Op::Tick(0, None), 1000), (Op::Reg2(1, 258, gid), 25), (Op::Tick(0, None), 975),
                     (Op::Reg3(1), 20), (Op::Ngp(0), 3), (Op::Reg3(0), 10), (Op::Ngp(2), 1)]
            };
            let mut it = fixed.into_iter();
            run_case(&env, 3, 100_000, probe, &mut |_, _, _, _| it.next(), &mut run, "regression_F4").await?;
        }
        // timeout boundary: REG1 at t, ticks at t+3999 / t+4000, then a fresh REG_NGP; late REG2
        for (d1, d2) in [(3999u64, 1u64), (4000, 0), (4001, 5)] {
            let gid = mk_id(&mut rng);
            let fixed: Vec<(Op, u64)> = vec![(Op::Ngp(0), 10), (Op::Tick(0, None), d1), (Op::Tick(0, None), d2), (Op::Reg2(0, 258, gid), 1),
                                             (Op::Ngp(1), 1), (Op::Reg2(0, 258, gid), 1), (Op::Reg2(1, 257, gid), 1), (Op::Reg2(1, 258, gid), 1),
                                             (Op::Tick(0, None), 1), (Op::Tick(0, None), 1000)];
            let mut it = fixed.into_iter();
            run_case(&env, 2, 50_000, false, &mut |_, _, _, _| it.next(), &mut run, "regression_timeout").await?;
        }

        // ---- generated histories ----
        let n_cases = if thorough { 8_000 } else { 800 };
        for ci in 0..n_cases {
            let mut r = rng.fork(ci as u64);
            let n = match r.below(10) { 0 => 1, 1..=4 => 2, 5..=8 => 3, _ => 4 };
            let t0 = *r.pick(&[1_000u64, 100_000, 100_000, 5_000_000, 1_700_000_000_000]);
            let probe = r.chance(1, 2);
            let depth = if r.chance(1, 6) { r.range(30, 40) } else { r.range(4, 28) } as usize;
            let pool: Vec<[u8; SRTLA_ID_LEN]> = {
                let a = mk_id(&mut r);
                let mut b = a; b[SRTLA_ID_LEN - 1] ^= 1;          // differs in the last byte only
                let mut c = a; c[0] ^= 0x80;                       // differs in the first byte only
                vec![a, b, c, mk_id(&mut r)]
            };
            let style = r.below(4); // 0 random, 1 protocol-shaped, 2 timeout-heavy, 3 link-failure-heavy
            let mut script = |w: &World, now: u64, pre: &Obs, k: usize| -> Option<(Op, u64)> {
                if k >= depth { return None; }
                let pending = pre.pending.map(|x| x as usize);
                // time step: often straight onto a deadline of the state machine
                let mut dt = *r.pick(&[0u64, 1, 1, 5, 20, 100, 500, 999, 1000, 1001, 1500, 2000, 3000]);
                let mut force_tick = false;
                let deadline = pre.ptimeout as u64;
                if deadline > now && r.chance(if style == 2 { 2 } else { 1 }, 4) {
                    dt = (deadline - now + *r.pick(&[0u64, 0, 1, 2])).saturating_sub(*r.pick(&[0u64, 1, 1, 0]));
                    force_tick = r.chance(3, 4);
                }
                let roll = if force_tick { 99 } else { r.below(100) };
                let op = match roll {
                    0..=27 => {
                        // REG_NGP: any link; sometimes specifically not the pending one
                        Op::Ngp(pick_link(&mut r, n))
                    }
                    28..=50 => {
                        // REG2: right/wrong link x well-formed/short/long x fresh/same id
                        let i = match pending {
                            Some(p) if r.chance(3, 5) => p,
                            Some(p) if n > 1 && r.chance(3, 4) => (p + 1 + r.below(n as u64 - 1) as usize) % n, // another uplink
                            _ => pick_link(&mut r, n),
                        };
                        let len = if r.chance(if style == 1 { 5 } else { 3 }, 6) { 258 } else { *r.pick(&[2usize, 3, 100, 257, 259, 300]) };
                        let id = if r.chance(1, 8) { w.reg.srtla_id } else { *r.pick(&pool) };
                        Op::Reg2(i, len, id)
                    }
                    51..=60 => Op::Reg3(pick_link(&mut r, n)),
                    61..=67 => Op::RegErr(match pending { Some(p) if r.chance(1, 2) => p, _ => pick_link(&mut r, n) }),
                    _ => {
                        let amb = if r.chance(1, 5) { *r.pick(&[1u64, 2, 5]) } else { 0 };
                        let steer = if r.chance(if style == 3 { 3 } else { 1 }, 4) {
                            Some((0..n).filter(|_| r.chance(1, 2)).collect())
                        } else if r.chance(1, 2) { Some(vec![]) } else { None };
                        Op::Tick(amb, steer)
                    }
                };
                Some((op, dt))
            };
            run_case(&env, n, t0, probe, &mut script, &mut run, "generated").await?;
        }
        Ok(())
    });
    res?;
    run.note("every event executed by handle_uplink_packet / handle_housekeeping over loopback UDP; observations = datagrams captured by one receiver socket per uplink + manager accessors".into());
    run.note("ids cross as tags: index in a table of distinct 256-byte ids kept by the harness (equal tag <=> equal 256 bytes)".into());
    run.finish(16, 1_000_000)
}
