//! C17 — weak-link classifier: drive the real `WeakLinkFilter::classify` tick by tick on
//! real `SrtlaConnection`s (1..4 links present, joins / leaves / disconnects / idling
//! across the bypass floor) and record, per tick, the inputs the classifier reads, the
//! `ClassificationResult` it returned and its private hysteresis memory (verif-hooks dump).
use std::net::{IpAddr, Ipv4Addr};
use std::path::Path;

use srtla_core::connection::SrtlaConnection;
use srtla_core::kalman::{KalmanConfig, KalmanFilter};
use srtla_core::selection::classifier::{ClassificationResult, WeakLinkFilter, WeakReason};

use crate::common::*;

// ---------- literals ----------
/// f64 as a Coq float literal for an argument position bound to float_scope.
fn fl(v: f64) -> String {
    if v.is_nan() { return "nan".into(); }
    if v == f64::INFINITY { return "infinity".into(); }
    if v == f64::NEG_INFINITY { return "neg_infinity".into(); }
    if v == 0.0 { return if v.is_sign_negative() { "(-0)".into() } else { "0".into() }; }
    if v.fract() == 0.0 && v.abs() < 9.0e15 {
        let i = v as i64;
        return if i < 0 { format!("({})", i) } else { format!("{}", i) };
    }
    let bits = v.to_bits();
    let neg = (bits >> 63) != 0;
    let exp = ((bits >> 52) & 0x7ff) as i64;
    let man = bits & 0x000f_ffff_ffff_ffff;
    let mut hex = format!("{:013x}", man);
    while hex.ends_with('0') { hex.pop(); }
    let body = if exp == 0 {
        format!("0x0.{}p-1022", hex)
    } else {
        let e = exp - 1023;
        if hex.is_empty() { format!("0x1p{}{}", if e < 0 { "-" } else { "+" }, e.abs()) }
        else { format!("0x1.{}p{}{}", hex, if e < 0 { "-" } else { "+" }, e.abs()) }
    };
    if neg { format!("(-{})", body) } else { body }
}

fn reason_lit(r: WeakReason) -> &'static str {
    match r {
        WeakReason::Healthy => "RH",
        WeakReason::HighRtt => "RR",
        WeakReason::QueueBuilding => "RQ",
        WeakReason::NoTraffic => "RN",
        WeakReason::LowShare => "RL",
        WeakReason::Bypassed => "RB",
    }
}

// ---------- per-link scripted behaviour ----------
#[derive(Clone, Copy, Debug)]
enum BpsB {
    Fair(u32),          // weight
    Pm(u32, i32),       // targeted share p permille, +-1 unit
    Zero,
    Weird(u8),
}
#[derive(Clone, Copy, Debug)]
enum RttB {
    Low,
    Pool,
    High,
    Uninit,
    Weird(u8),
}
#[derive(Clone, Copy, Debug)]
enum QbB {
    Off,
    On,
    Alt(u8), // period pattern index
}

struct Script {
    bps: BpsB,
    bps_left: u32,
    rtt: RttB,
    rtt_val: f64,
    rtt_left: u32,
    qb: QbB,
    qb_left: u32,
    down_left: u32,   // ticks to stay disconnected
    away_left: u32,   // ticks to stay out of the connection list
}

const RTT_POOL: &[f64] = &[
    0.0, 0.4, 1.0, 49.9, 166.0, 166.7, 167.0, 333.0, 499.0, 500.0, 1000.0, 1666.0, 1666.7, 1667.0,
    1999.0, 1999.99, 2000.0, 2000.5, 2001.0, 2499.0, 2500.0, 2500.9, 2501.0, 2999.0, 3000.0, 3001.0,
    4166.0, 4167.0, 4999.0, 5000.0, 5001.0, 10000.0, 4294967295.0, 4294967296.0, 1.0e12,
];

fn pm_pool(rng: &mut Rng) -> u32 {
    // thresholds 250/n and 750/n for n = 1..4 with neighbours, plus extremes
    let base: &[u32] = &[250, 125, 83, 62, 750, 375, 187];
    match rng.below(10) {
        0 => rng.below(12) as u32,
        1 => rng.below(1001) as u32,
        _ => {
            let b = *rng.pick(base) as i64 + rng.range(-2, 2);
            b.clamp(0, 1000) as u32
        }
    }
}

fn new_bps(rng: &mut Rng, mode: u64) -> (BpsB, u32) {
    // mode biases the case: 0 mixed, 1 starvation-heavy, 2 delay-heavy (mostly fair), 3 chaos
    let r = rng.below(100);
    let (fair, pm, zero) = match mode { 1 => (30, 75, 95), 2 => (80, 92, 98), 3 => (40, 70, 90), _ => (50, 80, 94) };
    if r < fair {
        (BpsB::Fair(1 + rng.below(4) as u32), 1 + rng.below(20) as u32)
    } else if r < pm {
        let d = *rng.pick(&[0i32, 0, -1, 1]);
        let long = rng.chance(1, 2);
        (BpsB::Pm(pm_pool(rng), d), if long { 12 + rng.below(30) as u32 } else { 1 + rng.below(8) as u32 })
    } else if r < zero {
        let long = rng.chance(1, 2);
        (BpsB::Zero, if long { 12 + rng.below(30) as u32 } else { 1 + rng.below(6) as u32 })
    } else {
        (BpsB::Weird(rng.below(7) as u8), 1 + rng.below(3) as u32)
    }
}

fn new_rtt(rng: &mut Rng, mode: u64) -> (RttB, f64, u32) {
    let r = rng.below(100);
    let (low, pool, high) = match mode { 2 => (35, 60, 92), 3 => (30, 60, 85), _ => (60, 78, 92) };
    if r < low {
        (RttB::Low, 5.0 + rng.below(3000) as f64 / 10.0, 1 + rng.below(25) as u32)
    } else if r < pool {
        (RttB::Pool, *rng.pick(RTT_POOL), 1 + rng.below(6) as u32)
    } else if r < high {
        (RttB::High, 2001.0 + rng.below(60000) as f64 / 10.0, 1 + rng.below(6) as u32)
    } else if r < high + 4 {
        (RttB::Uninit, 0.0, 1 + rng.below(4) as u32)
    } else {
        let k = rng.below(5) as u8;
        let v = match k { 0 => -5.0, 1 => -0.0, 2 => 1.0e300, 3 => 0.999_999, _ => 2000.000_000_1 };
        (RttB::Weird(k), v, 1 + rng.below(3) as u32)
    }
}

fn new_qb(rng: &mut Rng, mode: u64) -> (QbB, u32) {
    let r = rng.below(100);
    let (off, on) = match mode { 2 => (35, 65), 3 => (50, 75), _ => (75, 88) };
    if r < off { (QbB::Off, 1 + rng.below(20) as u32) }
    else if r < on { (QbB::On, 1 + rng.below(5) as u32) }
    else { (QbB::Alt(rng.below(4) as u8), 2 + rng.below(10) as u32) }
}

fn weird_bps(k: u8) -> f64 {
    match k { 0 => f64::NAN, 1 => -1.0, 2 => f64::INFINITY, 3 => -0.0, 4 => 5e-324, 5 => 1.0e308, _ => f64::NEG_INFINITY }
}

fn mk_conn(id: u64, k: usize) -> SrtlaConnection {
    let mut c = SrtlaConnection::new_registering(
        id, format!("verif-{}", k), IpAddr::V4(Ipv4Addr::new(10, 0, 0, 1 + k as u8)), 1_000);
    c.connected = true;
    c
}

/// Apply the scripted signals to the real connection object.
fn set_signals(c: &mut SrtlaConnection, connected: bool, bps: f64, rtt: Option<f64>, qb: bool) {
    c.connected = connected;
    c.bitrate.current_bitrate_bps = bps;
    c.rtt.kalman_rtt = KalmanFilter::new(KalmanConfig::for_rtt());
    if let Some(v) = rtt { c.rtt.kalman_rtt.update(v); }
    // queue_building_suspected(): gradient (fast floor - slow floor) above the trip level
    c.rtt.rtt_min_ms = 50.0;
    c.rtt.rtt_min_slow_ms = 50.0;
    c.rtt.rtt_masd_ms = 1.0;
    c.rtt.rtt_min_fast_ms = if qb { 100.0 } else { 50.0 };
}

struct TickObs {
    text: String,
    bypass: bool,
}

fn observe(filter: &mut WeakLinkFilter, conns: &[SrtlaConnection], run: &mut Run) -> Option<TickObs> {
    // the inputs exactly as classify() reads them
    let mut ins = Vec::with_capacity(conns.len());
    for c in conns {
        ins.push(format!("L {} {} {} {} {}", c.conn_id, boolc(c.connected),
            fl(c.bitrate.current_bitrate_bps), fl(c.get_smooth_rtt_ms()), boolc(c.queue_building_suspected())));
    }
    let res: Option<ClassificationResult> =
        std::panic::catch_unwind(std::panic::AssertUnwindSafe(|| filter.classify(conns))).ok();
    let res = match res {
        Some(r) => r,
        None => { run.panics += 1; return None; }
    };
    let mut outs = Vec::with_capacity(res.per_link.len());
    let mut bypass = !res.per_link.is_empty() || conns.is_empty();
    for e in &res.per_link {
        if e.reason != WeakReason::Bypassed { bypass = false; }
        outs.push(format!("V {} {} {} {} {}", e.conn_id, boolc(e.weak), reason_lit(e.reason),
            e.share_permille, e.threshold_permille));
        let key = match (e.weak, e.reason) {
            (true, WeakReason::HighRtt) => "verdict:weak_high_rtt",
            (true, WeakReason::QueueBuilding) => "verdict:weak_queue_building",
            (true, WeakReason::NoTraffic) => "verdict:weak_no_traffic",
            (true, WeakReason::LowShare) => "verdict:weak_low_share",
            (true, _) => "verdict:weak_other",
            (false, WeakReason::Bypassed) => "verdict:bypassed",
            (false, _) => "verdict:not_weak",
        };
        run.count(key);
    }
    // private memory, in the order of the connected links of this call, then leftovers
    let dump = filter.verif_dump();
    let mut used = vec![false; dump.len()];
    let mut sts = Vec::new();
    let ent = |d: &(u64, Option<bool>, Option<u32>, Option<u32>, Option<u32>)| {
        format!("({},E {} {} {} {})", d.0,
            match d.1 { Some(b) => boolc(b).to_string(), None => "false".into() },
            z(d.2.map(|v| v as i128).unwrap_or(-1)), z(d.3.map(|v| v as i128).unwrap_or(-1)), z(d.4.map(|v| v as i128).unwrap_or(-1)))
    };
    for c in conns {
        if let Some(p) = dump.iter().position(|d| d.0 == c.conn_id) {
            if !used[p] {
                used[p] = true;
                let d = &dump[p];
                if d.4 == Some(3) { run.count("state:probation_armed"); }
                if d.4.unwrap_or(0) > 0 { run.count("state:in_probation"); }
                if d.2.unwrap_or(0) >= 2 { run.count("state:delay_streak_ge2"); }
                if d.3.unwrap_or(0) >= 10 { run.count("state:share_streak_ge10"); }
                sts.push(ent(d));
            }
        }
    }
    for (p, d) in dump.iter().enumerate() {
        if !used[p] { sts.push(ent(d)); run.count("state:entry_for_absent_link"); }
    }
    if bypass { run.count("tick:bypassed"); } else { run.count("tick:classified"); }
    Some(TickObs {
        text: format!("T [{}] {} {} [{}] [{}]", ins.join(";"), res.selected_delay_ms, res.estimated_max_delay_ms,
            outs.join(";"), sts.join(";")),
        bypass,
    })
}

fn gen_case(rng: &mut Rng, run: &mut Run, nticks: usize, mode: u64) {
    let mut filter = WeakLinkFilter::new();
    // pool of up to 6 distinct ids, at most 4 present at a time
    let npool = 1 + rng.below(6) as usize;
    let max_present = std::cmp::min(npool, 1 + rng.below(4) as usize);
    let mut ids: Vec<u64> = Vec::new();
    while ids.len() < npool {
        let id = match rng.below(12) {
            0 => u64::MAX - rng.below(3),
            1 => 1u64 << 63,
            2 => 0,
            3 => rng.u64(),
            _ => 1 + rng.below(9),
        };
        if !ids.contains(&id) { ids.push(id); }
    }
    let mut present: Vec<(usize, SrtlaConnection)> = Vec::new();
    let mut absent: Vec<(usize, SrtlaConnection)> = Vec::new();
    for (k, &id) in ids.iter().enumerate() {
        if present.len() < max_present { present.push((k, mk_conn(id, k))); } else { absent.push((k, mk_conn(id, k))); }
    }
    let mut scripts: Vec<Script> = (0..npool).map(|_| {
        let (b, bl) = new_bps(rng, mode);
        let (r, rv, rl) = new_rtt(rng, mode);
        let (q, ql) = new_qb(rng, mode);
        Script { bps: b, bps_left: bl, rtt: r, rtt_val: rv, rtt_left: rl, qb: q, qb_left: ql, down_left: 0, away_left: 0 }
    }).collect();
    // make sure at least one link carries a large low-RTT share most of the time in delay-heavy cases
    if mode == 2 && !scripts.is_empty() {
        scripts[0].bps = BpsB::Fair(40);
        scripts[0].bps_left = nticks as u32;
        scripts[0].rtt = RttB::Low;
        scripts[0].rtt_val = 20.0;
        scripts[0].rtt_left = nticks as u32;
    }
    let churn = match mode { 3 => 12, _ => 40 + rng.below(200) }; // 1-in-churn per link per tick
    let floor_dance = rng.chance(1, 4) || mode == 3;
    let scale_frac = rng.chance(1, 5);
    let mut ticks: Vec<String> = Vec::with_capacity(nticks);
    let mut any_classified = false;
    let mut floor_left: u32 = 0;
    let mut floor_kind: u64 = 0;
    for t in 0..nticks {
        // joins / leaves
        let mut i = 0;
        while i < present.len() {
            if rng.chance(1, churn * 2) && present.len() > 0 {
                let (k, c) = present.remove(i);
                scripts[k].away_left = 1 + rng.below(4) as u32;
                absent.push((k, c));
                run.count("event:leave");
            } else { i += 1; }
        }
        let mut j = 0;
        while j < absent.len() {
            let k = absent[j].0;
            if scripts[k].away_left > 0 { scripts[k].away_left -= 1; j += 1; continue; }
            if present.len() < max_present && rng.chance(1, 3) {
                let e = absent.remove(j);
                let pos = rng.below(present.len() as u64 + 1) as usize;
                present.insert(pos, e);
                run.count("event:join");
            } else { j += 1; }
        }
        // floor idling
        if floor_left > 0 { floor_left -= 1; }
        else if floor_dance && rng.chance(1, 10) { floor_left = 1 + rng.below(3) as u32; floor_kind = rng.below(4); }
        // advance scripts of present links
        for (k, _) in present.iter() {
            let s = &mut scripts[*k];
            if s.bps_left == 0 { let (b, l) = new_bps(rng, mode); s.bps = b; s.bps_left = l; }
            if s.rtt_left == 0 { let (r, v, l) = new_rtt(rng, mode); s.rtt = r; s.rtt_val = v; s.rtt_left = l; }
            if s.qb_left == 0 { let (q, l) = new_qb(rng, mode); s.qb = q; s.qb_left = l; }
            s.bps_left -= 1; s.rtt_left -= 1; s.qb_left -= 1;
            if s.down_left > 0 { s.down_left -= 1; }
            else if rng.chance(1, churn) { s.down_left = 1 + rng.below(3) as u32; run.count("event:disconnect"); }
        }
        // bitrates: unit u; targeted links get p*u+d, fair links split the rest by weight
        let u: i64 = if floor_left > 0 {
            match floor_kind { 0 => 100, 1 => 1 + rng.below(99) as i64, 2 => 99, _ => 101 }
        } else if rng.chance(1, 12) { *rng.pick(&[100i64, 101, 102]) } else { *rng.pick(&[500i64, 1000, 2500, 8000, 20000]) + rng.below(50) as i64 };
        let conn_now: Vec<bool> = present.iter().map(|(k, _)| scripts[*k].down_left == 0).collect();
        let mut targeted: i64 = 0;
        let mut wsum: i64 = 0;
        for (idx, (k, _)) in present.iter().enumerate() {
            if !conn_now[idx] { continue; }
            match scripts[*k].bps { BpsB::Pm(p, _) => targeted += p as i64, BpsB::Fair(w) => wsum += w as i64, _ => {} }
        }
        let rest_units = (1000 - targeted).max(0);
        let mut rest_left = rest_units * u;
        let mut fair_left = present.iter().enumerate()
            .filter(|(idx, (k, _))| conn_now[*idx] && matches!(scripts[*k].bps, BpsB::Fair(_))).count();
        let frac = if scale_frac { 0.37 } else { 1.0 };
        for idx in 0..present.len() {
            let k = present[idx].0;
            let s = &scripts[k];
            let mut bps: f64 = match s.bps {
                BpsB::Zero => 0.0,
                BpsB::Weird(w) => weird_bps(w),
                BpsB::Pm(p, d) => ((p as i64 * u) + d as i64).max(0) as f64,
                BpsB::Fair(w) => {
                    if !conn_now[idx] { (w as i64 * u) as f64 } else {
                        fair_left -= 1;
                        let v = if fair_left == 0 { rest_left } else { (rest_units * u * w as i64) / wsum.max(1) };
                        let v = v.min(rest_left).max(0);
                        rest_left -= v;
                        v as f64
                    }
                }
            };
            if scale_frac && bps.is_finite() { bps *= frac; }
            if floor_left > 0 && floor_kind == 0 && scale_frac { bps /= frac; }
            let rtt = match s.rtt { RttB::Uninit => None, _ => Some(s.rtt_val + if matches!(s.rtt, RttB::Low) { (t % 3) as f64 * 0.25 } else { 0.0 }) };
            let qb = match s.qb { QbB::Off => false, QbB::On => true,
                QbB::Alt(p) => match p { 0 => t % 2 == 0, 1 => t % 3 != 0, 2 => t % 3 == 0, _ => t % 4 < 2 } };
            set_signals(&mut present[idx].1, conn_now[idx], bps, rtt, qb);
        }
        let conns: Vec<SrtlaConnection> = present.drain(..).map(|(_, c)| c).collect();
        let keys: Vec<usize> = {
            // recover the pool indices by id order
            conns.iter().map(|c| ids.iter().position(|&i| i == c.conn_id).unwrap()).collect()
        };
        let obs = observe(&mut filter, &conns, run);
        present = keys.into_iter().zip(conns.into_iter()).collect();
        match obs {
            Some(o) => { if !o.bypass { any_classified = true; } ticks.push(o.text); }
            None => { run.note(format!("classify() panicked at tick {} of a case; case truncated", t)); break; }
        }
    }
    run.count_n("ticks", ticks.len() as u64);
    let text = format!("Case [{}]", ticks.join(";"));
    let kind: &'static str = match mode { 1 => "starve", 2 => "delay", 3 => "chaos", _ => "mixed" };
    run.push(kind, any_classified, text);
}

/// Hand-written regression histories (always run): probation timing, two-tick delay
/// latch, enter/leave thresholds at the exact permille boundaries, floor crossing.
fn fixed_cases(run: &mut Run) {
    // (a) one starved link beside a healthy one for 40 ticks: 15 share-weak, 3 probation, repeat
    for zero in [false, true] {
        let mut filter = WeakLinkFilter::new();
        let mut conns = vec![mk_conn(1, 0), mk_conn(2, 1)];
        let mut ticks = vec![];
        for _ in 0..40 {
            set_signals(&mut conns[0], true, 990_000.0, Some(20.0), false);
            set_signals(&mut conns[1], true, if zero { 0.0 } else { 10_000.0 }, Some(30.0), false);
            if let Some(o) = observe(&mut filter, &conns, run) { ticks.push(o.text); }
        }
        run.push("fixed", true, format!("Case [{}]", ticks.join(";")));
    }
    // (b) delay blips: queue-building for 1, 2, 3 ticks separated by clear ticks; high RTT likewise
    {
        let mut filter = WeakLinkFilter::new();
        let mut conns = vec![mk_conn(1, 0), mk_conn(2, 1)];
        let mut ticks = vec![];
        let pat = [1, 0, 1, 1, 0, 1, 1, 1, 0, 0, 2, 0, 2, 2, 0, 2, 2, 2, 1, 2, 1, 0];
        for &p in pat.iter() {
            set_signals(&mut conns[0], true, 900_000.0, Some(20.0), false);
            set_signals(&mut conns[1], true, 100_000.0, Some(if p == 2 { 2600.0 } else { 30.0 }), p == 1);
            if let Some(o) = observe(&mut filter, &conns, run) { ticks.push(o.text); }
        }
        run.push("fixed", true, format!("Case [{}]", ticks.join(";")));
    }
    // (c) enter / leave boundaries for n = 1..4: share walks p-1, p, p+1 around 250/n then 750/n
    for n in 1..=4usize {
        let mut filter = WeakLinkFilter::new();
        let mut conns: Vec<SrtlaConnection> = (0..n).map(|k| mk_conn(10 + k as u64, k)).collect();
        let mut ticks = vec![];
        let enter = 250 / n as i64;
        let leave = 750 / n as i64;
        let walk = [enter + 1, enter, enter - 1, enter, leave - 1, leave - 1, leave, enter - 1, leave - 2, leave + 1, enter, enter - 1];
        for &p in walk.iter() {
            let u = 1000i64;
            let p = p.clamp(0, 1000);
            for k in 0..n {
                let bps = if k == 0 { p * u } else if k == 1 { (1000 - p) * u } else { 0 };
                set_signals(&mut conns[k], true, bps as f64, Some(25.0), false);
            }
            if n == 1 { set_signals(&mut conns[0], true, 1_000_000.0, Some(25.0), false); }
            if let Some(o) = observe(&mut filter, &conns, run) { ticks.push(o.text); }
        }
        run.push("fixed", true, format!("Case [{}]", ticks.join(";")));
    }
    // (d) floor crossing and disconnects in the middle of a starvation streak and of a probation window
    {
        let mut filter = WeakLinkFilter::new();
        let mut conns = vec![mk_conn(7, 0), mk_conn(8, 1)];
        let mut ticks = vec![];
        for t in 0..60 {
            let under = t == 10 || t == 33;
            let disc = t == 20 || t == 52;
            let total = if under { 99_999.0 } else if t == 11 { 100_000.0 } else { 1_000_000.0 };
            set_signals(&mut conns[0], true, total * 0.99, Some(20.0), false);
            set_signals(&mut conns[1], !disc, total * 0.01, Some(30.0), t % 7 == 3);
            if let Some(o) = observe(&mut filter, &conns, run) { ticks.push(o.text); }
        }
        run.push("fixed", true, format!("Case [{}]", ticks.join(";")));
    }
    // (e) empty connection list and all-disconnected
    {
        let mut filter = WeakLinkFilter::new();
        let mut conns = vec![mk_conn(3, 0)];
        let mut ticks = vec![];
        if let Some(o) = observe(&mut filter, &[], run) { ticks.push(o.text); }
        set_signals(&mut conns[0], false, 5_000_000.0, Some(20.0), true);
        if let Some(o) = observe(&mut filter, &conns, run) { ticks.push(o.text); }
        set_signals(&mut conns[0], true, 5_000_000.0, Some(20.0), true);
        for _ in 0..3 { if let Some(o) = observe(&mut filter, &conns, run) { ticks.push(o.text); } }
        run.push("fixed", true, format!("Case [{}]", ticks.join(";")));
    }
}

pub fn run(seed: u64, tier: &str, out: &Path, extra: &[(String, String)]) -> std::io::Result<()> {
    let mut run = Run::new("C17", "Run_C17", seed, tier, out);
    let mut rng = Rng::new(seed ^ 0xC17C_17C1_7C17);
    let mut scale: f64 = 1.0;
    for (k, v) in extra { if k == "scale" { scale = v.parse().unwrap_or(1.0); } }
    fixed_cases(&mut run);
    let ncases = ((if run.thorough() { 10000.0 } else { 1000.0 }) * scale) as usize;
    for i in 0..ncases {
        let mut r = rng.fork(i as u64);
        let mode = match r.below(10) { 0..=2 => 0, 3..=5 => 1, 6..=7 => 2, _ => 3 };
        let nticks = match r.below(10) { 0 => 3 + r.below(8) as usize, 1..=6 => 20 + r.below(30) as usize, _ => 45 + r.below(40) as usize };
        gen_case(&mut r, &mut run, nticks, mode);
    }
    run.note(format!("{} generated histories + fixed regression histories; per tick the inputs are read back from the real SrtlaConnection accessors (get_smooth_rtt_ms, queue_building_suspected)", ncases));
    run.finish(16, 1_000_000)
}
