//! C20 — drives the real `SubscriptionHub` (src/subscriptions.rs).
//!
//! (i)/(ii) sequential cases: whole hub operations, one at a time; every hub future is
//!     polled exactly once with a no-op waker and must be Ready (a `Pending` is recorded as
//!     `EBlocked` — with no other hub call in progress that is a violation of clause 1);
//!     the observable trace is compared event-for-event with the model's `run_calls`.
//! (iii) stress cases: 2-4 OS threads hammer one hub (subscribe / unsubscribe / publish /
//!     len / try_recv / drop receiver) with capacities from 1; every event gets a stamp from
//!     one global atomic counter (call stamps before the call, return stamps after it, the
//!     publication order from the `verif_hooks::set_publish_observer` hook under the hub lock);
//!     the stamp-ordered trace goes through the monitor.
use crate::common::{self, Rng, Run};
use srtla_send::subscriptions::{SubscriptionHub, verif_hooks};
use std::cell::{Cell, RefCell};
use std::collections::HashMap;
use std::future::Future;
use std::path::Path;
use std::pin::Pin;
use std::sync::atomic::{AtomicU64, Ordering};
use std::sync::{Arc, Barrier};
use std::task::{Context, Poll, Wake, Waker};
use tokio::sync::mpsc;

static STAMP: AtomicU64 = AtomicU64::new(0);
/// set when a hub call did not complete within its time budget (the case is cut short)
static STUCK: std::sync::atomic::AtomicBool = std::sync::atomic::AtomicBool::new(false);
fn stamp() -> u64 { STAMP.fetch_add(1, Ordering::SeqCst) }

thread_local! {
    static TASK: Cell<i64> = const { Cell::new(0) };
    static LOG: RefCell<Vec<(u64, String)>> = const { RefCell::new(Vec::new()) };
}
fn emit(s: String) {
    let st = stamp();
    LOG.with(|l| l.borrow_mut().push((st, s)));
}
fn take_log() -> Vec<(u64, String)> { LOG.with(|l| std::mem::take(&mut *l.borrow_mut())) }

fn topic_name(tp: i64) -> String {
    match tp { 0 => "stats".into(), 1 => "priority.window".into(), n => format!("t{}", n) }
}
fn topic_index(name: &str) -> i64 {
    match name {
        "stats" => 0,
        "priority.window" => 1,
        n => n.strip_prefix('t').and_then(|x| x.parse().ok()).unwrap_or(-999),
    }
}
fn z(v: i64) -> String { common::z(v as i128) }

fn install_observer() {
    verif_hooks::set_publish_observer(Some(Box::new(|topic, data| {
        let t = TASK.with(|t| t.get());
        let d = data.as_i64().unwrap_or(-1);
        emit(format!("EPubLin {} {} {}", z(t), z(topic_index(topic)), z(d)));
    })));
}

/// one pushed line -> `Build_msg id topic data`
fn parse_line(line: &str) -> String {
    let v: serde_json::Value = serde_json::from_str(line).unwrap_or(serde_json::Value::Null);
    let id = v["params"]["subscription_id"].as_str().and_then(|s| s.strip_prefix("sub-"))
        .and_then(|s| s.parse::<i64>().ok()).unwrap_or(-998);
    let tp = v["method"].as_str().and_then(|s| s.strip_suffix(".update")).map(topic_index).unwrap_or(-997);
    let d = v["params"]["data"].as_i64().unwrap_or(-996);
    let well = v["jsonrpc"] == "2.0";
    format!("(Build_msg {} {} {})", z(id), z(if well { tp } else { -995 }), z(d))
}

struct ThreadWaker(std::thread::Thread);
impl Wake for ThreadWaker {
    fn wake(self: Arc<Self>) { self.0.unpark(); }
}
/// minimal executor: poll on this thread, park until woken. Returns None on timeout.
fn block_on<F: Future>(mut fut: Pin<&mut F>, max_ms: u64) -> Option<F::Output> {
    let waker: Waker = Arc::new(ThreadWaker(std::thread::current())).into();
    let mut cx = Context::from_waker(&waker);
    let t0 = std::time::Instant::now();
    loop {
        if let Poll::Ready(v) = fut.as_mut().poll(&mut cx) { return Some(v); }
        if t0.elapsed().as_millis() as u64 > max_ms { return None; }
        std::thread::park_timeout(std::time::Duration::from_millis(20));
    }
}
/// Poll once with a no-op waker; a Pending is recorded as `EBlocked t`, then the future is
/// driven to completion (bounded) so the case can continue.
fn single_poll<F: Future>(t: i64, fut: F) -> Option<F::Output> {
    let mut fut = std::pin::pin!(fut);
    let mut cx = Context::from_waker(Waker::noop());
    match fut.as_mut().poll(&mut cx) {
        Poll::Ready(v) => Some(v),
        Poll::Pending => {
            emit(format!("EBlocked {}", z(t)));
            let r = block_on(fut.as_mut(), 50);
            if r.is_none() { STUCK.store(true, Ordering::SeqCst); }
            r
        }
    }
}

#[derive(Clone, Debug)]
enum Op { Chan(i64, i64), Sub(i64, i64), Unsub(i64), Pub(i64, i64), Len, Recv(i64), Close(i64) }
impl Op {
    fn coq(&self) -> String {
        match self {
            Op::Chan(c, n) => format!("OChan {} {}", z(*c), z(*n)),
            Op::Sub(tp, c) => format!("OSub {} {}", z(*tp), z(*c)),
            Op::Unsub(i) => format!("OUnsub {}", z(*i)),
            Op::Pub(tp, d) => format!("OPub {} {}", z(*tp), z(*d)),
            Op::Len => "OLen".into(),
            Op::Recv(c) => format!("ORecv {}", z(*c)),
            Op::Close(c) => format!("OClose {}", z(*c)),
        }
    }
}

thread_local! { static CLOSE_TOGGLE: std::cell::Cell<bool> = const { std::cell::Cell::new(true) }; }

/// `closed`: a receiver that was closed with `Receiver::close()` and is kept alive (its buffered events
/// are NOT drained, unlike a dropped receiver): the channel is closed and may still be full
struct ChanSt { tx: mpsc::Sender<String>, rx: Option<mpsc::Receiver<String>>, closed: Option<mpsc::Receiver<String>> }

/// Run one hub call of task `t` on the real hub (single poll), emitting its events.
fn do_hub_call(hub: &SubscriptionHub, chans: &mut HashMap<i64, ChanSt>, t: i64, op: &Op, blocking: bool) {
    TASK.with(|x| x.set(t));
    macro_rules! drive {
        ($f:expr) => {{
            if blocking {
                let mut f = std::pin::pin!($f);
                let r = block_on(f.as_mut(), 1000);
                if r.is_none() { STUCK.store(true, Ordering::SeqCst); }
                r
            } else { single_poll(t, $f) }
        }};
    }
    match op {
        Op::Sub(tp, c) => {
            let tx = match chans.get(c) {
                Some(ch) => ch.tx.clone(),
                None => mpsc::channel::<String>(1).0, // never created: a sender whose receiver is gone
            };
            emit(format!("ECall {} ({})", z(t), op.coq()));
            let name = topic_name(*tp);
            if let Some(id) = drive!(hub.subscribe(&name, tx)) {
                let n = id.strip_prefix("sub-").and_then(|s| s.parse::<i64>().ok()).unwrap_or(-994);
                emit(format!("ERet {} (RSub {})", z(t), z(n)));
            }
        }
        Op::Unsub(id) => {
            emit(format!("ECall {} ({})", z(t), op.coq()));
            let s = format!("sub-{}", id);
            if let Some(r) = drive!(hub.unsubscribe(&s)) {
                emit(format!("ERet {} (RUnsub {})", z(t), common::boolc(r)));
            }
        }
        Op::Pub(tp, d) => {
            emit(format!("ECall {} ({})", z(t), op.coq()));
            let name = topic_name(*tp);
            if drive!(hub.publish(&name, serde_json::json!(*d))).is_some() {
                emit(format!("ERet {} RPub", z(t)));
            }
        }
        Op::Len => {
            emit(format!("ECall {} OLen", z(t)));
            if let Some(n) = drive!(hub.len()) {
                emit(format!("ERet {} (RLen {})", z(t), n));
            }
        }
        _ => unreachable!(),
    }
}

fn do_chan_op(chans: &mut HashMap<i64, ChanSt>, op: &Op) {
    match op {
        Op::Chan(c, cap) => {
            if !chans.contains_key(c) {
                let (tx, rx) = mpsc::channel::<String>(std::cmp::max(1, *cap) as usize);
                chans.insert(*c, ChanSt { tx, rx: Some(rx), closed: None });
            }
        }
        Op::Recv(c) => {
            // a hub that hands work to background tasks (it must not) gets a moment to finish it,
            // so that late / reordered deliveries become visible to the subscriber
            if let Some(rt) = BG_RT.get() {
                let mut spins = 0;
                while rt.metrics().num_alive_tasks() > 0 && spins < 20 { std::thread::sleep(std::time::Duration::from_micros(250)); spins += 1; }
            }
            let got = chans.get_mut(c).and_then(|ch| ch.rx.as_mut()).and_then(|rx| rx.try_recv().ok());
            match got {
                Some(line) => emit(format!("ERecv {} (Some {})", z(*c), parse_line(&line))),
                None => emit(format!("ERecv {} None", z(*c))),
            }
        }
        Op::Close(c) => {
            match chans.get_mut(c) {
                Some(ch) => {
                    // half of the closes keep the receiver object alive after close() (a client task that
                    // stopped reading but has not been torn down yet): backlog stays, channel is closed
                    let keep = CLOSE_TOGGLE.with(|t| { let v = t.get(); t.set(!v); v });
                    match ch.rx.take() {
                        Some(mut rx) if keep => { rx.close(); ch.closed = Some(rx); }
                        _ => {}
                    }
                }
                None => { let (tx, _rx) = mpsc::channel::<String>(1); chans.insert(*c, ChanSt { tx, rx: None, closed: None }); }
            }
            emit(format!("EClose {}", z(*c)));
        }
        _ => unreachable!(),
    }
}

fn trace_text(mut log: Vec<(u64, String)>) -> String {
    log.sort_by_key(|e| e.0);
    format!("[{}]", log.into_iter().map(|e| e.1).collect::<Vec<_>>().join("; "))
}

// ------------------------------------------------------------------ sequential cases
fn gen_calls(rng: &mut Rng, len: usize) -> Vec<(i64, Op)> {
    let caps = [1i64, 1, 1, 2, 2, 3, 8, 128];
    let nch = rng.range(1, 3);
    let ntopics = rng.range(1, 3);
    let mut calls = vec![];
    for c in 1..=nch { calls.push((0, Op::Chan(c, *rng.pick(&caps)))); }
    let mut next_id = 0i64;       // ids the real hub will hand out (model says the same)
    let mut data = 0i64;
    let recv_rate = rng.range(0, 30) as u64; // 0 = a subscriber that never reads
    for _ in 0..len {
        let t = rng.range(0, 3);
        let c = if rng.chance(1, 25) { 99 } else { rng.range(1, nch) };
        let tp = rng.range(0, ntopics - 1);
        let k = rng.below(100);
        let op = if k < 24 { next_id += 1; Op::Sub(tp, c) }
            else if k < 58 { data += 1; Op::Pub(tp, if rng.chance(1, 10) { rng.range(1, data) } else { data }) }
            else if k < 58 + recv_rate { Op::Recv(if c == 99 { 1 } else { c }) }
            else if k < 90 { if rng.chance(1, 2) { data += 1; Op::Pub(tp, data) } else { Op::Len } }
            else if k < 96 { Op::Unsub(if rng.chance(1, 6) { rng.range(-1, next_id + 2) } else { rng.range(0, std::cmp::max(0, next_id - 1)) }) }
            else if k < 98 { Op::Close(if c == 99 { 98 } else { c }) }
            else { Op::Chan(rng.range(1, nch + 1), *rng.pick(&caps)) };
        calls.push((t, op));
    }
    calls
}

fn run_seq_case(calls: &[(i64, Op)]) -> String {
    CLOSE_TOGGLE.with(|t| t.set(true));
    let hub = SubscriptionHub::new();
    let mut chans: HashMap<i64, ChanSt> = HashMap::new();
    let _ = take_log();
    STUCK.store(false, Ordering::SeqCst);
    let mut done = 0;
    for (t, op) in calls {
        match op {
            Op::Chan(..) | Op::Recv(_) | Op::Close(_) => do_chan_op(&mut chans, op),
            _ => do_hub_call(&hub, &mut chans, *t, op, false),
        }
        done += 1;
        if STUCK.load(Ordering::SeqCst) { break; }
    }
    let calls = &calls[..done];
    let ops = calls.iter().map(|(t, o)| format!("({}, {})", z(*t), o.coq())).collect::<Vec<_>>().join("; ");
    format!("CSeq [{}] {}", ops, trace_text(take_log()))
}

/// fixed scenarios that always run: full / never-read / closed subscribers in front of publish
/// Runtime context for hub code that (wrongly) spawns background work: without one such a
/// call would panic inside the harness instead of being observed.
static BG_RT: std::sync::OnceLock<tokio::runtime::Runtime> = std::sync::OnceLock::new();

fn fixed_scenarios() -> Vec<Vec<(i64, Op)>> {
    let mut v = vec![];
    // overflow, then unsubscribe, then the stalled client drains: nothing published after the
    // channel filled may surface later, least of all after the unsubscribe completed
    v.push(vec![(0, Op::Chan(1, 1)), (0, Op::Sub(0, 1)), (1, Op::Pub(0, 1)), (1, Op::Pub(0, 2)), (0, Op::Unsub(0)),
                (2, Op::Recv(1)), (2, Op::Recv(1)), (2, Op::Recv(1))]);
    // overflow, one read, immediate publish, reads: order must stay the publication order
    let mut o = vec![(0, Op::Chan(1, 1)), (0, Op::Sub(0, 1))];
    for r in 0..12 { o.extend([(1, Op::Pub(0, 3 * r + 1)), (1, Op::Pub(0, 3 * r + 2)), (2, Op::Recv(1)), (1, Op::Pub(0, 3 * r + 3)), (2, Op::Recv(1)), (2, Op::Recv(1))]); }
    v.push(o);
    // capacity 1, never read: every publish after the first hits Full and must still be Ready
    let mut a = vec![(0, Op::Chan(1, 1)), (0, Op::Sub(0, 1)), (0, Op::Sub(0, 1))];
    for d in 1..=5 { a.push((1, Op::Pub(0, d))); }
    a.extend([(2, Op::Recv(1)), (2, Op::Recv(1)), (1, Op::Pub(0, 6)), (2, Op::Recv(1)), (0, Op::Len)]);
    v.push(a);
    // closed receiver: pruned by the next publish on its topic only
    v.push(vec![(0, Op::Chan(1, 2)), (0, Op::Chan(2, 2)), (0, Op::Sub(0, 1)), (0, Op::Sub(1, 1)), (0, Op::Sub(0, 2)),
        (2, Op::Close(1)), (1, Op::Pub(1, 1)), (0, Op::Len), (1, Op::Pub(0, 2)), (0, Op::Len), (2, Op::Recv(2)),
        (0, Op::Unsub(2)), (1, Op::Pub(0, 3)), (2, Op::Recv(2)), (0, Op::Len), (0, Op::Unsub(2))]);
    // a client that stopped reading with a full backlog and then closed its receiver (kept alive, not
    // dropped): the next publish on its topic must still find it closed and prune it
    v.push(vec![(0, Op::Chan(1, 1)), (0, Op::Chan(2, 4)), (0, Op::Sub(0, 1)), (0, Op::Sub(0, 2)), (1, Op::Pub(0, 1)),
        (2, Op::Close(1)), (1, Op::Pub(0, 2)), (0, Op::Len), (1, Op::Pub(0, 3)), (0, Op::Len), (2, Op::Recv(2)), (2, Op::Recv(2))]);
    // the production capacity (128) overrun by a stalled client
    let mut c = vec![(0, Op::Chan(1, 128)), (0, Op::Sub(0, 1))];
    for d in 1..=131 { c.push((1, Op::Pub(0, d))); }
    c.extend([(2, Op::Recv(1)), (1, Op::Pub(0, 132)), (0, Op::Unsub(0)), (1, Op::Pub(0, 133)), (0, Op::Len)]);
    v.push(c);
    v
}

// ------------------------------------------------------------------ stress cases
fn run_stress_case(rng: &mut Rng, nthreads: usize, nops: usize) -> String {
    let hub = SubscriptionHub::new();
    let ntopics = rng.range(1, 2);
    let barrier = Arc::new(Barrier::new(nthreads));
    let ids_seen = Arc::new(std::sync::Mutex::new(Vec::<i64>::new()));
    let mut handles = vec![];
    let _ = take_log();
    STUCK.store(false, Ordering::SeqCst);
    for th in 0..nthreads {
        let hub = hub.clone();
        let barrier = barrier.clone();
        let ids_seen = ids_seen.clone();
        let mut rng = rng.fork(th as u64 + 1);
        let cap = *rng.pick(&[1i64, 1, 2, 3, 8]);
        // role mix: thread 0 is mostly a publisher (the housekeeping pass), others mostly clients
        let pub_w = if th == 0 { 70 } else { rng.range(10, 40) as u64 };
        handles.push(std::thread::spawn(move || {
            let _rt_guard = BG_RT.get().map(|rt| rt.enter());
            let t = th as i64;
            let c = th as i64 + 1;
            let mut chans: HashMap<i64, ChanSt> = HashMap::new();
            do_chan_op(&mut chans, &Op::Chan(c, cap));
            let mut own: Vec<i64> = vec![];
            let mut data = 0i64;
            let before = LOG.with(|l| l.borrow().len());
            barrier.wait();
            for _ in 0..nops {
                if STUCK.load(Ordering::SeqCst) { break; }
                let k = rng.below(100);
                let tp = rng.range(0, ntopics - 1);
                if k < pub_w {
                    data += 1;
                    do_hub_call(&hub, &mut chans, t, &Op::Pub(tp, t * 1_000_000 + data), true);
                } else if k < pub_w + 12 {
                    do_hub_call(&hub, &mut chans, t, &Op::Sub(tp, c), true);
                    // learn the id from the event just logged
                    let last = LOG.with(|l| l.borrow().last().map(|e| e.1.clone())).unwrap_or_default();
                    if let Some(p) = last.find("(RSub ") {
                        if let Ok(n) = last[p + 6..].trim_end_matches(')').parse::<i64>() {
                            own.push(n);
                            ids_seen.lock().unwrap().push(n);
                        }
                    }
                } else if k < pub_w + 18 {
                    let id = if rng.chance(1, 3) {
                        let g = ids_seen.lock().unwrap();
                        if g.is_empty() { 0 } else { g[rng.below(g.len() as u64) as usize] }
                    } else if own.is_empty() { rng.range(0, 5) } else { own.remove(rng.below(own.len() as u64) as usize) };
                    do_hub_call(&hub, &mut chans, t, &Op::Unsub(id), true);
                } else if k < pub_w + 22 {
                    do_hub_call(&hub, &mut chans, t, &Op::Len, true);
                } else if k < pub_w + 23 && rng.chance(1, 4) {
                    do_chan_op(&mut chans, &Op::Close(c));
                } else {
                    do_chan_op(&mut chans, &Op::Recv(c));
                }
            }
            // drain what is left (receiver side), then hand the log back
            for _ in 0..200 {
                let n0 = LOG.with(|l| l.borrow().len());
                do_chan_op(&mut chans, &Op::Recv(c));
                let none = LOG.with(|l| l.borrow()[n0].1.ends_with("None"));
                if none { break; }
            }
            let mut log = take_log();
            log.drain(0..before);
            (log, chans)
        }));
    }
    let mut all = vec![];
    let mut keep = vec![];
    for h in handles {
        let (log, chans) = h.join().expect("stress thread");
        all.extend(log);
        keep.push(chans);
    }
    // quiescent tail on the main thread (task 9): count, publish each topic (prunes closed), count, drain
    let mut none: HashMap<i64, ChanSt> = HashMap::new();
    do_hub_call(&hub, &mut none, 9, &Op::Len, true);
    for tp in 0..ntopics { do_hub_call(&hub, &mut none, 9, &Op::Pub(tp, 9_000_000 + tp), true); }
    do_hub_call(&hub, &mut none, 9, &Op::Len, true);
    for (th, chans) in keep.iter_mut().enumerate() {
        for _ in 0..3 { do_chan_op(chans, &Op::Recv(th as i64 + 1)); }
    }
    all.extend(take_log());
    format!("CStress {}", trace_text(all))
}

pub fn run(seed: u64, tier: &str, out: &Path, _extra: &[(String, String)]) -> std::io::Result<()> {
    let mut run = Run::new("C20", "Run_C20", seed, tier, out);
    let mut rng = Rng::new(seed ^ 0xC20);
    install_observer();
    let rt = BG_RT.get_or_init(|| tokio::runtime::Builder::new_multi_thread().worker_threads(2).enable_all().build().unwrap());
    let _rt_guard = rt.enter();
    let scale = if run.thorough() { 10 } else { 1 };
    for sc in fixed_scenarios() {
        let text = run_seq_case(&sc);
        run.push("seq_fixed", true, text);
    }
    for i in 0..(500 * scale) {
        let len = if i % 10 == 0 { rng.range(40, 90) } else { rng.range(3, 40) } as usize;
        let calls = gen_calls(&mut rng, len);
        let text = run_seq_case(&calls);
        if text.contains("EBlocked") { run.count("seq_blocked"); }
        if text.contains("RUnsub true") { run.count("seq_unsub_removed"); }
        run.count_n("seq_recv_some", text.matches("(Some (Build_msg").count() as u64);
        run.push("seq", len > 3, text);
    }
    let mut stuck_cases = 0;
    for i in 0..(120 * scale) {
        if stuck_cases >= 3 { run.note("stress runs stopped: hub calls do not complete".into()); break; }
        let nthreads = 2 + (i % 3) as usize;
        let nops = rng.range(15, 60) as usize;
        let text = run_stress_case(&mut rng, nthreads, nops);
        if STUCK.load(Ordering::SeqCst) { stuck_cases += 1; run.count("stress_stuck"); }
        run.count_n("stress_recv_some", text.matches("(Some (Build_msg").count() as u64);
        run.count_n("stress_events", text.matches("; ").count() as u64);
        run.push("stress", true, text);
    }
    verif_hooks::set_publish_observer(None);
    run.note("sequential cases: every hub future polled once with a no-op waker; stress cases: 2-4 OS threads, capacities 1,2,3,8".into());
    run.finish(16, 1_000_000)
}
