//! C16 — per-link CC soft cap and loss latch: drives the REAL `LinkCcController::tick_all`
//! on real `SrtlaConnection`s (RTT, cumulative byte / NAK counters and bitrate are set on the
//! connection exactly where `tick_all` reads them), records after every tick the returned
//! snapshots, the private per-link state (verif hook) and the tracked key set.
use std::path::Path;

use srtla_core::connection::SrtlaConnection;
use srtla_core::selection::link_cc::{CcState, ClimbMode, LinkCcController};

use crate::common::*;

/// compact bit-exact Coq float literal (argument positions of type float are in float_scope)
fn fl(v: f64) -> String {
    if v.is_nan() { return "nan".into(); }
    if v == f64::INFINITY { return "infinity".into(); }
    if v == f64::NEG_INFINITY { return "neg_infinity".into(); }
    let bits = v.to_bits();
    let neg = (bits >> 63) != 0;
    let exp = ((bits >> 52) & 0x7ff) as i64;
    let man = bits & 0x000f_ffff_ffff_ffff;
    let body = if exp == 0 && man == 0 {
        "0".to_string()
    } else if !neg && v.fract() == 0.0 && v < 9.0e15 {
        format!("{}", v as u64)
    } else if exp == 0 {
        format!("0x0.{:013x}p-1022", man)
    } else {
        let e = exp - 1023;
        let mut m = format!("{:013x}", man);
        while m.ends_with('0') && m.len() > 1 { m.pop(); }
        format!("0x1.{}p{}{}", m, if e < 0 { "-" } else { "+" }, e.abs())
    };
    if neg { format!("(-{})", body) } else { body }
}

#[derive(Clone, Copy)]
struct LinkIn { id: u64, rtt: f64, bytes: u64, nak: i32, bps: f64 }

struct LinkObs { st: u8, md: u8, tgt: u64, ewma: f64, var: f64, min: f64, lpm: u32, lewma: f64, deg: bool, prv: Vec<i128> }

fn st_code(s: CcState) -> u8 {
    match s { CcState::Bootstrap => 0, CcState::Climbing => 1, CcState::Holding => 2, CcState::BackingOff => 3, CcState::Drain => 4 }
}
fn md_code(m: ClimbMode) -> u8 {
    match m { ClimbMode::Normal => 0, ClimbMode::Hai => 1, ClimbMode::FastRecovery => 2 }
}

/// The system under test plus the pool of real connections it is shown.
struct Sut {
    ctrl: LinkCcController,
    pool: Vec<Option<SrtlaConnection>>,
    ops: Vec<String>,
    obs: Vec<String>,
    ticks: usize,
}

impl Sut {
    fn new(rt: &tokio::runtime::Runtime, ids: &[u64]) -> Sut {
        let conns = rt.block_on(srtla_core::test_helpers::create_test_connections(ids.len()));
        let mut pool = vec![];
        for (mut c, &id) in conns.into_iter().zip(ids.iter()) {
            c.conn_id = id;
            pool.push(Some(c));
        }
        Sut { ctrl: LinkCcController::new(), pool, ops: vec![], obs: vec![], ticks: 0 }
    }

    /// One `tick_all(&present, now)`; `inputs` = (pool index, values) in slice order.
    fn tick(&mut self, run: &mut Run, now: u64, inputs: &[(usize, LinkIn)]) -> Vec<LinkObs> {
        let mut present: Vec<SrtlaConnection> = Vec::with_capacity(inputs.len());
        let mut seen: Vec<LinkIn> = vec![];
        for (idx, li) in inputs {
            let mut c = self.pool[*idx].take().expect("link used twice in one tick");
            c.rtt.kalman_rtt.verif_set_state(li.rtt, 0.0, [0.0; 4], true);
            c.bitrate.bytes_sent_total = li.bytes;
            c.bitrate.current_bitrate_bps = li.bps;
            c.congestion.nak_count = li.nak;
            // what tick_all will read
            seen.push(LinkIn { id: c.conn_id, rtt: c.get_smooth_rtt_ms(), bytes: c.bitrate.bytes_sent_total,
                               nak: c.total_nak_count(), bps: c.bitrate.current_bitrate_bps });
            present.push(c);
        }
        let snaps = self.ctrl.tick_all(&present, now);
        let keys = self.ctrl.verif_keys();
        let mut out = vec![];
        let mut ltxt = vec![];
        for li in &seen {
            let s = snaps.get(&li.id).copied().expect("snapshot for present link");
            let d = self.ctrl.verif_link_dump(li.id).expect("state for present link");
            let mut dig: i128 = 0;
            for (k, (ts, lost, sent)) in d.loss_samples.iter().enumerate() {
                dig += (*ts as i128 + 3 * *lost as i128 + 5 * *sent as i128) * (k as i128 + 1);
            }
            let prv: Vec<i128> = vec![
                d.rtt_min_stamp_ms as i128, d.last_rtt_update_ms as i128,
                d.loss_samples.len() as i128, dig, d.window_lost as i128, d.window_sent as i128,
                d.fast_recovery_ticks as i128, d.prev_bytes_sent_total as i128, d.prev_nak_total as i128,
                d.traffic_baseline_set as i128, d.loss_ewma_last_ms as i128, d.loss_high_since_ms as i128,
                d.backoff_ticks as i128, d.backoff_entry_loss_pm as i128, d.loss_uncongestive as i128,
                d.uncongestive_ticks as i128, d.seeded as i128,
            ];
            let o = LinkObs { st: st_code(s.state), md: md_code(s.climb_mode), tgt: s.target_bps, ewma: s.rtt_ewma_ms,
                              var: s.rtt_var_ms, min: s.rtt_min_ms, lpm: s.loss_permille, lewma: s.loss_ewma,
                              deg: s.loss_degraded, prv };
            ltxt.push(format!("L {} {} {} {} {} {} {} {} {} {}", o.st, o.md, o.tgt, fl(o.ewma), fl(o.var), fl(o.min),
                              o.lpm, fl(o.lewma), boolc(o.deg), zlist(o.prv.iter().copied())));
            run.count(match o.st { 0 => "state:bootstrap", 1 => "state:climbing", 2 => "state:holding", 3 => "state:backing_off", _ => "state:drain" });
            if o.st == 1 { run.count(match o.md { 0 => "climb:normal", 1 => "climb:hai", _ => "climb:fast_recovery" }); }
            if o.deg { run.count("latch:degraded_tick"); }
            if d.loss_uncongestive { run.count("eff:uncongestive_tick"); }
            if o.tgt == 100_000 && o.st != 0 { run.count("target:at_floor_after_seed"); }
            if o.tgt == 200_000_000 { run.count("target:at_ceiling"); }
            out.push(o);
        }
        run.count_n("ticks:link_ticks", seen.len() as u64);
        let itxt: Vec<String> = seen.iter().map(|li| format!("I {} {} {} {} {}", li.id, fl(li.rtt), li.bytes, z(li.nak as i128), fl(li.bps))).collect();
        self.ops.push(format!("T {} [{}]", now, itxt.join(";")));
        self.obs.push(format!("TO [{}] {}", ltxt.join(";"), zlist(keys.iter().map(|&k| k as i128))));
        for ((idx, _), c) in inputs.iter().zip(present.into_iter()) {
            self.pool[*idx] = Some(c);
        }
        self.ticks += 1;
        out
    }

    fn finish(self, run: &mut Run, kind: &'static str) {
        let text = format!("C [{}] [{}]", self.ops.join(";"), self.obs.join(";"));
        run.push(kind, self.ticks > 0, text);
    }
}

// ---------------------------------------------------------------------------------------------
// per-link input scripts
// ---------------------------------------------------------------------------------------------
#[derive(Clone, Copy, PartialEq)]
enum RttScript { Const, Jitter, DrainLadder, HoldBand, Random, Late }
#[derive(Clone, Copy, PartialEq)]
enum RateScript { Zero, Steady, TrackTarget, Burst, Random, Tiny }
#[derive(Clone, Copy, PartialEq)]
enum LossScript { None, Fixed, Decaying, Heavy, Exact550, Random, CleanThenLossy }

struct LinkSim {
    idx: usize,
    id: u64,
    present: bool,
    rtt_s: RttScript, rate_s: RateScript, loss_s: LossScript,
    base_rtt: f64,
    steady_bps: f64,
    track_k: f64,
    loss_frac: f64,
    bytes: u64,
    nak: i32,
    last_target: u64,
    age: u64, // ticks since (re)appearing
    late: u64,
}

const TICK_POOL: [u64; 30] = [0, 1, 10, 100, 249, 250, 251, 499, 500, 501, 999, 1000, 1000, 1000, 1000, 1001, 1100, 1500,
                              1999, 2000, 2001, 2500, 3000, 3999, 4000, 4001, 5000, 29_999, 30_000, 30_001];
const BPS_POOL: [f64; 16] = [0.0, 1.0, 29_999.0, 30_000.0, 33_000.0, 40_000.0, 99_999.0, 100_000.0, 150_000.0, 300_000.0,
                             1_000_000.0, 2_500_000.0, 8_000_000.0, 50_000_000.0, 120_000_000.0, 400_000_000.0];
const LOSS_POOL: [f64; 12] = [0.0, 0.0, 0.004, 0.005, 0.006, 0.01, 0.05, 0.1, 0.3, 0.55, 0.8, 1.0];

fn weird_f64(rng: &mut Rng) -> f64 {
    *rng.pick(&[f64::NAN, f64::INFINITY, f64::NEG_INFINITY, -1.0, -0.0, 0.5, 1e-9, 1e30, 1.8e19, 1.8446744073709552e19,
                9.007199254740993e15, 0.999_999])
}

impl LinkSim {
    fn new(rng: &mut Rng, idx: usize, id: u64, flavour: u64) -> LinkSim {
        let (rtt_s, rate_s, loss_s) = match flavour {
            1 => (RttScript::Const, RateScript::TrackTarget, LossScript::Decaying),   // back-off to the floor
            2 => (RttScript::DrainLadder, *rng.pick(&[RateScript::Zero, RateScript::Tiny]), LossScript::None), // drain ladder
            3 => (RttScript::Const, RateScript::Steady, if rng.chance(1, 2) { LossScript::Heavy } else { LossScript::CleanThenLossy }), // loss latch
            4 => (RttScript::Const, RateScript::Steady, LossScript::Exact550),
            5 => (RttScript::HoldBand, RateScript::Steady, LossScript::None),
            6 => (RttScript::Jitter, RateScript::Burst, LossScript::Fixed),
            7 => (RttScript::Late, RateScript::Steady, LossScript::Fixed),
            _ => (*rng.pick(&[RttScript::Const, RttScript::Jitter, RttScript::DrainLadder, RttScript::HoldBand, RttScript::Random, RttScript::Late]),
                  *rng.pick(&[RateScript::Zero, RateScript::Steady, RateScript::TrackTarget, RateScript::Burst, RateScript::Random, RateScript::Tiny]),
                  *rng.pick(&[LossScript::None, LossScript::Fixed, LossScript::Decaying, LossScript::Heavy, LossScript::Random])),
        };
        LinkSim {
            idx, id, present: true, rtt_s, rate_s, loss_s,
            base_rtt: *rng.pick(&[0.5, 5.0, 20.0, 50.0, 50.0, 180.0, 1200.0]),
            steady_bps: *rng.pick(&[300_000.0, 1_000_000.0, 2_000_000.0, 6_000_000.0, 25_000_000.0, 150_000_000.0]),
            track_k: *rng.pick(&[0.29, 0.3, 0.31, 0.35, 0.5, 0.9, 1.0, 2.0]),
            loss_frac: *rng.pick(&[0.006, 0.01, 0.05, 0.1, 0.3]),
            bytes: if rng.chance(1, 3) { rng.u64() >> rng.below(40) } else { 0 },
            nak: if rng.chance(1, 4) { rng.range(0, 1 << 20) as i32 } else { 0 },
            last_target: 100_000,
            age: 0,
            late: rng.range(1, 6) as u64,
        }
    }

    fn next_in(&mut self, rng: &mut Rng, t: u64, dt: u64) -> LinkIn {
        // ---- RTT as the connection will report it
        let rtt = match self.rtt_s {
            RttScript::Const => self.base_rtt,
            RttScript::Jitter => if rng.chance(1, 2) { self.base_rtt * 0.6 } else { self.base_rtt * 1.6 },
            RttScript::DrainLadder => {
                // low / high alternation, phase shifts now and then
                let hi = *rng.pick(&[2.25, 2.25, 2.0, 1.99, 3.0]);
                if (self.age + if rng.chance(1, 12) { 1 } else { 0 }) % 2 == 1 { self.base_rtt * hi } else { self.base_rtt }
            }
            RttScript::HoldBand => {
                let f = *rng.pick(&[1.0, 1.5, 1.5000001, 1.75, 1.99, 2.0]);
                if self.age == 0 { self.base_rtt } else { self.base_rtt * f }
            }
            RttScript::Random => match rng.below(10) {
                0 => 0.0,
                1 => *rng.pick(&[0.001, 0.01, 9_999.0, 10_000.0, 60_000.0]),
                2 => -3.0,
                _ => self.base_rtt * (0.5 + (rng.below(300) as f64) / 100.0),
            },
            RttScript::Late => if self.age < self.late { 0.0 } else { self.base_rtt },
        };
        let rtt = if rng.chance(1, 25) { 0.0 } else { rtt };
        // ---- observed bitrate
        let mut bps = match self.rate_s {
            RateScript::Zero => 0.0,
            RateScript::Steady => self.steady_bps,
            RateScript::TrackTarget => (self.last_target as f64 * self.track_k).floor(),
            RateScript::Burst => if rng.chance(1, 6) { self.steady_bps * 100.0 } else { self.steady_bps },
            RateScript::Random => *rng.pick(&BPS_POOL),
            RateScript::Tiny => *rng.pick(&[0.0, 20_000.0, 40_000.0, 60_000.0]),
        };
        if rng.chance(1, 30) { bps = *rng.pick(&BPS_POOL); }
        if rng.chance(1, 60) { bps = weird_f64(rng); }
        if rng.chance(1, 40) { bps = self.last_target as f64 * *rng.pick(&[0.5, 0.53, 1.0 / 1.06, 1.0, 3.99, 4.0, 4.01]); }
        // ---- cumulative counters
        let loss = match self.loss_s {
            LossScript::None => 0.0,
            LossScript::Fixed => self.loss_frac,
            LossScript::Decaying => {
                // falls by a quarter every other tick so that the efficacy test keeps re-arming
                let l = self.loss_frac;
                if self.age % 2 == 1 { self.loss_frac = (self.loss_frac * 0.75).max(0.0061); }
                if rng.chance(1, 15) { self.loss_frac = 0.3; }
                l
            }
            LossScript::Heavy => if self.age % 40 < 24 { *rng.pick(&[0.8, 0.9, 1.0, 0.6]) } else { 0.0 },
            LossScript::Exact550 => if self.age % 30 < 20 { 0.55 } else { 0.25 },
            // exactly loss-free windows first (the average stays at 0.0), then a loss episode just above the
            // latch threshold: the time-decayed average needs several seconds to cross it
            LossScript::CleanThenLossy => if self.age % 30 < 6 { 0.0 } else if self.age % 30 < 20 { *rng.pick(&[0.58, 0.6, 0.7, 0.9]) } else { 0.0 },
            LossScript::Random => *rng.pick(&LOSS_POOL),
        };
        let pkts: u64 = match rng.below(8) {
            0 => 0,
            1 => 1,
            2 => ((bps.max(0.0).min(1e9) * dt as f64) / 8000.0 / 1316.0) as u64,
            _ => 1000,
        };
        let lost = (pkts.max(if loss > 0.0 { 1 } else { 0 }) as f64 * loss).round() as i64;
        self.bytes = self.bytes.saturating_add(pkts * 1316 + rng.below(3) * rng.below(1316));
        self.nak = self.nak.saturating_add(lost.min(i32::MAX as i64) as i32);
        if rng.chance(1, 45) { self.bytes = 0; self.nak = 0; }                       // reconnect: counters restart
        if rng.chance(1, 200) { self.bytes = *rng.pick(&[u64::MAX, u64::MAX - 1316, 1u64 << 63, 1316u64 * (u32::MAX as u64 + 2)]); }
        if rng.chance(1, 200) { self.nak = *rng.pick(&[i32::MAX, i32::MIN, -1, i32::MAX - 1]); }
        let _ = t;
        self.age += 1;
        LinkIn { id: self.id, rtt, bytes: self.bytes, nak: self.nak, bps }
    }
}

fn scenario(run: &mut Run, rt: &tokio::runtime::Runtime, rng: &mut Rng, flavour: u64, nticks: usize, kind: &'static str) {
    let nlinks = if flavour == 0 { rng.range(1, 4) as usize } else { rng.range(1, 2) as usize };
    let mut ids: Vec<u64> = vec![];
    while ids.len() < nlinks {
        let id = match rng.below(4) { 0 => rng.u64(), 1 => rng.below(8), _ => 1000 + rng.below(50) };
        if !ids.contains(&id) { ids.push(id); }
    }
    let mut sut = Sut::new(rt, &ids);
    let mut links: Vec<LinkSim> = (0..nlinks).map(|k| { let f = if k == 0 { flavour } else { rng.below(9) }; LinkSim::new(rng, k, ids[k], f) }).collect();
    let churn = flavour == 0 || flavour == 8 || rng.chance(1, 4);
    let mut now: u64 = *rng.pick(&[0u64, 0, 1, 1000, 5_000_000, 1_700_000_000_000]);
    let regular = rng.chance(3, 5);
    // scripts that need gaps >= 2 s (verbatim RTT snaps) or ~1 s windows
    let base_dt: u64 = match flavour { 2 => *rng.pick(&[2000u64, 2000, 2500, 1000]), 3 | 4 => *rng.pick(&[1001u64, 1000, 500, 1333, 2000]), _ => 1000 };
    for _ in 0..nticks {
        let dt = if regular && !rng.chance(1, 10) { base_dt } else { *rng.pick(&TICK_POOL) };
        now = now.saturating_add(dt);
        if churn {
            for l in links.iter_mut() {
                if l.present && rng.chance(1, 25) { l.present = false; }
                else if !l.present && rng.chance(1, 3) { l.present = true; l.age = 0; l.last_target = 100_000; if rng.chance(1, 2) { l.bytes = 0; l.nak = 0; } }
            }
        }
        let mut order: Vec<usize> = links.iter().filter(|l| l.present).map(|l| l.idx).collect();
        if order.len() > 1 && rng.chance(1, 3) { let a = rng.below(order.len() as u64) as usize; order.swap(0, a); }
        let inputs: Vec<(usize, LinkIn)> = order.iter().map(|&k| (k, links[k].next_in(rng, now, dt))).collect();
        let obs = sut.tick(run, now, &inputs);
        for ((k, _), o) in inputs.iter().zip(obs.iter()) { links[*k].last_target = o.tgt; }
    }
    sut.finish(run, kind);
}

/// Regression witnesses of the floor re-seeding defect (DESIGN §8-F7): the cap is walked
/// down to exactly the floor (by drain entries / by back-offs), then the link climbs again.
fn witness_drain(run: &mut Run, rt: &tokio::runtime::Runtime) {
    let mut sut = Sut::new(rt, &[1]);
    for k in 0..24u64 {
        let rtt = if k % 2 == 0 { 20.0 } else { 45.0 };
        sut.tick(run, 2000 * k, &[(0, LinkIn { id: 1, rtt, bytes: 0, nak: 0, bps: 0.0 })]);
    }
    sut.finish(run, "witness_floor_drain");
}

fn witness_backoff(run: &mut Run, rt: &tokio::runtime::Runtime) {
    let mut sut = Sut::new(rt, &[7]);
    let mut bytes = 0u64;
    let mut nak = 0i32;
    let mut target = 100_000u64;
    let mut loss = 300i32; // per 1000 packets, shrinking so that the back-off keeps "working"
    for k in 0..40u64 {
        bytes += 1316 * 1000;
        if k >= 1 { nak += loss; if k % 2 == 0 { loss = (loss * 3 / 4).max(7); } }
        let bps = if k == 0 { 1_000_000.0 } else { (target as f64 * 0.35).floor() };
        let o = sut.tick(run, 1001 * k, &[(0, LinkIn { id: 7, rtt: 50.0, bytes, nak, bps })]);
        target = o[0].tgt;
    }
    sut.finish(run, "witness_floor_backoff");
}

pub fn run(seed: u64, tier: &str, out: &Path, _extra: &[(String, String)]) -> std::io::Result<()> {
    let mut run = Run::new("C16", "Run_C16", seed, tier, out);
    let thorough = run.thorough();
    let mut rng = Rng::new(seed ^ 0xC16);
    let rt = tokio::runtime::Builder::new_current_thread().build()?;

    // regression witnesses first
    witness_drain(&mut run, &rt);
    witness_backoff(&mut run, &rt);

    let scale = if thorough { 10 } else { 1 };
    let plan: [(u64, usize, usize, &'static str); 10] = [
        (0, 24, 60, "random_multi"),
        (1, 14, 70, "backoff_to_floor"),
        (2, 14, 70, "drain_ladder"),
        (3, 12, 80, "loss_latch"),
        (4, 6, 70, "loss_exact_055"),
        (5, 8, 50, "hold_band"),
        (6, 8, 60, "burst_jitter"),
        (7, 8, 40, "late_rtt"),
        (8, 12, 80, "churn"),
        (9, 14, 50, "random_single"),
    ];
    for (flavour, count, nticks, kind) in plan.iter() {
        for _ in 0..(count * scale) {
            let n = rng.range((*nticks as i64) / 2, *nticks as i64) as usize;
            scenario(&mut run, &rt, &mut rng, *flavour, n, kind);
        }
    }
    run.note("each case is one history of tick_all calls on real SrtlaConnections; inputs: smoothed RTT (Kalman state set through the verif hook), cumulative bytes / NAK counters (with resets and type extremes), bitrate (0, steady, x100 bursts, NaN/inf/negative), irregular tick spacing incl. 0 and the 250/500/1000/2000/4000/30000 ms boundaries, links appearing and disappearing".into());
    run.finish(16, 1_000_000)
}
