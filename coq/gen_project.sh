#!/bin/sh
# regenerate _CoqProject (file list by glob) and the Makefile
cd "$(dirname "$0")"
{
  echo "-Q . Srtla"
  echo "-arg -w -arg -notation-overridden,-deprecated-hint-without-locality,-deprecated-instance-without-locality"
  ls Gen/*.v Model/*.v Proofs/*.v Props/*.v Run/*.v 2>/dev/null
} > _CoqProject.new
if ! cmp -s _CoqProject.new _CoqProject; then mv _CoqProject.new _CoqProject; coq_makefile -f _CoqProject -o Makefile >/dev/null; else rm _CoqProject.new; [ -f Makefile ] || coq_makefile -f _CoqProject -o Makefile >/dev/null; fi
