(** Props/C20.v — property C20 (work in progress: statements are added as they are proved). *)
From Srtla Require Import Base Hub Run_C20 Shape.

Theorem constants_ok_C20 :
  Shape.hub_publish_awaits = [Shape.Lock; Shape.Lock] /\
  Shape.hub_publish_await_under_lock = false /\
  Shape.hub_subscribe_awaits = [Shape.Lock] /\
  Shape.hub_subscribe_await_under_lock = false /\
  Shape.hub_unsubscribe_awaits = [Shape.Lock] /\
  Shape.hub_unsubscribe_await_under_lock = false.
Proof. repeat split; reflexivity. Qed.
