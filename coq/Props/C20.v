(** Props/C20.v — property C20 "Telemetry subscriptions never block the data plane and
    stay ordered".  Statements only; proofs are in Proofs/HubP.v and Proofs/C20P.v.

    Model: Model/Hub.v — small-step interleaving semantics of SubscriptionHub; a schedule
    is any list of [Start t op] / [Step t] over any number of tasks, any channel
    capacities (clamped to >= 1 like tokio's), any topics, any payloads.
    Monitor: Run/Run_C20.v [ok_C20] — the property text over the observable trace. *)
From Srtla Require Import Base Hub Run_C20 HubP C20P Shape.

(** The await structure the model's atomic sections are built from, extracted from
    src/subscriptions.rs on every run: the only awaits are [entries.lock().await], and no
    await occurs while a guard is alive. *)
Theorem constants_ok_C20 :
  Shape.hub_publish_awaits = [Shape.Lock; Shape.Lock] /\
  Shape.hub_publish_await_under_lock = false /\
  Shape.hub_subscribe_awaits = [Shape.Lock] /\
  Shape.hub_subscribe_await_under_lock = false /\
  Shape.hub_unsubscribe_awaits = [Shape.Lock] /\
  Shape.hub_unsubscribe_await_under_lock = false.
Proof. repeat split; reflexivity. Qed.

(** HEADLINE.  For every schedule (every interleaving at await points of subscribe,
    unsubscribe, publish, len and receiver-side recv/close by any number of tasks) the
    trace of the model satisfies every clause of the monitor. *)
Theorem C20_monitor_holds : forall sched : list sev, ok_C20 (run sched) = true.
Proof. exact run_ok. Qed.

(** The whole-operation composition used by the sequential correspondence is one of those
    schedules, so it satisfies the monitor too. *)
Theorem C20_sequential_is_schedule : forall calls, run_calls init calls = run (calls_sched init calls).
Proof. intro calls. exact (run_calls_is_run calls init). Qed.
Theorem C20_sequential_monitor_holds : forall calls, ok_C20 (run_calls init calls) = true.
Proof. exact run_calls_ok. Qed.

(** Publishing never waits on a subscriber.
    (1) in every reachable state a task can only be blocked while waiting for the hub mutex
        that another task holds;
    (2) a task that is not blocked makes progress when polled — in particular every step
        of a publisher other than taking the mutex is always enabled;
    (3) the holder releases the mutex after [hold_measure] polls of its own (1 + number of
        entries left to fan out), none of which can block;
    (4) whether a task is blocked does not depend on any channel's queue, capacity or
        closed flag;  (5) the "blocked" event is emitted exactly in that situation. *)
Theorem C20_publish_wait_free :
  (forall sched t, blocked (reach sched) t = true ->
     exists h, h <> t /\ lock (reach sched) = Some h /\ holding (get_pc (reach sched) h) = true /\
               waiting (get_pc (reach sched) t) = true) /\
  (forall s t, get_pc s t <> Idle -> blocked s t = false ->
     get_pc (fst (step_task s t)) t <> get_pc s t) /\
  (forall s h, holding (get_pc s h) = true -> lock (poll_n (hold_measure (get_pc s h)) s h) = None) /\
  (forall s cs t, blocked (set_chans s cs) t = blocked s t) /\
  (forall s t, blocked s t = true <-> snd (step_task s t) = [EBlocked t]).
Proof.
  split; [exact reach_blocked_by_holder|]. split; [exact progress|].
  split; [intros s h H; exact (holder_releases _ s h H eq_refl)|].
  split; [exact blocked_indep_chans|exact blocked_iff_event].
Qed.

(** With the mutex free, a publisher polled alone returns within |entries| + 4 polls,
    whatever the channels contain (full, closed, never read). *)
Theorem C20_publish_alone_completes : forall s t tp d, lock s = None -> get_pc s t = PubWait tp d ->
  exists n, (n <= length (entries s) + 4)%nat /\
            get_pc (poll_n n s t) t = Idle /\ lock (poll_n n s t) = None.
Proof. exact publish_alone_completes. Qed.

(** Own topic, own id, publication order, at most once.  In every reachable state, every
    line sitting in a connection's queue (i) is the publication with that number in the
    global publication log — same topic, same data, (ii) carries an id that was allocated
    for exactly that topic and that connection, (iii) is newer than everything its id has
    already received; and every queue is ordered by publication number with distinct ids
    inside one publication.  Hence each id receives a strictly increasing sequence of
    publication numbers of its own topic. *)
Theorem C20_topic_order_once : forall sched, exists m,
  mon_run m_init (run sched) = MOk m /\
  length (m_pubs m) = npub (reach sched) /\
  (forall c mg q, queued (reach sched) c mg q ->
     nth_error (m_pubs m) q = Some (m_topic mg, m_data mg) /\
     In (mk (m_id mg) (m_topic mg) c) (alloc (reach sched)) /\
     (get_lastq (reach sched) (m_id mg) <= q)%nat) /\
  (forall c ch, lookup (chans (reach sched)) c = Some ch -> qsorted (c_q ch)).
Proof. exact reach_delivery. Qed.

(** Subscription ids are unique: all ids ever allocated are pairwise distinct, registered
    entries are allocated ones with distinct ids, ids count up from 0. *)
Theorem C20_unique_ids : forall sched,
  NoDup (ids_of (alloc (reach sched))) /\ NoDup (ids_of (entries (reach sched))) /\
  incl (entries (reach sched)) (alloc (reach sched)) /\
  (forall e, In e (alloc (reach sched)) -> 0 <= e_id e < next_id (reach sched)).
Proof. exact reach_unique_ids. Qed.

(** Nothing is delivered after an unsubscribe has completed.  [m_dead] records an id when
    its unsubscribe returned (removed = true, or called after the subscribe had returned)
    or when a publish that had to prune it returned, together with the length n of the
    publication log at that moment.  From then on, in every reachable state: the id is not
    registered, no subscribe is about to register it, no queued line for it stems from
    publication n or later, and it has received nothing from n or later. *)
Theorem C20_nothing_after_unsubscribe : forall sched, exists m,
  mon_run m_init (run sched) = MOk m /\
  forall id n, lookup (m_dead m) id = Some n ->
    ~ In id (ids_of (entries (reach sched))) /\
    (forall t tp c, ~ sub_pending (reach sched) t id tp c) /\
    In id (ids_of (alloc (reach sched))) /\
    (n <= npub (reach sched))%nat /\
    (get_lastq (reach sched) id <= n)%nat /\
    (forall c mg q, queued (reach sched) c mg q -> m_id mg = id -> (q < n)%nat).
Proof. exact reach_dead. Qed.

(** Closed subscribers are pruned: ids known to be gone (unsubscribed, or closed and their
    topic published since) are never counted — registered + gone <= allocated. *)
Theorem C20_pruned : forall sched, exists m,
  mon_run m_init (run sched) = MOk m /\
  blen (entries (reach sched)) + blen (m_dead m) <= blen (alloc (reach sched)).
Proof. exact reach_count. Qed.

(** The full coupling invariant, for reference. *)
Theorem C20_invariant : forall sched, exists m,
  mon_run m_init (run sched) = MOk m /\ Inv (fst (run_from init sched)) m.
Proof. exact reachable_inv. Qed.

(** ---- non-vacuity ---- *)
Local Open Scope Z_scope.

(** a publisher really can be blocked (by a subscriber task holding the mutex) — and the
    monitor accepts that *)
Example C20_blocked_is_reachable :
  let sched := [Start 0 (OChan 1 1); Start 0 (OSub 0 1); Step 0; Start 1 (OPub 0 5); Step 1] in
  blocked (reach sched) 1 = true /\ run sched = [ECall 0 (OSub 0 1); ECall 1 (OPub 0 5); EBlocked 1] /\
  ok_C20 (run sched) = true.
Proof. vm_compute. repeat split; reflexivity. Qed.

(** delivery, Full drop, prune of a closed subscriber, and len all occur in one run *)
Example C20_run_example :
  run_calls init [(0, OChan 1 1); (0, OSub 0 1); (1, OPub 0 7); (1, OPub 0 8); (2, ORecv 1);
                  (2, OClose 1); (0, OLen); (1, OPub 0 9); (0, OLen)] =
  [ECall 0 (OSub 0 1); ERet 0 (RSub 0); ECall 1 (OPub 0 7); EPubLin 1 0 7; ERet 1 RPub;
   ECall 1 (OPub 0 8); EPubLin 1 0 8; ERet 1 RPub;
   ERecv 1 (Some {| m_id := 0; m_topic := 0; m_data := 7 |}); EClose 1;
   ECall 0 OLen; ERet 0 (RLen 1); ECall 1 (OPub 0 9); EPubLin 1 0 9; ERet 1 RPub;
   ECall 0 OLen; ERet 0 (RLen 0)].
Proof. vm_compute. reflexivity. Qed.

(** every clause of the monitor can fail: it is not trivially true *)
Example C20_monitor_rejects_blocked_alone :
  mon_code [ECall 1 (OPub 0 5); EBlocked 1] = 1%N.
Proof. vm_compute. reflexivity. Qed.
Example C20_monitor_rejects_duplicate_id :
  mon_code [ECall 0 (OSub 0 1); ERet 0 (RSub 0); ECall 0 (OSub 0 1); ERet 0 (RSub 0)] = 3%N.
Proof. vm_compute. reflexivity. Qed.
Example C20_monitor_rejects_foreign_topic :
  mon_code [ECall 0 (OSub 0 1); ERet 0 (RSub 0); ECall 1 (OPub 1 5); EPubLin 1 1 5;
            ERecv 1 (Some {| m_id := 0; m_topic := 1; m_data := 5 |})] = 4%N.
Proof. vm_compute. reflexivity. Qed.
Example C20_monitor_rejects_reordering :
  mon_code [ECall 0 (OSub 0 1); ERet 0 (RSub 0); ECall 1 (OPub 0 5); EPubLin 1 0 5; ERet 1 RPub;
            ECall 1 (OPub 0 6); EPubLin 1 0 6; ERet 1 RPub;
            ERecv 1 (Some {| m_id := 0; m_topic := 0; m_data := 6 |});
            ERecv 1 (Some {| m_id := 0; m_topic := 0; m_data := 5 |})] = 5%N.
Proof. vm_compute. reflexivity. Qed.
Example C20_monitor_rejects_duplicate_delivery :
  mon_code [ECall 0 (OSub 0 1); ERet 0 (RSub 0); ECall 1 (OPub 0 5); EPubLin 1 0 5; ERet 1 RPub;
            ERecv 1 (Some {| m_id := 0; m_topic := 0; m_data := 5 |});
            ERecv 1 (Some {| m_id := 0; m_topic := 0; m_data := 5 |})] = 5%N.
Proof. vm_compute. reflexivity. Qed.
Example C20_monitor_rejects_delivery_after_unsubscribe :
  mon_code [ECall 0 (OSub 0 1); ERet 0 (RSub 0); ECall 0 (OUnsub 0); ERet 0 (RUnsub true);
            ECall 1 (OPub 0 5); EPubLin 1 0 5; ERet 1 RPub;
            ERecv 1 (Some {| m_id := 0; m_topic := 0; m_data := 5 |})] = 6%N.
Proof. vm_compute. reflexivity. Qed.
Example C20_monitor_rejects_unpruned :
  mon_code [ECall 0 (OSub 0 1); ERet 0 (RSub 0); EClose 1; ECall 1 (OPub 0 5); EPubLin 1 0 5; ERet 1 RPub;
            ECall 0 OLen; ERet 0 (RLen 1)] = 7%N.
Proof. vm_compute. reflexivity. Qed.
