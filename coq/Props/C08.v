(** Props/C08.v — "Failed uplinks are detected, retried forever, and rejoin cleanly".
    Statements only; every proof is [exact <lemma>]. *)
From Srtla Require Import Base Constants Reconnect ReconShell ReconStep Mon_C08 Run_C08.
From Srtla Require Import ReconnectP ReconStepP C08P C08LiveP.
From Srtla Require Shape.
Local Open Scope Z_scope.

(** the literals the property text names, against the regenerated constants *)
Lemma constants_ok_C08 :
  INITIAL_RETRY_CADENCE_MS = T_INIT_GAP /\ BASE_RECONNECT_DELAY_MS = T_RETRY_GAP /\
  MAX_BACKOFF_DELAY_MS = T_BACKOFF_CAP /\ WINDOW_DEFAULT = T_WINDOW /\ HOUSEKEEPING_INTERVAL_MS = T_TICK /\
  T_INIT_GAP = 1000 /\ T_RETRY_GAP = 5000 /\ T_BACKOFF_CAP = 120000 /\ T_WINDOW = 20000 /\ T_REJOIN = 30000 /\
  CONN_TIMEOUT_MS_MIN = 1000 /\ CONN_TIMEOUT_MS_MAX = 60000 /\ CONN_TIMEOUT_MS = 5000 /\
  STARTUP_GRACE_MS + 2 * HOUSEKEEPING_INTERVAL_MS < T_REJOIN /\ BASE_RECONNECT_DELAY_MS + 2 * HOUSEKEEPING_INTERVAL_MS < T_REJOIN.
Proof. vm_compute. repeat split; reflexivity. Qed.

(** HEADLINE.  Every trace of the model satisfies the monitor (clauses 1-6 of Mon_C08:
    teardown only when silent for the configured timeout / failed send / REG_ERR; attempts
    only in ticks and >= 1 s resp. >= 5 s apart; a dead link 120 s after its last attempt is
    retried by the next tick; housekeeping gives up only when no uplink is alive; a REG3
    leaves connected / zero in-flight / Warming{0} / default window).  Premises: clock
    readings positive and non-decreasing, and every housekeeping pass starts with the
    timeout refresh (what run_sender does since /repo 260b76c). *)
Theorem C08_monitor_holds : forall n t0 ops,
  wf_ops t0 ops = true -> all_refresh ops = true -> ok_C08 n t0 (trace n t0 ops) = true.
Proof. exact monitor_holds. Qed.

(** the invariant of reachable states the link-level theorems below take as premise *)
Theorem C08_reachable_inv : forall n t0 ops,
  wf_ops t0 ops = true -> Inv (final (init n t0) ops).
Proof.
  intros n t0 ops H. unfold wf_ops in H. apply andb_true_iff in H. destruct H as [H0 H1].
  apply (final_inv ops (init n t0) t0); [lia|exact H1|exact (init_inv n t0)].
Qed.

(** Safety 1: in ANY state, whatever one op does to link i, the link is torn down (socket
    replaced, or connected -> not connected) only by a housekeeping pass that found it
    silent for the configured timeout, by a failed send on a socket that rejects sends, or
    by the receiver's REG_ERR.  No other op, and no routing penalty, appears. *)
Theorem C08_teardown_only_when_dead : forall s o i l l',
  0 < cfg_to s -> op_refresh o ->
  nth_error (links s) i = Some l -> nth_error (links (fst (step s o))) i = Some l' ->
  torn_link l l' = true ->
  match o with
  | OTick now _ _ _ => heard_nothing_l l now (cfg_to s)
  | OData _ _ _ _ _ => l_gen l' = l_gen l /\ l_sock l = false
  | ORegErr j _ => Nat.eqb i j = true /\ l_gen l' = l_gen l
  | _ => False
  end.
Proof. intros s o i l l' Hc Hr H1 H2. exact (LStep_torn _ _ o i l l' Hc Hr (step_link_at s o i l l' H1 H2)). Qed.

(** Safety 2: routing penalties (stall gate, weak, CC back-off, loss-degraded) are not read
    by the liveness plane: a housekeeping pass and a failed-send check give the same link
    (up to the penalties themselves and the Live/Degraded split), the same manager and the
    same datagrams whatever the penalties are. *)
Theorem C08_penalty_noninterference : forall i l p g now classic dg w flushed inf',
  (let '(l1, g1, w1) := tick_link i (set_pen l p) g now classic dg w in
   let '(l2, g2, w2) := tick_link i l g now classic dg w in
   l_conn l1 = l_conn l2 /\ l_lr l1 = l_lr l2 /\ l_to l1 = l_to l2 /\ l_rc l1 = l_rc l2 /\ l_win l1 = l_win l2 /\
   l_inf l1 = l_inf l2 /\ l_gen l1 = l_gen l2 /\ l_sock l1 = l_sock l2 /\
   (l_ph l1 = PReg <-> l_ph l2 = PReg) /\ g1 = g2 /\ w1 = w2) /\
  core (forward (set_pen l p) flushed inf') = core (forward l flushed inf') /\
  is_timed_out (set_pen l p) now = is_timed_out l now.
Proof.
  intros. split; [exact (tick_link_pen i l p g now classic dg w)|].
  split; [exact (forward_pen l p flushed inf')|exact (is_timed_out_pen l p now)].
Qed.

(** Safety 3: the attempt stamp moves only in a housekeeping pass, to the pass's clock, and
    then the previous attempt (if any) is >= 1 s back before the first establishment and
    >= 5 s back afterwards. *)
Theorem C08_retry_spacing : forall s o i l l', LInv l ->
  nth_error (links s) i = Some l -> nth_error (links (fst (step s o))) i = Some l' ->
  r_last (l_rc l') <> r_last (l_rc l) ->
  exists now r d w, o = OTick now r d w /\ r_last (l_rc l') = now /\
    (r_last (l_rc l) = 0 \/ (if r_est (l_rc l) =? 0 then 1000 else 5000) <= now - r_last (l_rc l)).
Proof. intros s o i l l' HI H1 H2. exact (LStep_last _ _ o i l l' HI (step_link_at s o i l l' H1 H2)). Qed.

(** Safety 4: the back-off is 5,10,20,40,80,120,120,... s: never below 5 s, never above 120 s *)
Theorem C08_backoff_cap : forall r,
  backoff_delay r <= 120000 /\ (0 <= r_fail r -> 5000 <= backoff_delay r) /\
  (forall l e g, map (fun k => backoff_delay (RC l k e g)) [0; 1; 2; 3; 4; 5; 6; 100] =
                 [5000; 10000; 20000; 40000; 80000; 120000; 120000; 120000]).
Proof.
  intros r. split; [exact (backoff_cap r)|]. split; [intros H; exact (proj1 (backoff_bounds r H))|exact backoff_ladder].
Qed.

(** Retries forever: outside the start-up probing phase, a link that is not connected and
    has heard nothing, whose last attempt is >= 120 s old and whose startup grace is over,
    is retried by the very next housekeeping pass — for every failure count. *)
Theorem C08_retries_forever : forall s now refresh dgs ws i l l', LInv l -> is_probing (rg s) = false ->
  nth_error (links s) i = Some l ->
  nth_error (links (fst (step s (OTick now refresh dgs ws)))) i = Some l' ->
  l_conn l = false -> l_lr l = None -> 120000 <= now - r_last (l_rc l) -> r_grace (l_rc l) < now ->
  r_last (l_rc l') = now.
Proof.
  intros s now refresh dgs ws i l l' HI HP H1 H2.
  pose proof (step_link_at s _ i l l' H1 H2) as ST. rewrite HP in ST.
  exact (LStep_forever _ l l' now refresh dgs ws i HI ST).
Qed.

(** Clean rejoin: whatever the link went through, a REG3 leaves it connected, heard "now",
    with the default window, zero in-flight and Warming{0, now}; and both teardown paths
    leave default window / zero in-flight / Registering / not gated. *)
Theorem C08_clean_rejoin : forall s j now l l',
  nth_error (links s) j = Some l -> nth_error (links (fst (step s (OReg3 j now)))) j = Some l' ->
  (l_conn l' = true /\ l_inf l' = 0 /\ l_ph l' = PWarm 0 now /\ l_lr l' = Some now /\ l_win l' = WINDOW_DEFAULT) /\
  (forall x t, let a := reconnected x t in
     l_conn a = false /\ l_lr a = None /\ l_win a = WINDOW_DEFAULT /\ l_inf a = 0 /\ l_ph a = PReg /\
     l_gen a = l_gen x + 1 /\ r_last (l_rc a) = t /\ r_fail (l_rc a) = 0 /\
     r_grace (l_rc a) = t + STARTUP_GRACE_MS /\ l_sock a = true /\ p_gated (l_pen a) = false) /\
  (forall x, let a := mark_for_recovery x in
     l_conn a = false /\ l_lr a = None /\ l_win a = WINDOW_DEFAULT /\ l_inf a = 0 /\ l_ph a = PReg /\
     l_gen a = l_gen x /\ p_gated (l_pen a) = false).
Proof.
  intros s j now l l' H1 H2. split; [|split; [exact reconnected_clean|exact mark_for_recovery_clean]].
  exact (LStep_reg3 _ _ j now j l l' (step_link_at s _ j l l' H1 H2) (Nat.eqb_refl j)).
Qed.

(** Survivors: a housekeeping pass leaves a link that is connected and was heard from within
    the configured timeout connected, on the same socket, with its accounting untouched —
    whatever happens to the other links — and does not report "no connections". *)
Theorem C08_survivors_untouched : forall s now dgs ws i l l' x, Inv s ->
  nth_error (links s) i = Some l ->
  nth_error (links (fst (step s (OTick now true dgs ws)))) i = Some l' ->
  l_conn l = true -> l_lr l = Some x -> now - x < cfg_to s ->
  l_conn l' = true /\ l_gen l' = l_gen l /\ l_lr l' = l_lr l /\ l_inf l' = l_inf l /\
  o_err (snd (step s (OTick now true dgs ws))) = false.
Proof. exact survivor_kept. Qed.

(** ... and what a pass does to link i is a function of link i alone (plus the configured
    timeout, the mode and the oracles): the faults of the other links do not enter. *)
Theorem C08_tick_is_per_link : forall s now dgs ws i l l',
  nth_error (links s) i = Some l ->
  nth_error (links (fst (step s (OTick now true dgs ws)))) i = Some l' ->
  exists (regrace : bool) classic dg w, (regrace = true -> is_probing (rg s) = true) /\
    l' = tick_link_state (let l0 := set_to l (cfg_to s) in
                          if regrace then set_grace l0 (now + STARTUP_GRACE_MS) else l0) now classic dg w.
Proof. intros s now dgs ws i l l' H1 H2. exact (step_link_at s _ i l l' H1 H2). Qed.

(** Bounded liveness (PARTIAL: under the stated environment).  Link-local: a dead,
    previously established link whose socket can be re-created and which has no failed
    re-creation on record, while no REG1 handshake is pending elsewhere (true whenever a
    survivor is connected); housekeeping passes at most D apart from [prev] on, one of them
    at or after T + 5 s (T >= last attempt).  Then by T + 5 s + D a pass re-creates the
    socket and puts REG2 on the wire; the receiver's REG3, whenever it arrives, makes the
    link connected with clean accounting — i.e. connected by T + 5 s + 2 D (7 s < 30 s for
    the 1 s housekeeping interval) if REG3 arrives before the next pass. *)
Theorem C08_rejoin_bound_partial : forall ts i l g T D prev,
  dead l -> g_pend g = None -> r_last (l_rc l) <> 0 -> r_last (l_rc l) <= T ->
  prev <= T + 5000 -> spaced prev D ts -> (exists t, In t ts /\ T + 5000 <= t) ->
  exists t l', In (t, l', [W_REG2]) (run_ticks i l g ts) /\ t <= T + 5000 + D /\
    forall t3, let l3 := reg3_link l' t3 in
      l_conn l3 = true /\ l_win l3 = WINDOW_DEFAULT /\ l_inf l3 = 0 /\ l_ph l3 = PWarm 0 t3.
Proof. exact rejoin_bound. Qed.

(** ---- why the refresh premise is there (F6, repaired in /repo 260b76c): without the
    refresh a configured 60 s timeout is ignored by an idle sender — the model of the old
    arm tears link 0 down after 5 s and the monitor rejects that trace ---- *)
Definition f6_ops (refresh : bool) : list op :=
  [OSetTimeout 60000; OReg3 0 1100; OReg3 1 1100; OKeepalive 1 5900 false;
   OTick 6100 refresh [0; 0] [20000; 20000]].
Theorem C08_unrefreshed_timeout_refuted :
  ok_C08 2 1000 (trace 2 1000 (f6_ops false)) = false /\ ok_C08 2 1000 (trace 2 1000 (f6_ops true)) = true.
Proof. split; vm_compute; reflexivity. Qed.

(** ---- non-vacuity ---- *)
(** a link dies, is re-created by housekeeping (socket generation 1, REG2 on the wire),
    gets its REG3 and is connected again with clean accounting *)
Definition demo_ops : list op :=
  [OReg3 0 1100; OReg3 1 1100; OKeepalive 1 6000 false; OTick 6100 true [0; 0] [20000; 20000];
   OReg3 0 6150; OTick 7100 true [0; 0] [20000; 20000]].
Example C08_demo_teardown_and_rejoin :
  wf_ops 1000 demo_ops = true /\ all_refresh demo_ops = true /\
  map (fun st => map (fun q => (b_conn q, b_gen q, b_win q, b_inf q, b_ph q)) (s_links st)) (trace 2 1000 demo_ops) =
  [[(true, 0, 20000, 0, 1); (false, 0, 20000, 0, 0)];
   [(true, 0, 20000, 0, 1); (true, 0, 20000, 0, 1)];
   [(true, 0, 20000, 0, 1); (true, 0, 20000, 0, 1)];
   [(false, 1, 20000, 0, 0); (true, 0, 20000, 0, 2)];
   [(true, 1, 20000, 0, 1); (true, 0, 20000, 0, 2)];
   [(true, 1, 20000, 0, 1); (true, 0, 20000, 0, 2)]] /\
  map s_wire (trace 2 1000 demo_ops) = [[[]; []]; [[]; []]; [[]; []]; [[2]; []]; [[]; []]; [[]; []]].
Proof. vm_compute. repeat split; reflexivity. Qed.

(** F8 regression (repaired in /repo 75843c9): pre-registration data on a re-created link,
    a NAK charged to it (window 19900), then REG3 — the link rejoins with the default window *)
Definition f8_ops : list op :=
  [OTick 7000 true [0; 0] [20000; 20000]; OData 7001 (Some 0%nat) true 4 []; OInbound 1 7005 [(19900, 3); (20000, 0)];
   OReg3 0 7010].
Example C08_f8_regression :
  map (fun st => map (fun q => (b_conn q, b_gen q, b_win q, b_inf q)) (s_links st)) (trace 2 1000 f8_ops) =
  [[(false, 1, 20000, 0); (false, 1, 20000, 0)];
   [(false, 1, 20000, 4); (false, 1, 20000, 0)];
   [(false, 1, 19900, 3); (false, 1, 20000, 0)];
   [(true, 1, 20000, 0); (false, 1, 20000, 0)]] /\
  ok_C08 2 1000 (trace 2 1000 f8_ops) = true.
Proof. vm_compute. split; reflexivity. Qed.

(** the liveness premises are satisfiable: a dead link, passes every second *)
Example C08_rejoin_bound_nonvacuous :
  let l := mark_for_recovery (reg3_link (reconnected (link0 0) 1000) 1500) in
  let l := set_rc l (RC 2000 0 1500 0) in
  dead l /\ spaced 2000 1000 [3000; 4000; 5000; 6000; 7000] /\
  map (fun x => (fst (fst x), l_gen (snd (fst x)), snd x)) (run_ticks 0 l reg0 [3000; 4000; 5000; 6000; 7000]) =
  [(3000, 1, []); (4000, 1, []); (5000, 1, []); (6000, 1, []); (7000, 2, [2])].
Proof. vm_compute. repeat split; try discriminate; try reflexivity; try lia. Qed.


(** Lexical facts about the event loop, which no check can run (src/sender/mod.rs, uplink.rs),
    regenerated from the source on every run: the housekeeping arm logs a failed pass and carries on
    — the model's "retried for ever" is about passes that keep coming — and the reader task of a
    replaced socket is aborted before the new one starts, so nothing that arrives on the old socket
    can count as "heard" on the re-created link. *)
Theorem shape_ok_C08 :
  Shape.loop_housekeeping_error_logged_not_fatal = true /\ Shape.reader_restart_aborts_old_reader = true.
Proof. split; reflexivity. Qed.
