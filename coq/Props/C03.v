(** Props/C03.v — C03 "No blackout: a usable uplink always gets the packet".

    Statement (properties.jsonl): whenever at least one uplink is usable (registered, connected
    and not timed out), the scheduler returns an uplink for the packet instead of dropping it,
    regardless of how many admission gates are engaged; the stall guard, the silence pull, the
    weak / loss-degraded gates and the in-flight cap can never combine to exclude the last usable
    uplink, in either scheduling mode and with any runtime settings.

    Model: Model/Select.v ([select] = apply_stall_gate + classic / enhanced selector, as in the
    Rust code after the `fix:` commit that makes [any_healthy] / [any_unconstrained] require
    [connected]).  Premises: [wfl] (window in [0, i32::MAX] — C06 keeps it in [1000, 60000] —,
    queue length >= 0, CC target a u64, cached quality multiplier in its documented range) and
    [exp_okb] (libm exp in [0,1]); both are evaluated by the monitor on every implementation
    trace, and [wfl] is an invariant of [select] (C03_wf_preserved). *)
From Coq Require Import ZArith List Bool Floats.
From Srtla Require Import Base Constants FConstants Select Run_Sel Run_C03 SelFloatP SelectP C03P.
Import ListNotations.
Local Open Scope Z_scope.

(** literals the argument rests on: every score factor is strictly positive and the selection
    floor is -1 (classic: [best_score = -1]; enhanced: [-1.0]) *)
Lemma constants_ok_C03 :
  (0 <? GATED_LINK_PENALTY)%float = true /\ (0 <? CC_SOFT_CAP_FLOOR)%float = true /\
  (0 <? WARMING_WEIGHT)%float = true /\ (0 <? Q_LO)%float = true /\ (Q_LO <=? 1)%float = true /\
  (1 <=? Q_HI)%float = true /\ (Q_LO <=? STARTUP_NAK_PENALTY)%float = true /\
  (PERFECT_CONNECTION_BONUS <=? Q_HI)%float = true.
Proof. repeat split; reflexivity. Qed.

(** Full statement, for every link set (any length), previous index, clock, settings, exp values. *)
Theorem C03_no_blackout :
  forall ls last now cfg exps,
    Forall wfl ls -> forallb exp_okb exps = true ->
    (exists c, In c ls /\ usable_spec now (c_timeout cfg) c = true) ->
    exists i, fst (select ls last now cfg exps) = Some i /\ (i < length ls)%nat.
Proof. exact no_blackout_In. Qed.

(** The stall guard and the silence pull never gate the last usable uplink: after the gate pass
    some connected, registered, not-timed-out link is un-gated. *)
Theorem C03_stall_gate_spares_one :
  forall ls now cfg,
    existsb (usable_spec now (c_timeout cfg)) ls = true ->
    existsb (ok_link now) (apply_stall_gate ls now cfg) = true.
Proof. exact gate_ok. Qed.

(** Weak / loss-degraded / soft-cap / phase de-rating only scale a score; the score of a connected
    link that is scored at all stays >= 0, strictly above the selection floor. *)
Theorem C03_score_above_floor :
  forall au quality now e c s c',
    wfl c -> exp_okb e = true -> l_conn c = true ->
    score_link au quality now e c = Some (s, c') -> ((-1)%float <? s)%float = true.
Proof. exact score_link_above_floor. Qed.

(** The in-flight cap (and the 2 % crush) apply only while an unconstrained link exists, and that
    link is itself scored: some link of the pool is always scorable. *)
Theorem C03_cap_never_empties_pool :
  forall ls now quality,
    Forall wfl ls -> existsb (ok_link now) ls = true ->
    exists c, In c ls /\ scorable (existsb (unconstrained now) ls) quality now c.
Proof. exact scorable_exists. Qed.

(** The premises are kept by every select (so they hold along every history). *)
Theorem C03_wf_preserved :
  forall ls last now cfg exps,
    forallb exp_okb exps = true -> Forall wfl ls -> Forall wfl (snd (select ls last now cfg exps)).
Proof. exact select_wf. Qed.

(** A select writes only latch / pull / gate / timeout / cache fields. *)
Theorem C03_select_writes_only_hidden :
  forall ls last now cfg exps,
    forallb exp_okb exps = true ->
    Forall2 (fun c c' => pv c' = pv c) ls (snd (select ls last now cfg exps)).
Proof. exact select_writes_only_hidden. Qed.

(** Headline: the model's own traces satisfy the monitor, for every history of loads, external
    updates and selects. *)
Theorem C03_run_ok : forall ops, wf_opsb ops = true -> ok_C03 (run ops) = true.
Proof. exact run_ok. Qed.

(** ---- witnesses -------------------------------------------------------------------------------- *)
Definition cfgE := Cfg Enhanced true true 32 3000 5000.
Definition cfgC := Cfg Classic true true 32 3000 5000.
(** DESIGN §8-F2 (found by this check, fixed in /repo by `fix:` b87e25b): link 0 usable but stalled
    (100 in flight, delivery proof 10 s old), link 1 disconnected by REG_ERR yet still Live and
    recently heard.  Before the fix both modes returned None; kept as a regression case. *)
Definition f2_a := Lk true PLive 20000 100 0 (Some 999990) 990000 940000 0 false false 0 0 0 0 0 0 0 5000 false false 0 0 0 0 1 0.
Definition f2_b := Lk false PLive 20000 0 0 (Some 999990) 0 940000 0 false false 0 0 0 0 0 0 0 5000 false false 0 0 0 0 1 0.
Example C03_f2_witness_now_served :
  fst (select [f2_a; f2_b] None 1000000 cfgC []) = Some 0%nat /\
  fst (select [f2_a; f2_b] None 1000000 cfgE []) = Some 0%nat /\
  l_latched (hd f2_b (snd (select [f2_a; f2_b] None 1000000 cfgE []))) = 1000000 /\
  l_gated (hd f2_b (snd (select [f2_a; f2_b] None 1000000 cfgE []))) = false.
Proof. vm_compute. repeat split; reflexivity. Qed.

(** non-vacuity: the premises are satisfiable together with every gate engaged on the only usable
    link (latched, pulled, weak, loss-degraded, over its in-flight cap, soft cap saturated). *)
Definition all_gates := Lk true PWarm 1000 500 3 (Some 999000) 990000 900000 0 true true 1000000
  0x1.e848p+19 300 20 7 999990 6 5000 true true 2 995000 0 1 1 0.
Example C03_nonvacuous :
  wf_linkb all_gates = true /\ usable_spec 1000000 5000 all_gates = true /\
  in_flight_cap_exceeded all_gates = true /\
  fst (select [all_gates] None 1000000 cfgE [0x1p-1%float]) = Some 0%nat /\
  fst (select [all_gates] (Some 3%nat) 1000000 cfgC []) = Some 0%nat /\
  ok_C03 (run [OLoad [all_gates; f2_b]; OSelect None 1000000 cfgE [1%float; 1%float];
               OUpd 0%nat f2_a; OSelect (Some 0%nat) 1000300 cfgC []]) = true.
Proof. vm_compute. repeat split; reflexivity. Qed.

(** the window premise is needed: with a negative window (which C06 excludes) the classic selector,
    whose floor is -1, drops the packet although the link is usable *)
Definition neg_window := Lk true PLive (-1) 0 0 (Some 999990) 0 940000 0 false false 0 0 0 0 0 0 0 5000 false false 0 0 0 0 1 0.
Example C03_without_window_premise_refuted :
  usable_spec 1000000 5000 neg_window = true /\ wf_linkb neg_window = false /\
  fst (select [neg_window] None 1000000 cfgC []) = None.
Proof. vm_compute. repeat split; reflexivity. Qed.
