(** Props/C10.v — C10 "Classic mode reproduces the reference srtla_send algorithm".

    Reference  = Model/ClassicRef.v (written from the property text, literals 29 / 1000 / 100 /
                 1000..60000 / +1, first maximum of window / (in-flight + queued + 1)).
    Model      = Model/Classic.v (the shell arms with mode = Classic, stall_deselect = false)
                 over Model/Conn.v (per-link accounting).
    Monitor    = Run/Run_C10.v [ok_C10]: the reference replayed in lock-step on an observed trace.
    Invariant  = Proofs/ClassicP.v [inv_link]: in_flight = |packet log|, log keys distinct,
                 0 <= window <= i32::MAX - WINDOW_INCR.  [wf_op] only bounds XSetWindow by that range. *)
From Coq Require Import ZifyBool Permutation.
From Srtla Require Import Base Constants Conn ConnP Classic ClassicRef ClassicP ClassicInvP ClassicEvP Run_C10 ClassicRunP.
From Srtla Require Shape.

(** the literals of the property text, and the two structural facts read off the source *)
Theorem constants_ok_C10 :
  WINDOW_INCR - 1 = 29 /\ WINDOW_MULT = 1000 /\ WINDOW_DECR = 100 /\
  WINDOW_MIN * WINDOW_MULT = 1000 /\ WINDOW_MAX * WINDOW_MULT = 60000 /\
  Shape.override_present = true /\ Shape.override_mode_guarded = true /\
  Shape.hk_recovery_all_guarded_by_not_classic = true.
Proof. repeat split; reflexivity. Qed.

(** classic::select_connection (after apply_stall_gate with the guard off) = the reference's
    first maximum of window / (in-flight + queued + 1) over the usable links, on every state *)
Theorem C10_select_refines_ref : forall l now tmo,
  Forall inv_x l -> select l now tmo = ref_select (map (rl_of now tmo) l).
Proof. exact select_refines_ref. Qed.

(** ... hence insensitive to everything the reference does not read: NAK history, RTT, quality
    cache, stall latch / gate flags, phase beyond "registered", batch regime, grace deadline, the
    tracker, the critical window.  (The previous choice is not even an input of the model:
    classic::select_connection does not take last_idx.) *)
Theorem C10_insensitive : forall l l' now tmo,
  Forall inv_x l -> Forall inv_x l' ->
  map (rl_of now tmo) l = map (rl_of now tmo) l' -> select l now tmo = select l' now tmo.
Proof. exact select_insensitive. Qed.

(** the shell's routing (selection + best-path override as it stands in the source) sends every
    packet kind — plain, retransmit-flagged, inside a critical window, control — where the
    reference says *)
Theorem C10_route_refines_ref : forall s seq retx now tmo,
  Inv s -> route Shape.override_mode_guarded s seq retx now tmo = ref_select (map (rl_of now tmo) (xs s)).
Proof. exact route_refines_ref. Qed.

(** without the mode guard the override breaks the property (DESIGN §8 F5, fixed in /repo by
    401f9e7): the witness is replayed on the real shell by the harness on every run *)
Theorem C10_unguarded_override_refuted : exists s seq retx now tmo,
  Inv s /\ route false s seq retx now tmo <> ref_select (map (rl_of now tmo) (xs s)).
Proof. exact unguarded_override_refuted. Qed.

(** one SRTLA-acknowledged packet: the model's event (arrival-first earner, +29 rule on the
    remaining in-flight, +1 on every connected link that has received, caps) is the reference's *)
Theorem C10_srtla_ack_refines_ref : forall cs als idx seq now,
  Forall2 arel cs als -> Forall inv_link cs ->
  Forall2 arel (srtla_ack_event cs idx seq true now) (ref_srtla_ack_one idx als seq) /\
  Forall inv_link (srtla_ack_event cs idx seq true now).
Proof. exact srtla_ack_event_both. Qed.

(** one NAK: every link's window drops by 100 (floor 1000) per log entry the NAK retired on it,
    and not otherwise *)
Theorem C10_nak_refines_ref : forall cs t seq now,
  Forall inv_link cs ->
  Forall2 nrel cs (fst (attribute_nak cs t seq now)) /\ Forall inv_link (fst (attribute_nak cs t seq now)).
Proof. exact attribute_nak_step. Qed.

(** no time-based recovery: a housekeeping tick leaves every window alone, whatever the time *)
Theorem C10_no_recovery : forall g s now bs,
  map (fun x => window (core x)) (xs (fst (xstep g s (XHousekeep now bs)))) =
  map (fun x => window (core x)) (xs s).
Proof. exact housekeep_windows. Qed.

(** every step of the model passes the monitor (i.e. agrees with the reference on the chosen link
    and on all windows) and keeps the invariant *)
Theorem C10_window_refines_ref : forall s o,
  Inv s -> wf_op o ->
  mon_step o (obs_shell s) (obs_step (snd (xstep true s o)) (fst (xstep true s o))) = 0%N /\
  Inv (fst (xstep true s o)).
Proof. exact step_ok. Qed.

(** headline: for 1..n links and every history of routed packets, flushes, SRTLA ACKs, cumulative
    ACKs, NAKs, housekeeping ticks and set-up ops, from any window vector in range, the model's own
    trace satisfies the monitor *)
Theorem C10_monitor_holds : forall n g ops,
  Forall wf_op ops ->
  ok_C10 (obs_shell (xinit n g)) (model_trace Shape.override_mode_guarded (xinit n g) ops) = true.
Proof. exact monitor_holds. Qed.

(** ---- non-vacuity ---- *)
Definition ex_ops : list xop :=
  [XUp 0 1000; XUp 1 1000; XSetWindow 0 10000; XSetWindow 1 40000;
   XPkt (Some 7) false 1001 5000; XPkt (Some 8) true 1002 5000; XCritical 1500;
   XPkt (Some 9) false 1003 5000; XPkt None false 1004 5000; XFlush 1020; XSetWindow 1 1999;
   XSrtlaAck 1 [7; 8] 1030; XNak 0 [9] 1040; XNak 1 [9] 1041; XHousekeep 9000 [4; 4];
   XPkt (Some 10) false 9001 5000].

Example ex_wf : Forall wf_op ex_ops.
Proof. repeat (apply Forall_cons; [cbn [wf_op]; try exact I; try (rewrite WB_val; lia)|]). apply Forall_nil. Qed.

(** plain, retransmit-flagged and critical-window packets all go to link 1 (score 40000, 20000,
    13333 against 10000); the control packet meets a 10000 : 10000 tie and takes link 0; the earned
    ACK at window 1999 with 2 left in flight gets +29, the next one (1 left) does not; both links get
    +1 per acknowledged packet; the NAK costs link 1 (the carrier) 100; the repeated NAK and the
    housekeeping tick 8 s later change nothing; with both links silent for 5 s nothing is usable *)
Example ex_run :
  map (fun t => (fst (snd (fst t)), map (fun x => window (core x)) (xs (snd t))))
      (xrun Shape.override_mode_guarded (xinit 2 0) ex_ops) =
  [(None, [20000; 20000]); (None, [20000; 20000]); (None, [10000; 20000]); (None, [10000; 40000]);
   (Some 1%nat, [10000; 40000]); (Some 1%nat, [10000; 40000]); (None, [10000; 40000]);
   (Some 1%nat, [10000; 40000]); (Some 0%nat, [10000; 40000]); (None, [10000; 40000]);
   (None, [10000; 1999]); (None, [10002; 2030]); (None, [10002; 1930]); (None, [10002; 1930]);
   (None, [10002; 1930]); (None, [10002; 1930])].
Proof. vm_compute. reflexivity. Qed.

Example ex_rules :
  ref_ack_earned 1999 2 = 2028 /\ ref_ack_earned 2000 2 = 2000 /\ ref_ack_earned 59990 100 = 60000 /\
  ref_ack_global true true 60000 = 60000 /\ ref_ack_global true false 5000 = 5000 /\
  ref_nak 1050 = 1000 /\ ref_nak 20000 = 19900.
Proof. repeat split; reflexivity. Qed.

(** the monitor is not vacuous: it rejects a packet on the wrong link (2), a wrong ACK rule (3), an
    uncharged / overcharged NAK (4), a window that moves on a flush (5), time-based recovery (6) *)
Definition p2 : list lobs :=
  [([1; 0; 10000; 1; 1000; 1000; 0; 16], ([], [], 1%float)); ([1; 0; 40000; 1; 1000; 1000; 0; 16], ([5], [], 1%float))].
Definition with_wins (a b : Z) : list lobs :=
  [([1; 0; a; 1; 1000; 1000; 0; 16], ([], [], 1%float)); ([1; 0; b; 1; 1000; 1000; 0; 16], ([5], [], 1%float))].
Example ex_monitor_rejects :
  mon_step (XPkt (Some 8) true 1002 5000) p2 (0, [0; 0], p2) = 2%N /\
  mon_step (XPkt (Some 8) true 1002 5000) p2 (1, [0; 0], p2) = 0%N /\
  mon_step (XSrtlaAck 0 [77] 1002) p2 (-1, [0; 0], with_wins 10030 40001) = 3%N /\
  mon_step (XSrtlaAck 0 [77] 1002) p2 (-1, [0; 0], with_wins 10001 40001) = 0%N /\
  mon_step (XNak 0 [77] 1002) p2 (-1, [0; 0], with_wins 9900 40000) = 4%N /\
  mon_step (XFlush 1002) p2 (-1, [0; 0], with_wins 10000 40029) = 5%N /\
  mon_step (XHousekeep 9000 [16; 16]) p2 (-1, [0; 0], with_wins 10030 40000) = 6%N.
Proof. vm_compute. repeat split; reflexivity. Qed.
