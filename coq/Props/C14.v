(** Props/C14.v — property C14 "Keepalives flow on every live uplink and RTT comes only
    from echoes".  ONLY statements, one-line proofs from the lemma files, the constant
    obligations and non-vacuity examples. *)
From Coq Require Import Floats.
From Srtla Require Import Base Constants FConstants Wire WireSpec WireP Rtt Keepalive RttP KeepaliveP
  Run_C14 C14P.
Local Open Scope Z_scope.

(** Literals the property text names, tied to the regenerated constants. *)
Theorem constants_ok_C14 :
  IDLE_TIME * 1000 = 1000 /\ IDLE_MS = 1000 /\ HOUSEKEEPING_INTERVAL_MS = 1000 /\ PERIOD = 1000 /\
  IDLE_MS + PERIOD - 1 <= 2 * PERIOD /\
  SRTLA_KEEPALIVE_EXT_LEN = 38 /\ SRTLA_TYPE_KEEPALIVE = 36864 /\
  SRTLA_KEEPALIVE_MAGIC = 49183 /\ SRTLA_KEEPALIVE_EXT_VERSION = 1 /\
  KA_RTT_CAP_MS = 10000 /\ RTT_REMEASURE_GAP_MS = 3000 /\ RTT_NEEDS_MEASUREMENT_GAP_MS = 3000 /\
  CONN_TIMEOUT_MS = 5000.
Proof. repeat split; try reflexivity. cbv. discriminate. Qed.

(** CADENCE (state level).  After a housekeeping iteration on a link that is connected and
    not timed out, the link's last keepalive is younger than IDLE_TIME (1 s); it is this
    tick's exactly when frames went out, and those frames are keepalives of this link. *)
Theorem C14_keepalive_fresh : forall l t rc now, live l now = true ->
  let '(fs, l') := tick_link l t rc now in
  exists k, l_last_ka l' = Some k /\ now - k < IDLE_MS /\
            ((fs <> [] /\ k = now /\ Forall (ka_frame_of l t now) fs) \/ (fs = [] /\ l' = l)).
Proof. exact keepalive_fresh. Qed.

(** CADENCE (two consecutive ticks, spacing D).  Link live at a tick at tau1 and at the next
    tick at tau2 <= tau1 + D; in between, datagrams / recovery marks can only keep or clear
    last_keepalive_sent.  Then the two most recent keepalives are < IDLE_MS + D apart
    (for D = one period: < two housekeeping periods). *)
Theorem C14_cadence : forall D l1 t1 rc1 tau1 l2 t2 rc2 tau2,
  0 <= D -> live l1 tau1 = true -> live l2 tau2 = true -> tau2 - tau1 <= D ->
  (l_last_ka l2 = l_last_ka (snd (tick_link l1 t1 rc1 tau1)) \/ l_last_ka l2 = None) ->
  exists k1 k2,
    l_last_ka (snd (tick_link l1 t1 rc1 tau1)) = Some k1 /\
    l_last_ka (snd (tick_link l2 t2 rc2 tau2)) = Some k2 /\
    tau1 - k1 < IDLE_MS /\ tau2 - k2 < IDLE_MS /\ k2 - k1 < IDLE_MS + D /\
    ((fst (tick_link l2 t2 rc2 tau2) = [] /\ k2 = k1) \/
     (fst (tick_link l2 t2 rc2 tau2) <> [] /\ k2 = tau2)).
Proof. exact cadence_two_ticks. Qed.
Theorem C14_between_ticks : forall l b now,
  l_last_ka (pkt_link l b now) = l_last_ka l /\ l_last_ka (mark_for_recovery l) = None.
Proof. intros. split; [apply pkt_link_last_ka|reflexivity]. Qed.

(** FRAME.  Every frame a housekeeping iteration emits is the REG2 of a reconnect or a
    38-byte extended keepalive: bytes 0..10 = the standard keepalive of the tick's clock,
    the receiver's parser reads back the link's window, in-flight, NAK count and bytes/s
    (with the Rust casts), built through the proved Wire round trip. *)
Theorem C14_frame : forall l t rc now, tele_ok t -> 0 <= now < two64 ->
  Forall (fun f => f = REG2_FRAME \/
            exists p, f = FBytes p /\ blen p = 38 /\ firstn 10 p = create_keepalive_packet now /\
              extract_keepalive_timestamp p = Ok (Some now) /\
              exists rtt_field,
                extract_keepalive_conn_info p =
                  Ok (Some [l_id l mod two32; t_window t; t_inflight t; rtt_field; of_i32 (t_nak t);
                            f_as_u32 (t_bps t / F_EIGHT)%float]))
         (fst (tick_link l t rc now)).
Proof. exact tick_frames. Qed.
Theorem C14_frame_packet : forall l t now, tele_ok t -> 0 <= now < two64 ->
  let p := fst (keepalive_packet l t now) in
  blen p = 38 /\ firstn 10 p = create_keepalive_packet now /\
  extract_keepalive_timestamp p = Ok (Some now) /\
  extract_keepalive_conn_info p = Ok (Some (ka_info l t)).
Proof. exact keepalive_packet_frame. Qed.

(** SAMPLING.  The estimator (last measurement time, Kalman state) moves on an uplink
    datagram only if a probe was outstanding, the datagram is a keepalive of >= 10 bytes and
    0 < now - echoed timestamp <= 10 s; the sample is exactly that difference.  A returned
    sample obeys the filter; a keepalive handled while waiting always clears the flag;
    ticks and recovery marks never take a sample (they keep or reset the estimator). *)
Theorem C14_sample_filter : forall l b now, bytes_ok b ->
  rtt_core (l_rtt (pkt_link l b now)) <> rtt_core (l_rtt l) ->
  r_waiting (l_rtt l) = true /\ spec_type b = Some SRTLA_TYPE_KEEPALIVE /\ 10 <= blen b /\
  exists ts, spec_ka_ts b = Some ts /\ 0 < now - ts <= 10000 /\
    l_rtt (pkt_link l b now) = set_waiting (update_estimate (l_rtt l) (now - ts) now) false /\
    l_proof (pkt_link l b now) = now.
Proof. exact sample_filter. Qed.
Theorem C14_sample_value : forall r b now v,
  snd (handle_keepalive_response r b now) = Some v ->
  r_waiting r = true /\ exists ts, ka_ts b = Some ts /\ v = now - ts /\ 0 < v <= KA_RTT_CAP_MS.
Proof. exact hkr_sample. Qed.
Theorem C14_waiting_cleared : forall r b now,
  r_waiting r = true -> r_waiting (fst (handle_keepalive_response r b now)) = false.
Proof. exact hkr_clears. Qed.
Theorem C14_no_sample_elsewhere : forall l t rc now,
  let l' := snd (tick_link l t rc now) in
  (l_rtt l' = rtt_default \/ rtt_core (l_rtt l') = rtt_core (l_rtt l)) /\
  rtt_core (l_rtt (mark_for_recovery l)) = rtt_core (l_rtt l).
Proof. exact no_sample_elsewhere. Qed.

(** SIGN.  get_smooth_rtt_ms is never NaN and never negative, for EVERY float state of the
    filter (including NaN / infinities / negative overshoot); it is finite when the Kalman
    value is. *)
Theorem C14_srtt_nonneg : forall l,
  f_is_nan (get_smooth_rtt_ms l) = false /\ (0 <=? get_smooth_rtt_ms l)%float = true /\
  (f_is_inf (kx (r_k (l_rtt l))) = false -> f_is_inf (get_smooth_rtt_ms l) = false).
Proof. exact srtt_nonneg. Qed.

(** HEADLINE.  Every trace of the model satisfies the monitor (the property text as a
    boolean over observable traces), for all link sets, start times and op lists whose
    values inhabit their Rust types.  The finiteness clause is the one part carried by a
    hypothesis: [finite_run] = the Kalman value is not infinite in any state of the run. *)
Theorem C14_monitor_partial : forall ids t0 ops, wf_opsb ops = true ->
  ok_C14_nf (length ids) ops (run ids t0 ops) = true.
Proof. exact monitor_partial. Qed.
Theorem C14_monitor : forall ids t0 ops, wf_opsb ops = true -> finite_run ids t0 ops ->
  ok_C14 (length ids) ops (run ids t0 ops) = true.
Proof. exact monitor_full. Qed.
(** the same for any tick spacing D: previous keepalive at most IDLE_MS + D - 1 old *)
Theorem C14_cadence_general : forall D bound ids t0 ops,
  IDLE_MS + D - 1 <= bound -> wf_opsb ops = true ->
  let c := fst (mon_run D bound (repeat m0 (length ids)) ops (run ids t0 ops) 0) in
  (c = 0%N \/ c = 5%N) /\ (finite_run ids t0 ops -> c = 0%N).
Proof. exact monitor_general. Qed.

(** ---- non-vacuity ---- *)
Definition ex_ka (ts : Z) : list Z := create_keepalive_packet ts.
Definition ex_tele : tele := {| t_window := 20000; t_inflight := 3; t_nak := 1; t_bps := 8000000 |}.
Definition ex_ops : list op :=
  [ OPkt 0 [146; 2] 1000010;                       (* REG3: link registers *)
    OTick 1001000 [ex_tele] [true];                (* first keepalive, probe armed *)
    OPkt 0 (ex_ka 1001000) 1001045;                (* timely echo: sample 45 ms *)
    OTick 1002000 [ex_tele] [true];                (* keepalive, 1 s later *)
    OPkt 0 (ex_ka 1002000) 1002045;                (* echo with no probe outstanding *)
    OTick 1003000 [ex_tele] [true];
    OTick 1003500 [ex_tele] [true];                (* half a period: nothing due *)
    OMark 0;                                        (* link reset *)
    OTick 1004000 [ex_tele] [true];                (* timed out: reconnect, REG2 *)
    OPkt 0 [146; 2] 1004020;
    OTick 1005000 [ex_tele] [true];                (* live again: keepalive at once *)
    OEnd ].

Definition count_ka (bs : list obs) : Z :=
  fold_left (fun n b => match b with
     | BTick per => fold_left (fun n tb => n + blen (filter frame_is_ka (tb_frames tb))) per n
     | _ => n end) bs 0.
Definition count_samples (bs : list obs) : Z :=
  fold_left (fun n b => match b with
     | BPkt pre prek post postk _ => if sample_taken pre prek post postk then n + 1 else n
     | _ => n end) bs 0.

Example C14_example_run :
  wf_opsb ex_ops = true /\ ok_C14 1 ex_ops (run [7] 1000000 ex_ops) = true /\
  count_ka (run [7] 1000000 ex_ops) = 4 /\ count_samples (run [7] 1000000 ex_ops) = 1.
Proof. vm_compute. repeat split. Qed.
Example C14_example_finite : finite_run [7] 1000000 ex_ops.
Proof. apply finite_fromb_ok. vm_compute. reflexivity. Qed.
Example C14_example_live :
  live (snd (tick_link (pkt_link (new_registering 7 1000000) [146; 2] 1000010) ex_tele true 1001000))
       1002000 = true.
Proof. vm_compute. reflexivity. Qed.
(** the Kalman filter does overshoot below zero on a sharp high->low transition of genuine
    samples, so the clamp in get_smooth_rtt_ms is reached *)
Example C14_overshoot_reached :
  let k := fold_left (fun k m => kalman_update k (f_of_Z m)) [10000; 10000; 10000; 1; 1; 1; 1] kalman_new in
  (kx k <? 0)%float = true /\ f_max0 (kx k) = 0%float /\ f_max0 nan = 0%float.
Proof. vm_compute. repeat split. Qed.
(** a late echo (10 001 ms) and a zero-RTT echo are rejected, 10 000 ms is accepted *)
Example C14_filter_boundaries :
  let r := record_keepalive_sent rtt_default 5000 in
  snd (handle_keepalive_response r (ex_ka 5000) 15000) = Some 10000 /\
  snd (handle_keepalive_response r (ex_ka 5000) 15001) = None /\
  snd (handle_keepalive_response r (ex_ka 5000) 5000) = None /\
  snd (handle_keepalive_response r (ex_ka 6000) 5500) = None /\
  snd (handle_keepalive_response rtt_default (ex_ka 5000) 5045) = None.
Proof. vm_compute. repeat split. Qed.
