(** Props/C17.v — property C17 "Weak-link classifier cannot starve a link forever or
    flap on a blip".  ONLY statements, their one-line proofs from the lemma files,
    the constant obligations and non-vacuity examples.

    Vocabulary (Model/Classifier.v): [tick st ls] is one call of
    [WeakLinkFilter::classify] on the link vector [ls] from memory [st];
    [verdict st ls l] the classification it returns for link [l];
    [classified ls l] = the link is connected and the tick is not bypassed;
    [signal ls l] = RTT (whole ms) over the chosen tier, or queue building;
    [share_of ls l] = throughput share in integer permille as the code computes it
    (interpretation fixed in DESIGN.md §8: the thresholds are the integer permille
    ones, 250/n and 750/n floored, n = connected links);
    [mem st id] = the filter's memory for link [id] (defaults when absent). *)
From Coq Require Import Floats.
From Srtla Require Import Base Constants FConstants Classifier ClassifierP Run_C17 C17P.
Local Open Scope Z_scope.

(** The literals the property text names, tied to the generated constants. *)
Theorem constants_ok_C17 :
  MIN_TOTAL_BPS_FOR_CLASSIFICATION = 0x1.86ap+16%float /\
  MIN_TOTAL_BPS_FOR_CLASSIFICATION_micro = 100000 * 1000000 /\
  WEAK_SUSTAIN_TICKS = 2 /\ PROBATION_INTERVAL_TICKS = 15 /\ PROBATION_WINDOW_TICKS = 3 /\
  ENTER_FAIR_SHARE_NUMERATOR = 250 /\ LEAVE_FAIR_SHARE_NUMERATOR = 750 /\
  4 * ENTER_FAIR_SHARE_NUMERATOR = 1000 /\ 4 * LEAVE_FAIR_SHARE_NUMERATOR = 3 * 1000.
Proof. exact classifier_constants. Qed.

(** [verdict] is what [classify] returns, link by link, in order. *)
Theorem C17_verdicts_are_outputs : forall st ls,
  t_outs (snd (tick st ls)) = map (verdict st ls) ls.
Proof. exact tick_outs. Qed.

(** Clause 1. Never weak while disconnected, or while total throughput is under
    100 kbit/s (or nothing is connected) — from ANY memory state. *)
Theorem C17_never_weak_when : forall st ls l,
  l_conn l = false \/ (total_bps ls <? 0x1.86ap+16)%float = true \/ conn_count ls = 0 ->
  o_weak (verdict st ls l) = false /\
  (o_reason (verdict st ls l) = RH \/ o_reason (verdict st ls l) = RB).
Proof. exact never_weak_when. Qed.

(** ... and the history is cleared: wholly under the floor, per link on a disconnect
    or when the link is not in the vector. *)
Theorem C17_floor_clears_history : forall st ls,
  (total_bps ls <? 0x1.86ap+16)%float = true \/ conn_count ls = 0 -> fst (tick st ls) = [].
Proof. exact floor_clears_history. Qed.
Theorem C17_unclassified_forgotten : forall st ls l,
  NoDup (map l_id ls) -> In l ls -> classified ls l = false ->
  mem (fst (tick st ls)) (l_id l) = lst0.
Proof. exact unclassified_forgotten. Qed.
Theorem C17_absent_forgotten : forall st ls id,
  ~ In id (map l_id ls) -> mem (fst (tick st ls)) id = lst0.
Proof. exact absent_forgotten. Qed.

(** Clause 2. A delay verdict (weak for HighRtt / QueueBuilding) at a tick needs the
    delay signal on that tick AND on the previous tick, for the same link id, both
    ticks classified — from any memory state, hence after every history. *)
Theorem C17_delay_needs_two : forall st ls1 ls2 l2,
  delay_verdict (verdict (fst (tick st ls1)) ls2 l2) = true ->
  classified ls2 l2 = true /\ signal ls2 l2 = true /\
  exists l1, In l1 ls1 /\ l_id l1 = l_id l2 /\ classified ls1 l1 = true /\ signal ls1 l1 = true.
Proof. exact delay_needs_two. Qed.
Theorem C17_delay_never_on_first_tick : forall ls l, delay_verdict (verdict [] ls l) = false.
Proof. exact delay_never_on_first_tick. Qed.
Theorem C17_delay_reason_matches : forall st ls l,
  o_weak (verdict st ls l) = true ->
  (o_reason (verdict st ls l) = RR -> (tier_of ls <? rtt_of l) = true) /\
  (o_reason (verdict st ls l) = RQ -> l_qb l = true).
Proof. exact delay_reason_matches. Qed.

(** The [unwrap()] in the sustained-delay arm cannot panic. *)
Theorem C17_no_unwrap_panic : forall sel l (e : lst),
  (WEAK_SUSTAIN_TICKS <=? match delay_signal sel l with
                          | Some _ => sat_add_u32 (s_ds e) 1
                          | None => 0
                          end) = true ->
  delay_signal sel l <> None.
Proof. exact no_unwrap_panic. Qed.

(** Clause 3. Memory bounds after every history (no well-formedness needed): the
    share-weak streak stays below 15, the probation counter within 0..3. *)
Theorem C17_state_bounds : forall ops id, entry_ok (mem (state_after [] ops) id).
Proof. exact reachable_ok. Qed.

(** Inside a probation window the link is reported not weak whatever its signals. *)
Theorem C17_probation_forces_not_weak : forall st ls l,
  0 < s_pr (mem st (l_id l)) -> o_weak (verdict st ls l) = false.
Proof. exact probation_forces_not_weak. Qed.

(** A share-weak verdict (LowShare / NoTraffic) advances the streak by one; the 15th
    resets it and arms a 3-tick window. *)
Theorem C17_share_streak_step : forall st ls l,
  entry_ok (mem st (l_id l)) -> share_verdict (verdict st ls l) = true ->
  classified ls l = true /\ s_pr (mem st (l_id l)) = 0 /\
  ((s_ws (mem st (l_id l)) + 1 < 15 /\ s_ws (entry_after st ls l) = s_ws (mem st (l_id l)) + 1 /\
    s_pr (entry_after st ls l) = 0) \/
   (s_ws (mem st (l_id l)) + 1 = 15 /\ s_ws (entry_after st ls l) = 0 /\
    s_pr (entry_after st ls l) = 3)).
Proof. exact share_streak_step. Qed.

(** After any history, no link collects more than 15 consecutive share-weak verdicts... *)
Theorem C17_at_most_15_share_weak : forall ops lss id,
  wf_ops lss -> all_share_weak id (state_after [] ops) lss -> (length lss <= 15)%nat.
Proof.
  intros ops lss id Hwf Hall.
  destruct (share_weak_run_bound id lss (state_after [] ops) (reachable_ok ops) Hwf Hall) as (H & _).
  destruct (reachable_ok ops id) as (_ & Hw & _). lia.
Qed.

(** ... and a run of 15 is followed by a not-weak verdict on each of the next three
    ticks, for as long as the link stays classified (a disconnect or a floor crossing
    inside the window forgets the link: clause 1 then applies and it starts afresh). *)
Theorem C17_probation_after_15 : forall ops lss nxt id,
  wf_ops lss -> wf_ops nxt -> all_share_weak id (state_after [] ops) lss ->
  length lss = 15%nat -> (length nxt <= 3)%nat ->
  window_not_weak id (state_after (state_after [] ops) lss) nxt.
Proof.
  intros ops lss nxt id Hwf Hwn Hall Hlen Hn.
  destruct (share_weak_run_bound id lss (state_after [] ops) (reachable_ok ops) Hwf Hall) as (Hb & Hcase).
  destruct (reachable_ok ops id) as (_ & Hw & _).
  assert (Hne : lss <> []) by (intros ->; discriminate).
  destruct (Hcase Hne) as (_ & [(X & _)|(_ & Y)]); [lia|].
  apply probation_window; [exact Hwn|]. lia.
Qed.

(** Clause 4. Entering weak-for-low-share needs share < 250/n; staying needs
    share < 750/n; a previously weak link reported not weak has share >= 750/n or is
    inside a probation window. *)
Theorem C17_enter_leave : forall st ls l,
  classified ls l = true ->
  let n := conn_count ls in
  let pw := s_pw (mem st (l_id l)) in
  (low_share_verdict (verdict st ls l) = true -> pw = false -> share_of ls l < 250 / n) /\
  (low_share_verdict (verdict st ls l) = true -> pw = true -> share_of ls l < 750 / n) /\
  (o_weak (verdict st ls l) = false -> pw = true ->
     750 / n <= share_of ls l \/ 0 < s_pr (mem st (l_id l))) /\
  (o_weak (verdict st ls l) = false -> pw = false ->
     250 / n <= share_of ls l \/ 0 < s_pr (mem st (l_id l))).
Proof. exact enter_leave. Qed.

(** "previously weak" is exactly: the last verdict was weak (and the link has been
    classified on that tick; otherwise it is forgotten, i.e. not previously weak). *)
Theorem C17_prev_weak_is_last_verdict : forall st ls l,
  NoDup (map l_id ls) -> In l ls ->
  s_pw (mem (fst (tick st ls)) (l_id l)) = o_weak (verdict st ls l).
Proof. exact prev_weak_is_last_verdict. Qed.

Theorem C17_reported_share_and_threshold : forall st ls l,
  classified ls l = true ->
  o_share (verdict st ls l) = share_of ls l /\
  o_thr (verdict st ls l) = (if s_pw (mem st (l_id l)) then 750 / conn_count ls else 250 / conn_count ls).
Proof. exact reported_share_and_threshold. Qed.

(** Headline: every trace of the model satisfies the monitor (the property text as a
    boolean over the observable trace), for every history with distinct ids per tick. *)
Theorem C17_monitor_holds : forall ops, wf_ops ops -> ok_C17 (run ops) = true.
Proof. exact model_satisfies_monitor. Qed.

Theorem C17_wf_decided : forall ops, wf_opsb ops = true -> wf_ops ops.
Proof. exact wf_opsb_spec. Qed.

(** ---- non-vacuity ------------------------------------------------------------------- *)
Definition exA : lin := L 1 true 990000 20 false.        (* 99 % of the traffic, 20 ms *)
Definition exB : lin := L 2 true 10000 30 false.         (* 1 %: under 250/2 = 125 permille *)
Definition exA2 : lin := L 1 true 550000 20 false.
Definition exBq : lin := L 2 true 450000 30 true.        (* 45 %: above 750/2 = 375 permille; queue building *)
Definition exBok : lin := L 2 true 450000 30 false.
Definition weak_of (id : Z) (tr : list (list lin * tout)) : list bool :=
  map (fun p => match find_out id (t_outs (snd p)) with Some o => o_weak o | None => false end) tr.

(** A starved link: 15 share-weak verdicts, 3 forced not-weak, weak again. *)
Example C17_ex_probation_cycle :
  weak_of 2 (run (repeat [exA; exB] 20)) =
  repeat true 15 ++ repeat false 3 ++ repeat true 2.
Proof. vm_compute. reflexivity. Qed.

Example C17_ex_run_of_15 : all_share_weak 2 [] (repeat [exA; exB] 15) /\ wf_ops (repeat [exA; exB] 15).
Proof.
  split.
  - cbn [repeat all_share_weak].
    repeat (split; [exists exB; split; [right; left; reflexivity|split; [reflexivity|vm_compute; reflexivity]]|]).
    exact I.
  - apply C17_wf_decided. vm_compute. reflexivity.
Qed.

(** A one-tick queue blip does not mark the link weak; two consecutive ticks do. *)
Example C17_ex_blip_filtered :
  weak_of 2 (run [[exA2; exBq]; [exA2; exBok]; [exA2; exBq]; [exA2; exBq]; [exA2; exBq]; [exA2; exBok]]) =
  [false; false; false; true; true; false].
Proof. vm_compute. reflexivity. Qed.

(** Under the floor everything is Bypassed and memory is dropped. *)
Example C17_ex_floor :
  map (fun o => (o_weak o, o_reason o))
      (t_outs (snd (tick [(2, E true 5 9 0)] [L 1 true 99999 20 false; L 2 true 0 3000 true]))) =
  [(false, RB); (false, RB)] /\
  fst (tick [(2, E true 5 9 0)] [L 1 true 99999 20 false; L 2 true 0 3000 true]) = [].
Proof. vm_compute. split; reflexivity. Qed.

(** The monitor is not trivially true: one offending trace per clause. *)
Example C17_ex_monitor_rejects :
  (* 1: weak while disconnected *)
  mon_from [] [([L 1 true 990000 20 false; L 2 false 10000 30 false],
                TO 200 500 [V 1 false RH 1000 250; V 2 true RL 0 0] [])] = 1%N /\
  (* 2: delay verdict on the first tick the signal shows *)
  mon_from [] [([exA; exBq], TO 200 500 [V 1 false RH 687 125; V 2 true RQ 312 125] [])] = 2%N /\
  (* 4: entered LowShare at share 312 >= 125 *)
  mon_from [] [([exA; exBok], TO 200 500 [V 1 false RH 687 125; V 2 true RL 312 125] [])] = 4%N /\
  (* 5: left LowShare at share 312 < 375 outside probation *)
  mon_from [] [([exA; exB], TO 200 500 [V 1 false RH 990 125; V 2 true RL 10 125] []);
               ([exA; exBok], TO 200 500 [V 1 false RH 687 125; V 2 false RH 312 375] [])] = 5%N /\
  (* 3: a 16th consecutive share-weak verdict *)
  mon_from [] (map (fun _ => ([exA; exB], TO 200 500 [V 1 false RH 990 125; V 2 true RL 10 375] []))
                   (seq 0 16)) = 3%N.
Proof. vm_compute. repeat split; reflexivity. Qed.
