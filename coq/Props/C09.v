(** Props/C09.v — property C09 "Return path relays receiver traffic to the SRT client
    unmodified".  ONLY statements, their one-line proofs from the lemma files, constant
    obligations and non-vacuity examples.

    Reading guide.  [handle_uplink s id w now classic] is the model of the shell's
    uplink arm (handle_uplink_packet = process_uplink_packet + process_connection_events)
    on state [s] for a datagram [w] (bytes [bytes_of w]) received on the uplink whose
    conn_id is [id]; it returns (state', datagrams that reached the client socket, panicked).
    [spec_type b] is the big-endian u16 type of a datagram of >= 2 bytes (WireSpec).
    Every theorem holds for ALL byte lists / link states / histories. *)
From Srtla Require Import Base Constants Wire WireSpec WireP Conn Run_Core ConnP Uplink UplinkP Run_C09 C09P.

(** The type codes the property names, tied to the generated constants. *)
Theorem constants_ok_C09 :
  SRTLA_TYPE_REG2 = 37377 /\ SRTLA_TYPE_REG3 = 37378 /\ SRTLA_TYPE_REG_ERR = 37392 /\
  SRTLA_TYPE_REG_NGP = 37393 /\ SRTLA_TYPE_ACK = 37120 /\ SRTLA_TYPE_KEEPALIVE = 36864 /\
  SRT_TYPE_ACK = 32770 /\ SRT_TYPE_NAK = 32771 /\ MTU = 1500 /\
  (forall t, is_internal t = true <->
             t = 37393 \/ t = 37377 \/ t = 37378 \/ t = 37392 \/ t = 37120 \/ t = 36864).
Proof.
  repeat split; try reflexivity.
  - unfold is_internal, is_registration. intros H.
    repeat (apply Bool.orb_true_iff in H as [H|H]); apply Z.eqb_eq in H; rewrite H; cbv; tauto.
  - intros [->|[->|[->|[->|[->| ->]]]]]; reflexivity.
Qed.

(** Relay: with a client address known, a datagram of >= 2 bytes on a known uplink whose
    type is not SRTLA-internal reaches the client byte-for-byte, once or (SRT ACK: inline
    fast path + forward list) twice. *)
Theorem C09_relay : forall s id w now classic idx t,
  client s = true -> find_pos id (links (core s)) 0 = Some idx -> (idx < length (xs s))%nat ->
  spec_type (bytes_of w) = Some t -> is_internal t = false ->
  snd (fst (handle_uplink s id w now classic)) = [w] \/ snd (fst (handle_uplink s id w now classic)) = [w; w].
Proof. exact uplink_relay. Qed.

(** Unmodified: whatever reaches the client while a datagram is handled IS that datagram
    (any state, any bytes, client known or not). *)
Theorem C09_unmodified : forall s id w now classic,
  Forall (fun y => y = w) (snd (fst (handle_uplink s id w now classic))).
Proof. exact uplink_only_the_datagram. Qed.

(** SRTLA-internal datagrams (REG_NGP/REG2/REG3/REG_ERR, SRTLA ACK, keepalive) are never delivered. *)
Theorem C09_internal_never_relayed : forall s id w now classic t,
  spec_type (bytes_of w) = Some t -> is_internal t = true -> snd (fst (handle_uplink s id w now classic)) = [].
Proof. exact uplink_internal_never_relayed. Qed.

(** Before a client address is known nothing is delivered. *)
Theorem C09_no_client_no_delivery : forall s id w now classic,
  client s = false -> snd (fst (handle_uplink s id w now classic)) = [].
Proof. exact uplink_no_client. Qed.

(** Totality of the dispatch: for every byte list and link state no decoder index is out of
    bounds and no loop runs out of fuel. *)
Theorem C09_dispatch_total : forall c x k w now,
  exists r, process_uplink_packet c x k w now = Ok r.
Proof. intros. eexists. apply process_uplink_packet_total. Qed.

(** Never panics: in every history (arbitrary set-up ops and uplink datagrams from fresh
    links) no step reports a panic — neither a decoder bound nor an unchecked i32 overflow of
    the window arithmetic. *)
Theorem C09_total : forall ids ops, Forall (fun st => u_panic (snd st) = false) (h_steps (run ids ops)).
Proof. exact model_never_panics. Qed.

(** Liveness: every typed non-registration datagram sets last_received = now on its link. *)
Theorem C09_liveness_stamp : forall s id w now classic idx t,
  find_pos id (links (core s)) 0 = Some idx -> (idx < length (xs s))%nat ->
  spec_type (bytes_of w) = Some t -> is_registration t = false ->
  exists c', nth_error (links (core (fst (fst (handle_uplink s id w now classic))))) idx = Some c' /\
             last_recv c' = Some now.
Proof. exact uplink_liveness_stamp. Qed.

(** Datagrams of fewer than two bytes carry no type: nothing delivered, state unchanged
    (interpretation fixed in DESIGN.md section 8). *)
Theorem C09_short_datagram_noop : forall s id w now classic,
  blen (bytes_of w) < 2 -> handle_uplink s id w now classic = (s, [], false).
Proof. exact uplink_short_noop. Qed.

(** Delivery proof: handling one datagram changes a link's last_ack_or_rtt_sample_ms only to
    [now], and only (a) for an SRTLA ACK naming a number that was in that link's packet log
    and is retired from it, or (b) on the arrival link, for a keepalive echo accepted while the
    link was awaiting one (timestamp present, 0 < now - ts <= 10000). *)
Theorem C09_proof_only_earned : forall s id w now classic,
  Forall2i (proof_rel s id w now) 0 (links (core s)) (links (core (fst (fst (handle_uplink s id w now classic))))).
Proof. exact uplink_proof_only_earned. Qed.

(** Headline: the model's own trace of ANY history satisfies the monitor that ./check evaluates
    on the implementation's traces (clauses 1..6 of Run_C09.mon_uplink). *)
Theorem C09_monitor_holds : forall ids ops, ok_C09 (run ids ops) = true.
Proof. exact model_trace_ok. Qed.

(** ... and the case evaluator returns 0 on it (self-correspondence + monitor). *)
Theorem C09_model_self_check : forall ids ops, check_hist (run ids ops) = 0%N.
Proof. exact model_check_zero. Qed.

(** ---------- non-vacuity ---------- *)
Definition fwd_of (ids : list Z) (ops : list uop) : list (list wd) := map (fun st => u_fwd (snd st)) (h_steps (run ids ops)).
Definition proofs_of (ids : list Z) (ops : list uop) : list (list Z) :=
  map (fun st => map o_proof (u_links (snd st))) (h_steps (run ids ops)).

(** data and unknown control types are relayed once, an SRT ACK twice, REG1-typed frames are not internal *)
Example C09_relay_reached :
  fwd_of [101] [SClient true; UUplink 101 (WFull [0; 1; 2; 3]) 1000 false;
                UUplink 101 (WFull [128; 5]) 1001 false;
                UUplink 101 (WFull ([128; 2] ++ repeat 0 18)) 1002 false;
                UUplink 101 (WFull [146; 0; 9]) 1003 false]
  = [[]; [WFull [0; 1; 2; 3]]; [WFull [128; 5]];
     [WFull ([128; 2] ++ repeat 0 18); WFull ([128; 2] ++ repeat 0 18)]; [WFull [146; 0; 9]]].
Proof. vm_compute. reflexivity. Qed.

(** internal frames are consumed; without a client nothing is delivered; one byte is no datagram type *)
Example C09_internal_reached :
  fwd_of [101] [UUplink 101 (WFull [0; 1; 2; 3]) 900 false; SClient true;
                UUplink 101 (WFull [146; 17]) 1000 false; UUplink 101 (WFull [146; 1; 7]) 1001 false;
                UUplink 101 (WFull [146; 2]) 1002 false; UUplink 101 (WFull [146; 16]) 1003 false;
                UUplink 101 (WFull [145; 0]) 1004 false; UUplink 101 (WFull [144; 0]) 1005 false;
                UUplink 101 (WFull [7]) 1006 false]
  = [[]; []; []; []; []; []; []; []; []].
Proof. vm_compute. reflexivity. Qed.

(** delivery proof: an unawaited echo does nothing; an awaited echo with rtt 0 or > 10000 does
    nothing; an awaited echo with rtt 10000 stamps; an SRTLA ACK stamps the holder (link 1),
    not the arrival link (link 0); an unearned SRTLA ACK stamps nobody *)
Example C09_proof_reached :
  proofs_of [101; 102]
    [SConn 0 true (Some 5); SConn 1 true (Some 5);
     UUplink 101 (WFull ([144; 0] ++ be_bytes 8 19000)) 20000 false;
     SWait 0 true; UUplink 101 (WFull ([144; 0] ++ be_bytes 8 20000)) 20000 false;
     SWait 0 true; UUplink 101 (WFull ([144; 0] ++ be_bytes 8 9999)) 20000 false;
     SWait 0 true; UUplink 101 (WFull ([144; 0] ++ be_bytes 8 10000)) 20000 false;
     SRegister 1 7 20001;
     UUplink 101 (WFull ([145; 0; 0; 0] ++ be_bytes 4 7)) 20002 false;
     UUplink 101 (WFull ([145; 0; 0; 0] ++ be_bytes 4 99)) 20003 false]
  = [[0; 0]; [0; 0]; [0; 0]; [0; 0]; [0; 0]; [0; 0]; [0; 0]; [0; 0]; [20000; 0]; [20000; 0];
     [20000; 20002]; [20000; 20002]].
Proof. vm_compute. reflexivity. Qed.

(** the liveness stamp moves on a relayed datagram and on an internal non-registration one,
    not on REG2 *)
Example C09_liveness_reached :
  map (fun st => map o_lastrecv (u_links (snd st)))
      (h_steps (run [101] [UUplink 101 (WFull [0; 1]) 1000 false; UUplink 101 (WFull [146; 1]) 1001 false;
                           UUplink 101 (WFull [145; 0]) 1002 false]))
  = [[1000]; [1000]; [1002]].
Proof. vm_compute. reflexivity. Qed.
