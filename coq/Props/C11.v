(** Props/C11.v — C11 "Enhanced selection is stable, hysteretic and respects its gates".

    Statement (properties.jsonl): in enhanced mode re-running selection on an unchanged state returns
    the same uplink, and the scheduler leaves the previously selected uplink only if that uplink was
    skipped (ineligible, or over its in-flight cap while an unconstrained uplink exists) or another
    uplink's score is at least 1.10 times its score.  An uplink over its in-flight cap is never chosen
    while an unconstrained uplink exists, a weak or loss-degraded uplink competes at 2 % of its score
    while an unconstrained uplink exists, a warming uplink at 80 %, and all score factors stay finite
    and within their documented ranges (quality multiplier in [0.35, 1.1 x 1.03], soft-cap factor in
    [0.1, 1]).

    [table s now cfg exps] is the independent oracle of Run_C11: one entry per link of the
    gate-pass output, [None] for a link that is not ranked, [Some (spec_score ..)] otherwise. *)
From Coq Require Import ZArith List Bool Floats.
From Srtla Require Import Base Constants FConstants Select Run_Sel Run_C11 FloatP SelFloatP SelectP
     C11P SelViewP C11MonP SelIdemP C11ThmP C11RunP.
Import ListNotations.
Local Open Scope Z_scope.

(** the literals the property text names: 1.10, 2 %, 80 %, 0.35 = (1-0.5) x 0.7, 1.1 x 1.03, 0.1, 50 ms, 30 s *)
Lemma constants_ok_C11 :
  SWITCH_THRESHOLD = 0x1.199999999999ap+0%float /\ SWITCH_THRESHOLD_micro = 1100000 /\
  GATED_LINK_PENALTY = 0x1.47ae147ae147bp-6%float /\ GATED_LINK_PENALTY_micro = 20000 /\
  WARMING_WEIGHT = 0x1.999999999999ap-1%float /\
  Q_LO = 0x1.6666666666666p-2%float /\ Q_HI = (0x1.199999999999ap+0 * 0x1.07ae147ae147bp+0)%float /\
  PERFECT_CONNECTION_BONUS_micro = 1100000 /\ MAX_RTT_BONUS_micro = 1030000 /\
  MAX_PENALTY_micro = 500000 /\ NAK_BURST_PENALTY_micro = 700000 /\
  CC_SOFT_CAP_FLOOR = 0x1.999999999999ap-4%float /\ CC_SOFT_CAP_FLOOR_micro = 100000 /\
  QUALITY_CACHE_INTERVAL_MS = 50 /\ STARTUP_GRACE_PERIOD_MS = 30000.
Proof. repeat split; reflexivity. Qed.

(** quality multiplier in [0.35, 1.1 x 1.03] whatever the link state, for any exp value in [0,1] *)
Theorem C11_quality_range :
  forall c now e, exp_okb e = true ->
    (Q_LO <=? calc_quality c now e)%float = true /\ (calc_quality c now e <=? Q_HI)%float = true.
Proof. intros c now e He. apply q_range_iff. now apply calc_quality_range. Qed.

(** soft-cap factor in [0.1, 1] for every measured bitrate (NaN, infinities and negatives included) *)
Theorem C11_soft_cap_range :
  forall c, 0 <= l_cct c <= u64_max ->
    (CC_SOFT_CAP_FLOOR <=? cc_soft_cap_multiplier c)%float = true /\
    (cc_soft_cap_multiplier c <=? 1)%float = true.
Proof. exact soft_cap_range. Qed.

(** RTT bonus in [1, 1.03] for every smoothed RTT (NaN and infinities included) *)
Theorem C11_rtt_bonus_range :
  forall c, (1 <=? rtt_bonus c)%float = true /\ (rtt_bonus c <=? MAX_RTT_BONUS)%float = true.
Proof. exact rtt_bonus_range. Qed.

(** every score the loop computes on a well-formed link is a number (never NaN); for a connected link
    it is >= 0 (C03_score_above_floor) *)
Theorem C11_scores_not_nan :
  forall au quality now e c s c',
    wfl c -> exp_okb e = true -> score_link au quality now e c = Some (s, c') ->
    PrimFloat.is_nan s = false.
Proof. exact score_link_not_nan. Qed.

(** score = base x phase weight x quality x soft cap x gate, gate = 2 % iff an unconstrained link
    exists and the link is weak or loss-degraded, phase weight = 80 % iff warming; a link is ranked
    iff it is eligible and not (over its cap while an unconstrained link exists) *)
Theorem C11_score_is_spec :
  forall au quality now e c,
    option_map fst (score_link au quality now e c) =
    if spec_candidate au now c then Some (spec_score au quality now e c) else None.
Proof. exact score_link_is_spec. Qed.

Theorem C11_gate_is_two_percent_iff :
  forall au c, (if au && (l_weak c || l_lossdeg c) then SPEC_GATE else 1%float) =
               (if au && (l_weak c || l_lossdeg c) then GATED_LINK_PENALTY else 1%float).
Proof. reflexivity. Qed.

(** idempotence: the same call on the state the first call left behind (any exp values the second
    time) returns the same uplink and leaves that state unchanged; [0 < now] because 0 is the code's
    "never latched" time stamp *)
Theorem C11_idempotent :
  forall s last now cfg exps exps',
    0 < now -> c_mode cfg = Enhanced ->
    select (snd (select s last now cfg exps)) last now cfg exps' = select s last now cfg exps.
Proof. exact select_idempotent. Qed.

(** the previous uplink is left only if it was not ranked (ineligible, or over its cap while an
    unconstrained uplink exists) or some ranked uplink's score is not below 1.10 x its score *)
Theorem C11_leave_only_if :
  forall s l now cfg exps i,
    c_mode cfg = Enhanced -> fst (select s (Some l) now cfg exps) = Some i -> i <> l ->
    nths (table s now cfg exps) l = None \/
    exists sl sj, nths (table s now cfg exps) l = Some sl /\ In (Some sj) (table s now cfg exps) /\
                  (sj <? sl * SWITCH_THRESHOLD)%float = false.
Proof. exact leave_only_if. Qed.

(** an uplink over its in-flight cap is never chosen while an unconstrained uplink exists *)
Theorem C11_cap_excluded :
  forall s last now cfg exps i c,
    c_mode cfg = Enhanced -> fst (select s last now cfg exps) = Some i ->
    nth_error (gate_of s now cfg) i = Some c -> au_of s now cfg = true ->
    in_flight_cap_exceeded c = false.
Proof. exact cap_excluded. Qed.

(** whatever is chosen was ranked (eligible: not timed out, registered, not stall-gated) *)
Theorem C11_chosen_is_candidate :
  forall s last now cfg exps i,
    c_mode cfg = Enhanced -> fst (select s last now cfg exps) = Some i ->
    exists c, nth_error (gate_of s now cfg) i = Some c /\ spec_candidate (au_of s now cfg) now c = true.
Proof. exact chosen_is_candidate. Qed.

(** the chosen uplink maximises the oracle score, unless it is the previous uplink and every ranked
    score is below 1.10 x its score *)
Theorem C11_argmax :
  forall s last now cfg exps i si,
    c_mode cfg = Enhanced -> Forall wfl s -> forallb exp_okb exps = true ->
    fst (select s last now cfg exps) = Some i -> nths (table s now cfg exps) i = Some si ->
    is_max (table s now cfg exps) si = true \/
    (last = Some i /\ all_below (table s now cfg exps) si = true).
Proof. exact argmax. Qed.

(** Headline: the model's own traces satisfy the monitor, for every history. *)
Theorem C11_run_ok : forall ops, wf_opsb ops = true -> ok_C11 (run ops) = true.
Proof. exact run_ok. Qed.

(** ---- witnesses -------------------------------------------------------------------------------- *)
Definition cfgE := Cfg Enhanced true true 32 3000 5000.
Definition mk (w inflight : Z) (weak : bool) (ph : phase) : link :=
  Lk true ph w inflight 0 (Some 999990) 0 900000 0 weak false 0 0 0 0 0 0 0 5000 false false 0 0 0 0 1 1000000.
(** hold inside the band (20 vs 19 in flight: 952 vs 1000 < 1.10 x 952), switch outside it (20 vs 17),
    weak link crushed to 2 % only while an unconstrained link exists, warming link at 80 % *)
Example C11_nonvacuous :
  fst (select [mk 20000 20 false PLive; mk 20000 19 false PLive] (Some 0%nat) 1000000 cfgE []) = Some 0%nat /\
  fst (select [mk 20000 20 false PLive; mk 20000 17 false PLive] (Some 0%nat) 1000000 cfgE []) = Some 1%nat /\
  fst (select [mk 20000 0 true PLive; mk 20000 40 false PLive] None 1000000 cfgE []) = Some 1%nat /\
  fst (select [mk 20000 0 true PLive; mk 20000 40 true PLive] None 1000000 cfgE []) = Some 0%nat /\
  fst (select [mk 20000 4 false PWarm; mk 20000 5 false PLive] None 1000000 cfgE []) = Some 1%nat /\
  table [mk 20000 4 false PWarm; mk 20000 0 true PLive; mk 20000 5 false PLive] 1000000 cfgE [] =
    [Some 3200%float; Some 400%float; Some 3333%float] /\
  wf_linkb (mk 20000 4 true PWarm) = true /\
  ok_C11 (run [OLoad [mk 20000 20 false PLive; mk 20000 19 true PDeg]; OSelect (Some 0%nat) 1000000 cfgE [];
               OSelect (Some 0%nat) 1000000 cfgE []; OUpd 1%nat (mk 20000 3 false PLive);
               OSelect (Some 0%nat) 1000040 cfgE []]) = true.
Proof. vm_compute. repeat split; reflexivity. Qed.
