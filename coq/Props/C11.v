(** Props/C11.v — C11 "Enhanced selection is stable, hysteretic and respects its gates".
    (first part: constants and factor ranges; the decision theorems follow below) *)
From Coq Require Import ZArith List Bool Floats.
From Srtla Require Import Base Constants FConstants Select Run_Sel Run_C11 FloatP SelFloatP SelectP.
Import ListNotations.
Local Open Scope Z_scope.

(** the literals the property text names: 1.10, 2 %, 80 %, 0.35 = (1-0.5) x 0.7, 1.1 x 1.03, 0.1, 50 ms, 30 s *)
Lemma constants_ok_C11 :
  SWITCH_THRESHOLD = 0x1.199999999999ap+0%float /\ SWITCH_THRESHOLD_micro = 1100000 /\
  GATED_LINK_PENALTY = 0x1.47ae147ae147bp-6%float /\ GATED_LINK_PENALTY_micro = 20000 /\
  WARMING_WEIGHT = 0x1.999999999999ap-1%float /\
  Q_LO = 0x1.6666666666666p-2%float /\ Q_HI = (0x1.199999999999ap+0 * 0x1.07ae147ae147bp+0)%float /\
  PERFECT_CONNECTION_BONUS_micro = 1100000 /\ MAX_RTT_BONUS_micro = 1030000 /\
  MAX_PENALTY_micro = 500000 /\ NAK_BURST_PENALTY_micro = 700000 /\
  CC_SOFT_CAP_FLOOR = 0x1.999999999999ap-4%float /\ CC_SOFT_CAP_FLOOR_micro = 100000 /\
  QUALITY_CACHE_INTERVAL_MS = 50 /\ STARTUP_GRACE_PERIOD_MS = 30000.
Proof. repeat split; reflexivity. Qed.

(** quality multiplier in [0.35, 1.1 x 1.03] whatever the link state, for any exp value in [0,1] *)
Theorem C11_quality_range :
  forall c now e, exp_okb e = true ->
    (Q_LO <=? calc_quality c now e)%float = true /\ (calc_quality c now e <=? Q_HI)%float = true.
Proof. intros c now e He. apply q_range_iff. now apply calc_quality_range. Qed.

(** soft-cap factor in [0.1, 1] for every measured bitrate (NaN, infinities and negatives included) *)
Theorem C11_soft_cap_range :
  forall c, 0 <= l_cct c <= u64_max ->
    (CC_SOFT_CAP_FLOOR <=? cc_soft_cap_multiplier c)%float = true /\
    (cc_soft_cap_multiplier c <=? 1)%float = true.
Proof. exact soft_cap_range. Qed.

(** RTT bonus in [1, 1.03] for every smoothed RTT (NaN and infinities included) *)
Theorem C11_rtt_bonus_range :
  forall c, (1 <=? rtt_bonus c)%float = true /\ (rtt_bonus c <=? MAX_RTT_BONUS)%float = true.
Proof. exact rtt_bonus_range. Qed.
