(** Props/C05.v — property C05 "A NAK is charged once, and only to a link that
    carried the packet".  Statements only; proofs are in Proofs/C05P.v. *)
From Srtla Require Import Base Constants Conn Run_Core ConnP CoreRunP Run_C02 SetP C02P Run_C05 C05P.

Theorem constants_ok_C05 :
  WINDOW_DECR = 100 /\ WINDOW_FLOOR = 1000 /\ SEQUENCE_TRACKING_MAX_AGE_MS = 5000 /\ SEQ_TRACKING_SIZE = 16384.
Proof. repeat split; reflexivity. Qed.

(** One NAK changes at most one link — by [handle_nak] — and that link held the number. *)
Theorem C05_at_most_one_charge : forall s seq now, SInv2 s ->
  exists l', links (step s (ONak seq now)) = l' /\
  (l' = links s \/
   exists k c, nth_error (links s) k = Some c /\ log_mem seq (log c) = true /\
               l' = upd k (fun x => fst (handle_nak x seq now)) (links s)).
Proof. exact at_most_one_charge. Qed.

(** The charge: one loss count (saturating), window - 100 floored at 1000, the number leaves
    the log, one in-flight slot. *)
Theorem C05_exact_charge : forall c seq now, Inv2 c -> log_mem seq (log c) = true ->
  exact_charge seq (obs_link c) (obs_link (fst (handle_nak c seq now))) = true.
Proof. exact exact_charge_nak. Qed.

(** While the tracker still names an existing link as the carrier, only that link can be
    charged — whatever the other links' logs contain (probe copies, re-routes). *)
Theorem C05_remembered_owner_exclusive : forall s seq now id pos c,
  trk_get (trk s) seq now = Some id -> find_pos id (links s) 0 = Some pos -> nth_error (links s) pos = Some c ->
  links (step s (ONak seq now)) =
    if log_mem seq (log c) then upd pos (fun x => fst (handle_nak x seq now)) (links s) else links s.
Proof. exact remembered_owner_exclusive. Qed.

(** A NAK for a number a link does not hold leaves that link untouched (so an unknown NAK,
    or a repeated one while the owner is remembered, changes nothing). *)
Theorem C05_unknown_or_repeated_noop : forall c seq now, log_mem seq (log c) = false -> fst (handle_nak c seq now) = c.
Proof. intros c seq now H. exact (proj1 (foreign_untouched c seq false now H)). Qed.

(** The tracker answers only for the exact number stored: a colliding newer number displaces it. *)
Theorem C05_displacement : forall t seq id now seq2 id2 now2,
  slot seq2 = slot seq -> seq2 <> seq -> trk_get (trk_insert (trk_insert t seq id now) seq2 id2 now2) seq now2 = None.
Proof. exact tracker_displacement. Qed.

Theorem C05_monitor_holds : forall ids ops, Forall wf2 ops -> check_with mon_C05 (model_case ids ops) = 0%N.
Proof. exact monitor_holds5. Qed.

(** Non-vacuity. *)
Example C05_probe_copy_not_charged :
  map (fun c => (nak_count (cg c), window c, in_flight c))
      (links (run_from (init [11; 12])
         [OTrack 0 7 100; ORegister 0 7 100; ORegister 1 7 100; ONak 7 200; ONak 7 201])) =
  [(1, 19900, 0); (0, 20000, 1)].
Proof. vm_compute. reflexivity. Qed.
Example C05_expired_record_falls_back :
  map (fun c => nak_count (cg c))
      (links (run_from (init [11; 12]) [OTrack 1 7 100; ORegister 0 7 100; ORegister 1 7 100; ONak 7 5101])) = [1; 0].
Proof. vm_compute. reflexivity. Qed.
Example C05_monitor_rejects_double_charge :
  check_with mon_C05 {| c_ids := [11; 12]; c_init := obs_state (init [11; 12]);
     c_steps := [(ORegister 0 7 1, [([0; 20000; 1; -2147483648; -1; 0; 0; 0; 0; 0; 0; 0; 0], [7]); ([0; 20000; 0; -2147483648; -1; 0; 0; 0; 0; 0; 0; 0; 0], [])]);
                 (ONak 7 2, [([0; 19900; 0; -2147483648; -1; 0; 1; 2; 0; 0; 0; 0; 0], []); ([0; 19900; 0; -2147483648; -1; 0; 1; 2; 0; 0; 0; 0; 0], [])])] |} <> 0%N.
Proof. vm_compute. discriminate. Qed.
