(** Props/C18.v — property C18 "Runtime control protocol is total, well-formed and takes
    effect".  ONLY statements, their one-line proofs from the lemma files, constant
    obligations and non-vacuity examples.

    Reading guide.  [spec_request], [spec_expect], [params_ok], [known_method], [spec_setting]
    (Model/ControlSpec.v) are the protocol as the property text and docs/CONTROL_PROTOCOL.md state
    it; [dispatch] / [dispatch_async] (Model/Control.v) are the model of src/control.rs;
    [response_of ent] / [config_after ent] select the entry point ([Stdin] = `dispatch`,
    [Socket ctx] = `dispatch_async` with/without a subscription context). *)
From Srtla Require Import Base Constants Json Control ControlSpec ControlConc JsonP DecodeP ControlP Run_C18 C18P ConcP.
Local Open Scope string_scope.
Local Open Scope Z_scope.

(** Constants the property names, tied to the generated file. *)
Theorem constants_ok_C18 :
  PARSE_ERROR = -32700 /\ INVALID_REQUEST = -32600 /\ METHOD_NOT_FOUND = -32601 /\
  INVALID_PARAMS = -32602 /\ INTERNAL_ERROR = -32603 /\
  CONN_TIMEOUT_MS_MIN = 1000 /\ CONN_TIMEOUT_MS_MAX = 60000 /\
  CONN_TIMEOUT_MS_MIN <= CONN_TIMEOUT_MS <= CONN_TIMEOUT_MS_MAX.
Proof. repeat split; (reflexivity || discriminate). Qed.

(** The serde-derived decoder (walk over members with per-field "seen" state; positional form)
    accepts exactly the declarative request shape, with the same version/method/params/id. *)
Theorem C18_request_shape : forall j, option_map req_tuple (decode_request j) = spec_request j.
Proof. exact decode_spec. Qed.

(** HEADLINE: on every history (any constructor arguments, any lines, any stats / counter
    oracles, with or without a subscription context) the model's own trace satisfies the
    monitor — every clause of the property text, on both entry points. *)
Theorem C18_monitor_holds : forall i ctx ops, ok_C18 ctx (run i ctx ops) = true.
Proof. exact model_ok. Qed.

(** Totality: the dispatcher returns (never the Panic outcome) for every line on either entry
    point; the constructor never panics either. *)
Theorem C18_total : forall ent c h e l, exists r, response_of ent c h e l = Done r.
Proof. exact total_no_panic. Qed.
Theorem C18_init_total : forall i, exists c, cfg_init i = Some c /\ in_timeout_range c = true.
Proof. exact cfg_init_ok. Qed.

(** A request with an id gets exactly one response, echoing the id, with a result or the error
    code of its cause. *)
Theorem C18_exactly_one_response : forall ent c h e j v me p id,
  spec_request j = Some (v, me, p, Some id) ->
  exists b, response_of ent c h e (Parsed j) = Done (Some {| rs_id := id; rs_body := b |}) /\
    (v <> "2.0" -> b = BError (-32600)) /\
    (v = "2.0" -> known_method ent me = false -> b = BError (-32601)) /\
    (v = "2.0" -> known_method ent me = true -> params_ok me p = false -> b = BError (-32602)) /\
    (v = "2.0" -> known_method ent me = true -> params_ok me p = true ->
       (exists r, b = BResult r) \/ (me = "get_stats" /\ b = BError (-32603))).
Proof. exact exactly_one_response. Qed.

(** Unparsable text, and valid JSON that is not a request, get -32700 with a null id and change
    nothing; a blank line gets nothing. *)
Theorem C18_unparsable : forall ent c h e l,
  l <> Blank -> line_request l = None ->
  response_of ent c h e l = Done (Some {| rs_id := JNull; rs_body := BError (-32700) |}) /\
  config_after ent c h e l = c.
Proof. exact unparsable_gets_parse_error. Qed.
Theorem C18_blank : forall ent c h e,
  response_of ent c h e Blank = Done None /\ config_after ent c h e Blank = c.
Proof. exact blank_gets_nothing. Qed.

(** The rendered response is a well-formed JSON-RPC 2.0 object carrying that id and body. *)
Theorem C18_response_wellformed : forall r,
  parse_response (render r) = Some (rs_id r, rbody_of (rs_body r)).
Proof. exact parse_response_render. Qed.

(** A notification (no id, or id null) gets no response and is applied exactly like the same
    request carrying an id — configuration and subscription state. *)
Theorem C18_notification_applied : forall ent c h e j j' v me p id,
  spec_request j = Some (v, me, p, None) ->
  spec_request j' = Some (v, me, p, Some id) ->
  response_of ent c h e (Parsed j) = Done None /\
  config_after ent c h e (Parsed j) = config_after ent c h e (Parsed j') /\
  (forall ctx, snd (dispatch_async ctx c h e (Parsed j)) = snd (dispatch_async ctx c h e (Parsed j'))).
Proof. exact notification_applied. Qed.

(** The configuration after a line is the configuration before with the line's setting applied
    (nothing else ever changes it), on either entry point. *)
Theorem C18_effect : forall ent c h e l, config_after ent c h e l = apply_setting c (spec_setting l).
Proof. exact config_after_spec. Qed.

(** Takes effect: after ANY history both configurations are equal and show, per field, the last
    value successfully set (by request or notification); `get_status` answers with exactly that
    configuration, so it shows it too. *)
Theorem C18_set_visible : forall i ctx ops c,
  cfg_init i = Some c ->
  let s := final_state ctx (init_state c) ops in
  let t := tracked_of tracked_none ops in
  s_sync s = s_async s /\
  snap_shows t (s_sync s) = true /\
  (forall e, status_shows t (status_json (s_sync s) e) = true) /\
  (forall ent e j p id, spec_request j = Some ("2.0", "get_status", p, Some id) ->
     response_of ent (s_sync s) (s_hub s) e (Parsed j) =
       Done (Some {| rs_id := id; rs_body := BResult (status_json (s_sync s) e) |})).
Proof. exact set_visible. Qed.
Theorem C18_tracked_is_last_set : forall t ops1 o ops2 s,
  spec_setting (o_line o) = Some s -> Forall (untouched s) ops2 ->
  holds (tracked_of t (ops1 ++ o :: ops2)%list) s.
Proof. exact tracked_last. Qed.

(** The timeout is within 1000..60000 after every history, and set_conn_timeout stores and
    echoes the clamped value. *)
Theorem C18_timeout_clamped : forall i ctx ops,
  exists c, cfg_init i = Some c /\
    1000 <= c_timeout (s_sync (final_state ctx (init_state c) ops)) <= 60000 /\
    1000 <= c_timeout (s_async (final_state ctx (init_state c) ops)) <= 60000.
Proof. exact timeout_always_clamped. Qed.
Theorem C18_timeout_echoed : forall ent c h e j p id ms,
  spec_request j = Some ("2.0", "set_conn_timeout", p, id) ->
  vget p "ms" = Some (JInt ms) -> 0 <= ms < two64 ->
  let applied := Z.min 60000 (Z.max 1000 ms) in
  response_of ent c h e (Parsed j) =
    Done (option_map (fun i => {| rs_id := i; rs_body := BResult (JObj [("ms", JInt applied)]) |}) id) /\
  config_after ent c h e (Parsed j) = store_timeout c applied /\
  1000 <= applied <= 60000.
Proof. exact timeout_echoed. Qed.

(** stdin and socket: identical outcome (response, configuration) for every line that is not a
    subscription-method request on a subscription-capable socket; and never a different
    configuration effect for any line at all. *)
Theorem C18_sync_async_agree : forall ctx c h e l,
  (match line_request l with
   | Some (_, me, _, _) => ctx && is_sub_method me = false
   | None => True
   end) ->
  dispatch_async ctx c h e l = (dispatch c e l, h).
Proof. exact async_agrees. Qed.
Theorem C18_sync_async_same_config : forall ctx c h e l,
  snd (fst (dispatch_async ctx c h e l)) = snd (dispatch c e l).
Proof. exact async_config_same. Qed.

(** Concurrency (schedules): setters and snapshot readers as interleavings of single atomic
    stores / loads (Model/ControlConc.v). *)
Theorem C18_conc_sequential_is_dispatch : forall c e l,
  let '(m', loads) := exec_actions (mem_of c) (actions_of l) in
  snapshot_of m' = snd (dispatch c e l) /\ fst (dispatch c e l) = respond_conc e l loads.
Proof. exact conc_sequential. Qed.
(** any number of threads, each running any list of lines, under any schedule: the stored
    timeout and every timeout a snapshot loads are within 1000..60000 *)
Theorem C18_conc_timeout_clamped : forall (progs : list (list line_outcome)) sched m,
  1000 <= m_timeout m <= 60000 ->
  let '(m', evs) := run_sched m (map (fun p => List.concat (map actions_of p)) progs) sched in
  1000 <= m_timeout m' <= 60000 /\
  Forall (fun ev : event => match ev with (_, ALoad FTimeout, v) => 1000 <= v <= 60000 | _ => True end) evs.
Proof. exact conc_timeout_clamped. Qed.
(** every load returns the latest value stored to that field before it (or the initial one) *)
Theorem C18_conc_loads_were_stored : forall thr sched m,
  let '(m', evs) := run_sched m thr sched in
  forall pre tid f v post, evs = (pre ++ (tid, ALoad f, v) :: post)%list ->
    v = last_store f pre (get_field m f).
Proof. exact conc_loads_were_stored. Qed.
Theorem C18_conc_loads_not_invented : forall thr sched m,
  let '(m', evs) := run_sched m thr sched in
  forall pre tid f v post, evs = (pre ++ (tid, ALoad f, v) :: post)%list ->
    v = get_field m f \/ exists tid' x, In (tid', AStore f v, x) pre.
Proof. exact conc_loads_not_invented. Qed.
(** the final content of a field is its last store in schedule order; other fields' stores commute *)
Theorem C18_conc_last_store_wins : forall thr sched m f,
  let '(m', evs) := run_sched m thr sched in get_field m' f = last_store f evs (get_field m f).
Proof. exact conc_last_store_wins. Qed.

(** Non-vacuity: the interesting branches are reached by concrete lines. *)
Example C18_ex_positional :
  spec_request (JArr [JStr "2.0"; JStr "get_status"; JNull; JInt 7]) = Some ("2.0", "get_status", JNull, Some (JInt 7)).
Proof. reflexivity. Qed.
Example C18_ex_null_id_is_notification :
  spec_request (JObj [("jsonrpc", JStr "2.0"); ("method", JStr "set_mode"); ("id", JNull)]) =
  Some ("2.0", "set_mode", JNull, None).
Proof. reflexivity. Qed.
Example C18_ex_duplicate_id_unparsable :
  spec_request (JObj [("jsonrpc", JStr "2.0"); ("method", JStr "get_status"); ("id", JInt 1); ("id", JInt 2)]) = None.
Proof. reflexivity. Qed.
Example C18_ex_clamp_low :
  fst (dispatch cfg_new (Env NoStats None)
         (Parsed (JObj [("jsonrpc", JStr "2.0"); ("id", JInt 1); ("method", JStr "set_conn_timeout");
                        ("params", JObj [("ms", JInt 5)])]))) =
  Done (Some {| rs_id := JInt 1; rs_body := BResult (JObj [("ms", JInt 1000)]) |}).
Proof. reflexivity. Qed.
Example C18_ex_history :
  let set_to := fun z => Op (Env NoStats None)
     (Parsed (JObj [("jsonrpc", JStr "2.0"); ("method", JStr "set_conn_timeout"); ("params", JObj [("ms", JInt z)])])) in
  let junk := Op (Env NoStats None) Unparsable in
  c_timeout (s_async (final_state true (init_state cfg_new) [set_to 70000; junk; set_to 2500; junk])) = 2500 /\
  tk_timeout (tracked_of tracked_none [set_to 70000; junk; set_to 2500; junk]) = Some 2500.
Proof. split; reflexivity. Qed.
Example C18_ex_subscribe_differs :
  fst (dispatch cfg_new (Env NoStats None)
         (Parsed (JArr [JStr "2.0"; JStr "subscribe"; JObj [("topic", JStr "stats")]; JInt 1]))) =
  Done (Some {| rs_id := JInt 1; rs_body := BError (-32601) |}) /\
  fst (fst (dispatch_async true cfg_new hub_new (Env NoStats None)
         (Parsed (JArr [JStr "2.0"; JStr "subscribe"; JObj [("topic", JStr "stats")]; JInt 1])))) =
  Done (Some {| rs_id := JInt 1; rs_body := BResult (JObj [("subscription_id", JStr "sub-0")]) |}).
Proof. split; reflexivity. Qed.
Example C18_ex_interleaving :
  (* two setters and a reader: the reader's snapshot mixes values of different moments *)
  let line := fun me k v => Parsed (JObj [("jsonrpc", JStr "2.0"); ("method", JStr me); ("params", JObj [(k, v)])]) in
  let status := Parsed (JObj [("jsonrpc", JStr "2.0"); ("method", JStr "get_status"); ("id", JInt 1)]) in
  let thr := map (fun p => List.concat (map actions_of p))
                 [[line "set_conn_timeout" "ms" (JInt 7)]; [status]; [line "set_quality" "enabled" (JBool false)]] in
  map (fun ev : event => snd ev) (snd (run_sched (mem_of cfg_new) thr [1; 1; 2; 1; 1; 1; 0; 1]%nat)) =
  [1; 1; 0; 1; 32; 3000; 1000; 1000].
Proof. reflexivity. Qed.
Example C18_ex_monitor_rejects :
  (* the monitor is not trivially true: a status that hides a set value is flagged (clause 8) *)
  let line := Parsed (JObj [("jsonrpc", JStr "2.0"); ("id", JInt 1); ("method", JStr "get_status")]) in
  mon_result line {| tk_mode := Some Classic; tk_quality := None; tk_stall := None; tk_timeout := None |}
             (status_json cfg_new (Env NoStats None)) = 8%N.
Proof. reflexivity. Qed.
