(** Props/C12.v — property C12 "The stall guard is a routing penalty only; off means
    baseline".  ONLY statements, one-line proofs from the lemma files, non-vacuity examples.
    (The property text names no numeric literal, so there is no constants obligation.)

    Vocabulary (Model/Stall.v, StallSel.v, StallOps.v, Run/Run_C12.v):
    [select cfg last now ins ls] = [select_connection_idx]: the post-state of the links AND
    the decision; a [link] is split into [la] (liveness / accounting: connected flag, window,
    in-flight count, packet-log size, receive / send / keepalive stamps, proof stamp, NAK and
    burst counters, phase, reconnect state, opaque rest), [lx] (other decision inputs: queued
    count, weak / loss-degraded flags, CC target, bitrate, smoothed RTT), [lg] (guard-private:
    stall_gated, latch, rejoin run, lifetime counters, probe counter, silence pull) and [lc]
    (conn_timeout_ms, quality cache);  [forget_stall] erases ALL guard-private state;
    [ins] = per-link oracle inputs of the enhanced scorer (quality multiplier incl. libm exp,
    in-flight-cap verdict), functions of accounting state only. *)
From Coq Require Import Floats.
From Srtla Require Import Base Constants FConstants Stall StallSel StallOps Run_Stall Run_C12 StallP C12P.
Local Open Scope Z_scope.

(** HEADLINE.  Every history of the model satisfies the C12 monitor (view before = view after
    each decision; guard off => everything cleared and decision = history-free decision;
    counters monotone), for ALL op lists from ALL states. *)
Theorem C12_monitor_holds : forall ops s, ok_C12 (trace12 s ops) = true.
Proof. exact monitor12_holds. Qed.

(** Non-interference: whatever the guard decides, in both modes, from any state, a decision
    leaves every link's liveness / accounting state and other decision inputs untouched. *)
Theorem C12_noninterference : forall cfg last now ins ls,
  map la (fst (select cfg last now ins ls)) = map la ls /\
  map lx (fst (select cfg last now ins ls)) = map lx ls.
Proof. exact select_noninterference. Qed.

(** ... what it may write, link by link: guard-private state (as [gate_guard] of the link's
    own pre-state, up to the gated flag), the refreshed timeout, the quality cache. *)
Theorem C12_writes_only_guard_and_cache : forall cfg last now ins ls,
  Forall2 (decided now cfg) ls (fst (select cfg last now ins ls)).
Proof. exact select_decided. Qed.

Theorem C12_history_noninterference : forall ops s, forallb is_select ops = true ->
  map la (run s ops) = map la s /\ map lx (run s ops) = map lx s.
Proof. exact decisions_never_touch_view. Qed.

(** Guard off: flag, pull, latch and rejoin run are cleared on every link. *)
Theorem C12_off_clears : forall cfg last now ins ls, cf_guard cfg = false ->
  forallb cleared (fst (select cfg last now ins ls)) = true.
Proof. exact select_off_clears. Qed.

(** Guard off: the decision — and the whole post-state up to the erased history — is the one
    taken on the same links with no stall history at all. *)
Theorem C12_off_is_baseline : forall cfg last now ins ls, cf_guard cfg = false ->
  snd (select cfg last now ins (map forget_stall ls)) = snd (select cfg last now ins ls) /\
  fst (select cfg last now ins (map forget_stall ls)) = map forget_stall (fst (select cfg last now ins ls)).
Proof. exact select_off_is_baseline. Qed.

(** The lifetime counters never decrease and move by at most one per decision. *)
Theorem C12_counters_monotone : forall cfg last now ins ls,
  all2 counters_ok ls (fst (select cfg last now ins ls)) = true.
Proof. exact select_counters. Qed.

(** ---- non-vacuity ------------------------------------------------------------------- *)
(** link 0 has the better score but is latched; link 1 is healthy.  Guard on: the penalty
    routes to link 1.  Guard off: the decision is link 0 — the decision on the history-free
    links — and the latch is gone. *)
Definition lk (inflight latched : Z) : link :=
  mkL (mkA true 20000 inflight inflight (Some 99000) None None 90000 0 0 2 1000 1000 0 0 [])
      (mkG false latched 0 1 0 false 0) (mkX 0 false false 0 0%float false 0) (mkC 5000 1%float 0).
Definition two : list link := [lk 1 95000; lk 5 0].
Definition on_cfg (classic : bool) : config := mkCfg classic true true 32 3000 5000.
Definition off_cfg (classic : bool) : config := mkCfg classic true false 32 3000 5000.
Definition ins2 : list selin := [selin0; selin0].

Example penalty_matters :
  snd (select (on_cfg true) None 100000 ins2 two) = Some 1 /\
  snd (select (on_cfg false) None 100000 ins2 two) = Some 1 /\
  snd (select (off_cfg true) None 100000 ins2 two) = Some 0 /\
  snd (select (off_cfg false) None 100000 ins2 two) = Some 0 /\
  snd (select (off_cfg false) None 100000 ins2 (map forget_stall two)) = Some 0 /\
  map (fun l => g_latched (lg l)) (fst (select (off_cfg false) None 100000 ins2 two)) = [0; 0] /\
  map (fun l => g_latched (lg l)) (fst (select (on_cfg false) None 100000 ins2 two)) = [95000; 0].
Proof. repeat split; vm_compute; reflexivity. Qed.
