(** Props/C13.v — property C13 "Stall latch: quick to drop, conservative to rejoin,
    never blind".  ONLY statements, their one-line proofs from the lemma files, the
    constant obligations and non-vacuity examples.

    Vocabulary (Model/Stall.v, Model/StallOps.v, Run/Run_C13.v):
    a [link] = accounting [la], guard-private state [lg], further decision inputs [lx],
    refreshed caches [lc];  [step s o] runs one op of a history on the link vector
    (environment ops: in-flight changes, inbound bytes, earned ACKs, keepalive echoes,
    connect/disconnect, resets, foreign-field updates; [OSelect] = one real
    [select_connection_idx] call);  [trace s ops] records pre/post state of every op;
    [eff_stale x ceiling] = the effective staleness window, [dwell] = the rejoin dwell,
    [pull_window] = the silence-pull window, [proof_fresh] = proof present and younger
    than the window;  [ok_C13] = the property as a monitor over an observable trace
    (the same monitor is evaluated on the real code's traces on every check run).
    Times are u64 milliseconds; the smoothed RTT enters in whole milliseconds
    ([x_rttms] = [srtt as u64], [x_rttpos] = not [srtt <= 0.0]). *)
From Coq Require Import Floats.
From Srtla Require Import Base Constants FConstants Stall StallSel StallOps Run_Stall Run_C13 StallP C13P.
Local Open Scope Z_scope.

(** The literals the property text names ("4 x smoothed RTT", "1000 ms", "twice that
    window") and the pull window's (250 ms, 2 x RTT), tied to the generated constants. *)
Theorem constants_ok_C13 :
  STALL_STALE_RTT_MULT = 4 /\ STALL_STALE_FLOOR_MS = 1000 /\ STALL_REJOIN_DWELL_MULT = 2 /\
  SILENCE_PULL_FLOOR_MS = 250 /\ SILENCE_PULL_RTT_MULT = 2.
Proof. repeat split; reflexivity. Qed.

(** HEADLINE.  Every history of the model, from every admissible initial state, satisfies
    the property monitor: for ALL op lists (no bound on length, links, times). *)
Theorem C13_monitor_holds : forall s ops,
  good_init s -> forallb op_ok ops = true -> ok_C13 (length s) (trace s ops) = true.
Proof. exact monitor_holds. Qed.

(** The effective staleness window is clamp(4 x srtt, 1000, ceiling) in u64 arithmetic;
    no RTT baseline => ceiling; a ceiling below the floor wins. *)
Theorem C13_eff_window : forall x ceil,
  eff_stale x ceil =
  if x_rttpos x then Z.min (Z.max (sat_mul_u64 (x_rttms x) 4) 1000) ceil else ceil.
Proof. exact eff_window_spec. Qed.
Theorem C13_eff_window_bounds : forall x ceil,
  (x_rttpos x = false -> eff_stale x ceil = ceil) /\
  (ceil < 1000 -> eff_stale x ceil = ceil) /\
  (1000 <= ceil -> x_rttpos x = true -> 1000 <= eff_stale x ceil <= ceil) /\
  (x_rttpos x = true -> 0 <= x_rttms x -> 4 * x_rttms x <= u64_max ->
   eff_stale x ceil = Z.min (Z.max (4 * x_rttms x) 1000) ceil).
Proof. exact eff_window_bounds. Qed.

(** Engage.  Whatever op takes a link from not-latched to latched, from ANY state, is a
    routing decision with the guard on at which the link had delivery proof, at least the
    effective window old, and was connected with in-flight >= the configured backlog or
    held by the silence pull; the latch time is that decision's clock, the lifetime
    counter moves by one and no rejoin run is in progress. *)
Theorem C13_engage_sound : forall i s o l l',
  nth_error s i = Some l -> nth_error (fst (step s o)) i = Some l' ->
  g_latched (lg l) = 0 -> g_latched (lg l') <> 0 ->
  exists last now cfg ins, o = OSelect last now cfg ins /\ cf_guard cfg = true /\
    a_proof (la l) <> 0 /\ eff_stale (lx l) (cf_ceil cfg) <= ssub now (a_proof (la l)) /\
    ((a_conn (la l) = true /\ cf_min cfg <= a_inflight (la l)) \/ g_pulled (lg l') = true) /\
    g_latched (lg l') = now /\ g_events (lg l') = g_events (lg l) + 1 /\ g_recovery (lg l') = 0.
Proof. exact engage_sound. Qed.

(** Never blind.  Along every history (clock readings positive), a link that is latched has
    produced delivery proof; in particular a link whose stamp is 0 is never latched. *)
Theorem C13_never_without_proof : forall ops s,
  Forall seen_proof s -> forallb op_ok ops = true ->
  Forall (fun l => latched l = true -> a_proof (la l) <> 0) (run s ops).
Proof. exact never_without_proof. Qed.

(** Release, one step.  Whatever op takes a link from latched to not-latched, from ANY
    state, is a reset, a decision with the guard off, or a decision at which proof is fresh
    and the rejoin run (started at [stall_recovery_since_ms], or right now) spans the dwell. *)
Theorem C13_release_cases : forall i s o l l',
  nth_error s i = Some l -> nth_error (fst (step s o)) i = Some l' ->
  g_latched (lg l) <> 0 -> g_latched (lg l') = 0 ->
  (exists j, o = OReset j) \/
  exists last now cfg ins, o = OSelect last now cfg ins /\
    (cf_guard cfg = false \/
     (proof_fresh (la l) (lx l) now (cf_ceil cfg) = true /\
      dwell (lx l) (cf_ceil cfg) <= ssub now (if g_recovery (lg l) =? 0 then now else g_recovery (lg l)))).
Proof. exact release_cases. Qed.

(** Release, over the history (the invariant ties [stall_recovery_since_ms] to the trace).
    At a guard-on decision [t] of any history at which link [i] goes from latched to
    not-latched there is a start time S with now - S >= dwell = 2 x window such that the
    history up to and including [t] ends with an uninterrupted run, begun by a decision at
    time S, in which EVERY decision saw fresh proof with the guard on and the link was never
    reset. *)
Theorem C13_release_needs_dwell : forall s ops i pre t post last now cfg ins l l',
  good_init s -> forallb op_ok ops = true ->
  trace s ops = pre ++ t :: post ->
  t_op t = OSelect last now cfg ins -> cf_guard cfg = true ->
  nth_error (t_pre t) i = Some l -> nth_error (t_post t) i = Some l' ->
  latched l = true -> latched l' = false ->
  exists S, fresh_run_from i (pre ++ [t]) S /\ dwell (lx l) (cf_ceil cfg) <= ssub now S.
Proof. exact release_needs_dwell. Qed.
Theorem C13_dwell_is_twice_window : forall x ceil,
  dwell x ceil = sat_mul_u64 (eff_stale x ceil) 2 /\
  (0 <= eff_stale x ceil -> 2 * eff_stale x ceil <= u64_max -> dwell x ceil = 2 * eff_stale x ceil).
Proof. intros; split; [apply dwell_spec | apply dwell_twice]. Qed.

(** Corollary: a single stamp never releases, nor does a draining backlog.  From ANY state in
    which link [i] is latched on stamp [p] with no rejoin run older than the stamp, along
    any history of guard-on decisions (clock >= p) and environment ops that bring link [i]
    no NEW proof and no reset — in-flight, inbound bytes, connection state and RTT may
    change freely — the link is still latched. *)
Theorem C13_single_proof_no_release : forall ops i p s l,
  nth_error s i = Some l -> held p l -> Forall (calm i p) ops ->
  exists l', nth_error (run s ops) i = Some l' /\ held p l'.
Proof. exact single_proof_no_release. Qed.

(** Silence pull: falls only when heard from within the window, or disconnected (or reset /
    guard off); rises only on a connected, loaded link silent for the whole window. *)
Theorem C13_pull_release : forall i s o l l',
  nth_error s i = Some l -> nth_error (fst (step s o)) i = Some l' ->
  g_pulled (lg l) = true -> g_pulled (lg l') = false ->
  (exists j, o = OReset j) \/
  exists last now cfg ins, o = OSelect last now cfg ins /\
    (cf_guard cfg = false \/ a_conn (la l) = false \/
     exists lr, a_lastrecv (la l) = Some lr /\ ssub now lr < pull_window (lx l) (cf_ceil cfg)).
Proof. exact pull_release_cases. Qed.
Theorem C13_pull_engage : forall i s o l l',
  nth_error s i = Some l -> nth_error (fst (step s o)) i = Some l' ->
  g_pulled (lg l) = false -> g_pulled (lg l') = true ->
  exists last now cfg ins, o = OSelect last now cfg ins /\ cf_guard cfg = true /\
    a_conn (la l) = true /\ cf_min cfg <= a_inflight (la l) /\
    (exists lr, a_lastrecv (la l) = Some lr /\ pull_window (lx l) (cf_ceil cfg) <= ssub now lr) /\
    g_pulls (lg l') = g_pulls (lg l) + 1.
Proof. exact pull_engage_cases. Qed.
Theorem C13_pull_window : forall x ceil,
  pull_window x ceil =
  Z.min (if x_rttpos x then Z.max (sat_mul_u64 (x_rttms x) 2) 250 else 250) (eff_stale x ceil).
Proof. exact pull_window_spec. Qed.

(** ---- non-vacuity ------------------------------------------------------------------- *)
Definition up (t0 : Z) : link :=
  mkL (mkA true 20000 0 0 (Some t0) None None 0 0 0 2 t0 t0 0 0 [])
      (mkG false 0 0 0 0 false 0) (mkX 0 false false 0 0%float false 0) (mkC 5000 1%float 0).
Definition cfg0 : config := mkCfg false true true 32 3000 5000.
Definition ins0 : list selin := [selin0; selin0].

(** fresh links are admissible initial states *)
Example good_init_fresh : good_init [link0 7; link0 7; up 100].
Proof.
  unfold good_init. repeat (apply Forall_cons; [intros H; vm_compute in H; discriminate H|]). apply Forall_nil.
Qed.

(** a loaded link whose proof is 3000 ms old is latched — and not one ms earlier *)
Definition h_engage (dt : Z) : list op :=
  [OReg 0 40 100000; OSrtlaAck 0 true 100000; OInbound 1 (100000 + dt); OInbound 0 (100000 + dt);
   OSelect None (100000 + dt) cfg0 ins0].
Example engages_at_window :
  map (fun l => g_latched (lg l)) (run [up 100000; up 100000] (h_engage 3000)) = [103000; 0] /\
  map (fun l => g_latched (lg l)) (run [up 100000; up 100000] (h_engage 2999)) = [0; 0].
Proof. split; vm_compute; reflexivity. Qed.

(** after the latch: one echo per second keeps the proof fresh; the link rejoins at exactly
    2 x 3000 ms after the first fresh decision (109300 - 103300), not one ms earlier *)
Fixpoint keep_fresh (n : nat) (t : Z) : list op :=
  match n with
  | O => []
  | S k => OInbound 1 t :: OEcho 0 true (t - 40) t :: OSelect (Some 1) t cfg0 ins0 :: keep_fresh k (t + 1000)
  end.
Definition h_rejoin (last : Z) : list op :=
  h_engage 3000 ++ keep_fresh 6 103300 ++ [OInbound 1 last; OEcho 0 true (last - 40) last; OSelect (Some 1) last cfg0 ins0].
Example rejoins_after_dwell :
  map (fun l => g_latched (lg l)) (run [up 100000; up 100000] (h_rejoin 109299)) = [103000; 0] /\
  map (fun l => g_latched (lg l)) (run [up 100000; up 100000] (h_rejoin 109300)) = [0; 0].
Proof. split; vm_compute; reflexivity. Qed.

(** the histories above are well-formed, so the headline theorem applies to them *)
Example histories_wf : forallb op_ok (h_rejoin 109300) = true.
Proof. vm_compute; reflexivity. Qed.

(** a calm segment exists: after the latch, a single earned ACK's stamp, then draining and
    decisions for 20 s — still latched (instance of the corollary's premises) *)
Example calm_nonvacuous :
  Forall (calm 0 103100) [OSrtAck 0 100; OInbound 0 103200; OSelect (Some 1) 104000 cfg0 ins0;
                          OSelect (Some 1) 123000 cfg0 ins0].
Proof. repeat constructor; cbn; intros; try reflexivity; try lia; try discriminate. Qed.
