(** Props/C01.v — property C01 "Uplink path forwards every SRT datagram intact,
    once, in per-link order".  ONLY statements, their one-line proofs from the
    lemma files (Proofs/ForwardP.v, Proofs/C01P.v), the constant obligations and
    non-vacuity examples.  All theorems quantify over every initial link
    configuration [xs] (1..n uplinks, any regime, any probe-counter phase, with or
    without I/O), every op list (every interleaving of client packets, flush
    ticks, regime changes, resets, REG3/REG_ERR, housekeeping, uplink packets),
    every scheduler answer [sel], every gate vector and every sendmmsg oracle. *)
From Coq Require Import Permutation.
From Srtla Require Import Base Constants Wire Forward ForwardP Run_C01 C01P.

(** The literals of the property text, tied to the constants regenerated from /repo. *)
Theorem constants_ok_C01 :
  BATCH_SIZE_LOW_ACTIVITY = 4 /\ BATCH_SIZE_NORMAL = 16 /\ BATCH_SIZE_HIGH_LOAD = 32 /\
  BATCH_SEND_SIZE = 32 /\ BATCH_SIZE_HIGH_LOAD <= BATCH_SEND_SIZE /\
  FLUSH_INTERVAL_MS = 15 /\ BATCH_FLUSH_INTERVAL_MS = 15 /\
  STALL_PROBE_ONE_IN_N = 100 /\ MTU = 1500 /\
  SRTLA_TYPE_KEEPALIVE = 36864 /\ SRTLA_TYPE_REG1 = 37376 /\ SRTLA_TYPE_REG2 = 37377.
Proof. repeat split; try reflexivity; try (vm_compute; discriminate). Qed.

(** HEADLINE.  Every trace of the model satisfies the monitor, i.e. all clauses of the
    property text at once (intact, once, per-link order, hold bound, flush tick empties,
    duplicates only on gated links at most one per 100 routed data packets, losses only
    on failed / reset uplinks).  [wf_init]: probe counters start in 0..99 (the code keeps
    them there); [wf_ops]: the datagrams the sender itself originates in housekeeping /
    uplink steps are SRTLA control frames (checked on the real trace by clause 8). *)
Theorem C01_model_satisfies_monitor : forall xs ops,
  wf_init xs -> wf_ops ops -> ok_C01 xs (run xs ops) = true.
Proof. exact model_traces_ok. Qed.

(** Every copy ever accepted on an uplink is, exactly once, on the wire, lost, or still queued. *)
Theorem C01_conservation : forall xs ops, wf_init xs ->
  Forall (fun l => Permutation (acc l) (wire_of l ++ lost_of l ++ map cpy_of (queue l)))
         (exec (init xs) ops).
Proof. exact conservation_all. Qed.

(** Bytes unchanged, exactly one uplink: the unique copies accepted on uplink j are exactly
    the client datagrams the scheduler routed to j, byte for byte, in arrival order;
    and one op routes its datagram to at most one uplink. *)
Theorem C01_bytes_unchanged : forall xs ops j, (j < length xs)%nat ->
  uniques (nth j (exec (init xs) ops) dlink) = routed_to j ops.
Proof. exact unique_once. Qed.
Theorem C01_one_uplink : forall o j1 j2, j1 <> j2 -> routed_to_op j1 o = [] \/ routed_to_op j2 o = [].
Proof. exact routed_one_uplink. Qed.

(** Per-link FIFO: what reached the wire is a subsequence of the arrival order, and the
    still-queued copies are exactly the most recent arrivals. *)
Theorem C01_fifo : forall xs ops, wf_init xs ->
  Forall (fun l => subseq (wire_of l) (acc l) /\
                   exists done, acc l = done ++ map cpy_of (queue l) /\ subseq (wire_of l) done)
         (exec (init xs) ops).
Proof. exact fifo_all. Qed.

(** The ghost wire log is what the steps emit (what the receiver sockets see). *)
Theorem C01_wire_is_output : forall hw o j l,
  if emits_client_data o
  then map fst (wire_of (fst (step_link hw o j l))) = map fst (wire_of l) ++ snd (step_link hw o j l)
  else wire_of (fst (step_link hw o j l)) = wire_of l.
Proof. exact step_link_wire. Qed.

(** Bounded hold: with I/O present fewer than 32 datagrams are ever queued, for every regime
    sequence; after a flush tick every such queue is empty. *)
Theorem C01_bounded_hold : forall xs ops, wf_init xs ->
  Forall (fun l => has_io l = true -> blen (queue l) < 32) (exec (init xs) ops).
Proof. exact bounded_hold_all. Qed.
Theorem C01_flush_tick_empties_partial : forall xs ops now orc,
  Forall (fun l => has_io l = true -> queue l = []) (exec (init xs) (ops ++ [FlushTick now orc])).
Proof. exact flush_tick_empties. Qed.

(** Duplicates only as probes: one op adds at most one copy to a link's arrival log — the
    unique copy on the scheduler's choice, or a byte-identical duplicate on another link that
    is gated and connected, for a data packet, when its 1-in-100 counter is due. *)
Theorem C01_dups_only_probes : forall hw o j l, acc_change o j l (fst (step_link hw o j l)).
Proof. exact step_link_acc. Qed.
(** ... and over ANY window of the history the number of duplicates on one link is at most
    ceil(routed data packets / 100). *)
Theorem C01_probe_rate : forall xs ops1 ops2 j, wf_init xs -> (j < length xs)%nat ->
  let l1 := nth j (exec (init xs) ops1) dlink in
  let l2 := nth j (exec (init xs) (ops1 ++ ops2)) dlink in
  0 <= nprobes l2 - nprobes l1 <= (routed_data ops2 + 99) / 100.
Proof. exact probe_rate_window. Qed.

(** Losses only where the text allows them: a link's lost log grows only in an op whose send
    oracle fails on that link, a reset of that link, or a housekeeping reset of that link. *)
Theorem C01_lost_only_on_failure : forall hw o j l,
  lost_of (fst (step_link hw o j l)) <> lost_of l -> may_lose o j.
Proof. exact step_link_lost. Qed.

(** Short sendmmsg counts: any oracle of positive counts transmits the whole batch (in order:
    the emitted list is a prefix of the queue, C01_wire_is_output); a zero count or an error
    ends the send. *)
Theorem C01_short_sends : forall total orc, 0 <= total -> Forall positive orc ->
  send_all (S (Z.to_nat total)) total 0 orc = (total, true).
Proof. exact short_sends_complete. Qed.
Theorem C01_zero_count_is_error : forall f total sent rest,
  sent < total -> send_all (S f) total sent (SOk 0 :: rest) = (sent, false).
Proof. exact send_all_zero_is_error. Qed.

(** ---- non-vacuity: the hypotheses are satisfiable, the interesting branches are reached,
    and the monitor really rejects traces that break a clause ---- *)
Definition ex_xs : list linit := [L LowActivity true 98 true; L Normal true 98 true].
Definition ex_d (k : Z) : dgram := [0; 0; 0; k; 1; 2].
Definition ex_ops : list op :=
  [Client 10 (ex_d 1) (Some 0%nat) true [false; true] [];
   Client 11 (ex_d 2) (Some 0%nat) true [false; true] [];
   Client 12 (ex_d 3) (Some 0%nat) true [false; true] [];
   Client 13 (ex_d 4) (Some 0%nat) true [false; true] [(0%nat, [SOk 2; SErr])];
   FlushTick 28 []].
Example C01_wf_satisfiable : wf_init ex_xs /\ wf_ops ex_ops.
Proof. split; repeat constructor; cbn; lia. Qed.
Example C01_wf_ops_with_control_frames :
  wf_ops [House [HKeep; HReset Reconnect] [[[144; 0; 1; 2]]; [[146; 1; 7]]]; Other [[[146; 0]]]].
Proof. repeat constructor. Qed.
(** a probe copy is made on the gated link (counter 98 -> 99 -> due), a short send followed by
    an error loses the rest of the batch, the flush tick delivers the probe *)
Example C01_run_reaches_probe_and_failure :
  map (fun p => (o_wire (snd p), o_q (snd p))) (run ex_xs ex_ops) =
  [([[]; []], [1; 0]); ([[]; []], [2; 1]); ([[]; []], [3; 1]);
   ([[ex_d 1; ex_d 2]; []], [0; 1]); ([[]; [ex_d 2]], [0; 0])].
Proof. vm_compute. reflexivity. Qed.
Example C01_monitor_accepts : monitor ex_xs (run ex_xs ex_ops) = 0%N.
Proof. vm_compute. reflexivity. Qed.
(** tampered traces: reordered wire (2), silent drop (3), copy on an ungated link (6),
    second copy too early (7) *)
Example C01_monitor_rejects_reorder :
  monitor [L LowActivity true 0 true]
    [(Client 1 (ex_d 1) (Some 0%nat) true [false] [], O [[]] [1] [0] [true]);
     (Client 2 (ex_d 2) (Some 0%nat) true [false] [], O [[]] [2] [0] [true]);
     (FlushTick 20 [], O [[ex_d 2; ex_d 1]] [0] [0] [true])] = (2 + 256 * 3)%N.
Proof. vm_compute. reflexivity. Qed.
Example C01_monitor_rejects_drop :
  monitor [L LowActivity true 0 true]
    [(Client 1 (ex_d 1) (Some 0%nat) true [false] [], O [[]] [1] [0] [true]);
     (FlushTick 20 [], O [[]] [0] [0] [true])] = (3 + 256 * 2)%N.
Proof. vm_compute. reflexivity. Qed.
Example C01_monitor_rejects_ungated_copy :
  monitor [L Normal true 0 true; L Normal true 0 true]
    [(Client 1 (ex_d 1) (Some 0%nat) true [false; false] [], O [[]; []] [1; 1] [0; 0] [true; true])]
  = (6 + 256 * 1)%N.
Proof. vm_compute. reflexivity. Qed.
Example C01_monitor_rejects_fast_copies :
  monitor [L Normal true 0 true; L Normal true 0 true]
    [(Client 1 (ex_d 1) (Some 0%nat) true [false; true] [], O [[]; []] [1; 1] [0; 0] [true; true]);
     (Client 2 (ex_d 2) (Some 0%nat) true [false; true] [], O [[]; []] [2; 2] [0; 0] [true; true])]
  = (7 + 256 * 2)%N.
Proof. vm_compute. reflexivity. Qed.
Example C01_monitor_rejects_overfull_queue :
  monitor [L HighLoad true 0 true]
    (map (fun k => (Client k (ex_d k) (Some 0%nat) true [false] [], O [[]] [k] [0] [true]))
         [1;2;3;4;5;6;7;8;9;10;11;12;13;14;15;16;17;18;19;20;21;22;23;24;25;26;27;28;29;30;31;32])
  = (4 + 256 * 32)%N.
Proof. vm_compute. reflexivity. Qed.
