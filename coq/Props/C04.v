(** Props/C04.v — property C04 "Stream data is only ever routed onto eligible uplinks".
    Statements only; proofs are in Proofs/C04P.v. *)
From Coq Require Import Floats.
From Srtla Require Import Base Constants FConstants Shape Stall StallSel Route Run_C04 C04P.
Local Open Scope Z_scope.

(** Lexical facts about the override site, regenerated from src/sender/packet_handler.rs;
    the probe cadence the text names. *)
Theorem constants_ok_C04 :
  override_present = true /\ override_mode_guarded = true /\ override_uses_eligible_filter = true /\
  loop_passes_reg_has_connected = true /\
  STALL_PROBE_ONE_IN_N = 100.
Proof. repeat split; reflexivity. Qed.

(** eligible = completed registration since its last reset (phase is not Registering), not timed
    out, not stall-gated = exactly what both selectors refuse to skip *)
Theorem C04_eligible_is_not_skipped : forall now l, eligible now l = negb (skipped now l).
Proof. exact eligible_not_skipped. Qed.

(** Normal scheduling and score hysteresis, both modes, any settings, any link states, any
    quality / cap oracle values: the chosen uplink is eligible in the post-state. *)
Theorem C04_selector_eligible : forall cfg last now ins ls ls' k,
  select cfg last now ins ls = (ls', Some k) ->
  exists l, nthZ ls' k = Some l /\ eligible now l = true.
Proof. exact select_elig. Qed.

(** ... and so is the result after the keyframe-window / retransmit override, for every packet
    kind and with the critical window open or closed. *)
Theorem C04_route_eligible : forall cfg last now ins critical p ls ls' k,
  route true cfg last now ins critical p ls = (ls', Some k) ->
  exists l, nthZ ls' k = Some l /\ eligible now l = true.
Proof. exact route_elig. Qed.

(** The whole arm (decision, queueing of the unique copy, duplicate probes) passes the monitor
    the check evaluates on the implementation: the unique copy lands on an eligible uplink; any
    other uplink whose queue grows is a stall-gated, connected probe target and the packet is
    data; nothing is queued when nothing is routed. *)
Theorem C04_monitor_holds : forall cfg last now ins critical p ls,
  mon_C04 (model_case cfg last now ins critical p ls) = 0%N.
Proof. exact handle_monitor. Qed.

(** The override WITHOUT the eligibility filter (the code before the `fix:` commit) is refuted:
    both links scored once (caches 1.1), link 1 then takes a NAK (0.98), link 0 stalls with 39
    packets in flight and is gated; a retransmit-flagged data packet is routed onto gated link 0. *)
Definition f3_links : list link :=
  [mkL (mkA true 20029 39 39 (Some 103100) None None 100000 0 0 2 100000 105000 0 0 [0;0;0;0;0;0;0;0;0])
       (mkG false 0 0 0 0 false 0) (mkX 0 false false 0 0 false 0) (mkC 5000 0x1.199999999999ap+0 100000);
   mkL (mkA true 19900 0 0 (Some 103100) None None 0 1 0 2 100000 105000 0 0 [100010;0;0;0;0;0;0;0;0])
       (mkG false 0 0 0 0 false 0) (mkX 0 false false 0 0 false 0) (mkC 5000 0x1.199999999999ap+0 100000)].
Definition f3_cfg : config := mkCfg false true true 32 3000 5000.
Definition f3_ins : list selin := [mkSI 0x1.199999999999ap+0 false; mkSI 0x1.f5c28f5c28f5cp-1 false].

Theorem C04_unfiltered_override_refuted :
  exists ls', route false f3_cfg (Some 1) 103200 f3_ins false (mkP true true) f3_links = (ls', Some 0) /\
              match nthZ ls' 0 with Some l => eligible 103200 l = false | None => False end.
Proof. eexists. split; [vm_compute; reflexivity|vm_compute; reflexivity]. Qed.

Example C04_same_case_now_eligible :
  snd (route true f3_cfg (Some 1) 103200 f3_ins false (mkP true true) f3_links) = Some 1.
Proof. vm_compute. reflexivity. Qed.

Example C04_monitor_rejects_gated_target :
  mon_C04 (mkCase f3_cfg (Some 1) 103200 f3_ins false (mkP true true) f3_links
                  (fst (handle false f3_cfg (Some 1) 103200 f3_ins false (mkP true true) f3_links)) (Some 0)) = 1%N.
Proof. vm_compute. reflexivity. Qed.

(** Fault histories (link dies, is soft-reset, re-connects, re-registers) with a flush tick in
    between: in the abstract queue model — a reset empties the link's coalescing queue, the
    scheduler's choice is a connected link — no link ever puts stream data on the wire while it is
    down.  The same clause ([mon_fault], clause 5) is evaluated on the implementation's fault traces
    captured on real sockets. *)
Theorem C04_fault_model_holds : forall s ops, finv s -> fops_wf s ops -> mon_fault (ftrace s ops) = 0%N.
Proof. exact fault_model_monitor. Qed.

(** non-vacuity: a two-link history with a soft reset of the loaded link between routing and the tick *)
Example C04_fault_model_example :
  let s := [(true, 0); (true, 0)] in
  let ops := [FClient (Some 0%nat) false; FClient (Some 0%nat) false; FSoftReset 0%nat; FFlush; FReg3 0%nat;
              FClient (Some 1%nat) true] in
  finv s /\ fops_wf s ops /\ map fs_tx (ftrace s ops) = [[0;0];[0;0];[0;0];[0;0];[0;0];[0;1]].
Proof.
  cbn zeta. split; [repeat constructor; cbn; congruence|].
  split; [|vm_compute; reflexivity].
  cbn. repeat split; eexists; (split; [reflexivity|reflexivity]).
Qed.

(** ... and the monitor rejects a trace in which the reset link flushes what it had queued *)
Example C04_fault_monitor_rejects :
  mon_fault [mkFS 0 [true;true] [0;0] [2;0]; mkFS 2 [true;true] [0;0] [2;0]; mkFS 1 [false;true] [2;0] [0;0]] = 5%N.
Proof. vm_compute. reflexivity. Qed.
