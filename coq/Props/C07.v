(** Props/C07.v — property C07 "Registration handshake follows the two-phase SRTLA protocol".
    ONLY statements with one-line proofs from Proofs/C07P.v, constant obligations,
    the refuted statement of the code before the fix, and non-vacuity examples.

    Model: Model/Reg.v ([step true] = the code as it is now).  Events: REG_NGP / REG2 / REG3 /
    REG_ERR arriving on an uplink, housekeeping passes; [wf_ops n ops] only says that uplink
    indices are < n and clock values are >= 0.  No bound on the number of events, uplinks,
    or on time. *)
From Srtla Require Import Base Constants Reg Run_C07 RegP C07P.

(** Constants the property text names, tied to the generated file. *)
Theorem constants_ok_C07 :
  REG2_TIMEOUT = 4 /\ REG2_WAIT_MS = 4000 /\ REG2_WAIT_MS = TEXT_TIMEOUT_MS /\ REG3_TIMEOUT = 4 /\ SRTLA_ID_LEN = 256 /\
  REG2_MIN_LEN = 258 /\ SRTLA_TYPE_REG1_LEN = 258 /\ SRTLA_TYPE_REG2_LEN = 258 /\
  REG1_RETRY_MS = 1000 /\ PROBE_WAIT_MS = 2000 /\
  SRTLA_TYPE_REG1 = 37376 /\ SRTLA_TYPE_REG2 = 37377 /\ SRTLA_TYPE_REG3 = 37378 /\
  SRTLA_TYPE_REG_ERR = 37392 /\ SRTLA_TYPE_REG_NGP = 37393.
Proof. repeat split; reflexivity. Qed.

(** HEADLINE.  On every history the model's own trace satisfies the monitor [ok_C07], i.e. all
    nine clauses of Run_C07.mon_step at every step: single outstanding REG1; driver/immediate
    REG1 only while no uplink is connected; REG2 accepted only from the REG1 uplink with a
    full-length id which is then adopted; exactly one broadcast round per adoption; every
    REG1/REG2 carries the adopted id; connected only by REG3 on that uplink; REG_ERR cancels;
    4 s timeout abandons; a new attempt can then start. *)
Theorem C07_monitor_holds : forall n id0 pid probe ops,
  wf_ops n ops = true -> ok_C07 n ops (run true n id0 pid probe ops) = true.
Proof. exact model_ok. Qed.

(** The statements below are about any state [s] reachable from start-up (with or without the
    probing round) and any next event [o]; [s'], [out] = state and packets after it. *)

(** A REG1 is never sent while another uplink is awaited: it is the only REG1 of its step, it
    finds nothing awaited or its own uplink awaited, leaves its uplink awaited, and arms the
    deadline REG2_TIMEOUT s ahead. *)
Theorem C07_single_outstanding : forall n, 0 <= n -> forall s, reachable n s -> forall o, wf_op n o ->
  forall p, In p (snd (step true s o)) -> pk_kind p = K_REG1 ->
  reg1_of (snd (step true s o)) = [pk_dst p] /\ 0 <= pk_dst p < n /\
  (r_pending (s_reg s) = None \/ r_pending (s_reg s) = Some (pk_dst p)) /\
  r_pending (s_reg (fst (step true s o))) = Some (pk_dst p) /\
  r_ptimeout (s_reg (fst (step true s o))) = op_now o + REG2_WAIT_MS.
Proof. exact reach_single_outstanding. Qed.

(** A REG1 that is not housekeeping's re-transmission to the already awaited uplink — i.e. one
    from the driver or from the immediate answer to REG_NGP — is only sent while no uplink is
    connected. *)
Theorem C07_reg1_only_unregistered : forall n, 0 <= n -> forall s, reachable n s -> forall o, wf_op n o ->
  forall p, In p (snd (step true s o)) -> pk_kind p = K_REG1 ->
  (is_tick o = true /\ r_pending (s_reg s) = Some (pk_dst p)) \/
  none_conn (s_conn (fst (step true s o))).
Proof. exact reach_reg1_only_unregistered. Qed.

(** what the fix restored: the cached count is never 0 while an uplink is connected *)
Theorem C07_active_zero_means_none_connected : forall n, 0 <= n -> forall s, reachable n s ->
  r_active (s_reg s) = 0 -> none_conn (s_conn s).
Proof. exact reach_active. Qed.

(** The id changes only when a REG2 of at least 2+256 bytes arrives on the awaited uplink; it
    becomes the id carried, the wait ends, one broadcast is armed, the REG1 target is dropped. *)
Theorem C07_reg2_accept : forall n, 0 <= n -> forall s, reachable n s -> forall o, wf_op n o ->
  r_id (s_reg (fst (step true s o))) = r_id (s_reg s) \/
  exists i len tag now, o = Reg2 i len tag now /\ r_pending (s_reg s) = Some i /\
    REG2_MIN_LEN <= len /\ r_id (s_reg (fst (step true s o))) = tag /\
    r_pending (s_reg (fst (step true s o))) = None /\
    r_flag (s_reg (fst (step true s o))) = true /\ r_target (s_reg (fst (step true s o))) = None.
Proof. exact reach_id. Qed.

(** REG2 rounds.  A housekeeping pass sends the broadcast to every uplink exactly when one is
    armed (plus at most one re-join REG2 to an uplink it resets) and disarms it; no other event
    emits a REG2, and the flag is armed exactly by an accepted REG2. *)
Theorem C07_one_broadcast_round : forall n, 0 <= n -> forall s, reachable n s -> forall o, wf_op n o ->
  match o with
  | Tick now amb due =>
    r_flag (s_reg (fst (step true s o))) = false /\
    forall k, 0 <= k < n ->
      Z.b2z (r_flag (s_reg s)) <= reg2_cnt (snd (step true s o)) k
        <= Z.b2z (r_flag (s_reg s)) + Z.b2z (memz k due)
  | _ =>
    (forall k, reg2_cnt (snd (step true s o)) k = 0) /\
    r_flag (s_reg (fst (step true s o))) =
      r_flag (s_reg s) || accepted (obs_of s []) o (obs_of (fst (step true s o)) (snd (step true s o)))
  end.
Proof. exact reach_rounds. Qed.

(** Every packet emitted is a REG1 or REG2 and carries the id adopted at that moment. *)
Theorem C07_ids_current : forall n, 0 <= n -> forall s, reachable n s -> forall o, wf_op n o ->
  pkts_ok (r_id (s_reg (fst (step true s o)))) (snd (step true s o)).
Proof. exact reach_pkts. Qed.

(** An uplink that is connected after an event was connected before it, or the event is a REG3
    received on that very uplink. *)
Theorem C07_connected_only_by_reg3 : forall n, 0 <= n -> forall s, reachable n s -> forall o, wf_op n o ->
  forall k, 0 <= k -> nth (Z.to_nat k) (s_conn (fst (step true s o))) false = true ->
  nth (Z.to_nat k) (s_conn s) false = true \/ exists t, o = Reg3 k t.
Proof. exact reach_conn. Qed.

(** REG_ERR (from any uplink, in any state) cancels the pending attempt and emits nothing. *)
Theorem C07_regerr_cancels : forall fx s i now,
  r_pending (s_reg (fst (step fx s (RegErr i now)))) = None /\
  r_target (s_reg (fst (step fx s (RegErr i now)))) = None /\
  snd (step fx s (RegErr i now)) = [].
Proof. exact step_regerr. Qed.

(** Timeout.  With a REG1 awaited, a pass at or after the deadline (= last REG1 transmission +
    4 s by C07_single_outstanding) abandons it and sends no REG1; a pass before it keeps it. *)
Theorem C07_timeout_abandons : forall n, 0 <= n -> forall s, reachable n s -> forall o, wf_op n o ->
  forall j now amb due, o = Tick now amb due -> r_pending (s_reg s) = Some j ->
  (r_ptimeout (s_reg s) <= now ->
     r_pending (s_reg (fst (step true s o))) = None /\
     r_target (s_reg (fst (step true s o))) = None /\ reg1_of (snd (step true s o)) = []) /\
  (now < r_ptimeout (s_reg s) -> r_pending (s_reg (fst (step true s o))) = Some j).
Proof. exact reach_timeout. Qed.

(** ... so that a new attempt can start: with nothing awaited, no uplink counted active and the
    probing round over, a REG_NGP on uplink i is answered by REG1 on i in the same step. *)
Theorem C07_new_attempt_can_start : forall fx s i now,
  r_pending (s_reg s) = None -> r_active (s_reg s) = 0 -> r_pstate (s_reg s) <> PWaiting ->
  snd (step fx s (Ngp i now)) = [(K_REG1, i, r_id (s_reg s))] /\
  r_pending (s_reg (fst (step fx s (Ngp i now)))) = Some i.
Proof. exact ngp_progress. Qed.

(** REFUTED for the code before commit "fix: count an uplink as active as soon as its REG3
    arrives" ([step false]): REG1 -> REG2 -> broadcast -> REG3 on uplink 0, then REG_NGP on
    uplink 1 before the next pass emits a group-creating REG1 while uplink 0 is connected
    (clause 2).  The same history is replayed on the real code by the harness on every run. *)
Theorem C07_reg1_only_unregistered_before_fix_refuted :
  exists n ops, wf_ops n ops = true /\ mon_C07 n ops (run false n 0 1 None ops) = 2%N.
Proof. exists 2, f4_ops. exact f4_refuted. Qed.

(** Non-vacuity: the premises are satisfiable and the interesting branches are reached. *)
Example C07_happy_path :
  let ops := [Ngp 1 1050; Tick 3000 3000 []; Reg2 1 258 7 3040; Tick 4000 4000 [];
              Reg3 1 4020; Reg3 0 4030; Ngp 0 4040] in
  wf_ops 2 ops = true /\
  map (fun o => (o_out o, o_id o, o_pending o, o_conn o)) (snd (run true 2 0 1 (Some 1000) ops)) =
  [([], 0, None, [false; false]);
   ([(K_REG1, 1, 0)], 0, Some 1, [false; false]);
   ([], 7, None, [false; false]);
   ([(K_REG2, 0, 7); (K_REG2, 1, 7)], 7, None, [false; false]);
   ([], 7, None, [false; true]);
   ([], 7, None, [true; true]);
   ([], 7, None, [true; true])].
Proof. split; vm_compute; reflexivity. Qed.

Example C07_timeout_reached :
  let ops := [Ngp 0 10; Tick 4009 4009 []; Tick 4010 4010 []; Reg2 0 258 7 4011; Ngp 1 4012] in
  wf_ops 2 ops = true /\
  map (fun o => (o_out o, o_pending o, o_id o)) (snd (run true 2 0 1 None ops)) =
  [([(K_REG1, 0, 0)], Some 0, 0); ([], Some 0, 0); ([], None, 0); ([], None, 0);
   ([(K_REG1, 1, 0)], Some 1, 0)].
Proof. split; vm_compute; reflexivity. Qed.

Example C07_fix_effective :
  mon_C07 2 f4_ops (run true 2 0 1 None f4_ops) = 0%N /\
  o_out (last (snd (run true 2 0 1 None f4_ops)) (fst (run true 2 0 1 None f4_ops))) = [].
Proof. split; vm_compute; reflexivity. Qed.
