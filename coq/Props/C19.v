(** Props/C19.v — property C19 "IP-list reload never strands the stream and never
    disturbs survivors".  ONLY statements, each closed by [exact lemma.], constant
    obligations and non-vacuity examples.

    Vocabulary (Model/Reload.v): a [state] holds the connection list [conns] (link =
    label address, local ip, conn_id, full protocol state), the I/O map [io]
    (conn_id -> socket identity), the sequence tracker [trk], the previous routing
    choice [sel] and the queued list [pend].  [keep D c] = the link's address is in
    the list [D].  [fresh_ok] is the oracle premise: the random conn_ids drawn for
    new links are new and pairwise distinct, one per created socket. *)
From Srtla Require Import Base Constants Reload ReloadP Run_C19 C19P.

(** The tracker geometry the model reads from the generated constants. *)
Theorem constants_ok_C19 :
  SEQ_TRACKING_MASK = SEQ_TRACKING_SIZE - 1 /\ 0 < SEQ_TRACKING_SIZE /\
  0 <= SEQUENCE_TRACKING_MAX_AGE_MS.
Proof. repeat split; reflexivity || discriminate. Qed.

(** A reload whose file is missing/unreadable, or has no parsable line (empty, blank,
    all garbage), is refused and the whole state is untouched — and the housekeeping
    tick that follows finds nothing queued and leaves everything untouched too. *)
Theorem C19_refuse_untouched : forall s oc file now,
  (file = None \/ exists t, file = Some t /\ spec_ips oc t = []) ->
  exists r, next s (OSighup file oc now) = (s, Some (ARefuse r), []).
Proof. exact refuse_untouched. Qed.
Theorem C19_refuse_then_tick_untouched : forall s fail fresh now,
  pend s = None -> next s (OTick fail fresh now) = (s, None, []).
Proof. exact idle_tick_untouched. Qed.

(** Otherwise the analysis yields exactly the parsable lines in order, that list is
    what gets queued (nothing else changes), and the tick applies exactly it. *)
Theorem C19_applied_is_filter : forall s oc t now,
  spec_ips oc t <> [] ->
  exists fi,
    analyze_file oc (Some t) = AApply (spec_ips oc t) fi /\
    let s1 := fst (fst (next s (OSighup (Some t) oc now))) in
    pend s1 = Some (spec_ips oc t) /\ conns s1 = conns s /\ io s1 = io s /\
    trk s1 = trk s /\ sel s1 = sel s.
Proof. exact applied_is_filter. Qed.
Theorem C19_tick_applies_queued : forall s D fail fresh now,
  pend s = Some D ->
  let s1 := fst (fst (next s (OTick fail fresh now))) in
  let s' := fst (apply_changes D fail fresh s) in
  conns s1 = conns s' /\ io s1 = io s' /\ trk s1 = trk s' /\ sel s1 = sel s' /\ pend s1 = None.
Proof. exact tick_applies_pending. Qed.

(** Applying a list: the new connection list is the old links whose address is listed —
    the very same records (identity, addresses, full state), in the same order —
    followed by new links; each survivor keeps its socket; a new link never reuses an
    existing address or conn_id. *)
Theorem C19_survivors_identical : forall D fail fresh s,
  Inv s -> fresh_ok s (needed_ips (map l_lab (conns s)) D) fail fresh ->
  let s' := fst (apply_changes D fail fresh s) in
  exists added,
    conns s' = filter (keep D) (conns s) ++ added /\
    (forall c, In c (filter (keep D) (conns s)) ->
               io_get (l_id c) (io s') = io_get (l_id c) (io s)) /\
    (forall c, In c added -> ~ In (l_lab c) (map l_lab (conns s)) /\ ~ In (l_id c) (ids s)).
Proof. exact survivors_identical. Qed.

(** An uplink no longer listed is gone from the list, its I/O handle is gone, and no
    tracker lookup (any sequence number, any time) returns its id any more; every
    other lookup returns what it returned before. *)
Theorem C19_removed_exactly : forall D fail fresh s,
  Inv s -> fresh_ok s (needed_ips (map l_lab (conns s)) D) fail fresh ->
  let s' := fst (apply_changes D fail fresh s) in
  (forall c, In c (conns s) -> keep D c = false ->
     ~ In (l_id c) (ids s') /\ io_get (l_id c) (io s') = None /\
     (forall seq now, trk_get seq now (trk s') <> Some (l_id c))) /\
  (forall seq now j, trk_get seq now (trk s) = Some j ->
     (forall c, In c (conns s) -> keep D c = false -> l_id c <> j) ->
     trk_get seq now (trk s') = Some j) /\
  (forall seq now, trk_get seq now (trk s) = None -> trk_get seq now (trk s') = None).
Proof. exact removed_exactly. Qed.

(** The added links carry pairwise distinct addresses: exactly the listed addresses
    that no existing link has and whose socket could be created, each once, in the
    order of first mention; each comes with its I/O handle; a socket is attempted once
    per new address. *)
Theorem C19_added_once : forall D fail fresh s,
  Inv s -> fresh_ok s (needed_ips (map l_lab (conns s)) D) fail fresh ->
  let s' := fst (apply_changes D fail fresh s) in
  exists added,
    conns s' = filter (keep D) (conns s) ++ added /\
    NoDup (map l_lab added) /\
    (forall a, In a (map l_lab added) <->
               In a D /\ ~ In a (map l_lab (conns s)) /\ ~ In a fail) /\
    map l_lab added = filter (fun a => negb (mem a fail)) (needed_ips (map l_lab (conns s)) D) /\
    (forall c, In c added -> l_ip c = l_lab c /\ exists tok, io_get (l_id c) (io s') = Some tok) /\
    snd (apply_changes D fail fresh s) = needed_ips (map l_lab (conns s)) D /\
    NoDup (snd (apply_changes D fail fresh s)).
Proof. exact added_once. Qed.

(** The previous routing choice is forgotten whenever an uplink was removed; when none
    was, it is kept and still denotes the same link. *)
Theorem C19_forget_choice : forall D fail fresh s,
  Inv s -> fresh_ok s (needed_ips (map l_lab (conns s)) D) fail fresh ->
  let s' := fst (apply_changes D fail fresh s) in
  ((exists c, In c (conns s) /\ keep D c = false) -> sel s' = None) /\
  ((forall c, In c (conns s) -> keep D c = true) ->
     sel s' = sel s /\
     forall i c, nth_link i (conns s) = Some c -> nth_link i (conns s') = Some c).
Proof. exact forget_choice. Qed.

(** After ANY history of startup, reloads (refused or applied), direct applies, routed
    packets, link events and reconnects, the three structures agree: conn_ids are
    pairwise distinct, the I/O map has exactly one entry per link, every tracker
    record names an existing link, and the routing choice indexes an existing link. *)
Theorem C19_structures_consistent : forall ops,
  wf_ops init ops -> Inv (final_from init ops).
Proof. intros ops H. exact (final_inv ops init init_inv H). Qed.

(** Headline: on every history the model's own trace satisfies the monitor, i.e. every
    clause of the property at every reload step. *)
Theorem C19_monitor_holds : forall probes ops,
  wf_ops init ops -> ok_C19 (run probes ops) = true.
Proof. intros probes ops H. exact (run_ok ops probes init init_inv H). Qed.

(** The oracle premise can always be met (so the theorems above are not vacuous). *)
Theorem C19_wf_satisfiable : forall s attempt fail, exists fresh, fresh_ok s attempt fail fresh.
Proof. exact fresh_exists. Qed.

(** ---- non-vacuity: a concrete history in which every interesting branch is taken ---- *)
Definition ex_orc : orc := [([49], Some 1); ([120], None); ([51], Some 3)].
(** file "1\n x \r\n\n3" : lines "1", " x " (garbage), "" (blank), "3" (no final newline) *)
Definition ex_text : list Z := [49; 10; 32; 120; 32; 13; 10; 10; 51].
Definition ex_ops : list op :=
  [ OCreate [1; 2] [] [(10, [0]); (11, [0])] 100;
    ORoute (Some 1) (Some 7) 105 [[1]; [1]];
    OSighup (Some ex_text) ex_orc 110;
    OTick [] [(12, [0])] 120 ].

Example C19_example_parse : analyze_text ex_orc ex_text = AApply [1; 3] (Some 2).
Proof. reflexivity. Qed.
Example C19_example_refusals :
  analyze_file ex_orc None = ARefuse RNotFound /\
  analyze_text ex_orc [] = ARefuse REmpty /\
  analyze_text ex_orc [32; 10; 9; 13; 10] = ARefuse REmpty /\
  analyze_text ex_orc [10; 120; 10] = ARefuse (RNoValid 2).
Proof. repeat split. Qed.
Example C19_example_wf : wf_ops init ex_ops.
Proof.
  vm_compute. repeat split; try (repeat constructor; simpl; intuition discriminate);
    try (intuition congruence); try lia.
Qed.
(** link 2 (id 11) is removed with its socket and its tracker record (seq 7), link 1
    survives untouched with its socket, link 3 is added once, the choice is forgotten *)
Example C19_example_effect :
  let s1 := final_from init (firstn 3 ex_ops) in
  let s2 := final_from init ex_ops in
  map l_lab (conns s1) = [1; 2] /\ trk_get 7 121 (trk s1) = Some 11 /\ sel s1 = Some 1 /\
  map l_lab (conns s2) = [1; 3] /\ map l_id (conns s2) = [10; 12] /\
  trk_get 7 121 (trk s2) = None /\ sel s2 = None /\
  io_get 10 (io s2) = io_get 10 (io s1) /\ io_get 11 (io s2) = None /\ io_get 12 (io s2) = Some 2.
Proof. vm_compute. repeat split. Qed.
Example C19_example_monitor : ok_C19 (run [7; 8] ex_ops) = true.
Proof. vm_compute. reflexivity. Qed.
