(** Props/C16.v — property C16 "Per-link CC soft cap and loss latch stay bounded and honest".
    STAGE 1 (model of the code as found): the growth clause is refuted at the floor. *)
From Coq Require Import Floats.
From Srtla Require Import Base Constants LinkCc Run_C16.
From Srtla Require FConstants.
Local Open Scope Z_scope.

(** Constants the property names, tied to the generated file. *)
Theorem constants_ok_C16 :
  MIN_TARGET_BPS = 100000 /\ MAX_TARGET_BPS = 200000000 /\
  BACKOFF_PERMILLE = 850 /\ DRAIN_PERMILLE = 750 /\
  AI_STEP_PERMILLE <= 60 /\ HAI_STEP_PERMILLE <= 60 /\ FAST_RECOVERY_STEP_PERMILLE <= 60 /\
  LOSS_DEGRADE_SUSTAIN_MS = 4000 /\
  FConstants.LOSS_DEGRADE_ENTER = 0x1.199999999999ap-1%float /\   (* 0.55 *)
  FConstants.LOSS_DEGRADE_CLEAR = 0x1p-2%float.                    (* 0.25 *)
Proof. repeat split; try reflexivity; vm_compute; congruence. Qed.

(** F7 witness: one link, ticks 2 s apart, smoothed RTT alternating 20 / 45 ms (every 45 is a
    fresh entry to Drain, x0.75), no traffic.  After nine drains the cap is clamped to exactly
    the floor; the next Climbing tick takes "target == MIN_TARGET_BPS" for "not yet seeded" and
    re-seeds to 1 000 000: a tenfold jump on a link that measurably delivers nothing. *)
Definition f7_witness : list op :=
  map (fun k => Tick (2000 * Z.of_nat k)
                  [mkInp 1 (if Nat.even k then 20 else 45)%float 0 0 0%float 0%float])
      (seq 0 19).

(** regression: on the repaired controller the F7 history satisfies every clause *)
Example C16_f7_witness_now_ok :
  wf f7_witness = true /\ ok_C16 (run f7_witness) = true.
Proof. vm_compute. split; reflexivity. Qed.
