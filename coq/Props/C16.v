(** Props/C16.v — property C16 "Per-link CC soft cap and loss latch stay bounded and honest".

    Each uplink's CC target rate stays within [100 kbit/s, 200 Mbit/s], sits at the floor until
    an RTT sample exists, is lowered only by a loss back-off (x0.85, never below the rate the
    link is measurably delivering, never raising it) or once on entry to a drain (x0.75), and
    after its initial seeding from measured throughput grows per tick by at most 6 % and never
    to beyond twice the measured rate.  The loss-degraded verdict latches only after the loss
    average has stayed above 0.55 for 4 s and clears only once it falls below 0.25.

    This file contains ONLY statements, their one-line proofs from the lemma files, constant
    obligations and non-vacuity examples.

    History: the model of the code as found refuted the growth clause at the floor
    ([target_bps == MIN_TARGET_BPS] doubled as the "not yet seeded" test; witness [f7_witness]
    below, monitor clause 5, reproduced on the real controller).  /repo was repaired (explicit
    [seeded] flag); the model follows the repaired code, the clause is now proved and the
    witness is kept as a regression case here and in the harness. *)
From Coq Require Import Floats.
From Srtla Require Import Base Constants LinkCc LinkCcF LinkCcP Run_C16 C16P LinkCcRttP LinkCcFP.
From Srtla Require FConstants.
Local Open Scope Z_scope.

(** Constants the property names, tied to the file generated from /repo on every run. *)
Theorem constants_ok_C16 :
  MIN_TARGET_BPS = 100000 /\ MAX_TARGET_BPS = 200000000 /\
  BACKOFF_PERMILLE = 850 /\ DRAIN_PERMILLE = 750 /\
  AI_STEP_PERMILLE <= 60 /\ HAI_STEP_PERMILLE <= 60 /\ FAST_RECOVERY_STEP_PERMILLE <= 60 /\
  LOSS_DEGRADE_SUSTAIN_MS = 4000 /\
  FConstants.LOSS_DEGRADE_ENTER = 0x1.199999999999ap-1%float /\   (* 0.55 *)
  FConstants.LOSS_DEGRADE_CLEAR = 0x1p-2%float.                    (* 0.25 *)
Proof. repeat split; try reflexivity; vm_compute; congruence. Qed.

(** HEADLINE.  Every well-formed history of [tick_all] calls — any number of links, appearing
    and disappearing, any RTT / byte / NAK / bitrate / loss-average inputs, any tick times —
    produces a trace on which the monitor (the property text, clause by clause, over
    snapshots only) never fires.  [wf]: a conn_id occurs once per call, counters have their
    Rust types, and the model's own smoothed RTT stays finite and non-zero once set. *)
Theorem C16_monitor_holds : forall ops, wf ops = true -> ok_C16 (run ops) = true.
Proof. exact model_satisfies_monitor. Qed.

(** The same with the premise on the INPUTS only ([wf_inputs]: a conn_id occurs once per call,
    counters have their Rust types, and every RTT the connection reports is either no sample
    — zero, negative, NaN, infinite — or a finite value in [2^-200, 2^200] ms; the real RTT
    source is capped at 10 000 ms).  The part of [wf] about the model's own smoothed RTT is
    derived: the age-bucketed EWMA of binary64 numbers in that interval stays in it (IEEE-754
    round-to-nearest-even, Flocq).  Depends on the standard library's float and real-number
    axioms (allow-listed by name in props/C16.json). *)
Theorem C16_wf_from_inputs : forall ops, wf_inputs ops = true -> wf ops = true.
Proof. exact wf_inputs_wf. Qed.

Theorem C16_monitor_holds_for_inputs : forall ops, wf_inputs ops = true -> ok_C16 (run ops) = true.
Proof. exact model_satisfies_monitor_inputs. Qed.

(** Invariants of everything the controller holds after ANY history (no premise):
    range, Bootstrap <-> unseeded <-> at the floor, budgets and counters within their bounds
    (the [+= 1] counters of the code cannot overflow), window sums are u32 values,
    [loss_high_since_ms <> 0] only while the average is above the entry threshold. *)
Theorem C16_link_inv_reachable : forall ops k s, In (k, s) (ctrl_after ops) ->
  core_inv (k_core s) /\ eff_inv (k_eff s) /\ win_inv (k_win s) /\ latch_inv (k_latch s).
Proof. intros ops k s H. destruct (full_inv_after ops k s H) as [(A & B & C) D]. tauto. Qed.

(** "stays within [100 kbit/s, 200 Mbit/s]" *)
Theorem C16_target_range : forall ops k s, In (k, s) (ctrl_after ops) ->
  100000 <= c_target (k_core s) <= 200000000.
Proof. intros ops k s H. destruct (full_inv_after ops k s H) as [((A & _) & _) _]. exact A. Qed.

(** "sits at the floor until an RTT sample exists": a link in Bootstrap is at the floor, and
    a link whose smoothed RTT is still unset stays unset, in Bootstrap and at the floor through
    every tick that carries no RTT sample (a fresh link starts with it unset). *)
Theorem C16_floor_until_rtt :
  (forall ops k s, In (k, s) (ctrl_after ops) ->
     c_state (k_core s) = Bootstrap -> c_target (k_core s) = 100000) /\
  r_ewma (k_rtt link_default) = fzero /\
  (forall s now i, r_ewma (k_rtt s) = fzero -> rtt_sample_present (i_rtt i) = false ->
     let s' := link_step s now i in
     r_ewma (k_rtt s') = fzero /\ c_state (k_core s') = Bootstrap /\ c_target (k_core s') = 100000).
Proof.
  split; [|split; [reflexivity|exact floor_until_rtt_step]].
  intros ops k s H. destruct (full_inv_after ops k s H) as [(A & _) _]. apply bootstrap_floor, A.
Qed.

(** "is lowered only by a loss back-off (x0.85, never below the rate the link is measurably
    delivering, never raising it) or once on entry to a drain (x0.75)".
    Full statement over every link state satisfying the invariant (hence every reachable one):
    the only third possibility is that the smoothed RTT itself degenerated (overflow to
    infinity), which sends the link back to Bootstrap. *)
Theorem C16_lowered_only_by : forall s now i, core_inv (k_core s) ->
  let s' := link_step s now i in
  let t := c_target (k_core s) in let t' := c_target (k_core s') in let obs := observed_bps i in
  t' < t ->
  (c_state (k_core s') = BackingOff /\ t * 850 / 1000 <= t' /\ Z.min obs t <= t' /\
     t' <= Z.max 100000 (Z.max (t * 850 / 1000) (Z.min obs t))) \/
  (c_state (k_core s') = Drain /\ c_state (k_core s) <> Drain /\ t' = Z.max 100000 (t * 750 / 1000)) \/
  (c_state (k_core s') = Bootstrap /\ c_state (k_core s) <> Bootstrap /\
     rtt_invalid (pre_tick_rtt s now i) = true).
Proof. exact lowered_only_by. Qed.

(** ... and under the well-formedness premise the third case is gone. *)
Theorem C16_lowered_only_by_wf : forall s now i, core_inv (k_core s) -> rtt_stays_valid s now i = true ->
  let s' := link_step s now i in
  let t := c_target (k_core s) in let t' := c_target (k_core s') in let obs := observed_bps i in
  t' < t ->
  (c_state (k_core s') = BackingOff /\ t * 850 / 1000 <= t' /\ Z.min obs t <= t' /\
     t' <= Z.max 100000 (Z.max (t * 850 / 1000) (Z.min obs t))) \/
  (c_state (k_core s') = Drain /\ c_state (k_core s) <> Drain /\ t' = Z.max 100000 (t * 750 / 1000)).
Proof. exact lowered_only_by_wf. Qed.

(** every back-off tick of a seeded link: never raises, never below measured, at most -15 % *)
Theorem C16_backoff_honest : forall s now i, core_inv (k_core s) -> c_seeded (k_core s) = true ->
  let s' := link_step s now i in
  let t := c_target (k_core s) in let t' := c_target (k_core s') in
  c_state (k_core s') = BackingOff ->
  t' <= t /\ Z.min (observed_bps i) t <= t' /\ t * 850 / 1000 <= t'.
Proof. exact backoff_honest. Qed.

(** "after its initial seeding ... grows per tick by at most 6 % and never to beyond twice the
    measured rate".  [c_seeded] is set by the first tick out of Bootstrap and is equivalent to
    "not in Bootstrap" on reachable states. *)
Theorem C16_growth_bound : forall s now i, core_inv (k_core s) -> c_seeded (k_core s) = true ->
  let s' := link_step s now i in
  let t := c_target (k_core s) in let t' := c_target (k_core s') in
  t' * 1000 <= t * 1060 /\ (t < t' -> t' <= 2 * observed_bps i).
Proof. exact growth_bound. Qed.

Theorem C16_seeded_iff_left_bootstrap : forall s, core_inv (k_core s) ->
  (c_seeded (k_core s) = true <-> c_state (k_core s) <> Bootstrap).
Proof. exact seeded_iff. Qed.

(** "latches only after the loss average has stayed above 0.55 for 4 s and clears only once it
    falls below 0.25": one step (the history part — [loss_high_since_ms] is the time of a tick
    since which every tick saw the average above 0.55 — is clause 6 of the monitor, proved in
    [C16_monitor_holds], and [latch_inv] above). *)
Theorem C16_loss_latch : forall s now i,
  let s' := link_step s now i in
  let l := k_latch s in let l' := k_latch s' in
  (l_degraded l = false -> l_degraded l' = true ->
     f_lt FConstants.LOSS_DEGRADE_ENTER (i_lewma i) = true /\ l_high_since l <> 0 /\
     LOSS_DEGRADE_SUSTAIN_MS <= now - l_high_since l) /\
  (l_degraded l = true -> l_degraded l' = false ->
     f_lt (i_lewma i) FConstants.LOSS_DEGRADE_CLEAR = true) /\
  (l_high_since l' = l_high_since l \/ l_high_since l' = 0 \/ (l_high_since l = 0 /\ l_high_since l' = now)).
Proof. exact loss_latch_step. Qed.

(** Model fidelity.  The code computes the new target in f64 ([x as f64 * permille / 1000.0],
    [min], [max], [+], [as u64]); [Model/LinkCc.v] uses integers with floor.  The literal f64
    rendering of those expressions ([Model/LinkCcF.v]: [sane_observed_f], [next_target_f]) is
    PROVED to give the same clamped observation and the same new target on every step of every
    link satisfying the invariant (IEEE-754 round-to-nearest-even: the quotient by 1000.0 is
    exact or at least 1/1000 - 2^-25 inside the unit interval above the integer quotient, and
    the one further rounding moves it by at most 2^-25).  Depends on FloatAxioms + the
    classical real-number axioms (allow-listed by name). *)
Theorem C16_float_rendering_exact : forall s now i, core_inv (k_core s) ->
  float_agrees s (link_step s now i) i = true.
Proof. exact float_agrees_step. Qed.

(** "for links that appear and disappear": after [tick_all] the controller tracks exactly the
    connections it was shown, each once. *)
Theorem C16_gc : forall c now inps,
  (forall k, In k (map fst (tick_all c now inps)) <-> In k (map i_id inps)) /\
  (NoDup (map fst c) -> NoDup (map fst (tick_all c now inps))).
Proof. intros c now inps. split; [intro k; apply keys_tick_all|apply NoDup_keys_tick_all]. Qed.

Theorem C16_gc_reachable : forall ops, NoDup (map fst (ctrl_after ops)).
Proof. intro ops. apply NoDup_keys_from. constructor. Qed.

(** ---- non-vacuity ---- *)

(** F7 witness (see the header): ticks 2 s apart, smoothed RTT alternating 20 / 45 ms (every
    45 is a fresh entry to Drain), no traffic; after nine drains the cap sits at exactly the
    floor.  On the code as found the next Climbing tick re-seeded it to 1 000 000. *)
Definition f7_witness : list op :=
  map (fun k => Tick (2000 * Z.of_nat k)
                  [mkInp 1 (if Nat.even k then 20 else 45)%float 0 0 0%float 0%float])
      (seq 0 19).

Example C16_f7_witness_now_ok :
  wf_inputs f7_witness = true /\ wf f7_witness = true /\ ok_C16 (run f7_witness) = true /\
  map (fun x => map o_tgt (t_links (snd x))) (skipn 16 (run f7_witness)) = [[100112]; [100000]; [100000]].
Proof. vm_compute. repeat split; reflexivity. Qed.

(** A well-formed history that exercises the clauses: climbing (+6 %), a back-off floored at
    the measured rate, the latch setting after 4 s above 0.55, a drain entry (x0.75), the
    latch clearing below 0.25. *)
Definition ex_inp (k : nat) : inp :=
  mkInp 7 (if Nat.eqb k 6 then 45 else 20)%float
        (1316000 * Z.of_nat (k + 1))
        (if Nat.leb 2 k && Nat.leb k 4 then 100 * (Z.of_nat k - 1) else if Nat.leb 5 k then 300 else 0)
        1000000%float
        (if Nat.leb 1 k && Nat.leb k 7 then 0x1.ccccccccccccdp-1 else 0x1.999999999999ap-4)%float.
Definition ex_ops : list op := map (fun k => Tick (2000 * Z.of_nat k + 1) [ex_inp k]) (seq 0 11).

Example C16_wf_nonvacuous :
  wf_inputs ex_ops = true /\ wf ex_ops = true /\ ok_C16 (run ex_ops) = true /\
  map (fun x => map (fun o => (o_st o, o_tgt o, o_deg o)) (t_links (snd x))) (run ex_ops) =
  [[(1, 1060000, false)]; [(1, 1123600, false)]; [(3, 1000000, false)]; [(3, 1000000, true)];
   [(3, 1000000, true)]; [(1, 1040000, true)]; [(4, 780000, true)]; [(1, 811200, true)];
   [(1, 843648, false)]; [(1, 877393, false)]; [(1, 912488, false)]].
Proof. vm_compute. repeat split; reflexivity. Qed.

(** the monitor is not trivially true: it rejects a +7 % step, a cut outside back-off / drain,
    and a latch that sets at once *)
Example C16_monitor_rejects :
  let i := mkInp 1 20%float 0 0 1000000%float 0%float in
  let m := mkMon false 1000000 1 true true None false 0%N in
  m_bad (mon_step m 5000 i (L 1 0 1070001 20 0 20 0 0 false [])) = cl_growth /\
  m_bad (mon_step m 5000 i (L 2 0 900000 20 0 20 0 0 false [])) = cl_lowered /\
  m_bad (mon_step m 5000 i (L 1 0 1000000 20 0 20 0 0x1.ccccccccccccdp-1 true [])) = cl_latch_on.
Proof. vm_compute. repeat split; reflexivity. Qed.

(** the premise [c_seeded] of [C16_growth_bound] is the property's "after its initial
    seeding": the seeding tick itself jumps from the floor to the measured rate *)
Example C16_seeding_jump :
  c_target (k_core (link_step link_default 1000 (mkInp 1 20%float 0 0 3000000%float 0%float))) = 3180000.
Proof. vm_compute. reflexivity. Qed.
