(** Props/C02.v — property C02 "Per-link in-flight count equals packets sent and
    not yet retired".  Statements only; proofs are in Proofs/C02P.v. *)
From Srtla Require Import Base Constants Conn Run_Core ConnP CoreRunP Run_C02 SetP C02P.

Theorem constants_ok_C02 : ACK_FAST_PATH_RANGE = 64 /\ i32_min = -2147483648.
Proof. split; reflexivity. Qed.

(** [wf2]: registered sequence numbers are above i32::MIN (they are 31-bit, >= 0). *)

(** in-flight = |packet log|, log keys distinct, every logged number above the cumulative-ACK
    mark — after every history over any number of links. *)
Theorem C02_inflight_is_card : forall ids ops, Forall wf2 ops ->
  Forall (fun c => NoDup (keys c) /\ in_flight c = blen (log c) /\ 0 <= in_flight c /\
                   Forall (fun k => hwm c < k) (keys c))
         (links (run_from (init ids) ops)).
Proof.
  intros ids ops H. pose proof (reachable_inv2 ids ops H) as HI. unfold SInv2 in HI.
  eapply Forall_impl; [|exact HI]. intros c (Hn & Hi & Hh). repeat split; auto.
  rewrite Hi. apply blen_nn.
Qed.

(** Refinement to the set specification: every op moves every link's set of outstanding
    numbers exactly by the retirement rules of the property text ([allowed]). *)
Theorem C02_refines_set_spec : forall s o, wf2 o -> SInv2 s ->
  SInv2 (step s o) /\ allowed o (obs_state s) (obs_state (step s o)) = true.
Proof. exact step_c02. Qed.

(** The effect of a cumulative ACK depends only on the current set and the ACK number —
    not on the high-water mark, i.e. not on the order or spacing of earlier ACKs, nor on which
    of the three code paths (early return / targeted removal / retain) runs. *)
Theorem C02_cumack_history_independent : forall c a, Inv2 c ->
  kset (handle_srt_ack c a) = filter (fun s => a <? s) (kset c) /\
  in_flight (handle_srt_ack c a) = blen (filter (fun s => a <? s) (kset c)).
Proof. exact cumack_independent. Qed.

Theorem C02_foreign_untouched : forall c seq cl now, log_mem seq (log c) = false ->
  fst (handle_nak c seq now) = c /\ fst (handle_srtla_ack_specific c seq cl now) = c.
Proof. exact foreign_untouched. Qed.

Theorem C02_monitor_holds : forall ids ops, Forall wf2 ops ->
  check_with mon_C02 (model_case ids ops) = 0%N.
Proof. exact monitor_holds2. Qed.

(** Non-vacuity, and the history that failed before the `fix:` commit (register 5; ACK 10;
    register 3 — a retransmission of an already-acked number; ACK 12): in-flight is 0 again. *)
Example C02_regression_F1 :
  map in_flight (links (run_from (init [7]) [ORegister 0 5 1; OSrtAck 10 2; ORegister 0 3 3; OSrtAck 12 4])) = [0].
Proof. vm_compute. reflexivity. Qed.
Example C02_wf_nonvacuous : Forall wf2 [ORegister 0 5 1; OSrtAck 10 2; ORegister 0 3 3; OSrtAck 12 4; ONak 3 5].
Proof. repeat constructor; cbn; unfold i32_min, two31; lia. Qed.
Example C02_monitor_rejects_stuck_entry :
  check_with mon_C02 {| c_ids := [7]; c_init := obs_state (init [7]);
     c_steps := [(ORegister 0 5 1, [([0; 20000; 1; -2147483648; -1; 0; 0; 0; 0; 0; 0; 0; 0], [5])]);
                 (OSrtAck 10 2, [([0; 20000; 1; 10; -1; 0; 0; 0; 0; 0; 0; 0; 0], [5])])] |} <> 0%N.
Proof. vm_compute. discriminate. Qed.
