(** Props/C06.v — property C06 "Congestion windows stay in range and move in the
    right direction".  Statements only; proofs are in Proofs/C06P.v. *)
From Srtla Require Import Base Constants Shape Conn Run_Core ConnP CoreRunP Run_C06 C06P.

(** The numbers the property text names, against the constants regenerated from the source. *)
Theorem constants_ok_C06 :
  WINDOW_FLOOR = 1000 /\ WINDOW_CEIL = 60000 /\ WINDOW_DEFAULT = 20000 /\ WINDOW_DECR = 100 /\
  WINDOW_INCR = 30 /\ WINDOW_MULT = 1000 /\ FAST_RECOVERY_ENTER_WINDOW = 2000 /\
  FAST_RECOVERY_DISABLE_WINDOW = 12000.
Proof. exact consts. Qed.

(** Classic mode never applies time-based recovery: the only call of
    perform_window_recovery in the housekeeping arm sits under `if !classic`
    (lexical fact regenerated from src/sender/housekeeping.rs on every run). *)
Theorem C06_classic_no_time_recovery : hk_recovery_all_guarded_by_not_classic = true.
Proof. reflexivity. Qed.

(** [wf_op]: the harness's state-setting op may only install an in-range window
    (= "starting from any window in [1000,60000]"); every real op is unrestricted:
    any in-flight count up to i32::MAX, any times, any sequence numbers. *)
Theorem C06_initial : forall ids, Forall (fun c => window c = 20000) (links (init ids)).
Proof. intros ids. unfold init. cbn. induction ids; cbn; constructor; auto. Qed.

Theorem C06_range_inv : forall ids ops, Forall wf_op ops ->
  Forall (fun c => 1000 <= window c <= 60000) (links (run_from (init ids) ops)).
Proof.
  intros ids ops H. pose proof (reachable_inv ids ops H) as HI. unfold SInv in HI.
  eapply Forall_impl; [|exact HI]. intros c [Hw _]. exact Hw.
Qed.

(** No unchecked i32 operation of the window rules can overflow (= no debug-build panic). *)
Theorem C06_no_panic : forall ids ops, Forall wf_op ops ->
  Forall (fun c => ovf c = false) (links (run_from (init ids) ops)).
Proof.
  intros ids ops H. pose proof (reachable_inv ids ops H) as HI. unfold SInv in HI.
  eapply Forall_impl; [|exact HI]. intros c [_ Ho]. exact Ho.
Qed.

Theorem C06_reset_default : forall c,
  window (mark_for_recovery c) = 20000 /\ window (reset_for_reconnect c) = 20000.
Proof. intros c. split; reflexivity. Qed.

(** direction + fast-recovery transitions of every window-changing operation *)
Theorem C06_nak_never_raises : forall c seq now, Inv c ->
  down_rel c (fst (handle_nak c seq now)) /\ down_rel c (cc_nak c now).
Proof. intros. split; [apply nak_eff|apply cc_nak_eff]; assumption. Qed.

Theorem C06_ack_and_recovery_never_lower : forall c seq cl now inf v, Inv c ->
  up_rel c (fst (handle_srtla_ack_specific c seq cl now)) /\ up_rel c (cc_ack c cl inf) /\
  up_rel c (perform_window_recovery c now v) /\
  (Inv (handle_srtla_ack_global c) /\ window c <= window (handle_srtla_ack_global c) /\
   fast (cg (handle_srtla_ack_global c)) = fast (cg c)) /\
  window (handle_srt_ack c seq) = window c.
Proof.
  intros c seq cl now inf v H. repeat split;
  try (apply specific_eff; assumption); try (apply cc_ack_eff; assumption);
  try (apply recovery_link_eff; assumption); try (apply global_eff; assumption).
  unfold handle_srt_ack. destruct (_ <=? _); reflexivity.
Qed.

(** Every op of every history keeps every link inside the per-link clauses of the monitor
    (range, teardown -> 20000, NAK never raises, ACK/recovery never lowers, fast-recovery
    entered only by a NAK ending at <= 2000 and left only at >= 12000 or by a link reset). *)
Theorem C06_step_clauses : forall s o, wf_op o -> SInv s ->
  SInv (step s o) /\ c06_links o 0 (obs_state s) (obs_state (step s o)) = 0%N.
Proof. exact step_inv_and_clauses. Qed.

(** Headline: the model's own trace of any history passes the monitor that the check
    evaluates on the implementation's traces. *)
Theorem C06_monitor_holds : forall ids ops, Forall wf_op ops ->
  check_with mon_C06 (model_case ids ops) = 0%N.
Proof. exact monitor_holds. Qed.

(** Non-vacuity. *)
Example C06_wf_nonvacuous :
  Forall wf_op [OSetConn 0 true (Some 5); OSetWindow 0 2100; OCcNak 0 10; OCcNak 0 20;
                OCcAck 0 false 2147483647; ORecovery 0 100000 true; OMarkRecovery 0].
Proof. repeat constructor; cbn; lia. Qed.
Example C06_fast_recovery_reached :
  map (fun c => (window c, fast (cg c)))
      (links (run_from (init [7]) [OSetConn 0 true (Some 5); OSetWindow 0 2100; OCcNak 0 10; OCcNak 0 20])) =
  [(1900, true)].
Proof. vm_compute. reflexivity. Qed.
Example C06_monitor_rejects_bad_trace :
  check_with mon_C06 {| c_ids := [7]; c_init := obs_state (init [7]);
                        c_steps := [(OCcNak 0 10, [([0; 20100; 0; -2147483648; -1; 0; 1; 10; 0; 0; 0; 0; 0], [])])] |}
  <> 0%N.
Proof. vm_compute. discriminate. Qed.
