(** Props/C15.v — property C15 "Wire codec is total, bounded and matches the
    SRTLA/SRT layouts".  This file contains ONLY statements (pinned with Check),
    their one-line proofs from the lemma files, constant obligations, non-vacuity
    examples and Print Assumptions. *)
From Srtla Require Import Base Constants Wire WireSpec WireP Run_C15 C15P.

(** Constants the property names, tied to the generated file. *)
Theorem constants_ok_C15 :
  SRTLA_TYPE_REG1_LEN = 258 /\ SRTLA_TYPE_REG2_LEN = 258 /\ SRTLA_TYPE_REG3_LEN = 2 /\
  SRTLA_ID_LEN = 256 /\ NAK_EXPAND_CAP = 1000 /\ NAK_RANGE_CAP = NAK_EXPAND_CAP /\
  SRTLA_KEEPALIVE_EXT_LEN = 38 /\
  SRTLA_TYPE_KEEPALIVE = 36864 /\ SRTLA_TYPE_ACK = 37120 /\ SRTLA_TYPE_REG1 = 37376 /\
  SRTLA_TYPE_REG2 = 37377 /\ SRTLA_TYPE_REG3 = 37378 /\ SRTLA_TYPE_REG_ERR = 37392 /\
  SRTLA_TYPE_REG_NGP = 37393 /\ SRT_TYPE_ACK = 32770 /\ SRT_TYPE_NAK = 32771 /\ MTU = 1500.
Proof. repeat split; reflexivity. Qed.

(** Every decoder returns (no out-of-bounds index, no fuel exhaustion) on every byte list. *)
Theorem C15_total : forall b : list Z,
  total (get_packet_type b) /\ total (get_srt_sequence_number b) /\
  total (is_srt_data_retransmit b) /\ total (extract_keepalive_timestamp b) /\
  total (extract_keepalive_conn_info b) /\ total (parse_srt_ack b) /\
  total (parse_srt_nak b) /\ total (parse_srtla_ack b) /\
  total (is_srtla_reg1 b) /\ total (is_srtla_reg2 b) /\ total (is_srtla_reg3 b).
Proof.
  intro b. repeat split;
  [apply total_get_packet_type|apply total_get_srt_sequence_number|apply total_is_srt_data_retransmit
  |apply total_extract_keepalive_timestamp|apply total_extract_keepalive_conn_info
  |apply total_parse_srt_ack|apply total_parse_srt_nak|apply total_parse_srtla_ack
  |apply total_is_srtla_reg1|apply total_is_srtla_reg2|apply total_is_srtla_reg3].
Qed.

(** At most 1000 range-expanded entries plus one per 4 payload bytes. *)
Theorem C15_nak_bound : forall b v,
  parse_srt_nak b = Ok v -> blen v <= 1000 + (blen b - 4) / 4 /\ (blen b < 8 -> v = []).
Proof. exact parse_srt_nak_bound. Qed.

(** Index-based decoders = declarative layouts (ACK number at 16..20, NAK range bit,
    data/control bit, R flag, big-endian throughout), hence the monitor holds of the model. *)
Theorem C15_decoders_match_layout : forall b, ok_dec b (model_dec b) = true.
Proof. exact model_dec_ok. Qed.
Theorem C15_layout_nak : forall b, parse_srt_nak b = Ok (spec_parse_srt_nak b).
Proof. exact parse_srt_nak_spec. Qed.
Theorem C15_layout_srtla_ack : forall b, parse_srtla_ack b = Ok (spec_parse_srtla_ack b).
Proof. exact parse_srtla_ack_spec. Qed.
Theorem C15_layout_srt_ack : forall b, parse_srt_ack b = Ok (spec_parse_srt_ack b).
Proof. exact parse_srt_ack_spec. Qed.
Theorem C15_layout_seq : forall b, get_srt_sequence_number b = Ok (spec_seq b).
Proof. exact get_srt_sequence_number_spec. Qed.
Theorem C15_layout_retransmit : forall b, is_srt_data_retransmit b = Ok (spec_retransmit b).
Proof. exact is_srt_data_retransmit_spec. Qed.

(** Every frame the sender builds decodes back to the values it was built from. *)
Theorem C15_roundtrip_reg1 : forall id, id_ok id ->
  blen (create_reg1_packet id) = 258 /\ is_srtla_reg1 (create_reg1_packet id) = Ok true /\
  skipn 2 (create_reg1_packet id) = id /\ firstn 2 (create_reg1_packet id) = [146; 0].
Proof. exact reg1_layout. Qed.
Theorem C15_roundtrip_reg2 : forall id, id_ok id ->
  blen (create_reg2_packet id) = 258 /\ is_srtla_reg2 (create_reg2_packet id) = Ok true /\
  skipn 2 (create_reg2_packet id) = id /\ firstn 2 (create_reg2_packet id) = [146; 1].
Proof. exact reg2_layout. Qed.
Theorem C15_roundtrip_ack : forall l, Forall (fun x => 0 <= x < two32) l ->
  parse_srtla_ack (create_ack_packet l) = Ok l.
Proof. exact ack_roundtrip. Qed.
Theorem C15_roundtrip_keepalive : forall now, 0 <= now < two64 ->
  extract_keepalive_timestamp (create_keepalive_packet now) = Ok (Some now) /\
  blen (create_keepalive_packet now) = 10.
Proof. exact ka_ts_roundtrip. Qed.
Theorem C15_roundtrip_keepalive_ext : forall info now, info_ok info -> 0 <= now < two64 ->
  let p := create_keepalive_packet_ext info now in
  blen p = 38 /\ firstn 10 p = create_keepalive_packet now /\
  extract_keepalive_timestamp p = Ok (Some now) /\ extract_keepalive_conn_info p = Ok (Some info).
Proof. exact ka_ext_roundtrip. Qed.

(** Non-vacuity: the hypotheses are satisfiable and the interesting branches are reached. *)
Example C15_nak_range_reached :
  parse_srt_nak [128; 3; 0; 0; 128; 0; 0; 5; 0; 0; 0; 7; 0; 0; 0; 9] = Ok [5; 6; 7; 9].
Proof. reflexivity. Qed.
Example C15_nak_cap_reached :
  blen (spec_parse_srt_nak [128; 3; 0; 0; 128; 0; 0; 0; 255; 255; 255; 255; 0; 0; 0; 9]) = 1001.
Proof. vm_compute. reflexivity. Qed.
Example C15_info_ok_example : info_ok [42; 25000; -8; 120; 5; 2500000] /\ 0 <= 123456 < two64.
Proof. cbv. intuition congruence. Qed.
