(** ReconShell.v — the registration manager and the shell arms on top of Reconnect.v.
    Definitions only. *)
From Srtla Require Import Base Constants Reconnect.
Local Open Scope Z_scope.

(** SrtlaRegistrationManager (fields that steer what is sent) *)
Record reg := RG {
  g_pend : option nat;      (* pending_reg2_idx *)
  g_pto : Z;                (* pending_timeout_at_ms *)
  g_active : Z;             (* active_connections *)
  g_hasconn : bool;         (* has_connected *)
  g_bcast : bool;           (* broadcast_reg2_pending *)
  g_target : option nat;    (* reg1_target_idx *)
  g_next : Z;               (* reg1_next_send_at_ms *)
  g_prob : Z;               (* 0 NotStarted, 2 WaitingForProbes, 3 Complete *)
  g_res : list (nat * Z * option Z) }.   (* probe results: idx, sent, rtt *)

Definition reg0 : reg := RG None 0 0 false false None 0 0 [].

Record state := ST {
  links : list link;
  rg : reg;
  lastsel : option nat;     (* last_selected_idx *)
  allfail : option Z;       (* all_failed_at *)
  cfg_to : Z;               (* DynamicConfig conn_timeout_ms *)
  cfg_classic : bool }.

Definition init (n : nat) (t0 : Z) : state :=
  ST (repeat (link0 t0) n) reg0 None None CONN_TIMEOUT_MS false.

Fixpoint upd {A} (i : nat) (f : A -> A) (l : list A) : list A :=
  match l, i with
  | [], _ => []
  | x :: t, O => f x :: t
  | x :: t, S k => x :: upd k f t
  end.

Definition onat_eqb (a : option nat) (b : nat) : bool :=
  match a with Some x => Nat.eqb x b | None => false end.
Definition is_none {A} (a : option A) : bool := match a with None => true | Some _ => false end.

(** wire codes: 1 REG1, 2 REG2 carrying the group id, 3 REG2 carrying the probe id *)
Definition W_REG1 : Z := 1.
Definition W_REG2 : Z := 2.
Definition W_PROBE : Z := 3.
Definition can_send (l : link) : bool := l_io l && l_sock l.
Definition emit (l : link) (code : Z) : list Z := if can_send l then [code] else [].

(** ---- registration/mod.rs ---- *)
Definition build_reg1_for (g : reg) (i : nat) (now : Z) : reg :=
  RG (Some i) (now + REG2_TIMEOUT * 1000) (g_active g) (g_hasconn g) (g_bcast g) (Some i)
     (now + REG1_RETRY_MS) (g_prob g) (g_res g).

Definition clear_pending_if_timed_out (g : reg) (now : Z) : reg :=
  match g_pend g with
  | Some _ =>
    if negb (g_pto g =? 0) && (g_pto g <=? now)
    then RG None 0 (g_active g) (g_hasconn g) (g_bcast g) None now (g_prob g) (g_res g)
    else g
  | None => g
  end.

Fixpoint probe_answer (rs : list (nat * Z * option Z)) (i : nat) (now : Z) : list (nat * Z * option Z) :=
  match rs with
  | [] => []
  | (idx, sent, rtt) :: t =>
    if Nat.eqb idx i
    then (match rtt with None => (idx, sent, Some (ssub now sent)) | Some _ => (idx, sent, rtt) end) :: t
    else (idx, sent, rtt) :: probe_answer t i now
  end.

(** first minimum by rtt among the answered probes (Iterator::min_by_key) *)
Fixpoint best_probe (rs : list (nat * Z * option Z)) (best : option (nat * Z)) : option (nat * Z) :=
  match rs with
  | [] => best
  | (idx, _, Some r) :: t =>
    best_probe t (match best with Some (_, br) => if r <? br then Some (idx, r) else best | None => Some (idx, r) end)
  | (_, _, None) :: t => best_probe t best
  end.

Definition check_probing_complete (g : reg) (now : Z) : reg * bool :=
  if negb (g_prob g =? 2) then (g, false) else
  let all_resp := forallb (fun r => negb (is_none (snd r))) (g_res g) in
  if all_resp || (g_pto g <=? now) then
    let tgt := match best_probe (g_res g) None with Some (idx, _) => idx | None => O end in
    (RG (g_pend g) 0 (g_active g) (g_hasconn g) (g_bcast g) (Some tgt) now 3 (g_res g), true)
  else (g, false).

Definition is_probing (g : reg) : bool := (g_prob g =? 1) || (g_prob g =? 2).

Definition handle_reg_ngp (g : reg) (i : nat) (now : Z) : reg :=
  if g_prob g =? 2 then
    RG (g_pend g) (g_pto g) (g_active g) (g_hasconn g) (g_bcast g) (g_target g) (g_next g) (g_prob g)
       (probe_answer (g_res g) i now)
  else if (g_active g =? 0) && is_none (g_pend g) then
    RG (g_pend g) (g_pto g) (g_active g) (g_hasconn g) (g_bcast g) (Some i) now (g_prob g) (g_res g)
  else g.

Definition ngp_immediate (g : reg) (i : nat) (now : Z) : bool :=
  (g_active g =? 0) && is_none (g_pend g) && onat_eqb (g_target g) i && (g_next g <=? now).

Definition handle_reg2 (g : reg) (i : nat) (now : Z) (full : bool) : reg :=
  if full && onat_eqb (g_pend g) i then
    RG None (now + REG3_TIMEOUT * 1000) (g_active g) (g_hasconn g) true None 0 (g_prob g) (g_res g)
  else g.

Definition handle_reg3 (g : reg) : reg :=
  RG (g_pend g) (g_pto g) (Z.max (g_active g) 1) true (g_bcast g) (g_target g) (g_next g) (g_prob g) (g_res g).

Definition handle_reg_err (g : reg) (now : Z) : reg :=
  RG None 0 (g_active g) (g_hasconn g) (g_bcast g) None (now + REG2_TIMEOUT * 1000) (g_prob g) (g_res g).

Definition set_active (g : reg) (a : Z) : reg :=
  RG (g_pend g) (g_pto g) a (g_hasconn g) (g_bcast g) (g_target g) (g_next g) (g_prob g) (g_res g).

(** ---- housekeeping.rs: the per-link loop body ----
    returns the new link, the manager (build_reg1_for may advance it) and what was put
    on this link's wire.  [dg], [w'] are the oracle inputs of the alive branch. *)
Definition tick_link (i : nat) (l : link) (g : reg) (now : Z) (classic : bool) (dg w' : Z)
  : link * reg * list Z :=
  if is_timed_out l now then
    if should_attempt (l_rc l) now then
      let l1 := set_rc l (record_attempt (l_rc l) now) in
      let l2 := if l_io l1 && l_bind l1 then reconnected l1 now else mark_for_recovery l1 in
      match g_pend g with
      | Some idx =>
        if Nat.eqb idx i then (l2, build_reg1_for g i now, emit l2 W_REG1) else (l2, g, [])
      | None => (l2, g, emit l2 W_REG2)
      end
    else (l, g, [])
  else
    let l1 := if negb classic && l_conn l then set_win l w' else l in
    (set_ph l1 (update_phase (l_ph l1) (p_lossdeg (l_pen l1)) dg now), g, []).

Fixpoint tick_links (i : nat) (ls : list link) (g : reg) (now : Z) (classic : bool) (dgs ws : list Z)
  : list link * reg * list (list Z) :=
  match ls with
  | [] => ([], g, [])
  | l :: t =>
    let '(l', g1, w) := tick_link i l g now classic (hd 0 dgs) (hd 0 ws) in
    let '(t', g2, wt) := tick_links (S i) t g1 now classic (tl dgs) (tl ws) in
    (l' :: t', g2, w :: wt)
  end.

Definition count_conn (ls : list link) : Z := blen (filter l_conn ls).
Definition count_alive (ls : list link) (now : Z) : Z := blen (filter (fun l => negb (is_timed_out l now)) ls).

(** append [extra i] to the i-th wire list *)
Fixpoint wire_add (i : nat) (ws : list (list Z)) (extra : nat -> list Z) : list (list Z) :=
  match ws with
  | [] => []
  | w :: t => (w ++ extra i) :: wire_add (S i) t extra
  end.

(** reg_driver_pending_sends + the shell's transmissions *)
Definition reg_driver (g : reg) (ls : list link) (now : Z) (wire : list (list Z)) : reg * list (list Z) :=
  let '(g1, wire1) :=
    if g_active g =? 0 then
      match g_target g with
      | Some idx =>
        if is_none (g_pend g) && (g_next g <=? now) then
          (RG (Some idx) (now + REG2_TIMEOUT * 1000) (g_active g) (g_hasconn g) (g_bcast g) (g_target g)
              (now + REG2_TIMEOUT * 1000) (g_prob g) (g_res g),
           wire_add O wire (fun j => if Nat.eqb j idx then
                                       match nth_error ls j with Some l => emit l W_REG1 | None => [] end
                                     else []))
        else (g, wire)
      | None => (g, wire)
      end
    else (g, wire) in
  if g_bcast g1 then
    (RG (g_pend g1) (g_pto g1) (g_active g1) (g_hasconn g1) false (g_target g1) (g_next g1) (g_prob g1) (g_res g1),
     wire_add O wire1 (fun j => match nth_error ls j with Some l => emit l W_REG2 | None => [] end))
  else (g1, wire1).
