(** Base.v — shared executable helpers: fixed-width integer operations, the
    bounds-checked byte access monad, big-endian packing. No proofs here. *)
From Coq Require Export ZArith List Bool Lia.
Export ListNotations.
Open Scope Z_scope.

(** Outcome of a bounds-checked computation.  [Oob] is what the Rust code would
    turn into a slice-index panic; [Fuel] is the model running out of loop fuel
    (excluded by theorem, never a normal-looking value). *)
Inductive res (A : Type) : Type := Ok (a : A) | Oob | Fuel.
Arguments Ok {A} a. Arguments Oob {A}. Arguments Fuel {A}.

Definition bind {A B} (r : res A) (f : A -> res B) : res B :=
  match r with Ok a => f a | Oob => Oob | Fuel => Fuel end.
Notation "x <- e ;; k" := (bind e (fun x => k))
  (at level 61, e at next level, right associativity).

Definition blen {A} (b : list A) : Z := Z.of_nat (length b).

Definition get (b : list Z) (i : Z) : res Z :=
  if (0 <=? i) && (i <? blen b) then Ok (nth (Z.to_nat i) b 0) else Oob.

Definition is_byte (x : Z) : bool := (0 <=? x) && (x <? 256).
Definition bytes_ok (b : list Z) : Prop := Forall (fun x => 0 <= x < 256) b.
Definition bytes_okb (b : list Z) : bool := forallb is_byte b.

Definition be16 (a b : Z) : Z := a * 256 + b.
Definition be32 (a b c d : Z) : Z := ((a * 256 + b) * 256 + c) * 256 + d.
Fixpoint be_fold (acc : Z) (l : list Z) : Z :=
  match l with [] => acc | x :: t => be_fold (acc * 256 + x) t end.

(** [be_bytes n x]: the n-byte big-endian encoding of x (x taken mod 256^n). *)
Fixpoint be_bytes (n : nat) (x : Z) : list Z :=
  match n with
  | O => []
  | S k => ((x / 256 ^ Z.of_nat k) mod 256) :: be_bytes k x
  end.

Definition two31 : Z := 2147483648.
Definition two32 : Z := 4294967296.
Definition two64 : Z := 18446744073709551616.
Definition i32_min : Z := - two31.
Definition i32_max : Z := two31 - 1.
Definition u64_max : Z := two64 - 1.

Definition wrap_u32 (x : Z) : Z := x mod two32.
(** u32 -> i32 reinterpretation (`as i32`, `i32::from_be_bytes`). *)
Definition to_i32 (u : Z) : Z := if two31 <=? u then u - two32 else u.
(** i32 -> u32 reinterpretation (`as u32`, `to_be_bytes` of an i32). *)
Definition of_i32 (x : Z) : Z := x mod two32.

Definition clamp (lo hi x : Z) : Z := Z.min hi (Z.max lo x).
Definition sat_i32 (x : Z) : Z := clamp i32_min i32_max x.
Definition sat_add_i32 (a b : Z) : Z := sat_i32 (a + b).
Definition sat_mul_i32 (a b : Z) : Z := sat_i32 (a * b).
Definition sat_u64 (x : Z) : Z := clamp 0 u64_max x.
(** u64 saturating_sub *)
Definition ssub (a b : Z) : Z := Z.max 0 (a - b).
Definition sat_mul_u64 (a b : Z) : Z := sat_u64 (a * b).
Definition sat_add_u64 (a b : Z) : Z := sat_u64 (a + b).
Definition sat_add_u32 (a b : Z) : Z := clamp 0 (two32 - 1) (a + b).

Definition opt_eqb {A} (eqb : A -> A -> bool) (a b : option A) : bool :=
  match a, b with
  | Some x, Some y => eqb x y
  | None, None => true
  | _, _ => false
  end.
Fixpoint list_eqb {A} (eqb : A -> A -> bool) (a b : list A) : bool :=
  match a, b with
  | [], [] => true
  | x :: a', y :: b' => eqb x y && list_eqb eqb a' b'
  | _, _ => false
  end.
Definition zlist_eqb := list_eqb Z.eqb.
Definition ozeqb := opt_eqb Z.eqb.

(** first index at which a predicate fails, 1-based; 0 = none *)
Fixpoint first_bad {A} (ok : A -> bool) (l : list A) (i : N) : N :=
  match l with
  | [] => 0%N
  | x :: t => if ok x then first_bad ok t (i + 1)%N else (i + 1)%N
  end.
