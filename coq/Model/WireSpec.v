(** WireSpec.v — declarative (structural) layouts of the SRT/SRTLA frames the
    decoders must implement; the monitor of C15 evaluates these on the
    implementation's outputs.  Definitions only; equivalence with the index-based
    model is proved in Proofs/WireP.v. *)
From Srtla Require Import Base Constants Wire.

Definition nthz (b : list Z) (i : Z) : Z := nth (Z.to_nat i) b 0.

(** ---------- structural (declarative) spec of the decoders ---------- *)
Fixpoint chunks4 (l : list Z) : list Z :=
  match l with
  | a :: b :: c :: d :: t => be32 a b c d :: chunks4 t
  | _ => []
  end.

Fixpoint nak_words (ws : list Z) (out : list Z) : list Z :=
  match ws with
  | [] => out
  | w :: t =>
    if two31 <=? w then
      match t with
      | [] => out
      | e :: t' => nak_words t' (nak_expand (Z.to_nat (NAK_RANGE_CAP - blen out)) (w - two31) e out)
      end
    else nak_words t (out ++ [w])
  end.

Definition spec_type (b : list Z) : option Z :=
  match b with a :: c :: _ => Some (be16 a c) | _ => None end.

Definition spec_parse_srt_nak (b : list Z) : list Z :=
  if (8 <=? blen b) && ozeqb (spec_type b) (Some SRT_TYPE_NAK)
  then nak_words (chunks4 (skipn 4 b)) [] else [].
Definition spec_parse_srtla_ack (b : list Z) : list Z :=
  if (8 <=? blen b) && ozeqb (spec_type b) (Some SRTLA_TYPE_ACK)
  then chunks4 (skipn 4 b) else [].
Definition spec_parse_srt_ack (b : list Z) : option Z :=
  if (20 <=? blen b) && ozeqb (spec_type b) (Some SRT_TYPE_ACK)
  then hd_error (chunks4 (skipn 16 b)) else None.
Definition spec_seq (b : list Z) : option Z :=
  match chunks4 b with w :: _ => if w <? two31 then Some w else None | [] => None end.
Definition spec_retransmit (b : list Z) : bool :=
  (8 <=? blen b) && (nthz b 0 <? 128) && Z.testbit (nthz b 4) 2.
Definition spec_ka_ts (b : list Z) : option Z :=
  if (10 <=? blen b) && ozeqb (spec_type b) (Some SRTLA_TYPE_KEEPALIVE)
  then Some (be_fold 0 (firstn 8 (skipn 2 b)) mod two64) else None.

