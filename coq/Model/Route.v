(** Route.v — the routing decision of [handle_srt_packet] (src/sender/packet_handler.rs)
    once the session is established: [select_connection_idx], then the keyframe-window /
    SRT-retransmit best-path override ([srtla_core::priority]), then
    [forward_via_connection] + [send_stall_probes] as far as they touch the link records
    (batch queue length, probe counter).  Built on Model/Stall.v + Model/StallSel.v.
    Definitions only. *)
From Coq Require Import Floats.
From Srtla Require Import Base Constants FConstants Stall StallSel.
Local Open Scope Z_scope.

(** [select_best_quality_idx]: connected, schedulable links ranked by the CACHED quality
    multiplier, strict [>] from NEG_INFINITY, first maximum.  [flt] = the eligibility filter
    (not timed out, not stall-gated) is applied. *)
Definition bq_skip (flt : bool) (now : Z) (l : link) : bool :=
  negb (a_conn (la l)) || negb (schedulable l) || (flt && (timed_out l now || g_gated (lg l))).

Fixpoint bq_go (flt : bool) (now : Z) (ls : list link) (i : Z) (best : option Z) (bq : float) : option Z :=
  match ls with
  | [] => best
  | l :: t =>
    if bq_skip flt now l then bq_go flt now t (i + 1) best bq
    else let q := c_qmult (lc l) in
         if (bq <? q)%float then bq_go flt now t (i + 1) (Some i) q
         else bq_go flt now t (i + 1) best bq
  end.
Definition best_quality (flt : bool) (now : Z) (ls : list link) : option Z :=
  bq_go flt now ls 0 None neg_infinity.

(** what [handle_srt_packet] looks at in the datagram *)
Record pkt := mkP { p_data : bool;      (* get_srt_sequence_number(pkt).is_some() *)
                    p_retr : bool }.    (* is_srt_data_retransmit(pkt) *)

(** scheduling + override: post-state of the links and the chosen index *)
Definition route (flt : bool) (cfg : config) (last : option Z) (now : Z) (ins : list selin)
                 (critical : bool) (p : pkt) (ls : list link) : list link * option Z :=
  let '(ls1, sel) := select cfg last now ins ls in
  let sel' :=
    if negb (cf_classic cfg) && p_data p && (critical || p_retr p) then
      match best_quality flt now ls1 with
      | Some b => if opt_eqb Z.eqb sel (Some b) then sel else Some b
      | None => sel
      end
    else sel in
  (ls1, sel').

(** [queue_data_packet] as seen in the link record *)
Definition bump_queue (l : link) : link :=
  let x := lx l in
  mkL (la l) (lg l) (mkX (x_queued x + 1) (x_weak x) (x_lossdeg x) (x_cctarget x) (x_bitrate x) (x_rttpos x) (x_rttms x)) (lc l).

(** [send_stall_probes] on one link other than the chosen one: [stall_probe_due] *)
Definition probe_link (l : link) : link :=
  if g_gated (lg l) && a_conn (la l) then
    let g := lg l in
    let c := g_probe g + 1 in
    if STALL_PROBE_ONE_IN_N <=? c
    then bump_queue (mkL (la l) (mkG (g_gated g) (g_latched g) (g_recovery g) (g_events g) 0 (g_pulled g) (g_pulls g)) (lx l) (lc l))
    else mkL (la l) (mkG (g_gated g) (g_latched g) (g_recovery g) (g_events g) c (g_pulled g) (g_pulls g)) (lx l) (lc l)
  else l.

Fixpoint forward (sel : Z) (data : bool) (ls : list link) (i : Z) : list link :=
  match ls with
  | [] => []
  | l :: t => (if i =? sel then bump_queue l else if data then probe_link l else l) :: forward sel data t (i + 1)
  end.

(** the whole arm: links afterwards, and the link the unique copy was queued on *)
Definition handle (flt : bool) (cfg : config) (last : option Z) (now : Z) (ins : list selin)
                  (critical : bool) (p : pkt) (ls : list link) : list link * option Z :=
  let '(ls1, s) := route flt cfg last now ins critical p ls in
  match s with
  | Some k => if (0 <=? k) && (k <? blen ls1) then (forward k (p_data p) ls1 0, Some k) else (ls1, None)
  | None => (ls1, None)
  end.

(** eligibility of the property text: completed registration since its last reset (phase is
    not Registering), not timed out, not stall-gated *)
Definition eligible (now : Z) (l : link) : bool :=
  schedulable l && negb (timed_out l now) && negb (g_gated (lg l)).

Definition nthZ (ls : list link) (k : Z) : option link := if k <? 0 then None else nth_error ls (Z.to_nat k).
