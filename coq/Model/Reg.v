(** Reg.v — executable model of the SRTLA registration handshake:
    crates/srtla-core/src/registration/mod.rs (the manager), registration/probing.rs,
    and the two places the shell drives it from: src/sender/uplink_recv.rs
    ([process_uplink_packet], the REG_NGP / REG2 / REG3 / REG_ERR arms, plus the
    immediate-REG1 flush of [handle_uplink_packet]) and src/sender/housekeeping.rs
    ([handle_housekeeping], its registration slice in code order).

    Ids (256-byte arrays in Rust) are opaque values compared only for equality: [Z].
    Link indices and clock values are [Z]; packets on the wire are (kind, uplink, id).
    The flag [fx] selects the behaviour of [handle_reg3]: [true] = the code as it is now
    (REG3 counts the link as active at once), [false] = the code before the fix
    (only housekeeping recounted), kept so that the defect stays stated (Props/C07.v).
    No proofs here. *)
From Srtla Require Import Base Constants.

(** `REG2_TIMEOUT * 1000`, `REG3_TIMEOUT * 1000`, `2 + SRTLA_ID_LEN` *)
Definition REG2_WAIT_MS : Z := REG2_TIMEOUT * 1000.
Definition REG3_WAIT_MS : Z := REG3_TIMEOUT * 1000.
Definition REG2_MIN_LEN : Z := 2 + SRTLA_ID_LEN.
(** bare literals of the code (no `const`): `now + 1000` in [build_reg1_for],
    `now + 2000` in [start_probing]; tied by the correspondence (both are observed). *)
Definition REG1_RETRY_MS : Z := 1000.
Definition PROBE_WAIT_MS : Z := 2000.

Definition K_REG1 : Z := 1.
Definition K_REG2 : Z := 2.
Definition pkt : Type := (Z * Z * Z)%type.          (* kind, uplink index, id *)
Definition pk_kind (p : pkt) : Z := fst (fst p).
Definition pk_dst (p : pkt) : Z := snd (fst p).
Definition pk_id (p : pkt) : Z := snd p.

(** ProbingState; `Probing` only exists inside [start_probing]. *)
Inductive pstate := PNotStarted | PWaiting | PComplete.
Definition pstate_eqb (a b : pstate) : bool :=
  match a, b with
  | PNotStarted, PNotStarted | PWaiting, PWaiting | PComplete, PComplete => true
  | _, _ => false
  end.

Record probe := mkProbe { pr_idx : Z; pr_sent : Z; pr_rtt : option Z }.

(** SrtlaRegistrationManager, field for field. *)
Record reg := mkReg {
  r_id : Z;                  (* srtla_id *)
  r_pending : option Z;      (* pending_reg2_idx *)
  r_ptimeout : Z;            (* pending_timeout_at_ms *)
  r_active : Z;              (* active_connections *)
  r_hasconn : bool;          (* has_connected *)
  r_flag : bool;             (* broadcast_reg2_pending *)
  r_target : option Z;       (* reg1_target_idx *)
  r_next : Z;                (* reg1_next_send_at_ms *)
  r_pstate : pstate;         (* probing_state *)
  r_pid : Z;                 (* probe_id *)
  r_probes : list probe      (* probe_results *)
}.

Definition reg_new (id0 pid : Z) : reg :=
  mkReg id0 None 0 0 false false None 0 PNotStarted pid [].

Definition is_none {A} (o : option A) : bool := match o with None => true | Some _ => false end.
Definition is_some {A} (o : option A) : bool := negb (is_none o).
Definition opt_is (o : option Z) (i : Z) : bool := match o with Some j => j =? i | None => false end.

(** ---- registration/mod.rs ---- *)
Definition build_reg1_for (r : reg) (i now : Z) : reg * pkt :=
  (mkReg (r_id r) (Some i) (now + REG2_WAIT_MS) (r_active r) (r_hasconn r) (r_flag r)
         (Some i) (now + REG1_RETRY_MS) (r_pstate r) (r_pid r) (r_probes r),
   (K_REG1, i, r_id r)).

Definition build_reg2 (r : reg) (i : Z) : pkt := (K_REG2, i, r_id r).

(** [reg_driver_pending_sends]: new state, REG1 target (if any), broadcast id (if any) *)
Definition reg_driver (r : reg) (now : Z) : reg * option Z * option Z :=
  let '(r1, s1) :=
    if r_active r =? 0 then
      match r_target r with
      | Some idx =>
        if is_none (r_pending r) && (r_next r <=? now) then
          (mkReg (r_id r) (Some idx) (now + REG2_WAIT_MS) (r_active r) (r_hasconn r) (r_flag r)
                 (r_target r) (now + REG2_WAIT_MS) (r_pstate r) (r_pid r) (r_probes r), Some idx)
        else (r, None)
      | None => (r, None)
      end
    else (r, None) in
  if r_flag r1 then
    (mkReg (r_id r1) (r_pending r1) (r_ptimeout r1) (r_active r1) (r_hasconn r1) false
           (r_target r1) (r_next r1) (r_pstate r1) (r_pid r1) (r_probes r1), s1, Some (r_id r1))
  else (r1, s1, None).

(** probing.rs [handle_probe_response]: the first result of that link, if still unanswered *)
Fixpoint probe_respond (l : list probe) (i now : Z) : list probe :=
  match l with
  | [] => []
  | p :: t =>
    if pr_idx p =? i then
      match pr_rtt p with
      | None => mkProbe (pr_idx p) (pr_sent p) (Some (ssub now (pr_sent p))) :: t
      | Some _ => p :: t
      end
    else p :: probe_respond t i now
  end.

Definition handle_probe_response (r : reg) (i now : Z) : reg :=
  if pstate_eqb (r_pstate r) PWaiting then
    mkReg (r_id r) (r_pending r) (r_ptimeout r) (r_active r) (r_hasconn r) (r_flag r)
          (r_target r) (r_next r) (r_pstate r) (r_pid r) (probe_respond (r_probes r) i now)
  else r.

Definition handle_reg_ngp (r : reg) (i now : Z) : reg :=
  if pstate_eqb (r_pstate r) PWaiting then handle_probe_response r i now
  else if (r_active r =? 0) && is_none (r_pending r) then
    mkReg (r_id r) (r_pending r) (r_ptimeout r) (r_active r) (r_hasconn r) (r_flag r)
          (Some i) now (r_pstate r) (r_pid r) (r_probes r)
  else r.

(** [len] is the datagram length, [tag] the id at bytes 2..258 (meaningful when it fits) *)
Definition handle_reg2 (r : reg) (i len tag now : Z) : reg :=
  if len <? REG2_MIN_LEN then r
  else if opt_is (r_pending r) i then
    mkReg tag None (now + REG3_WAIT_MS) (r_active r) (r_hasconn r) true
          None 0 (r_pstate r) (r_pid r) (r_probes r)
  else r.

Definition handle_reg3 (fx : bool) (r : reg) : reg :=
  mkReg (r_id r) (r_pending r) (r_ptimeout r)
        (if fx then Z.max (r_active r) 1 else r_active r)
        true (r_flag r) (r_target r) (r_next r) (r_pstate r) (r_pid r) (r_probes r).

Definition handle_reg_err (r : reg) (now : Z) : reg :=
  mkReg (r_id r) None 0 (r_active r) (r_hasconn r) (r_flag r)
        None (now + REG2_WAIT_MS) (r_pstate r) (r_pid r) (r_probes r).

Definition reg1_if_ngp_immediate (r : reg) (i now : Z) : reg * list pkt :=
  if (r_active r =? 0) && is_none (r_pending r) && opt_is (r_target r) i && (r_next r <=? now)
  then let '(r', p) := build_reg1_for r i now in (r', [p])
  else (r, []).

Definition clear_pending_if_timed_out (r : reg) (now : Z) : reg :=
  match r_pending r with
  | Some _ =>
    if negb (r_ptimeout r =? 0) && (r_ptimeout r <=? now) then
      mkReg (r_id r) None 0 (r_active r) (r_hasconn r) (r_flag r)
            None now (r_pstate r) (r_pid r) (r_probes r)
    else r
  | None => r
  end.

Definition count_true (l : list bool) : Z := blen (filter (fun b => b) l).

Definition update_active (r : reg) (conn : list bool) : reg :=
  mkReg (r_id r) (r_pending r) (r_ptimeout r) (count_true conn) (r_hasconn r) (r_flag r)
        (r_target r) (r_next r) (r_pstate r) (r_pid r) (r_probes r).

(** ---- registration/probing.rs ---- *)
Fixpoint probe_all (k : nat) (i pid now : Z) : list pkt * list probe :=
  match k with
  | O => ([], [])
  | S k' => let '(ps, rs) := probe_all k' (i + 1) pid now in
            ((K_REG2, i, pid) :: ps, mkProbe i now None :: rs)
  end.

Definition start_probing (r : reg) (n now : Z) : reg * list pkt :=
  if negb (pstate_eqb (r_pstate r) PNotStarted) || (0 <? r_active r) then (r, [])
  else
    let '(ps, rs) := probe_all (Z.to_nat n) 0 (r_pid r) now in
    match rs with
    | [] => (mkReg (r_id r) (r_pending r) (r_ptimeout r) (r_active r) (r_hasconn r) (r_flag r)
                   (r_target r) (r_next r) PComplete (r_pid r) [], ps)
    | _ => (mkReg (r_id r) (r_pending r) (now + PROBE_WAIT_MS) (r_active r) (r_hasconn r) (r_flag r)
                  (r_target r) (r_next r) PWaiting (r_pid r) rs, ps)
    end.

(** `min_by_key`: the first element with the least round trip among those that answered *)
Fixpoint best_probe (l : list probe) (acc : option (Z * Z)) : option (Z * Z) :=
  match l with
  | [] => acc
  | p :: t =>
    match pr_rtt p with
    | None => best_probe t acc
    | Some rt =>
      match acc with
      | None => best_probe t (Some (pr_idx p, rt))
      | Some (_, br) => if rt <? br then best_probe t (Some (pr_idx p, rt)) else best_probe t acc
      end
    end
  end.

(** [amb] is the ambient clock the function reads itself (`now_ms()`) *)
Definition check_probing_complete (r : reg) (amb : Z) : reg :=
  if negb (pstate_eqb (r_pstate r) PWaiting) then r
  else
    let all_responded := forallb (fun p => is_some (pr_rtt p)) (r_probes r) in
    let timed_out := r_ptimeout r <=? amb in
    if all_responded || timed_out then
      let tgt := match best_probe (r_probes r) None with Some (idx, _) => idx | None => 0 end in
      mkReg (r_id r) (r_pending r) 0 (r_active r) (r_hasconn r) (r_flag r)
            (Some tgt) amb PComplete (r_pid r) (r_probes r)
    else r.

Definition is_probing (r : reg) : bool := pstate_eqb (r_pstate r) PWaiting.

(** ---- the shell: one state = the manager + the `connected` flag of every uplink ---- *)
Record st := mkSt { s_reg : reg; s_conn : list bool }.

Fixpoint set_nth (l : list bool) (i : Z) (v : bool) : list bool :=
  match l with
  | [] => []
  | c :: t => if i =? 0 then v :: t else c :: set_nth t (i - 1) v
  end.

Definition memz (i : Z) (l : list Z) : bool := existsb (Z.eqb i) l.
Definition in_range (n i : Z) : bool := (0 <=? i) && (i <? n).

Inductive op :=
| Ngp (i now : Z)
| Reg2 (i len tag now : Z)
| Reg3 (i now : Z)
| RegErr (i now : Z)
| Tick (now amb : Z) (due : list Z).
  (* [due]: the uplinks this housekeeping pass finds `is_timed_out(now) &&
     should_attempt_reconnect(now)` and therefore resets — link liveness is an input here
     (it is property C08's subject); the harness reads it off the real pass. *)

(** housekeeping's per-link loop, registration slice: a link that is timed out and due is
    reset (`reconnect_uplink` / `mark_for_recovery`: both end with `connected = false`), then
    REG1 is re-sent if this link is the one awaiting REG2, nothing if another one is, REG2
    (re-join the existing group) if none is. *)
Fixpoint tick_loop (due : list Z) (now i : Z) (conn : list bool) (r : reg)
  : reg * list bool * list pkt :=
  match conn with
  | [] => (r, [], [])
  | c :: t =>
    let '(r1, c1, o1) :=
      if memz i due then
        match r_pending r with
        | Some idx => if idx =? i
                      then let '(r', p) := build_reg1_for r i now in (r', false, [p])
                      else (r, false, [])
        | None => (r, false, [build_reg2 r i])
        end
      else (r, c, []) in
    let '(r2, t2, o2) := tick_loop due now (i + 1) t r1 in
    (r2, c1 :: t2, o1 ++ o2)
  end.

Fixpoint bcast (k : nat) (i id : Z) : list pkt :=
  match k with O => [] | S k' => (K_REG2, i, id) :: bcast k' (i + 1) id end.

Definition tick (s : st) (now amb : Z) (due : list Z) : st * list pkt :=
  let n := blen (s_conn s) in
  let r0 := clear_pending_if_timed_out (s_reg s) now in
  let r1 := if is_probing r0 then check_probing_complete r0 amb else r0 in
  let '(r2, conn2, o_loop) := tick_loop due now 0 (s_conn s) r1 in
  let r3 := update_active r2 conn2 in
  let '(r4, s1, b) := reg_driver r3 now in
  let o_reg1 := match s1 with
                | Some idx => if in_range n idx then [(K_REG1, idx, r_id r3)] else []
                | None => []
                end in
  let o_b := match b with Some id => bcast (Z.to_nat n) 0 id | None => [] end in
  (mkSt r4 conn2, o_loop ++ o_reg1 ++ o_b).

Definition step (fx : bool) (s : st) (o : op) : st * list pkt :=
  match o with
  | Ngp i now =>
    let r1 := handle_reg_ngp (s_reg s) i now in
    let '(r2, out) := reg1_if_ngp_immediate r1 i now in
    (mkSt r2 (s_conn s), out)
  | Reg2 i len tag now => (mkSt (handle_reg2 (s_reg s) i len tag now) (s_conn s), [])
  | Reg3 i now => (mkSt (handle_reg3 fx (s_reg s)) (set_nth (s_conn s) i true), [])
  | RegErr i now => (mkSt (handle_reg_err (s_reg s) now) (set_nth (s_conn s) i false), [])
  | Tick now amb due => tick s now amb due
  end.

Definition init (n id0 pid : Z) : st := mkSt (reg_new id0 pid) (repeat false (Z.to_nat n)).

(** the sender starts with an optional probing round (`run_sender_with_config` always
    probes; `None` = a manager that is driven without it, as the unit tests do) *)
Definition start (n id0 pid : Z) (probe_at : option Z) : st * list pkt :=
  match probe_at with
  | Some t => let '(r, out) := start_probing (reg_new id0 pid) n t in
              (mkSt r (repeat false (Z.to_nat n)), out)
  | None => (init n id0 pid, [])
  end.

(** packets as captured per uplink: grouped by uplink, order kept within an uplink *)
Fixpoint by_dst (k : nat) (i : Z) (l : list pkt) : list pkt :=
  match k with
  | O => []
  | S k' => filter (fun p => pk_dst p =? i) l ++ by_dst k' (i + 1) l
  end.
