(** Reconnect.v — executable model of the uplink liveness / reconnect plane of srtla_send:
    crates/srtla-core/src/connection/reconnection.rs (ReconnectionState),
    connection/mod.rs (is_timed_out, the three resets, LinkPhase machine),
    registration/{mod,probing}.rs (handshake manager) and the shell arms
    src/sender/housekeeping.rs (handle_housekeeping), connections.rs (reconnect_uplink),
    uplink_recv.rs (process_uplink_packet), packet_handler.rs (the parts of
    handle_srt_packet / flush_all_batches that can tear a link down).

    Sub-systems owned by other properties enter as *oracle inputs* of the ops (observed
    on the real run, universally quantified in the theorems): congestion-window
    arithmetic (C06), packet-log accounting (C02), scheduler choice (C03/C04/C11), RTT
    sample acceptance (C14), NAK-quality degradation signal (C11).
    Environment state (does the binder succeed, does the current socket accept sends,
    is there an I/O entry) is part of the model state and changed by fault ops.
    Definitions only, no proofs. *)
From Srtla Require Import Base Constants.
Local Open Scope Z_scope.

(** bare literals of the code that are not Rust [const]s (tie = correspondence) *)
Definition REG1_RETRY_MS : Z := 1000.     (* build_reg1_for: now + 1000 *)
Definition PROBE_WAIT_MS : Z := 2000.     (* start_probing: now + 2000 *)

Definition WINDOW_DEFAULT : Z := WINDOW_DEF * WINDOW_MULT.

Inductive phase := PReg | PWarm (probes entered : Z) | PLive | PDeg.

(** ReconnectionState *)
Record recon := RC { r_last : Z; r_fail : Z; r_est : Z; r_grace : Z }.

(** routing penalties: never read by any liveness decision (C08_penalty_noninterference) *)
Record pens := PN { p_gated : bool; p_weak : bool; p_backoff : bool; p_lossdeg : bool }.
Definition pens0 : pens := PN false false false false.

Record link := LK {
  l_conn : bool;            (* connected *)
  l_lr : option Z;          (* last_received *)
  l_to : Z;                 (* conn_timeout_ms *)
  l_rc : recon;
  l_ph : phase;
  l_win : Z;                (* window *)
  l_inf : Z;                (* in_flight_packets *)
  l_gen : Z;                (* how many times io.socket was replaced *)
  l_io : bool;              (* env: conn_io has an entry for this link *)
  l_bind : bool;            (* env: socket re-creation (create/bind/connect) succeeds *)
  l_sock : bool;            (* env: the current socket accepts sends *)
  l_pen : pens }.

Definition link0 (t0 : Z) : link :=
  LK false None CONN_TIMEOUT_MS (RC 0 0 0 (t0 + STARTUP_GRACE_MS)) PReg WINDOW_DEFAULT 0 0 true true true pens0.

(** ---- reconnection.rs ---- *)
Definition backoff_delay (r : recon) : Z :=
  let capped := Z.min (r_fail r) MAX_BACKOFF_COUNT in
  Z.min (sat_mul_u64 BASE_RECONNECT_DELAY_MS (2 ^ capped)) MAX_BACKOFF_DELAY_MS.

Definition should_attempt (r : recon) (now : Z) : bool :=
  if r_est r =? 0 then
    if now <=? r_grace r then false
    else if r_last r =? 0 then true
    else INITIAL_RETRY_CADENCE_MS <=? ssub now (r_last r)
  else if r_last r =? 0 then true
  else backoff_delay r <=? ssub now (r_last r).

Definition record_attempt (r : recon) (now : Z) : recon :=
  if r_est r =? 0 then RC now (r_fail r) (r_est r) (r_grace r)
  else RC now (sat_add_u32 (r_fail r) 1) (r_est r) (r_grace r).

Definition set_rc (l : link) (r : recon) : link :=
  LK (l_conn l) (l_lr l) (l_to l) r (l_ph l) (l_win l) (l_inf l) (l_gen l) (l_io l) (l_bind l) (l_sock l) (l_pen l).
Definition set_to (l : link) (t : Z) : link :=
  LK (l_conn l) (l_lr l) t (l_rc l) (l_ph l) (l_win l) (l_inf l) (l_gen l) (l_io l) (l_bind l) (l_sock l) (l_pen l).
Definition set_ph (l : link) (p : phase) : link :=
  LK (l_conn l) (l_lr l) (l_to l) (l_rc l) p (l_win l) (l_inf l) (l_gen l) (l_io l) (l_bind l) (l_sock l) (l_pen l).
Definition set_win (l : link) (w : Z) : link :=
  LK (l_conn l) (l_lr l) (l_to l) (l_rc l) (l_ph l) w (l_inf l) (l_gen l) (l_io l) (l_bind l) (l_sock l) (l_pen l).
Definition set_inf (l : link) (f : Z) : link :=
  LK (l_conn l) (l_lr l) (l_to l) (l_rc l) (l_ph l) (l_win l) f (l_gen l) (l_io l) (l_bind l) (l_sock l) (l_pen l).
Definition set_lr (l : link) (x : option Z) : link :=
  LK (l_conn l) x (l_to l) (l_rc l) (l_ph l) (l_win l) (l_inf l) (l_gen l) (l_io l) (l_bind l) (l_sock l) (l_pen l).
Definition set_pen (l : link) (p : pens) : link :=
  LK (l_conn l) (l_lr l) (l_to l) (l_rc l) (l_ph l) (l_win l) (l_inf l) (l_gen l) (l_io l) (l_bind l) (l_sock l) p.
Definition set_env (l : link) (io bd sk : bool) : link :=
  LK (l_conn l) (l_lr l) (l_to l) (l_rc l) (l_ph l) (l_win l) (l_inf l) (l_gen l) io bd sk (l_pen l).
Definition set_grace (l : link) (g : Z) : link :=
  set_rc l (RC (r_last (l_rc l)) (r_fail (l_rc l)) (r_est (l_rc l)) g).

(** ---- connection/mod.rs ---- *)
Definition stale (l : link) (now : Z) : bool :=
  match l_lr l with Some lr => l_to l <=? ssub now lr | None => true end.

Definition is_timed_out (l : link) (now : Z) : bool :=
  if negb (l_conn l) then
    if (r_est (l_rc l) =? 0) && (now <? r_grace (l_rc l)) then false else stale l now
  else match l_lr l with Some lr => l_to l <=? ssub now lr | None => false end.

Definition ungate (p : pens) : pens := PN false (p_weak p) (p_backoff p) (p_lossdeg p).

(** reset_core_state (+ the [last_received = None] both callers do first) *)
Definition reset_core (l : link) (r : recon) : link :=
  LK false None (l_to l) r PReg WINDOW_DEFAULT 0 (l_gen l) (l_io l) (l_bind l) (l_sock l) (ungate (l_pen l)).

Definition mark_for_recovery (l : link) : link :=
  reset_core l (RC (r_last (l_rc l)) (r_fail (l_rc l)) (r_est (l_rc l)) 0).

(** reset_for_reconnect ; mark_reconnect_success ; reset_startup_grace — i.e. the state
    half of connections.rs::reconnect_uplink after the socket was replaced *)
Definition reconnected (l : link) (now : Z) : link :=
  let l1 := reset_core l (RC now 0 (r_est (l_rc l)) (now + STARTUP_GRACE_MS)) in
  LK (l_conn l1) (l_lr l1) (l_to l1) (l_rc l1) (l_ph l1) (l_win l1) (l_inf l1) (l_gen l + 1)
     (l_io l1) (l_bind l1) true (l_pen l1).

(** clear_pre_registration_state + the stamps process_uplink_packet applies on REG3 *)
Definition reg3_link (l : link) (now : Z) : link :=
  let r := l_rc l in
  LK true (Some now) (l_to l) (RC (r_last r) 0 (if r_est r =? 0 then now else r_est r) (r_grace r))
     (PWarm 0 now) WINDOW_DEFAULT 0 (l_gen l) (l_io l) (l_bind l) (l_sock l) (l_pen l).

Definition regerr_link (l : link) : link :=
  LK false None (l_to l) (l_rc l) (l_ph l) (l_win l) (l_inf l) (l_gen l) (l_io l) (l_bind l) (l_sock l) (l_pen l).

Definition record_rtt_probe (p : phase) : phase :=
  match p with
  | PWarm n e => if WARMING_RTT_PROBES <=? n + 1 then PLive else PWarm (n + 1) e
  | _ => p
  end.

(** update_phase; [dg] = 1: nak_degraded, 2: nak_recovered, other: neither (oracle, C11) *)
Definition update_phase (p : phase) (lossdeg : bool) (dg now : Z) : phase :=
  match p with
  | PWarm n e => if WARMING_TIMEOUT_MS <=? ssub now e then PLive else p
  | PLive => if (dg =? 1) || lossdeg then PDeg else PLive
  | PDeg => if (dg =? 2) && negb lossdeg then PLive else PDeg
  | PReg => PReg
  end.
